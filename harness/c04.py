"""
C04 — Off-policy collection stores each real transition once, with the true successor.

Implementation under test: the real `learn()` of SAC / TD3 / DDPG / DQN
(stable_baselines3/common/off_policy_algorithm.py: collect_rollouts, _store_transition, _sample_action;
common/policies.py: scale_action / unscale_action; common/base_class.py: _setup_learn; DummyVecEnv, VecNormalize,
VecTransposeImage, the action-noise classes) on scripted, tagged environments.
Model: lean/SB3Verif/Model/OffPolicy.lean (driver lean/SB3Verif/Driver/C04.lean).

Observation (all from the harness process, no source hooks): the sub-environments log every reset / step they
receive (action, whether it was inside the action space, what they answered); instance-level wrappers around
`model._sample_action`, `model.predict`, `action_space.sample`, the outermost env's `step_wait` / `reset` and the
`VecNormalize`'s `step_wait` / `reset` record the policy outputs, the noise samples, what the policy was shown and
the normalisation statistics in force; recording noise subclasses log `reset()` calls. After the `learn()` calls the
replay buffer's arrays are read.

Two detectors:
  * correspondence: the Lean model is fed the externals (policy outputs, noise, sub-env answers, statistics) and
    must produce the same add log (row by row, field by field), the same env actions, warm-up decisions, policy
    inputs, noise resets and the same number of steps per `learn()` call;
  * oracle: the property sentence coded directly — every replay-buffer row against the sub-environments' own logs
    (no use of the Lean model).
"""
from __future__ import annotations

import types
from fractions import Fraction as F

import gymnasium as gym
import numpy as np
from gymnasium import spaces

from harness import envs as E
from harness.common import guarded, ratj

RULE = (
    "cases from one SplitMix64 stream: (learn) real SAC/TD3/DDPG/DQN learn() runs, n_envs 1..3, observation kinds "
    "Box rank 1/2, uint8 image HWC (transposed by VecTransposeImage) / CHW, Discrete, Dict(Box, image, Discrete), "
    "Box actions with asymmetric dyadic per-dimension bounds (1-2 dims) or Discrete actions, scripted episodes mixing "
    "termination / truncation / both / length-1 / never-ending, per env an info-dict style (fresh dict per step / one "
    "dict object reused for the env's lifetime, so that the VecEnv's terminal_observation stays in it during the next "
    "episode / reused with extra env keys / fresh with env-supplied TimeLimit.truncated and terminal_observation=None), "
    "learning_starts 0..100, train_freq 1..5 steps or 1..2 "
    "episodes, gradient_steps in {1,2,-1,0}, action noise none / Normal / Ornstein-Uhlenbeck (plain, auto-vectorised, "
    "user-vectorised), gSDE with/without use_sde_at_warmup, VecNormalize with/without norm_obs / norm_reward "
    "(clip_obs >= 10), ring smaller than the run, 1..3 consecutive learn() calls with/without reset_num_timesteps, "
    "<= 60 env steps, net_arch=[4]; (kc04a) a small dedicated stream with VecNormalize clip_obs <= 1 where terminal "
    "observations get clipped (known finding K-C04-a); (kc04b) a tiny dedicated stream with VecNormalize under a "
    "Dict observation holding a channel-last image, so that VecTransposeImage sits above it (known finding K-C04-b); "
    "(act_exact / act_float) `_sample_action` + scale/unscale_action "
    "called on stub algorithms with bounds, policy outputs at and inside the bounds, and noise: exact dyadic inputs "
    "compared bit for bit, random float32 inputs (also non-dyadic bounds) within 4e-6 relative. "
    "non-trivial = learn case whose buffer holds >= 1 terminated and >= 1 truncated transition, or act case with the "
    "noise clip active; distinct = distinct canonical case"
)
STREAMS = {
    "rows": "replay-buffer row k (observation, next observation, stored action, reward, done, timeout per env) == "
            "row k of the model's add log (exact; float32 actions and un-normalised terminal observations within tolerance)",
    "env_action": "actions the sub-environments received == the model's `action` (Box: 1e-6 relative; Discrete: exact)",
    "control": "per learn() call: number of env steps, num_timesteps, warm-up decisions == the model's loops",
    "policy_input": "observation handed to predict() == model's _last_obs (normalised under VecNormalize)",
    "noise_reset": "indices action_noise.reset was called for after each step == model's",
    "act_exact": "_sample_action on a stub (dyadic grid: float32 arithmetic exact) == model, bit for bit",
    "act_float": "_sample_action on a stub (random float32) ~ model (4e-6 relative)",
}

ALGOS = ["SAC", "TD3", "DDPG", "DQN"]
OBS_KINDS = ["box1", "box2", "image_hwc", "image_chw", "disc", "dictS", "dictC"]
VN_KINDS = ["box1", "box2", "dictC"]  # ("dictS" under VecNormalize is the dedicated kc04b stream)
SMALL = ("disc", "dictS", "dictC")
N_DISC = 4096

CLOCK = {"phase": "setup", "step": 0}


# =================================================================================================
# scripted environment (same logging conventions as harness.envs.ScriptedEnv)
# =================================================================================================
def tag_for(kind, env_id, ep, step):
    if kind in SMALL:
        return ((env_id % 4) << 10) | ((ep % 32) << 5) | (step % 32)
    return E.make_tag(env_id, ep, step)


def space_for(kind):
    if kind == "disc":
        return spaces.Discrete(N_DISC)
    if kind == "dictS":
        return spaces.Dict({"vec": E.obs_space("box1"), "img": E.obs_space("image_hwc"), "disc": spaces.Discrete(N_DISC)})
    if kind == "dictC":
        return spaces.Dict({"vec": E.obs_space("box1"), "img": E.obs_space("image_chw"), "disc": spaces.Discrete(N_DISC)})
    return E.obs_space(kind)


def enc(tag, kind):
    if kind == "disc":
        return np.int64(tag)
    if kind == "dictS":
        return {"vec": E.encode(tag, "box1"), "img": E.encode(tag, "image_hwc"), "disc": np.int64(tag)}
    if kind == "dictC":
        return {"vec": E.encode(tag, "box1"), "img": E.encode(tag, "image_chw"), "disc": np.int64(tag)}
    return E.encode(tag, kind)


def act_space_of(act):
    if act["kind"] == "discrete":
        return spaces.Discrete(act["n"])
    return spaces.Box(np.array(act["low"], dtype=np.float32), np.array(act["high"], dtype=np.float32))


class C04Env(E.ScriptedEnv):
    """ScriptedEnv with configurable action bounds and small Discrete / Dict observation kinds."""

    def __init__(self, env_id, obs_kind, act, script, info_mode="fresh"):
        gym.Env.__init__(self)
        # how the env builds the info it returns (all legal for a Gymnasium env):
        #   fresh         a new dict per step
        #   reused        ONE dict object for the env's lifetime, updated in place and returned by every step()/reset()
        #                 (whatever a VecEnv wrote into it — "terminal_observation", "TimeLimit.truncated" — is still
        #                 there on the following steps)
        #   reused_extra  the same, carrying additional env keys
        #   stale_keys    a new dict per step that already holds "TimeLimit.truncated" (an arbitrary value, as an inner
        #                 TimeLimit-like wrapper could have left it) and "terminal_observation": None
        self.info_mode = info_mode
        self.info = {}
        self.env_id = env_id
        self.obs_kind = obs_kind
        self.act_kind = act["kind"]
        self.observation_space = space_for(obs_kind)
        self.action_space = act_space_of(act)
        self.script = script
        self.delay = 0.0
        self.check_actions = True
        self.episode = -1
        self.step_in_ep = 0
        self.n_steps = 0
        self.log = []
        self.some_attr = 100 + env_id
        self.needs_reset = True

    def reset(self, *, seed=None, options=None):
        gym.Env.reset(self, seed=seed)
        self.episode += 1
        self.step_in_ep = 0
        self.needs_reset = False
        tag = tag_for(self.obs_kind, self.env_id, self.episode, 0)
        self.log.append(["reset", seed, options, tag])
        if self.info_mode in ("reused", "reused_extra"):
            self.info["reset_tag"] = tag
            return enc(tag, self.obs_kind), self.info
        return enc(tag, self.obs_kind), {"reset_tag": tag}

    def step(self, action):
        rew, term, trunc = self.script[self.n_steps % len(self.script)]
        self.n_steps += 1
        self.step_in_ep += 1
        tag = tag_for(self.obs_kind, self.env_id, self.episode, self.step_in_ep)
        in_space = bool(self.action_space.contains(action))
        self.log.append(["step", np.asarray(action).tolist(), tag, float(rew), bool(term), bool(trunc), in_space,
                         str(np.asarray(action).dtype)])
        if term or trunc:
            self.needs_reset = True
        if self.info_mode in ("reused", "reused_extra"):
            info = self.info
            info["tag"], info["k"] = tag, self.n_steps
            if self.info_mode == "reused_extra":
                info["is_success"] = bool(term)
                info.setdefault("history", []).append(tag)
                info["nested"] = {"k": self.n_steps}
        elif self.info_mode == "stale_keys":
            info = {"tag": tag, "k": self.n_steps, "TimeLimit.truncated": bool((self.n_steps + self.env_id) % 2),
                    "terminal_observation": None}
        else:
            info = {"tag": tag, "k": self.n_steps}
        return enc(tag, self.obs_kind), float(rew), bool(term), bool(trunc), info


# =================================================================================================
# observation <-> model vector
# =================================================================================================
def obs_vec(tag, kind):
    """the model's vector for the observation with this tag (exact rationals)"""
    t = F(tag)
    if kind == "box1":
        return [t, t + F(1, 2), F(-1)]
    if kind == "box2":
        return [t, -t, t + F(1, 4), F(1)]
    if kind in ("dictS", "dictC"):
        return [t, t + F(1, 2), F(-1), t, t]
    return [t]


def vec_dim(kind):
    return len(obs_vec(0, kind))


def norm_mask(kind):
    """which coordinates of the model vector a VecNormalize (norm_obs_keys=['vec'] for Dict) normalises"""
    if kind in ("box1", "box2"):
        return [True] * vec_dim(kind)
    if kind in ("dictS", "dictC"):
        return [True, True, True, False, False]
    return [False] * vec_dim(kind)


def img_tag(o):
    """channel-first image -> tag (ValueError when it is no consistent encoding)"""
    return E.decode(np.asarray(o), "image_chw")


def single_vec(o, kind):
    """one stored / returned observation (library layout: images channel-first) -> list of Fractions"""
    if kind in ("box1", "box2"):
        return [F(float(x)) for x in np.asarray(o, dtype=np.float64).reshape(-1)]
    if kind in ("image_hwc", "image_chw"):
        return [F(img_tag(o))]
    if kind == "disc":
        return [F(int(np.asarray(o).reshape(-1)[0]))]
    if kind in ("dictS", "dictC"):
        v = [F(float(x)) for x in np.asarray(o["vec"], dtype=np.float64).reshape(-1)]
        return v + [F(img_tag(o["img"])), F(int(np.asarray(o["disc"]).reshape(-1)[0]))]
    raise ValueError(kind)


def batch_item(obs, i):
    if isinstance(obs, dict):
        return {k: v[i] for k, v in obs.items()}
    return obs[i]


def safe_vec(o, kind):
    try:
        return single_vec(o, kind)
    except Exception as e:  # not a consistent encoding of any observation
        return ["undecodable", type(e).__name__]


def copy_obs(o):
    if isinstance(o, dict):
        return {k: np.array(v, copy=True) for k, v in o.items()}
    return np.array(o, copy=True)


# =================================================================================================
# generators
# =================================================================================================
DY_LOW = [-2.0, -1.0, 0.0, 0.5, -8.0, 3.0, -0.25]
DY_RANGE = [1.0, 2.0, 8.0, 0.5, 4.0, 16.0]


def gen_box(rng, widen=False, exact=False):
    d = rng.randint(1, 2)
    low, high = [], []
    for _ in range(d):
        if widen and not exact and rng.chance(0.6):
            lo = float(np.float32((rng.random() - 0.5) * 20))
            hi = float(np.float32(lo + 0.05 + rng.random() * 10))
        elif not exact and rng.chance(0.25):
            lo, hi = -1.0, 1.0
        else:
            lo = rng.choice(DY_LOW)
            hi = lo + rng.choice(DY_RANGE)
        low.append(lo)
        high.append(hi)
    return {"kind": "box", "low": low, "high": high}


def ensure_end(script, rng):
    if not any(t or u for _, t, u in script):
        script[rng.randint(0, len(script) - 1)][rng.randint(1, 2)] = True
    return script


def gen_learn(rng, widen=False, kc04a=False, kc04b=False):
    algo = rng.weighted([("SAC", 3), ("TD3", 3), ("DDPG", 2), ("DQN", 3)])
    if kc04a:
        algo = rng.choice(["TD3", "DQN", "SAC"])
    n_envs = rng.weighted([(1, 4), (2, 3), (3, 2)])
    obs_kind = rng.weighted([("box1", 4), ("box2", 2), ("image_hwc", 2), ("image_chw", 1), ("disc", 2), ("dictS", 2),
                             ("dictC", 1)])
    act = {"kind": "discrete", "n": rng.choice([2, 3, 5])} if algo == "DQN" else gen_box(rng, widen)
    episodic = n_envs == 1 and rng.chance(0.3)
    train_freq = [rng.randint(1, 2), "episode"] if episodic else [rng.randint(1, 5), "step"]
    scripts = []
    for _ in range(n_envs):
        s = E.gen_script(rng)
        if episodic:
            s = ensure_end(s, rng)
        scripts.append(s)
    noise = None
    if algo != "DQN" and rng.chance(0.55):
        noise = {"type": rng.choice(["normal", "ou"]), "sigma": rng.choice([0.1, 0.5, 2.0]),
                 "user_vectorized": n_envs > 1 and rng.chance(0.4)}
    use_sde = algo == "SAC" and rng.chance(0.3)
    vecnorm = None
    if rng.chance(0.3):
        obs_kind = rng.choice(VN_KINDS)
        vecnorm = {"norm_obs": rng.chance(0.8), "norm_reward": rng.chance(0.6), "clip_obs": rng.choice([10.0, 100.0]),
                   "clip_reward": rng.choice([10.0, 1.0])}
    if kc04a:
        obs_kind = rng.choice(["box1", "box2"])
        n_envs = rng.randint(1, 2)
        scripts = [ensure_end(E.gen_script(rng, length=rng.randint(2, 5), style="mixed"), rng) for _ in range(n_envs)]
        episodic, train_freq = False, [rng.randint(1, 3), "step"]
        vecnorm = {"norm_obs": True, "norm_reward": rng.chance(0.5), "clip_obs": rng.choice([0.5, 1.0]), "clip_reward": 10.0}
    if kc04b:
        # Dict observation with a channel-last image: VecTransposeImage ends up *above* the VecNormalize
        obs_kind = "dictS"
        vecnorm = {"norm_obs": rng.chance(0.7), "norm_reward": rng.chance(0.5), "clip_obs": 10.0, "clip_reward": 10.0}
    ncalls = rng.weighted([(1, 4), (2, 4), (3, 2)])
    calls = []
    for c in range(ncalls):
        hi = max(1, (24 // ncalls)) * n_envs
        reset = True if c == 0 and rng.chance(0.5) else rng.chance(0.45)
        # `set_env(env)` (force_reset) before a continuing learn(): the environment is reset, the counters are not
        calls.append({"total": rng.randint(1, hi), "reset": reset, "set_env": bool(c > 0 and not reset and rng.chance(0.35))})
    cap = 256
    if rng.chance(0.15):
        cap = rng.randint(2, 9)
    case = {
        "kind": "kc04a" if kc04a else "kc04b" if kc04b else "learn",
        "algo": algo, "n_envs": n_envs, "obs_kind": obs_kind, "act": act, "scripts": scripts,
        "info_modes": [rng.weighted([("fresh", 3), ("reused", 4), ("reused_extra", 2), ("stale_keys", 2)])
                       for _ in range(n_envs)],
        "learning_starts": rng.choice([0, 0, 1, 3, 5, 10, 100]),
        "train_freq": train_freq,
        "gradient_steps": rng.choice([1, 1, 2, -1, 0]),
        "noise": noise,
        "use_sde": use_sde, "sde_warmup": use_sde and rng.chance(0.5), "sde_sample_freq": rng.choice([-1, 2]),
        "vecnorm": vecnorm,
        "buffer_size": cap * n_envs + (rng.randint(0, n_envs - 1) if rng.chance(0.3) else 0),
        "calls": calls,
        "seed": rng.randint(0, 2 ** 31 - 1),
    }
    return case


def gen_act(rng, widen=False, exact=False):
    discrete = (not exact) and rng.chance(0.12)
    n = rng.randint(1, 3)
    if discrete:
        act = {"kind": "discrete", "n": rng.choice([2, 3, 5])}
        u = [[rng.randint(0, act["n"] - 1)] for _ in range(n)]
        noise = None
    else:
        act = gen_box(rng, widen, exact)
        d = len(act["low"])
        u = []
        for _ in range(n):
            row = []
            for j in range(d):
                lo, hi = act["low"][j], act["high"][j]
                w = rng.weighted([("lo", 2), ("hi", 2), ("in", 6)])
                if w == "lo":
                    row.append(lo)
                elif w == "hi":
                    row.append(hi)
                elif exact:
                    row.append(lo + rng.randint(0, 16) * (hi - lo) / 16.0)
                else:
                    row.append(float(np.clip(np.float32(lo + rng.random() * (hi - lo)), np.float32(lo), np.float32(hi))))
            u.append(row)
        noise = None
        if rng.chance(0.6):
            if exact:
                noise = [[rng.randint(-24, 24) / 8.0 for _ in range(d)] for _ in range(n)]
            else:
                noise = [[float(np.float32((rng.random() - 0.5) * rng.choice([0.2, 1.0, 6.0]))) for _ in range(d)]
                         for _ in range(n)]
    return {"kind": "act_exact" if exact else "act_float", "act": act, "n": n, "u": u, "noise": noise,
            "warmup": rng.chance(0.3), "vec_noise": n > 1 or rng.chance(0.3)}


def gen_cases(ctx):
    rng = ctx.rng
    cases = []
    for _ in range(ctx.budget(900, 9000)):
        cases.append(gen_learn(rng, ctx.widen))
    for _ in range(ctx.budget(12, 120)):
        cases.append(gen_learn(rng, ctx.widen, kc04a=True))
    for _ in range(ctx.budget(4, 40)):
        cases.append(gen_learn(rng, ctx.widen, kc04b=True))
    for _ in range(ctx.budget(2000, 20000)):
        cases.append(gen_act(rng, ctx.widen, exact=True))
    for _ in range(ctx.budget(2000, 20000)):
        cases.append(gen_act(rng, ctx.widen, exact=False))
    return cases


def shrink_candidates(case):
    k = case.get("kind")
    if k in ("learn", "kc04a", "kc04b"):
        if len(case["calls"]) > 1:
            for i in range(len(case["calls"])):
                c = dict(case)
                c["calls"] = [x for j, x in enumerate(case["calls"]) if j != i]
                yield c
        for i, cl in enumerate(case["calls"]):
            if cl["total"] > 1:
                for t in (1, cl["total"] // 2, cl["total"] - 1):
                    if 1 <= t < cl["total"]:
                        c = dict(case)
                        c["calls"] = [dict(x, total=t) if j == i else x for j, x in enumerate(case["calls"])]
                        yield c
        if case["n_envs"] > 1 and case["train_freq"][1] == "step":
            c = dict(case)
            c["n_envs"] = case["n_envs"] - 1
            c["scripts"] = case["scripts"][:-1]
            if case.get("info_modes"):
                c["info_modes"] = case["info_modes"][:-1]
            c["buffer_size"] = max(c["n_envs"], case["buffer_size"] // case["n_envs"] * c["n_envs"])
            if c["noise"] and c["n_envs"] == 1:
                c["noise"] = dict(c["noise"], user_vectorized=False)
            yield c
        for f, v in (("noise", None), ("vecnorm", None), ("use_sde", False), ("gradient_steps", 0)):
            if case.get(f) not in (v, None) and not (k in ("kc04a", "kc04b") and f == "vecnorm"):
                c = dict(case)
                c[f] = v
                if f == "use_sde":
                    c["sde_warmup"] = False
                yield c
        if any(m != "fresh" for m in case.get("info_modes") or []):
            c = dict(case)
            c["info_modes"] = ["fresh"] * case["n_envs"]
            yield c
            for m in ("reused",):
                if any(x not in ("fresh", m) for x in case["info_modes"]):
                    c = dict(case)
                    c["info_modes"] = [x if x == "fresh" else m for x in case["info_modes"]]
                    yield c
        if case["obs_kind"] != "box1" and not case.get("vecnorm") and k != "kc04b":
            c = dict(case)
            c["obs_kind"] = "box1"
            yield c
        if case["buffer_size"] < 256 * case["n_envs"]:
            c = dict(case)
            c["buffer_size"] = 256 * case["n_envs"]
            yield c
        if case["train_freq"] != [1, "step"] and case["train_freq"][1] == "step":
            c = dict(case)
            c["train_freq"] = [1, "step"]
            yield c
        if case["learning_starts"] not in (0, 100):
            for v in (0, 100):
                c = dict(case)
                c["learning_starts"] = v
                yield c
        for i, s in enumerate(case["scripts"]):
            if len(s) > 1 and case["train_freq"][1] == "step":
                c = dict(case)
                c["scripts"] = [x[:-1] if j == i else x for j, x in enumerate(case["scripts"])]
                yield c
    elif k in ("act_exact", "act_float"):
        if case["n"] > 1:
            c = dict(case)
            c["n"] = case["n"] - 1
            c["u"] = case["u"][:-1]
            c["noise"] = case["noise"][:-1] if case["noise"] else None
            yield c
        if case["noise"]:
            c = dict(case)
            c["noise"] = None
            yield c
        if case["act"]["kind"] == "box" and len(case["act"]["low"]) > 1:
            for j in range(len(case["act"]["low"])):
                c = dict(case)
                c["act"] = {"kind": "box", "low": [x for i, x in enumerate(case["act"]["low"]) if i != j],
                            "high": [x for i, x in enumerate(case["act"]["high"]) if i != j]}
                c["u"] = [[x for i, x in enumerate(r) if i != j] for r in case["u"]]
                c["noise"] = [[x for i, x in enumerate(r) if i != j] for r in case["noise"]] if case["noise"] else None
                yield c


# =================================================================================================
# action-algebra stream: the real `_sample_action`, `scale_action`, `unscale_action` on a stub algorithm
# =================================================================================================
def unscale_exact(low, high, s):
    """the property's rescaling, in exact arithmetic (independent of the Lean model)"""
    v = F(low) + F(1, 2) * (F(s) + 1) * (F(high) - F(low))
    return min(max(v, F(low)), F(high))


def run_act(ctx, case):
    from stable_baselines3.common.off_policy_algorithm import OffPolicyAlgorithm
    from stable_baselines3.common.policies import BasePolicy

    space = act_space_of(case["act"])
    n = case["n"]
    is_box = case["act"]["kind"] == "box"
    dt = np.float32 if is_box else np.int64
    u = np.array(case["u"], dtype=dt)
    if not is_box:
        u = u.reshape(n)
    pstub = types.SimpleNamespace(action_space=space)
    pstub.scale_action = lambda a: BasePolicy.scale_action(pstub, a)
    pstub.unscale_action = lambda a: BasePolicy.unscale_action(pstub, a)
    it = iter(list(u))
    sspace = types.SimpleNamespace(sample=lambda: next(it))
    stub = types.SimpleNamespace(
        num_timesteps=0 if case["warmup"] else 10, use_sde=False, use_sde_at_warmup=False,
        action_space=space if not case["warmup"] else _SpaceProxy(space, sspace),
        _last_obs=np.zeros((n, 1), dtype=np.float32), policy=pstub,
        predict=lambda obs, deterministic=False: (u.copy(), None),
    )
    noise = None
    if case["noise"] is not None:
        nz = np.array(case["noise"], dtype=np.float32)
        if not case["vec_noise"] and n == 1:
            nz = nz[0]
        noise = lambda: nz.copy()
    action, buf = OffPolicyAlgorithm._sample_action(stub, 5, noise, n)
    return {"action": np.asarray(action), "buffer": np.asarray(buf), "space": space}


class _SpaceProxy:
    """a Box/Discrete whose sample() is scripted (isinstance checks of the code under test still see the real class)"""

    def __new__(cls, space, sampler):
        obj = space.__class__.__new__(space.__class__)
        obj.__dict__.update(space.__dict__)
        obj.sample = sampler.sample
        return obj


def act_ops(case):
    ops = []
    box = None if case["act"]["kind"] != "box" else {"low": [ratj(F(float(np.float32(x)))) for x in case["act"]["low"]],
                                                     "high": [ratj(F(float(np.float32(x)))) for x in case["act"]["high"]]}
    for i in range(case["n"]):
        u = [ratj(F(float(np.float32(x))) if box else F(int(x))) for x in case["u"][i]]
        nz = None if case["noise"] is None else [ratj(F(float(np.float32(x)))) for x in case["noise"][i]]
        ops.append({"op": "act", "box": box, "u": u, "noise": nz})
    return ops


def tol_act(low, high):
    return 4e-6 * (1.0 + abs(low) + abs(high) + abs(high - low))


def cmp_act(ctx, case, r, mouts):
    rep = ctx.report
    exact = case["kind"] == "act_exact"
    n = case["n"]
    is_box = case["act"]["kind"] == "box"
    action = r["action"].reshape(n, -1)
    buf = r["buffer"].reshape(n, -1)
    # ---- oracle ------------------------------------------------------------------------------------
    for i in range(n):
        a_i = r["action"][i]
        if not r["space"].contains(np.asarray(a_i, dtype=r["space"].dtype) if is_box else a_i):
            rep.violation("the action handed to the environment is outside the action space", case,
                          {"kind": "act", "field": "env_action_out_of_bounds", "noise": case["noise"] is not None},
                          {"action": action[i].tolist()})
            return
        if not is_box:
            if action[i].tolist() != case["u"][i] or buf[i].tolist() != case["u"][i]:
                rep.violation("a discrete action is not stored / sent as chosen", case, {"kind": "act", "field": "discrete"},
                              {"action": action[i].tolist(), "buffer": buf[i].tolist()})
                return
            continue
        for j in range(action.shape[1]):
            lo, hi = float(np.float32(case["act"]["low"][j])), float(np.float32(case["act"]["high"][j]))
            s = float(buf[i][j])
            if not (-1.0 <= s <= 1.0):
                rep.violation("the stored action is outside [-1, 1]", case,
                              {"kind": "act", "field": "buffer_action_range", "noise": case["noise"] is not None},
                              {"stored": s})
                return
            want = unscale_exact(lo, hi, s)
            if abs(F(float(action[i][j])) - want) > F(tol_act(lo, hi)):
                rep.violation("the environment's action is not the rescaling of the stored action", case,
                              {"kind": "act", "field": "env_action_vs_stored", "noise": case["noise"] is not None},
                              {"stored": s, "env": float(action[i][j]), "rescaled": float(want)})
                return
            if case["noise"] is None and abs(float(action[i][j]) - float(np.float32(case["u"][i][j]))) > tol_act(lo, hi):
                rep.violation("without noise the environment does not receive the policy's action", case,
                              {"kind": "act", "field": "env_action_vs_policy"},
                              {"policy": case["u"][i][j], "env": float(action[i][j])})
                return
    # ---- correspondence ----------------------------------------------------------------------------
    if mouts is None or mouts[0] is None:
        return
    for i in range(n):
        mo = mouts[i]
        if "error" in mo:
            rep.disagree(case["kind"], case, "ok", mo)
            return
        ma = [F(x[0], x[1]) for x in mo["action"]]
        mb = [F(x[0], x[1]) for x in mo["buffer"]]
        for j in range(action.shape[1]):
            ia, ib = F(float(action[i][j])), F(float(buf[i][j]))
            if exact or not is_box:
                ok = ia == ma[j] and ib == mb[j]
            else:
                lo, hi = case["act"]["low"][j], case["act"]["high"][j]
                ok = abs(ia - ma[j]) <= F(tol_act(lo, hi)) and abs(ib - mb[j]) <= F(4e-6)
            if not ok:
                rep.disagree(case["kind"], case, {"action": float(ia), "buffer": float(ib), "env": i, "dim": j},
                             {"action": str(ma[j]), "buffer": str(mb[j])})
                return
    rep.agree()


# =================================================================================================
# the learn() stream: implementation runner
# =================================================================================================
def make_noise(case, d):
    from stable_baselines3.common.noise import (NormalActionNoise, OrnsteinUhlenbeckActionNoise,
                                                VectorizedActionNoise)

    class RecNormal(NormalActionNoise):
        def __init__(self, *a, **k):
            self.resets = []
            super().__init__(*a, **k)

        def reset(self):
            self.resets.append((CLOCK["phase"], CLOCK["step"]))
            super().reset()

    class RecOU(OrnsteinUhlenbeckActionNoise):
        def __init__(self, *a, **k):
            self.resets = []
            super().__init__(*a, **k)

        def reset(self):
            self.resets.append((CLOCK["phase"], CLOCK["step"]))
            super().reset()

    nz = case["noise"]
    if nz is None:
        return None
    mean, sigma = np.zeros(d), nz["sigma"] * np.ones(d)
    base = RecNormal(mean, sigma) if nz["type"] == "normal" else RecOU(mean, sigma)
    if nz.get("user_vectorized") and case["n_envs"] > 1:
        return VectorizedActionNoise(base, case["n_envs"])
    return base


def flat_extractor_class():
    import torch as th
    from stable_baselines3.common.torch_layers import BaseFeaturesExtractor

    class FlatDictExtractor(BaseFeaturesExtractor):
        """flattens every key (the tagged images are too small for NatureCNN)"""

        def __init__(self, observation_space):
            dim = sum(int(np.prod(s.shape)) if not isinstance(s, spaces.Discrete) else s.n
                      for s in observation_space.spaces.values())
            super().__init__(observation_space, features_dim=dim)

        def forward(self, observations):
            return th.cat([observations[k].flatten(start_dim=1).float() for k in sorted(observations.keys())], dim=1)

    return FlatDictExtractor


def make_model(case, envs):
    import stable_baselines3 as sb3
    from stable_baselines3.common.vec_env import DummyVecEnv, VecNormalize

    venv = DummyVecEnv([(lambda e=e: e) for e in envs])
    vn = None
    if case["vecnorm"]:
        v = case["vecnorm"]
        kw = {}
        if case["obs_kind"] in ("dictS", "dictC"):
            kw["norm_obs_keys"] = ["vec"]
        vn = VecNormalize(venv, norm_obs=v["norm_obs"], norm_reward=v["norm_reward"], clip_obs=v["clip_obs"],
                          clip_reward=v["clip_reward"], **kw)
        venv = vn
    is_dict = case["obs_kind"] in ("dictS", "dictC")
    pk = dict(net_arch=[4])
    if is_dict:
        pk["features_extractor_class"] = flat_extractor_class()
    kw = dict(policy_kwargs=pk, learning_starts=case["learning_starts"], buffer_size=case["buffer_size"], batch_size=4,
              train_freq=tuple(case["train_freq"]), gradient_steps=case["gradient_steps"], device="cpu", verbose=0,
              seed=case["seed"])
    algo = case["algo"]
    if algo != "DQN":
        d = len(case["act"]["low"])
        kw["action_noise"] = make_noise(case, d)
    if algo == "SAC" and case["use_sde"]:
        kw.update(use_sde=True, use_sde_at_warmup=case["sde_warmup"], sde_sample_freq=case["sde_sample_freq"])
    if algo == "DQN":
        kw["target_update_interval"] = 3
    cls = getattr(sb3, algo)
    model = cls("MultiInputPolicy" if is_dict else "MlpPolicy", venv, **kw)
    return model, vn


def snap_nz(vn, case):
    """statistics a batch is normalised with right now, as exact rationals"""
    v = case["vecnorm"]
    kind = case["obs_kind"]
    mask = norm_mask(kind)
    stats = []
    if v["norm_obs"]:
        rms = vn.obs_rms["vec"] if isinstance(vn.obs_rms, dict) else vn.obs_rms
        mean = np.asarray(rms.mean, dtype=np.float64).reshape(-1)
        sd = np.sqrt(np.asarray(rms.var, dtype=np.float64) + vn.epsilon).reshape(-1)
        j = 0
        for m in mask:
            if m:
                stats.append([F(float(mean[j])), F(float(sd[j]))])
                j += 1
            else:
                stats.append(None)
    else:
        stats = [None] * len(mask)
    rew_sd = F(float(np.sqrt(vn.ret_rms.var + vn.epsilon))) if v["norm_reward"] else None
    return {"stats": stats, "clip_obs": F(float(vn.clip_obs)), "rew_sd": rew_sd, "clip_rew": F(float(vn.clip_reward))}


def run_learn(ctx, case):
    n = case["n_envs"]
    kind = case["obs_kind"]
    modes = case.get("info_modes") or ["fresh"] * n
    envs = [C04Env(i, kind, case["act"], case["scripts"][i], modes[i]) for i in range(n)]
    CLOCK["phase"], CLOCK["step"] = "setup", 0
    np.random.seed(case["seed"] % (2 ** 31))
    model, vn = make_model(case, envs)
    is_box = case["act"]["kind"] == "box"
    steps, vn_snaps, out_obs, reset_marks = [], [], {"last": None}, []
    state = {"in_sample": False, "in_predict": False, "rec": None}
    problems = []

    # ---- recorders (instance level) ---------------------------------------------------------------------
    space = model.action_space
    orig_sample = space.sample

    def sample_rec(*a, **k):
        x = orig_sample(*a, **k)
        if state["in_sample"] and not state["in_predict"] and state["rec"] is not None:
            state["rec"]["samples"].append(np.array(x, copy=True))
        return x

    space.sample = sample_rec
    orig_predict = model.predict

    def predict_rec(observation, *a, **k):
        state["in_predict"] = True
        try:
            res = orig_predict(observation, *a, **k)
        finally:
            state["in_predict"] = False
        if state["in_sample"] and state["rec"] is not None:
            state["rec"]["pred_obs"] = copy_obs(observation)
            state["rec"]["pred_act"] = np.array(res[0], copy=True)
            state["rec"]["seen_env_obs"] = out_obs["last"]
        return res

    model.predict = predict_rec
    orig_sa = model._sample_action

    class NoiseProxy:
        def __init__(self, real, rec):
            self.real, self.rec = real, rec

        def __call__(self):
            x = self.real()
            self.rec["noise"] = np.array(x, copy=True)
            return x

        def __getattr__(self, name):
            return getattr(self.real, name)

    def sa_rec(learning_starts, action_noise=None, n_envs=1):
        CLOCK["phase"] = "loop"
        rec = {"samples": [], "pred_obs": None, "pred_act": None, "noise": None, "seen_env_obs": None,
               "num_timesteps_before": int(model.num_timesteps)}
        state["rec"], state["in_sample"] = rec, True
        try:
            action, buf = orig_sa(learning_starts, NoiseProxy(action_noise, rec) if action_noise is not None else None,
                                  n_envs)
        finally:
            state["in_sample"] = False
        rec["action"], rec["buffer"] = np.array(action, copy=True), np.array(buf, copy=True)
        steps.append(rec)
        CLOCK["step"] = len(steps)
        return action, buf

    model._sample_action = sa_rec
    outer = model.env
    o_step_wait, o_reset = outer.step_wait, outer.reset

    def outer_step_wait():
        r = o_step_wait()
        out_obs["last"] = copy_obs(r[0])
        return r

    def outer_reset():
        r = o_reset()
        out_obs["last"] = copy_obs(r)
        reset_marks.append(len(steps))
        return r

    outer.step_wait, outer.reset = outer_step_wait, outer_reset
    if vn is not None:
        v_step_wait, v_reset = vn.step_wait, vn.reset

        def vn_step_wait():
            r = v_step_wait()
            vn_snaps.append(("step", snap_nz(vn, case)))
            return r

        def vn_reset():
            r = v_reset()
            vn_snaps.append(("reset", snap_nz(vn, case)))
            return r

        vn.step_wait, vn.reset = vn_step_wait, vn_reset

    # ---- the learn() calls ---------------------------------------------------------------------------------
    call_info = []
    for ci, call in enumerate(case["calls"]):
        for e in envs:
            e.log.append(["mark", ci])
        CLOCK["phase"], CLOCK["step"] = "setup", len(steps)
        start = len(steps)
        vstart = len(vn_snaps)
        if call.get("set_env"):
            model.set_env(model.get_env())
        model.learn(total_timesteps=call["total"], reset_num_timesteps=call["reset"])
        call_info.append({"start": start, "end": len(steps), "num_timesteps": int(model.num_timesteps), "vstart": vstart,
                          "vend": len(vn_snaps)})
    rb = model.replay_buffer
    noise_obj = model.action_noise
    noise_logs = None
    if noise_obj is not None:
        subs = getattr(noise_obj, "noises", None)
        noise_logs = [list(s.resets) for s in subs] if subs is not None else [list(noise_obj.resets)]
    return {"envs": envs, "model": model, "vn": vn, "steps": steps, "vn_snaps": vn_snaps, "calls": call_info, "rb": rb,
            "noise_logs": noise_logs, "reset_marks": reset_marks, "is_box": is_box}


# =================================================================================================
# ground truth from the sub-environments' own logs
# =================================================================================================
def parse_env_log(log):
    """-> per call: {"reset": tag|None, "steps": [transition]}; a transition carries the env's own view"""
    calls, cur, cur_tag = [], None, None
    i = 0
    while i < len(log):
        e = log[i]
        if e[0] == "mark":
            cur = {"reset": None, "steps": []}
            calls.append(cur)
        elif e[0] == "reset":
            # a reset that is not the auto-reset following an episode end: the explicit env.reset() of _setup_learn
            if cur is not None and not cur["steps"] and cur["reset"] is None:
                cur["reset"] = e[3]
            elif cur is not None:
                cur.setdefault("extra_resets", []).append(e[3])
            cur_tag = e[3]
        else:
            t = {"obs": cur_tag, "action": e[1], "next": e[2], "rew": e[3], "term": e[4], "trunc": e[5], "in_space": e[6],
                 "reset_obs": None}
            cur_tag = e[2]
            if e[4] or e[5]:
                if i + 1 < len(log) and log[i + 1][0] == "reset":
                    t["reset_obs"] = log[i + 1][3]
                    cur_tag = log[i + 1][3]
                    i += 1
            (cur["steps"] if cur is not None else []).append(t)
        i += 1
    return calls


def stored_row(rb, idx, i, kind):
    """what the replay buffer holds at ring index idx for env i"""
    if isinstance(rb.observations, dict):
        o = {k: v[idx][i] for k, v in rb.observations.items()}
        nx = {k: v[idx][i] for k, v in rb.next_observations.items()}
    else:
        o, nx = rb.observations[idx][i], rb.next_observations[idx][i]
    return {"obs": safe_vec(o, kind), "next": safe_vec(nx, kind),
            "action": [float(x) for x in np.asarray(rb.actions[idx][i], dtype=np.float64).reshape(-1)],
            "reward": float(rb.rewards[idx][i]), "done": bool(rb.dones[idx][i] != 0),
            "timeout": bool(rb.timeouts[idx][i] != 0)}


def coord_tol(x, mean, val):
    return F(2) ** -21 * (abs(F(x)) + abs(F(mean)) + abs(F(val)) + 1)


def nz_apply(nz, vec):
    """normalise a raw vector with a snapshot (exact) — used only to classify clipping and for the policy input"""
    out, clipped = [], False
    for j, x in enumerate(vec):
        st = nz["stats"][j] if j < len(nz["stats"]) else None
        if st is None:
            out.append(F(x))
            continue
        z = (F(x) - st[0]) / st[1]
        c = nz["clip_obs"]
        if abs(z) > c:
            clipped = True
        out.append(min(max(z, -c), c))
    return out, clipped


# =================================================================================================
# oracle: the property sentence against the env logs (no model)
# =================================================================================================
def oracle_learn(ctx, case, r):
    rep = ctx.report
    n, kind = case["n_envs"], case["obs_kind"]
    rb = r["rb"]
    vnc = case["vecnorm"]
    base_sig = {"algo": case["algo"], "vecnorm": bool(vnc), "obs": kind}
    per_env = [parse_env_log(e.log) for e in r["envs"]]
    trans = [[t for c in calls for t in c["steps"]] for calls in per_env]
    counts = [len(t) for t in trans]
    N = counts[0]
    info = {"N": N, "term": 0, "trunc": 0, "known": 0}
    if len(set(counts)) != 1 or N != len(r["steps"]):
        rep.violation("the sub-environments were not stepped once per collected step", case,
                      dict(base_sig, kind="count", field="env_steps"), {"per_env": counts, "sampled": len(r["steps"])})
        return info
    cap = rb.buffer_size
    if int(rb.pos) != N % cap or bool(rb.full) != (N >= cap):
        rep.violation("the number of stored rows differs from the number of environment steps (not exactly once)", case,
                      dict(base_sig, kind="count", field="rows"),
                      {"env_steps": N, "pos": int(rb.pos), "full": bool(rb.full), "capacity": cap})
        return info
    # statistics in force at every step (for the tolerance / the clipped classification under VecNormalize)
    step_nz = [s[1] for s in r["vn_snaps"] if s[0] == "step"] if vnc else None
    reported_known = False
    for k in range(max(0, N - cap), N):
        idx = k % cap
        for i in range(n):
            T = trans[i][k]
            S = stored_row(rb, idx, i, kind)
            where = {"row": k, "env": i}
            if T["term"] and not T["trunc"]:
                info["term"] += 1
            if T["trunc"]:
                info["trunc"] += 1
            if S["obs"] != obs_vec(T["obs"], kind):
                rep.violation("stored observation is not the observation the environment had last returned", case,
                              dict(base_sig, kind="field", field="observation"),
                              dict(where, stored=[str(x) for x in S["obs"]], env_tag=T["obs"]))
                return info
            want_next = obs_vec(T["next"], kind)
            ended = T["term"] or T["trunc"]
            ok_next = S["next"] == want_next
            clipped = False
            if not ok_next and vnc and vnc["norm_obs"] and ended and len(S["next"]) == len(want_next) \
                    and "undecodable" not in S["next"]:
                nz = step_nz[k] if step_nz is not None and k < len(step_nz) else None
                if nz is not None:
                    _, clipped = nz_apply(nz, want_next)
                    ok_next = all(
                        (abs(a - b) <= coord_tol(b, nz["stats"][j][0], a) if nz["stats"][j] is not None else a == b)
                        for j, (a, b) in enumerate(zip(S["next"], want_next)))
            if not ok_next:
                if clipped:
                    info["known"] += 1
                    if not reported_known:
                        reported_known = True
                        rep.violation("under VecNormalize a terminal observation whose normalised value was clipped is "
                                      "stored as unnormalize(clipped), not as the raw terminal observation", case,
                                      {"kind": "terminal_obs_clipped_under_vecnormalize"},
                                      dict(where, stored=[float(x) for x in S["next"]], raw=[float(x) for x in want_next],
                                           clip_obs=vnc["clip_obs"]))
                else:
                    cls = "other"
                    if ended and T["reset_obs"] is not None and S["next"] == obs_vec(T["reset_obs"], kind):
                        cls = "auto_reset_observation"
                    prev_term = [t["next"] for t in trans[i][:k] if t["term"] or t["trunc"]]
                    if not ended and prev_term and S["next"] == obs_vec(prev_term[-1], kind):
                        cls = "stale_terminal_observation_of_previous_episode"
                    rep.violation("stored next observation is not the environment's own successor (the terminal "
                                  "observation when the episode ended)", case,
                                  dict(base_sig, kind="field", field="next_observation", cls=cls, ended=bool(ended)),
                                  dict(where, stored=[str(x) for x in S["next"]], env_tag=T["next"], reset_tag=T["reset_obs"]))
                    return info
            if S["reward"] != T["rew"]:
                rep.violation("stored reward is not the environment's raw reward", case,
                              dict(base_sig, kind="field", field="reward", norm_reward=bool(vnc and vnc["norm_reward"])),
                              dict(where, stored=S["reward"], env=T["rew"]))
                return info
            if S["done"] != (T["term"] or T["trunc"]):
                rep.violation("stored done flag differs from terminated-or-truncated", case,
                              dict(base_sig, kind="field", field="done"),
                              dict(where, stored=S["done"], term=T["term"], trunc=T["trunc"]))
                return info
            if S["timeout"] != (T["trunc"] and not T["term"]):
                rep.violation("stored timeout flag differs from truncated-and-not-terminated", case,
                              dict(base_sig, kind="field", field="timeout"),
                              dict(where, stored=S["timeout"], term=T["term"], trunc=T["trunc"]))
                return info
            if not T["in_space"]:
                rep.violation("the environment received an action outside its action space", case,
                              dict(base_sig, kind="field", field="env_action_out_of_bounds"), dict(where, action=T["action"]))
                return info
            recv = np.asarray(T["action"], dtype=np.float64).reshape(-1)
            if r["is_box"]:
                for j, s in enumerate(S["action"]):
                    lo, hi = case["act"]["low"][j], case["act"]["high"][j]
                    if not (-1.0 <= s <= 1.0):
                        rep.violation("stored action is outside [-1, 1]", case,
                                      dict(base_sig, kind="field", field="buffer_action_range"), dict(where, stored=s))
                        return info
                    want = unscale_exact(float(np.float32(lo)), float(np.float32(hi)), s)
                    if abs(F(float(recv[j])) - want) > F(tol_act(lo, hi)):
                        rep.violation("the action the environment received is not the rescaling of the stored action", case,
                                      dict(base_sig, kind="field", field="env_action_vs_stored"),
                                      dict(where, stored=s, received=float(recv[j]), rescaled=float(want)))
                        return info
            else:
                if [float(x) for x in recv] != S["action"]:
                    rep.violation("stored discrete action is not the action the environment received", case,
                                  dict(base_sig, kind="field", field="discrete_action"),
                                  dict(where, stored=S["action"], received=recv.tolist()))
                    return info
    # the agent acted on the latest observation the training env returned
    for k, st in enumerate(r["steps"]):
        if st["pred_obs"] is None:
            continue
        a, b = st["pred_obs"], st["seen_env_obs"]
        same = b is not None and (all(np.array_equal(a[x], b[x]) for x in a) if isinstance(a, dict) else np.array_equal(a, b))
        if not same:
            rep.violation("the policy was not shown the latest observation returned by the training environment", case,
                          dict(base_sig, kind="field", field="policy_input"), {"step": k})
            return info
    return info


# =================================================================================================
# correspondence: build the model's externals, compare its trace with the implementation
# =================================================================================================
def learn_op(case, r):
    n, kind = case["n_envs"], case["obs_kind"]
    vnc = case["vecnorm"]
    is_box = r["is_box"]
    per_env = [parse_env_log(e.log) for e in r["envs"]]
    d = vec_dim(kind)

    def nzj(nz):
        if nz is None:
            return None
        return {"stats": [None if s is None else [ratj(s[0]), ratj(s[1])] for s in nz["stats"]],
                "clip_obs": ratj(nz["clip_obs"]), "rew_sd": None if nz["rew_sd"] is None else ratj(nz["rew_sd"]),
                "clip_rew": ratj(nz["clip_rew"])}

    def vecj(tag):
        return [ratj(x) for x in obs_vec(tag, kind)]

    cfg = {"n_envs": n, "box": None, "learning_starts": case["learning_starts"], "freq": case["train_freq"][0],
           "episodic": case["train_freq"][1] == "episode", "sde_warmup": bool(case["use_sde"] and case["sde_warmup"]),
           "vec_normalize": bool(vnc)}
    if is_box:
        cfg["box"] = {"low": [ratj(F(float(np.float32(x)))) for x in case["act"]["low"]],
                      "high": [ratj(F(float(np.float32(x)))) for x in case["act"]["high"]]}
    calls = []
    modes = case.get("info_modes") or ["fresh"] * n
    last_term = [None] * n   # what a reused info dict still holds under "terminal_observation"
    for ci, call in enumerate(case["calls"]):
        info = r["calls"][ci]
        snaps = r["vn_snaps"][info["vstart"]:info["vend"]] if vnc else []
        reset_nz = next((s[1] for s in snaps if s[0] == "reset"), None)
        step_nz = [s[1] for s in snaps if s[0] == "step"]
        rtags = [per_env[i][ci]["reset"] for i in range(n)]
        dummy = {"stats": [None] * d, "clip_obs": F(1), "rew_sd": None, "clip_rew": F(1)}
        c = {"reset": bool(call["reset"]), "set_env": bool(call.get("set_env")), "total": call["total"],
             "reset_obs": [vecj(t) if t is not None else [ratj(F(-7))] * d for t in rtags],
             "reset_nz": nzj(reset_nz if reset_nz is not None else dummy) if vnc else None, "steps": []}
        for k in range(info["start"], info["end"]):
            st = r["steps"][k]
            kk = k - info["start"]
            if st["pred_act"] is not None:
                u = np.asarray(st["pred_act"])
            else:
                u = np.asarray(st["samples"])
            u = u.reshape(n, -1)
            uj = [[ratj(F(float(x)) if is_box else F(int(x))) for x in row] for row in u]
            nzv = None
            if st["noise"] is not None:
                a = np.asarray(st["noise"], dtype=np.float64)
                a = np.broadcast_to(a, (n, a.shape[-1]))
                nzv = [[ratj(F(float(x))) for x in row] for row in a]
            raws = []
            for i in range(n):
                T = per_env[i][ci]["steps"][kk]
                stale = last_term[i] if modes[i] in ("reused", "reused_extra") else None
                raws.append({"obs": vecj(T["next"]), "rew": ratj(F(T["rew"])), "term": T["term"], "trunc": T["trunc"],
                             "reset_obs": vecj(T["reset_obs"]) if T["reset_obs"] is not None else [],
                             "stale_term": vecj(stale) if stale is not None else None})
                if T["term"] or T["trunc"]:
                    last_term[i] = T["next"]
            c["steps"].append({"u": uj, "noise": nzv, "raws": raws,
                               "nz": nzj(step_nz[kk]) if vnc else None})
        calls.append(c)
    return {"op": "run", "cfg": cfg, "calls": calls}


def q(x):
    return F(x[0], x[1])


def cmp_learn(ctx, case, r, mo):
    rep = ctx.report
    n, kind = case["n_envs"], case["obs_kind"]
    vnc = case["vecnorm"]
    is_box = r["is_box"]
    rb = r["rb"]

    def bad(stream, impl, model, note=""):
        rep.disagree(stream, case, impl, model, note)

    if "error" in mo:
        return bad("control", "ran", mo)
    for ci, (ic, mc) in enumerate(zip(r["calls"], mo["calls"])):
        impl = {"steps": ic["end"] - ic["start"], "num_timesteps": ic["num_timesteps"]}
        if mc["leftover"] != 0 or mc["wants_more"] or mc["num_timesteps"] != ic["num_timesteps"]:
            return bad("control", impl, mc, f"learn() call {ci}")
    trace = mo["trace"]
    if len(trace) != len(r["steps"]):
        return bad("control", len(r["steps"]), len(trace), "number of collected steps")
    N = len(trace)
    cap = rb.buffer_size
    per_env = [parse_env_log(e.log) for e in r["envs"]]
    trans = [[t for c in calls for t in c["steps"]] for calls in per_env]
    step_nz = [s[1] for s in r["vn_snaps"] if s[0] == "step"] if vnc else None
    all_nz = [s[1] for s in r["vn_snaps"]] if vnc else None
    noise_logs = r["noise_logs"]
    for k, (mt, st) in enumerate(zip(trace, r["steps"])):
        warm_impl = st["pred_act"] is None
        if mt["warmup"] != warm_impl:
            return bad("control", {"warmup": warm_impl, "step": k, "num_timesteps": st["num_timesteps_before"]},
                       {"warmup": mt["warmup"]})
        # policy input
        if not warm_impl:
            for i in range(n):
                iv = safe_vec(batch_item(st["pred_obs"], i), kind)
                mv = [q(x) for x in mt["policy_input"][i]]
                if vnc:
                    ok = len(iv) == len(mv) and "undecodable" not in iv and all(
                        abs(a - b) <= F(1, 100000) * max(1, abs(b)) for a, b in zip(iv, mv))
                else:
                    ok = iv == mv
                if not ok:
                    return bad("policy_input", {"step": k, "env": i, "obs": [str(x) for x in iv]}, [str(x) for x in mv])
        # env action
        for i in range(n):
            recv = np.asarray(trans[i][k]["action"], dtype=np.float64).reshape(-1)
            ma = [q(x) for x in mt["action"][i]]
            if is_box:
                ok = len(recv) == len(ma) and all(
                    abs(F(float(a)) - b) <= F(tol_act(case["act"]["low"][j], case["act"]["high"][j]))
                    for j, (a, b) in enumerate(zip(recv, ma)))
            else:
                ok = [F(float(a)) for a in recv] == ma
            if not ok:
                return bad("env_action", {"step": k, "env": i, "received": recv.tolist()}, [str(x) for x in ma])
        # noise resets
        if noise_logs is not None:
            impl_resets = sorted(i for i, lg in enumerate(noise_logs) if ("loop", k + 1) in lg)
            if n == 1 and ("loop", k + 1) in noise_logs[0]:
                impl_resets = [0]
            if impl_resets != sorted(mt["noise_reset"]) or any(lg.count(("loop", k + 1)) > 1 for lg in noise_logs):
                return bad("noise_reset", {"step": k, "reset": impl_resets}, mt["noise_reset"])
        elif mt["noise_reset"]:
            return bad("noise_reset", {"step": k, "reset": None}, mt["noise_reset"])
        # the row
        if k < N - cap:
            continue
        idx = k % cap
        row = mt["row"]
        for i in range(n):
            S = stored_row(rb, idx, i, kind)
            m_obs = [q(x) for x in row["obs"][i]]
            m_next = [q(x) for x in row["next"][i]]
            if S["obs"] != m_obs:
                return bad("rows", {"row": k, "env": i, "obs": [str(x) for x in S["obs"]]}, [str(x) for x in m_obs])
            ok = S["next"] == m_next
            if not ok and vnc and "undecodable" not in S["next"] and len(S["next"]) == len(m_next):
                nz = step_nz[k]
                raw = obs_vec(trans[i][k]["next"], kind)
                ok = all((abs(a - b) <= coord_tol(raw[j], nz["stats"][j][0], b) if nz["stats"][j] is not None else a == b)
                         for j, (a, b) in enumerate(zip(S["next"], m_next)))
            if not ok:
                return bad("rows", {"row": k, "env": i, "next": [str(x) for x in S["next"]]}, [str(x) for x in m_next])
            m_act = [q(x) for x in row["action"][i]]
            if is_box:
                ok = len(m_act) == len(S["action"]) and all(abs(F(a) - b) <= F(4e-6) for a, b in zip(S["action"], m_act))
            else:
                ok = [F(a) for a in S["action"]] == m_act
            if not ok:
                return bad("rows", {"row": k, "env": i, "action": S["action"]}, [str(x) for x in m_act])
            impl = {"reward": F(S["reward"]), "done": S["done"], "timeout": S["timeout"]}
            model = {"reward": q(row["reward"][i]), "done": row["done"][i], "timeout": row["timeout"][i]}
            if impl != model:
                return bad("rows", dict({kk: str(v) for kk, v in impl.items()}, row=k, env=i),
                           {kk: str(v) for kk, v in model.items()})
    rep.agree()


# =================================================================================================
def describe(rep, case):
    rep.count(f"algo:{case['algo']}")
    rep.count(f"n_envs:{case['n_envs']}")
    rep.count(f"obs:{case['obs_kind']}")
    rep.count("act:" + ("discrete" if case["act"]["kind"] == "discrete" else
                        "box_sym" if all(l == -1.0 and h == 1.0 for l, h in zip(case["act"]["low"], case["act"]["high"]))
                        else "box_asym"))
    rep.count("train_freq:" + case["train_freq"][1])
    rep.count("noise:" + ("none" if not case["noise"] else case["noise"]["type"] +
                          ("/user-vectorised" if case["noise"].get("user_vectorized") else
                           "/auto-vectorised" if case["n_envs"] > 1 else "")))
    rep.count("vecnorm:" + ("none" if not case["vecnorm"] else
                            f"obs={int(case['vecnorm']['norm_obs'])},rew={int(case['vecnorm']['norm_reward'])}"))
    rep.count("gsde:" + ("off" if not case["use_sde"] else "warmup" if case["sde_warmup"] else "on"))
    rep.count(f"learn_calls:{len(case['calls'])}")
    for m in case.get("info_modes") or ["fresh"] * case["n_envs"]:
        rep.count(f"env_info:{m}")
    if any(c["reset"] is False for c in case["calls"][1:]):
        rep.count("continued_learn_without_reset")
    if any(c["reset"] for c in case["calls"][1:]):
        rep.count("later_learn_with_reset")
    ls = case["learning_starts"]
    rep.count("learning_starts:" + ("0" if ls == 0 else "all-warmup" if ls >= 100 else "mixed"))
    if case["buffer_size"] // case["n_envs"] < 60:
        rep.count("small_ring")


def check_cases(ctx, cases):
    rep = ctx.report
    ops, plan = [], []
    for case in cases:
        k = case["kind"]
        rep.count(f"kind:{k}")
        if k in ("act_exact", "act_float"):
            r = guarded(ctx, case, lambda: run_act(ctx, case))
            clip_active = False
            if r is not None and case["noise"] is not None and case["act"]["kind"] == "box":
                clip_active = bool(np.any(np.abs(r["buffer"]) >= 1.0))
            rep.case(case, case if clip_active else None)
            rep.count("act:" + ("discrete" if case["act"]["kind"] != "box" else "noise" if case["noise"] else "no-noise"))
            if r is None:
                continue
            o = act_ops(case)
            plan.append((case, r, len(ops), len(o)))
            ops.extend(o)
        else:
            if k == "kc04b":
                try:
                    r = run_learn(ctx, case)
                except ValueError as e:
                    r = None
                    if "broadcast" in str(e):
                        rep.violation("VecNormalize below VecTransposeImage: _store_transition hands get_original_obs() "
                                      "(the batch before the transposition) to the replay buffer, whose observation "
                                      "space is the transposed one: replay_buffer.add raises", case,
                                      {"kind": "vecnormalize_below_transpose_original_obs_layout"}, {"error": str(e)[:300]})
                    else:
                        rep.violation("unexpected exception from the implementation on a valid input", case,
                                      {"exception": "ValueError"}, {"error": str(e)[:600]})
                except Exception as e:  # noqa
                    r = None
                    rep.violation("unexpected exception from the implementation on a valid input", case,
                                  {"exception": type(e).__name__}, {"error": str(e)[:600]})
            else:
                r = guarded(ctx, case, lambda: run_learn(ctx, case))
            if r is None:
                rep.case(case, None)
                continue
            info = guarded(ctx, case, lambda: oracle_learn(ctx, case, r),
                           what="the harness could not interpret what the implementation did")
            nt = info is not None and info["term"] >= 1 and info["trunc"] >= 1
            rep.case(case, case if nt else None)
            describe(rep, case)
            if info is not None:
                rep.count("env_steps", info["N"])
                rep.count("stored_terminations", info["term"])
                rep.count("stored_truncations", info["trunc"])
                if info["known"]:
                    rep.count("rows_with_clipped_terminal_obs", info["known"])
            op = guarded(ctx, case, lambda: learn_op(case, r), what="the harness could not interpret what the implementation did")
            if op is None:
                continue
            plan.append((case, r, len(ops), 1))
            ops.append(op)
    outs = ctx.lean.run(ops)
    for case, r, i, cnt in plan:
        if case["kind"] in ("act_exact", "act_float"):
            cmp_act(ctx, case, r, outs[i:i + cnt])
        else:
            if outs[i] is None:
                continue
            guarded(ctx, case, lambda: cmp_learn(ctx, case, r, outs[i]),
                    what="the harness could not interpret what the implementation did")
