/-
Helper lemmas for C04 (model: `SB3Verif/Model/OffPolicy.lean`).
-/
import SB3Verif.Model.OffPolicy
import Mathlib.Tactic.Ring
import Mathlib.Tactic.Linarith
import Mathlib.Tactic.FieldSimp
import Mathlib.Algebra.Order.Field.Basic

set_option linter.unusedSectionVars false
set_option linter.unusedVariables false

namespace SB3Verif.Lemmas.OffPolicy

open SB3Verif.OffPolicy

/-! ## Predicates used in the statements -/

/-- three vectors of the same length whose entries are related position by position -/
inductive All3 {β : Type} (P : β → β → β → Prop) : List β → List β → List β → Prop
  | nil : All3 P [] [] []
  | cons {a b c : β} {as bs cs : List β} : P a b c → All3 P as bs cs → All3 P (a :: as) (b :: bs) (c :: cs)

section Field

variable {α : Type} [Field α] [LinearOrder α] [IsStrictOrderedRing α]

/-- `v` lies in the box `[low, high]`, dimension by dimension (and has its length) -/
def InBox (low high v : List α) : Prop := All3 (fun l h x => l ≤ x ∧ x ≤ h) low high v

/-- a proper box: same number of lower and upper bounds, `low < high` in every dimension -/
def ProperBox (low high : List α) : Prop := List.Forall₂ (· < ·) low high

/-- every entry lies in `[-1, 1]` -/
def InUnit (v : List α) : Prop := ∀ x ∈ v, -1 ≤ x ∧ x ≤ 1

/-! ## Scalars -/

theorem two_ne : (1 + 1 : α) ≠ 0 := by
  have : (0 : α) < 1 + 1 := by linarith [zero_lt_one (α := α)]
  exact ne_of_gt this

theorem clip_mem (x lo hi : α) (h : lo ≤ hi) : lo ≤ clip x lo hi ∧ clip x lo hi ≤ hi := by
  unfold clip
  dsimp only
  constructor <;> split_ifs <;> linarith

theorem clip_eq_self (x lo hi : α) (h1 : lo ≤ x) (h2 : x ≤ hi) : clip x lo hi = x := by
  unfold clip
  dsimp only
  split_ifs <;> first | rfl | linarith

theorem scale_mem (low high a : α) (h : low < high) (h1 : low ≤ a) (h2 : a ≤ high) :
    -1 ≤ scaleAction low high a ∧ scaleAction low high a ≤ 1 := by
  unfold scaleAction
  have hd : 0 < high - low := by linarith
  have h0 : 0 ≤ (a - low) / (high - low) := div_nonneg (by linarith) hd.le
  have h1' : (a - low) / (high - low) ≤ 1 := by
    rw [div_le_one hd]; linarith
  constructor <;> linarith

theorem unscaleRaw_mem (low high s : α) (h : low ≤ high) (h1 : -1 ≤ s) (h2 : s ≤ 1) :
    low ≤ unscaleRaw low high s ∧ unscaleRaw low high s ≤ high := by
  unfold unscaleRaw
  have hd : 0 ≤ high - low := by linarith
  have e : (1 / (1 + 1) : α) * (s + 1) * (high - low) = ((s + 1) / 2) * (high - low) := by
    have : (1 + 1 : α) = 2 := one_add_one_eq_two
    rw [this]; ring
  rw [e]
  have a0 : 0 ≤ (s + 1) / 2 := by linarith
  have a1 : (s + 1) / 2 ≤ 1 := by linarith
  constructor
  · nlinarith [mul_nonneg a0 hd]
  · nlinarith [mul_le_mul_of_nonneg_right a1 hd]

theorem unscaleRaw_scale (low high a : α) (h : low < high) :
    unscaleRaw low high (scaleAction low high a) = a := by
  unfold unscaleRaw scaleAction
  have hd : high - low ≠ 0 := by
    have : 0 < high - low := by linarith
    exact ne_of_gt this
  have h2 := two_ne (α := α)
  field_simp
  ring

theorem scale_unscaleRaw (low high s : α) (h : low < high) :
    scaleAction low high (unscaleRaw low high s) = s := by
  unfold unscaleRaw scaleAction
  have hd : high - low ≠ 0 := by
    have : 0 < high - low := by linarith
    exact ne_of_gt this
  have h2 := two_ne (α := α)
  field_simp
  ring

theorem unscale_eq_raw (low high s : α) (h : low ≤ high) (h1 : -1 ≤ s) (h2 : s ≤ 1) :
    unscaleAction low high s = unscaleRaw low high s := by
  unfold unscaleAction
  have := unscaleRaw_mem low high s h h1 h2
  exact clip_eq_self _ _ _ this.1 this.2

theorem unscale_mem (low high s : α) (h : low ≤ high) :
    low ≤ unscaleAction low high s ∧ unscaleAction low high s ≤ high :=
  clip_mem _ _ _ h

theorem unscale_scale (low high a : α) (h : low < high) (h1 : low ≤ a) (h2 : a ≤ high) :
    unscaleAction low high (scaleAction low high a) = a := by
  have m := scale_mem low high a h h1 h2
  rw [unscale_eq_raw low high _ h.le m.1 m.2, unscaleRaw_scale low high a h]

theorem scale_unscale (low high s : α) (h : low < high) (h1 : -1 ≤ s) (h2 : s ≤ 1) :
    scaleAction low high (unscaleAction low high s) = s := by
  rw [unscale_eq_raw low high s h.le h1 h2, scale_unscaleRaw low high s h]

theorem addNoise_mem (s e : α) : -1 ≤ addNoise s e ∧ addNoise s e ≤ 1 :=
  clip_mem _ _ _ (by linarith [zero_lt_one (α := α)])

/-- normalising then un-normalising gives the value back when the clip is not active -/
theorem unnorm_norm (mean sd c x : α) (hs : sd ≠ 0) (h1 : -c ≤ (x - mean) / sd) (h2 : (x - mean) / sd ≤ c) :
    unnormWith mean sd (normWith mean sd c x) = x := by
  unfold unnormWith normWith
  rw [clip_eq_self _ _ _ h1 h2]
  field_simp
  ring

/-- when the clip is active the stored value is the clip bound mapped back, not the value -/
theorem unnorm_norm_clipped_hi (mean sd c x : α) (hc : 0 ≤ c) (h : c < (x - mean) / sd) :
    unnormWith mean sd (normWith mean sd c x) = c * sd + mean := by
  unfold unnormWith normWith clip
  dsimp only
  have : ¬ (x - mean) / sd < -c := by linarith
  rw [if_neg this, if_pos h]

/-! ## Vectors -/

theorem map3_unscale_inBox (low high s : List α) (hb : ProperBox low high) (hl : s.length = low.length) :
    InBox low high (map3 unscaleAction low high s) := by
  unfold ProperBox at hb
  induction hb generalizing s with
  | nil =>
    cases s with
    | nil => exact All3.nil
    | cons _ _ => simp at hl
  | @cons l h ls hs hlt _ ih =>
    cases s with
    | nil => simp at hl
    | cons x xs =>
      simp only [map3]
      exact All3.cons (unscale_mem l h x hlt.le) (ih xs (by simpa using hl))

theorem map3_scale_inUnit (low high u : List α) (hb : ProperBox low high) (hu : InBox low high u) :
    InUnit (map3 scaleAction low high u) := by
  unfold InBox at hu
  induction hu with
  | nil => intro x hx; simp [map3] at hx
  | @cons l h x ls hs xs hx _ ih =>
    cases hb with
    | cons hlt hrest =>
      intro y hy
      simp only [map3, List.mem_cons] at hy
      rcases hy with rfl | hy
      · exact scale_mem l h x hlt hx.1 hx.2
      · exact ih hrest y hy

theorem map3_unscale_scale (low high u : List α) (hb : ProperBox low high) (hu : InBox low high u) :
    map3 unscaleAction low high (map3 scaleAction low high u) = u := by
  unfold InBox at hu
  induction hu with
  | nil => simp [map3]
  | @cons l h x ls hs xs hx _ ih =>
    cases hb with
    | cons hlt hrest =>
      simp only [map3]
      rw [unscale_scale l h x hlt hx.1 hx.2, ih hrest]

theorem map3_length {β : Type} (f : α → α → α → β) (a b c : List α) (h1 : b.length = a.length)
    (h2 : c.length = a.length) : (map3 f a b c).length = a.length := by
  induction a generalizing b c with
  | nil => cases b <;> cases c <;> simp [map3]
  | cons x xs ih =>
    cases b with
    | nil => simp at h1
    | cons y ys =>
      cases c with
      | nil => simp at h2
      | cons z zs =>
        simp only [map3, List.length_cons]
        rw [ih ys zs (by simpa using h1) (by simpa using h2)]

theorem zipWith_addNoise_inUnit (s e : List α) : InUnit (List.zipWith addNoise s e) := by
  intro x hx
  induction s generalizing e with
  | nil => simp at hx
  | cons a as ih =>
    cases e with
    | nil => simp at hx
    | cons b bs =>
      simp only [List.zipWith_cons_cons, List.mem_cons] at hx
      rcases hx with rfl | hx
      · exact addNoise_mem a b
      · exact ih bs hx

/-- no normalised coordinate of `o` is outside the clip range of the statistics (and every `sqrt(var+eps)` is
non-zero): the condition under which `VecNormalize` loses nothing -/
def CoordsUnclipped (c : α) : List (Option (α × α)) → List α → Prop
  | some (m, s) :: st, x :: xs => (s ≠ 0 ∧ -c ≤ (x - m) / s ∧ (x - m) / s ≤ c) ∧ CoordsUnclipped c st xs
  | none :: st, _ :: xs => CoordsUnclipped c st xs
  | [], _ => True
  | _ :: _, [] => True

theorem unnormCoords_normCoords (c : α) (st : List (Option (α × α))) (o : List α) (h : CoordsUnclipped c st o) :
    unnormCoords st (normCoords c st o) = o := by
  induction st generalizing o with
  | nil => simp [normCoords, unnormCoords]
  | cons e st ih =>
    cases o with
    | nil => cases e <;> simp [normCoords, unnormCoords]
    | cons x xs =>
      cases e with
      | none =>
        simp only [CoordsUnclipped] at h
        simp only [normCoords, unnormCoords, ih xs h]
      | some ms =>
        obtain ⟨m, s⟩ := ms
        simp only [CoordsUnclipped] at h
        simp only [normCoords, unnormCoords, ih xs h.2, unnorm_norm m s c x h.1.1 h.1.2.1 h.1.2.2]

/-- `VecNormalize` loses nothing on the observation `o` under the statistics `z` -/
def Unclipped (z : Normalizer α) (o : List α) : Prop := CoordsUnclipped z.clipObs z.stats o

theorem unnormObs_normObs (z : Normalizer α) (o : List α) (h : Unclipped z o) :
    z.unnormObs (z.normObs o) = o :=
  unnormCoords_normCoords z.clipObs z.stats o h

end Field

/-! ## The mechanism (no arithmetic: any scalar type with the operations) -/

section Mechanism

variable {α : Type} [Add α] [Sub α] [Mul α] [Div α] [Neg α] [One α] [LT α] [DecidableLT α]

/-- the terminal observations of this step survive `VecNormalize`'s normalise / un-normalise round trip
(no clipping, see `unnorm_norm`); vacuous without `VecNormalize` -/
def TermRoundTrip (x : StepIn α) : Prop :=
  ∀ z, x.nz = some z → ∀ r ∈ x.raws, r.done = true → z.unnormObs (z.normObs r.obs) = r.obs

/-- under `VecNormalize` the outer observation wrapper changes nothing (there is none): the condition under which
`get_original_obs()` — the batch *below* the outer wrapper — is what the replay buffer expects -/
def PostTrivialUnderVN (cfg : Cfg α) : Prop := cfg.vecNormalize = true → ∀ o, cfg.post o = o

/-- the raw observation the next action is computed from -/
def origObs (cfg : Cfg α) (st : St α) : List (List α) :=
  if cfg.vecNormalize then st.lastOrigObs else st.lastObs

/-- what the policy sees of a raw observation batch under the statistics `z` -/
def viewOf (z : Option (Normalizer α)) (obs : List (List α)) : List (List α) :=
  match z with
  | none => obs
  | some z => obs.map z.normObs

/-! ### `nextObsOf` over the two layers -/

theorem mapTerm_id (f : List α → List α) (hf : ∀ o, f o = o) (ds : List Bool) (is : List (Info α)) :
    mapTerm f ds is = is := by
  induction is generalizing ds with
  | nil => cases ds <;> simp [mapTerm]
  | cons i is ih =>
    cases ds with
    | nil => simp [mapTerm]
    | cons d ds =>
      simp only [mapTerm, ih, List.cons.injEq, and_true]
      cases d
      · simp
      · cases i with
        | mk t tmo => cases t <;> simp [hf]

theorem mapTerm_timeout (f : List α → List α) (ds : List Bool) (is : List (Info α)) :
    (mapTerm f ds is).map (·.timeout) = is.map (·.timeout) := by
  induction is generalizing ds with
  | nil => cases ds <;> simp [mapTerm]
  | cons i is ih =>
    cases ds with
    | nil => simp [mapTerm]
    | cons d ds =>
      simp only [mapTerm, List.map_cons, ih, List.cons.injEq, and_true]
      cases d <;> simp

theorem nextObsOf_dummy (f : List α → List α) (raws : List (RawStep α)) :
    nextObsOf none (postStep f (dummyStep raws)).obs (postStep f (dummyStep raws)).dones
      (postStep f (dummyStep raws)).infos = raws.map (fun r => f r.obs) := by
  simp only [dummyStep, postStep, List.map_map]
  induction raws with
  | nil => simp [nextObsOf, mapTerm]
  | cons r rs ih =>
    simp only [List.map_cons, nextObsOf, mapTerm, Function.comp]
    rw [ih]
    cases h : r.done <;> simp

theorem nextObsOf_vn (z : Normalizer α) (raws : List (RawStep α))
    (h : ∀ r ∈ raws, r.done = true → z.unnormObs (z.normObs r.obs) = r.obs) :
    nextObsOf (some z) (vnStep z (dummyStep raws)).oldObs (vnStep z (dummyStep raws)).out.dones
      (vnStep z (dummyStep raws)).out.infos = raws.map (·.obs) := by
  simp only [dummyStep, vnStep, List.map_map]
  induction raws with
  | nil => simp [nextObsOf, mapTerm]
  | cons r rs ih =>
    simp only [List.map_cons, nextObsOf, mapTerm]
    rw [ih (fun r' hr' => h r' (List.mem_cons_of_mem _ hr'))]
    cases hd : r.done
    · simp
    · simp [h r (List.mem_cons_self) hd]

theorem postStep_id (f : List α → List α) (hf : ∀ o, f o = o) (vo : VecOut α) : postStep f vo = vo := by
  cases vo with
  | mk obs rews dones infos =>
    simp only [postStep, mapTerm_id f hf, VecOut.mk.injEq, and_true]
    have hf' : f = id := funext hf
    subst hf'
    simp

theorem map_id' (f : List α → List α) (hf : ∀ o, f o = o) (l : List (List α)) : l.map f = l := by
  have hf' : f = id := funext hf
  subst hf'
  simp

/-! ### the sub-environments' own record -/

theorem transitions_length (cs as : List (List α)) (rs : List (RawStep α))
    (h1 : cs.length = rs.length) (h2 : as.length = rs.length) : (transitions cs as rs).length = rs.length := by
  induction rs generalizing cs as with
  | nil => cases cs <;> cases as <;> simp_all [transitions]
  | cons r rs ih =>
    cases cs with
    | nil => simp at h1
    | cons c cs =>
      cases as with
      | nil => simp at h2
      | cons a as =>
        simp only [transitions, List.length_cons]
        rw [ih cs as (by simpa using h1) (by simpa using h2)]

theorem transitions_spec (f : List α → List α) (cs as : List (List α)) (rs : List (RawStep α))
    (h1 : cs.length = rs.length) (h2 : as.length = rs.length) :
    specCore f (transitions cs as rs) =
        ⟨cs.map f, rs.map (fun r => f r.obs), rs.map (·.rew), rs.map (·.done),
         rs.map (fun r => r.trunc && !r.term)⟩ ∧
      (transitions cs as rs).map (·.action) = as := by
  induction rs generalizing cs as with
  | nil =>
    cases cs <;> cases as <;> simp_all [transitions, specCore]
  | cons r rs ih =>
    cases cs with
    | nil => simp at h1
    | cons c cs =>
      cases as with
      | nil => simp at h2
      | cons a as =>
        have := ih cs as (by simpa using h1) (by simpa using h2)
        simp only [specCore, Core.mk.injEq] at this
        obtain ⟨⟨e1, e2, e3, e4, e5⟩, e6⟩ := this
        simp only [transitions, specCore, List.map_cons, Core.mk.injEq, List.cons.injEq, true_and, RawStep.done]
        exact ⟨⟨e1, e2, e3, e4, e5⟩, e6⟩

theorem sampleActions_length (sp : ActSpace α) (noise : Option (List (List α))) (us : List (List α))
    (h : ∀ es, noise = some es → es.length = us.length) :
    (sampleActions sp noise us).length = us.length := by
  cases noise with
  | none => simp [sampleActions]
  | some es => simp [sampleActions, h es rfl]

/-! ### one loop iteration -/

theorem wf_unpack (cfg : Cfg α) (x : StepIn α) (h : x.wf cfg = true) :
    x.u.length = cfg.nEnvs ∧ x.raws.length = cfg.nEnvs ∧ (∀ es, x.noise = some es → es.length = cfg.nEnvs) ∧
      x.nz.isSome = cfg.vecNormalize := by
  unfold StepIn.wf at h
  simp only [Bool.and_eq_true, beq_iff_eq] at h
  obtain ⟨⟨⟨⟨h1, h2⟩, h3⟩, _⟩, h5⟩ := h
  refine ⟨h1, h2, ?_, h5⟩
  intro es hes
  rw [hes] at h3
  simp only [Bool.and_eq_true, beq_iff_eq] at h3
  exact h3.1

/-- the fields of the row one iteration hands to `replay_buffer.add`, and the attributes afterwards -/
theorem body_spec (cfg : Cfg α) (st : St α) (x : StepIn α) (hwf : x.wf cfg = true) (hrt : TermRoundTrip x)
    (hp : PostTrivialUnderVN cfg) :
    let r := body cfg st x
    r.2.row.obs = origObs cfg st ∧
    r.2.row.nextObs = x.raws.map (fun r => cfg.post r.obs) ∧
    r.2.row.reward = x.raws.map (·.rew) ∧
    r.2.row.done = x.raws.map (·.done) ∧
    r.2.row.timeout = x.raws.map (fun r => r.trunc && !r.term) ∧
    r.2.policyInput = st.lastObs ∧
    origObs cfg r.1 = (x.raws.map (fun r => if r.done then r.resetObs else r.obs)).map cfg.post ∧
    r.1.lastObs = viewOf x.nz (origObs cfg r.1) ∧
    r.1.started = st.started ∧
    r.1.numTimesteps = st.numTimesteps + cfg.nEnvs ∧
    r.1.trace = st.trace ++ [r.2] ∧
    r.2.action = (sampleActions cfg.space x.noise x.u).map (·.1) ∧
    r.2.row.action = (sampleActions cfg.space x.noise x.u).map (·.2) := by
  obtain ⟨_, _, _, hz⟩ := wf_unpack cfg x hwf
  cases hnz : x.nz with
  | none =>
    have hv : cfg.vecNormalize = false := by rw [← hz, hnz]; rfl
    simp only [body, hnz, storeTransition, origObs, hv, viewOf]
    refine ⟨?_, ?_, ?_, ?_, ?_, ?_, ?_, ?_, ?_, ?_, ?_, ?_, ?_⟩
    case refine_2 => exact nextObsOf_dummy cfg.post x.raws
    all_goals first | trivial | rfl | simp [dummyStep, postStep, mapTerm_timeout]
  | some z =>
    have hv : cfg.vecNormalize = true := by rw [← hz, hnz]; rfl
    have hid := hp hv
    simp only [body, hnz, storeTransition, origObs, hv, viewOf, postStep_id cfg.post hid, map_id' cfg.post hid]
    have hfun : (fun r : RawStep α => cfg.post r.obs) = fun r => r.obs := funext fun r => hid r.obs
    rw [hfun]
    refine ⟨?_, ?_, ?_, ?_, ?_, ?_, ?_, ?_, ?_, ?_, ?_, ?_, ?_⟩
    case refine_2 => exact nextObsOf_vn z x.raws (hrt z hnz)
    all_goals first | trivial | rfl | simp [dummyStep, vnStep, mapTerm_timeout]

/-! ### the loops are folds of the body over a prefix of the stream -/

theorem collect_fold (cfg : Cfg α) (a b : Nat) (s : Sys α) (xs : List (StepIn α)) :
    ∃ pre, pre ++ (collect cfg a b s xs).2 = xs ∧ (collect cfg a b s xs).1 = pre.foldl (bodyS cfg) s := by
  induction xs generalizing a b s with
  | nil => exact ⟨[], by simp [collect]⟩
  | cons x xs ih =>
    simp only [collect]
    split
    · obtain ⟨pre, h1, h2⟩ := ih (a + 1) (b + countDones x) (bodyS cfg s x)
      exact ⟨x :: pre, by simp [h1], by simp [h2]⟩
    · exact ⟨[], by simp⟩

theorem learnLoop_fold (cfg : Cfg α) (total fuel : Nat) (s : Sys α) (xs : List (StepIn α)) :
    ∃ pre, pre ++ (learnLoop cfg total fuel s xs).2 = xs ∧
      (learnLoop cfg total fuel s xs).1 = pre.foldl (bodyS cfg) s := by
  induction fuel generalizing s xs with
  | zero => exact ⟨[], by simp [learnLoop]⟩
  | succ n ih =>
    simp only [learnLoop]
    split
    · obtain ⟨p1, h1, h2⟩ := collect_fold cfg 0 0 s xs
      obtain ⟨p2, h3, h4⟩ := ih (collect cfg 0 0 s xs).1 (collect cfg 0 0 s xs).2
      refine ⟨p1 ++ p2, ?_, ?_⟩
      · rw [List.append_assoc, h3, h1]
      · rw [h4, h2, List.foldl_append]
    · exact ⟨[], by simp⟩

/-! ### the invariant tying the mechanism to the sub-environments' own record -/

structure Inv (cfg : Cfg α) (s : Sys α) : Prop where
  /-- the raw observation the next action is computed from is every sub-environment's current one -/
  cur : s.st.started = true → origObs cfg s.st = s.w.cur.map cfg.post ∧ s.w.cur.length = cfg.nEnvs
  /-- the add log equals the sub-environments' record, row by row -/
  rows : s.st.trace.map (fun o => o.row.core) = s.w.log.map (specCore cfg.post)
  /-- the actions handed to `env.step` are the ones the sub-environments received -/
  acts : s.st.trace.map (·.action) = s.w.log.map (fun ts => ts.map (·.action))
  /-- the policy saw the stored observation (through `VecNormalize`'s statistics of that moment, if any) -/
  view : ∀ o ∈ s.st.trace, ∃ z : Option (Normalizer α),
    (cfg.vecNormalize = false → z = none) ∧ o.policyInput = viewOf z o.row.obs
  last : s.st.started = true → ∃ z : Option (Normalizer α),
    (cfg.vecNormalize = false → z = none) ∧ s.st.lastObs = viewOf z (origObs cfg s.st)
  /-- every vectorised step recorded one transition per sub-environment -/
  logLen : ∀ ts ∈ s.w.log, ts.length = cfg.nEnvs
  /-- stored action and env action of a step come from the same `_sample_action` call -/
  paired : ∀ o ∈ s.st.trace, ∃ (noise : Option (List (List α))) (us : List (List α)),
    o.action = (sampleActions cfg.space noise us).map (·.1) ∧
    o.row.action = (sampleActions cfg.space noise us).map (·.2)

theorem inv_init (cfg : Cfg α) : Inv cfg (Sys.init : Sys α) :=
  ⟨by simp [Sys.init, St.init], by simp [Sys.init, St.init, World.init],
   by simp [Sys.init, St.init, World.init], by simp [Sys.init, St.init], by simp [Sys.init, St.init],
   by simp [Sys.init, World.init], by simp [Sys.init, St.init]⟩

theorem inv_bodyS (cfg : Cfg α) (s : Sys α) (x : StepIn α) (hi : Inv cfg s) (hs : s.st.started = true)
    (hwf : x.wf cfg = true) (hrt : TermRoundTrip x) (hp : PostTrivialUnderVN cfg) :
    Inv cfg (bodyS cfg s x) ∧ (bodyS cfg s x).st.started = true := by
  obtain ⟨hu, hr, hn, hz⟩ := wf_unpack cfg x hwf
  have sp := body_spec cfg s.st x hwf hrt hp
  simp only at sp
  obtain ⟨b1, b2, b3, b4, b5, b6, b7, b8, b9, _, b11, b12, b13⟩ := sp
  obtain ⟨hc, hcl⟩ := hi.cur hs
  have hal : (body cfg s.st x).2.action.length = x.raws.length := by
    rw [b12, List.length_map, sampleActions_length _ _ _ (fun es h => by rw [hn es h, hu]), hu, hr]
  have tr := transitions_spec cfg.post s.w.cur (body cfg s.st x).2.action x.raws (by rw [hcl, hr]) hal
  have hcore : (body cfg s.st x).2.row.core =
      specCore cfg.post (transitions s.w.cur (body cfg s.st x).2.action x.raws) := by
    rw [tr.1]
    simp only [Row.core, b1, b2, b3, b4, b5, hc]
  refine ⟨⟨?_, ?_, ?_, ?_, ?_, ?_, ?_⟩, ?_⟩
  · intro _
    simp only [bodyS, World.step]
    exact ⟨b7, by rw [List.length_map, hr]⟩
  · simp only [bodyS, World.step, b11, List.map_append, List.map_cons, List.map_nil, hi.rows, hcore]
  · simp only [bodyS, World.step, b11, List.map_append, List.map_cons, List.map_nil, hi.acts, tr.2]
  · intro o ho
    simp only [bodyS, b11, List.mem_append, List.mem_singleton] at ho
    rcases ho with ho | rfl
    · exact hi.view o ho
    · obtain ⟨z, hz1, hz2⟩ := hi.last hs
      exact ⟨z, hz1, by rw [b6, b1, hz2]⟩
  · intro _
    refine ⟨x.nz, ?_, ?_⟩
    · intro hv
      rw [hv] at hz
      cases hx : x.nz with
      | none => rfl
      | some z => rw [hx] at hz; simp at hz
    · simp only [bodyS]
      exact b8
  · intro ts hts
    simp only [bodyS, World.step, List.mem_append, List.mem_singleton] at hts
    rcases hts with hts | rfl
    · exact hi.logLen ts hts
    · rw [transitions_length _ _ _ (by rw [hcl, hr]) hal, hr]
  · intro o ho
    simp only [bodyS, b11, List.mem_append, List.mem_singleton] at ho
    rcases ho with ho | rfl
    · exact hi.paired o ho
    · exact ⟨x.noise, x.u, b12, b13⟩
  · simp only [bodyS]
    rw [b9, hs]

theorem inv_foldl (cfg : Cfg α) (pre : List (StepIn α)) (s : Sys α) (hi : Inv cfg s) (hs : s.st.started = true)
    (hwf : ∀ x ∈ pre, x.wf cfg = true) (hrt : ∀ x ∈ pre, TermRoundTrip x) (hp : PostTrivialUnderVN cfg) :
    Inv cfg (pre.foldl (bodyS cfg) s) ∧ (pre.foldl (bodyS cfg) s).st.started = true := by
  induction pre generalizing s with
  | nil => exact ⟨hi, hs⟩
  | cons x xs ih =>
    obtain ⟨h1, h2⟩ := inv_bodyS cfg s x hi hs (hwf x List.mem_cons_self) (hrt x List.mem_cons_self) hp
    simp only [List.foldl_cons]
    exact ih (bodyS cfg s x) h1 h2 (fun y hy => hwf y (List.mem_cons_of_mem _ hy))
      (fun y hy => hrt y (List.mem_cons_of_mem _ hy))

/-- all the steps of a call meet the round-trip condition -/
def CallRoundTrip (c : Call α) : Prop := ∀ x ∈ c.steps, TermRoundTrip x

theorem call_wf_unpack (cfg : Cfg α) (c : Call α) (h : c.wf cfg = true) :
    c.resetObs.length = cfg.nEnvs ∧ c.resetNz.isSome = cfg.vecNormalize ∧ ∀ x ∈ c.steps, x.wf cfg = true := by
  unfold Call.wf at h
  simp only [Bool.and_eq_true, beq_iff_eq, List.all_eq_true] at h
  exact ⟨h.1.1, h.1.2, h.2⟩

theorem inv_setupLearn (cfg : Cfg α) (s : Sys α) (c : Call α) (hi : Inv cfg s) (hwf : c.wf cfg = true)
    (hp : PostTrivialUnderVN cfg) :
    Inv cfg (setupLearn cfg s c).1 ∧ (setupLearn cfg s c).1.st.started = true := by
  obtain ⟨hl, hz, _⟩ := call_wf_unpack cfg c hwf
  unfold setupLearn
  dsimp only
  split
  · cases hnz : c.resetNz with
    | none =>
      have hv : cfg.vecNormalize = false := by rw [← hz, hnz]; rfl
      refine ⟨⟨?_, hi.rows, hi.acts, hi.view, ?_, hi.logLen, hi.paired⟩, rfl⟩
      · intro _; simp [origObs, hv, World.reset, hl]
      · intro _; exact ⟨none, fun _ => rfl, by simp [origObs, hv, viewOf]⟩
    | some z =>
      have hv : cfg.vecNormalize = true := by rw [← hz, hnz]; rfl
      have hid := hp hv
      refine ⟨⟨?_, hi.rows, hi.acts, hi.view, ?_, hi.logLen, hi.paired⟩, rfl⟩
      · intro _; simp [origObs, hv, World.reset, hl, map_id' cfg.post hid]
      · intro _
        exact ⟨some z, fun h => by rw [hv] at h; simp at h, by simp [origObs, hv, viewOf, map_id' cfg.post hid]⟩
  · rename_i hcond
    have hst : s.st.started = true := by
      cases hs : s.st.started
      · simp [hs] at hcond
      · rfl
    refine ⟨⟨?_, hi.rows, hi.acts, hi.view, ?_, hi.logLen, hi.paired⟩, hst⟩
    · intro _; exact hi.cur hst
    · intro _; exact hi.last hst

theorem inv_runCall (cfg : Cfg α) (s : Sys α) (c : Call α) (hi : Inv cfg s) (hwf : c.wf cfg = true)
    (hrt : CallRoundTrip c) (hp : PostTrivialUnderVN cfg) : Inv cfg (runCall cfg s c).1 := by
  obtain ⟨_, _, hx⟩ := call_wf_unpack cfg c hwf
  obtain ⟨h1, h2⟩ := inv_setupLearn cfg s c hi hwf hp
  unfold runCall
  dsimp only
  obtain ⟨pre, hpre, hf⟩ :=
    learnLoop_fold cfg (setupLearn cfg s c).2 (c.steps.length + 1) (setupLearn cfg s c).1 c.steps
  rw [hf]
  have hsub : ∀ x ∈ pre, x ∈ c.steps := fun x hx' => by rw [← hpre]; exact List.mem_append_left _ hx'
  exact (inv_foldl cfg pre _ h1 h2 (fun x hx' => hx x (hsub x hx')) (fun x hx' => hrt x (hsub x hx')) hp).1

theorem inv_run_from (cfg : Cfg α) (calls : List (Call α)) (s : Sys α) (hi : Inv cfg s)
    (hwf : ∀ c ∈ calls, c.wf cfg = true) (hrt : ∀ c ∈ calls, CallRoundTrip c) (hp : PostTrivialUnderVN cfg) :
    Inv cfg (calls.foldl (fun s c => (runCall cfg s c).1) s) := by
  induction calls generalizing s with
  | nil => exact hi
  | cons c cs ih =>
    simp only [List.foldl_cons]
    exact ih _ (inv_runCall cfg s c hi (hwf c List.mem_cons_self) (hrt c List.mem_cons_self) hp)
      (fun d hd => hwf d (List.mem_cons_of_mem _ hd)) (fun d hd => hrt d (List.mem_cons_of_mem _ hd))

theorem inv_run (cfg : Cfg α) (calls : List (Call α)) (hwf : ∀ c ∈ calls, c.wf cfg = true)
    (hrt : ∀ c ∈ calls, CallRoundTrip c) (hp : PostTrivialUnderVN cfg) : Inv cfg (run cfg calls) :=
  inv_run_from cfg calls Sys.init (inv_init cfg) hwf hrt hp

theorem postTrivial_of_no_vn (cfg : Cfg α) (hv : cfg.vecNormalize = false) : PostTrivialUnderVN cfg := by
  intro h; rw [hv] at h; simp at h

/-- without `VecNormalize` the round-trip condition is vacuous -/
theorem roundTrip_of_no_vn (cfg : Cfg α) (c : Call α) (hv : cfg.vecNormalize = false) (hwf : c.wf cfg = true) :
    CallRoundTrip c := by
  obtain ⟨_, _, hx⟩ := call_wf_unpack cfg c hwf
  intro x hxm z hz
  obtain ⟨_, _, _, h⟩ := wf_unpack cfg x (hx x hxm)
  rw [hz, hv] at h
  simp at h

/-! ### noise reset indices -/

theorem mem_trueIdx (k : Nat) (ds : List Bool) (i : Nat) :
    i ∈ trueIdx k ds ↔ k ≤ i ∧ ds[i - k]? = some true := by
  induction ds generalizing k with
  | nil => simp [trueIdx]
  | cons d ds ih =>
    cases d
    · simp only [trueIdx, ih]
      constructor
      · rintro ⟨h1, h2⟩
        refine ⟨by omega, ?_⟩
        have : i - k = (i - (k + 1)) + 1 := by omega
        rw [this]; simpa using h2
      · rintro ⟨h1, h2⟩
        have hne : i ≠ k := by
          intro h; subst h; simp at h2
        refine ⟨by omega, ?_⟩
        have : i - k = (i - (k + 1)) + 1 := by omega
        rw [this] at h2; simpa using h2
    · simp only [trueIdx, List.mem_cons, ih]
      constructor
      · rintro (rfl | ⟨h1, h2⟩)
        · simp
        · refine ⟨by omega, ?_⟩
          have : i - k = (i - (k + 1)) + 1 := by omega
          rw [this]; simpa using h2
      · rintro ⟨h1, h2⟩
        by_cases h : i = k
        · exact Or.inl h
        · right
          refine ⟨by omega, ?_⟩
          have : i - k = (i - (k + 1)) + 1 := by omega
          rw [this] at h2; simpa using h2

end Mechanism

/-! ## Decidable check of the round-trip condition, and the concrete data used in `Props/C04.lean` -/

section Check

variable {α : Type} [Add α] [Sub α] [Mul α] [Div α] [Neg α] [One α] [LT α] [DecidableLT α] [DecidableEq α]

def termRoundTripB (x : StepIn α) : Bool :=
  match x.nz with
  | none => true
  | some z => x.raws.all fun r => !r.done || decide (z.unnormObs (z.normObs r.obs) = r.obs)

theorem termRoundTrip_of_check (x : StepIn α) (h : termRoundTripB x = true) : TermRoundTrip x := by
  intro z hz r hr hd
  unfold termRoundTripB at h
  rw [hz] at h
  simp only [List.all_eq_true] at h
  have := h r hr
  rw [hd] at this
  simpa using this

theorem callRoundTrip_of_check (c : Call α) (h : c.steps.all termRoundTripB = true) : CallRoundTrip c := by
  intro x hx
  exact termRoundTrip_of_check x (List.all_eq_true.mp h x hx)

end Check

/-- one env, one `learn(1)`; the episode ends at the first step with terminal observation `500`;
`VecNormalize` statistics mean `0`, `sqrt(var+eps) = 1`, `clip_obs = 1` -/
def witnessCfg : Cfg ℚ := ⟨1, .discrete, 0, 1, false, false, true, id⟩
def witnessNz : Normalizer ℚ := ⟨[some (0, 1)], 1, none, 10⟩
def witnessCalls : List (Call ℚ) :=
  [⟨true, 1, [[0]], some witnessNz, [⟨[[0]], none, [⟨[500], 1, true, false, [7], none⟩], some witnessNz⟩]⟩]

/-- two envs, box actions in `[-2, 6]` with noise, two `learn()` calls (the second without counter reset),
`VecNormalize`, a truncation in env 1, a termination in env 0, a `terminated ∧ truncated` end in env 1 -/
def exCfg : Cfg ℚ := ⟨2, .box [-2] [6], 2, 1, false, false, true, id⟩
def exNz : Normalizer ℚ := ⟨[some (100, 50)], 10, some 2, 10⟩
def exCalls : List (Call ℚ) :=
  [ ⟨true, 4, [[0], [100]], some exNz,
      [ ⟨[[2], [6]], some [[1/2], [1/2]], [⟨[1], 1, false, false, [], none⟩, ⟨[101], 2, false, true, [200], none⟩], some exNz⟩,
        ⟨[[0], [-2]], some [[0], [0]], [⟨[2], 3, true, false, [10], none⟩, ⟨[201], -1, false, false, [], none⟩], some exNz⟩ ]⟩,
    ⟨false, 2, [[999], [999]], some exNz,
      [ ⟨[[2], [2]], some [[0], [0]], [⟨[11], 0, false, false, [], some [2]⟩, ⟨[202], 0, true, true, [300], none⟩], some exNz⟩ ]⟩ ]

/-- `VecNormalize` *below* an observation wrapper that re-orders the coordinates (`VecTransposeImage` over a
`VecNormalize`d Dict / image env): one env, observations with two coordinates, the wrapper swaps them; statistics
that normalise nothing (`norm_obs_keys` without the image key) -/
def wrapCfg : Cfg ℚ := ⟨1, .discrete, 0, 1, false, false, true, List.reverse⟩
def wrapNz : Normalizer ℚ := ⟨[none, none], 10, none, 10⟩
def wrapCalls : List (Call ℚ) :=
  [⟨true, 1, [[1, 2]], some wrapNz, [⟨[[0]], none, [⟨[3, 4], 1, false, false, [], none⟩], some wrapNz⟩]⟩]

/-- the same wrapper without `VecNormalize`, with an episode end; the env reuses its info dict, so at the second
step the dict still holds the first episode's terminal observation `[3, 4]` -/
def wrapCfg' : Cfg ℚ := ⟨1, .discrete, 0, 1, false, false, false, List.reverse⟩
def wrapCalls' : List (Call ℚ) :=
  [⟨true, 2, [[1, 2]], none, [⟨[[0]], none, [⟨[3, 4], 1, true, false, [5, 6], none⟩], none⟩,
                              ⟨[[1]], none, [⟨[7, 8], 0, false, false, [], some [3, 4]⟩], none⟩]⟩]

end SB3Verif.Lemmas.OffPolicy
