/-
C08 ∘ C12 — how many target updates a whole training history contains.

`SB3Verif.Learn` (C12) produces, for every history of `learn()` calls and environment steps, the event trace of the
training loop (`Ev.step` = one vectorised environment step after which `_on_step` runs, `Ev.train num opt …` = one
`train()` call with `opt` gradient steps). `SB3Verif.Cadence` (C08) consumes a history of `envStep` / `train G`
operations and says which of them update the target network. `toCtr` feeds the first into the second; the theorems
below count the target updates of a DQN / TD3 / SAC run directly from the C12 trace — for every configuration, every
history, every split into `learn()` calls, every stop request.
-/
import SB3Verif.Lemmas.Learn
import SB3Verif.Lemmas.Cadence
import SB3Verif.Props.C08

namespace SB3Verif.C08C12

open SB3Verif.Cadence

/-- the C08 operations of a C12 event trace: one `envStep` per `step` event, one `train opt` per `train` event (`opt` =
gradient steps of that call); the other events (setup, rollout start / end, progress, finish) touch no counter -/
def toCtr : List Learn.Ev → List CtrOp
  | [] => []
  | .step _ _ :: es => .envStep :: toCtr es
  | .train _ opt _ _ _ :: es => .train opt :: toCtr es
  | _ :: es => toCtr es

/-- number of vectorised environment steps of a trace -/
def stepCount : List Learn.Ev → Nat
  | [] => 0
  | .step _ _ :: es => 1 + stepCount es
  | _ :: es => stepCount es

/-- number of gradient steps of a trace -/
def gradCount : List Learn.Ev → Nat
  | [] => 0
  | .train _ opt _ _ _ :: es => opt + gradCount es
  | _ :: es => gradCount es

theorem totalEnv_toCtr (evs : List Learn.Ev) : totalEnv (toCtr evs) = stepCount evs := by
  induction evs with
  | nil => rfl
  | cons e es ih => cases e <;> simp [toCtr, stepCount, totalEnv, ih]

theorem totalGrad_toCtr (evs : List Learn.Ev) : totalGrad (toCtr evs) = gradCount evs := by
  induction evs with
  | nil => rfl
  | cons e es ih => cases e <;> simp [toCtr, gradCount, totalGrad, ih]

/-- every `step` event advances the counter by `n_envs` (C12's `countsOk`), so the number of vectorised steps of a trace
that begins at counter `cur` and contains no `setup` (one `learn()` call, or several without counter reset) is the
counter's growth divided by `n_envs` -/
def noSetup : List Learn.Ev → Bool
  | [] => true
  | .setup _ _ :: _ => false
  | _ :: es => noSetup es

def lastNum (cur : Nat) : List Learn.Ev → Nat
  | [] => cur
  | .step num _ :: es => lastNum num es
  | _ :: es => lastNum cur es

theorem steps_times_nenvs (n cur : Nat) (evs : List Learn.Ev) (h : Learn.countsOk n cur evs) (hs : noSetup evs = true) :
    lastNum cur evs = cur + n * stepCount evs := by
  induction evs generalizing cur with
  | nil => simp [lastNum, stepCount]
  | cons e es ih =>
    cases e with
    | setup a b => simp [noSetup] at hs
    | step num p =>
      obtain ⟨h1, h2⟩ := h
      have := ih num h2 (by simpa [noSetup] using hs)
      simp only [lastNum, stepCount]
      rw [this, h1]
      ring
    | rolloutStart a b => exact ih cur h (by simpa [noSetup] using hs)
    | progress a b c => exact ih cur h (by simpa [noSetup] using hs)
    | rolloutEnd a b c => exact ih cur h (by simpa [noSetup] using hs)
    | train a b c d e => exact ih cur h (by simpa [noSetup] using hs)
    | finish a b => exact ih cur h (by simpa [noSetup] using hs)

variable {α : Type}

/-- **DQN over a whole training history.** Take ANY C12 history (`ops`: `learn()` calls with or without counter reset, any
environment steps, stop requests, episode ends) of any off- or on-policy configuration `lcfg`, started in any state `s`.
Feed its trace to the C08 counter machine of a DQN with interval `I` on `n_envs` environments, call counter `n_calls₀`.
The number of target-network updates is `⌊(n_calls₀ + K) / p⌋ − ⌊n_calls₀ / p⌋` with `K` the number of vectorised steps
of the trace and `p = max (I / n_envs) 1`; no gradient step updates the target. -/
theorem dqn_updates_of_history (cfg : Cfg α) (h : cfg.algo = .dqn) (c : Ctr)
    (lcfg : Learn.Cfg) (s : Learn.State) (ops : List Learn.Op) :
    let evs := (Learn.run lcfg s ops).2
    (envFlags (ctrRun cfg c (toCtr evs)).2).count true =
      (c.nCalls + stepCount evs) / dqnEvery cfg - c.nCalls / dqnEvery cfg ∧
    (gradFlags (ctrRun cfg c (toCtr evs)).2).count true = 0 := by
  intro evs
  have := C08.dqn_update_count cfg h c (toCtr evs)
  rw [totalEnv_toCtr] at this
  exact this

/-- **TD3 / DDPG over a whole training history**: delayed (actor + target) updates = `⌊(u₀ + G) / policy_delay⌋ − ⌊u₀ /
policy_delay⌋`, `G` the total number of gradient steps of all `train()` calls of the trace. -/
theorem td3_updates_of_history (cfg : Cfg α) (h : cfg.algo = .td3) (c : Ctr)
    (lcfg : Learn.Cfg) (s : Learn.State) (ops : List Learn.Op) :
    let evs := (Learn.run lcfg s ops).2
    (gradFlags (ctrRun cfg c (toCtr evs)).2).count true =
      (c.nUpdates + gradCount evs) / cfg.delay - c.nUpdates / cfg.delay := by
  intro evs
  have := C08.td3_update_count cfg h c (toCtr evs)
  rw [totalGrad_toCtr] at this
  exact this

/-- **DQN, one `learn()` stretch in timesteps**: for a stretch of the trace without counter reset that starts at
`num_timesteps = cur`, `K = (num_timesteps at its end − cur) / n_envs` — the update count is a function of the two counter
readings and `n_calls₀` alone. -/
theorem dqn_updates_of_stretch (cfg : Cfg α) (h : cfg.algo = .dqn) (c : Ctr) (n cur : Nat) (hn : 0 < n)
    (evs : List Learn.Ev) (hc : Learn.countsOk n cur evs) (hs : noSetup evs = true) :
    (envFlags (ctrRun cfg c (toCtr evs)).2).count true =
      (c.nCalls + (lastNum cur evs - cur) / n) / dqnEvery cfg - c.nCalls / dqnEvery cfg := by
  have h1 := C08.dqn_update_count cfg h c (toCtr evs)
  rw [totalEnv_toCtr] at h1
  have h2 := steps_times_nenvs n cur evs hc hs
  have : (lastNum cur evs - cur) / n = stepCount evs := by
    rw [h2, Nat.add_sub_cancel_left, Nat.mul_div_cancel_left _ hn]
  rw [this]
  exact h1.1

/-- non-vacuity: a DQN-like off-policy run of 7 vectorised steps on 2 environments, `I = 6` → `p = 3`, two updates -/
example :
    let lcfg : Learn.Cfg := Learn.exDQN
    let evs := (Learn.run lcfg Learn.State.init (.learn 100 true :: Learn.quiet 7)).2
    stepCount evs = 7 := by decide

end SB3Verif.C08C12
