/-
Model of the training clocks of `learn()` (stable_baselines3):

* `BaseAlgorithm._setup_learn`                      (common/base_class.py)       — `setupLearn`
* `BaseAlgorithm._update_current_progress_remaining`                             — `progressOf`
* `OnPolicyAlgorithm.learn` / `collect_rollouts`    (common/on_policy_algorithm.py)
* `OffPolicyAlgorithm.learn` / `collect_rollouts`   (common/off_policy_algorithm.py)
* `should_collect_more_steps`, `get_linear_fn`      (common/utils.py)
* the number of optimizer steps of one `train()` call of PPO / A2C / DQN / SAC / TD3 (DDPG = TD3 with delay 1)
  and the `_n_updates` counter.

The two `while` loops are written as ONE reactive machine: the history is the list of things that
come from outside (`Op.learn total reset` — the user calls `learn`; `Op.env stop dones kl` — one
vectorised `env.step` happened, the callback answered `stop`, `dones` sub-environments finished an
episode, and — PPO with `target_kl` only — the KL test cut the following `train()` after `kl`
optimizer steps). Everything the library does between two such inputs (rollout bookkeeping, progress
update, `train`, the `while num_timesteps < total_timesteps` test) is deterministic and is what `step`
computes; it is reported as a list of events `Ev`. "For every run of learn()" is therefore "for every
`List Op`" and is proved by induction over that list.

Import-free (core only): `Nat` counters, exact `Rat` progress.
-/

namespace SB3Verif.Learn

/-! ### Configuration -/

/-- `TrainFrequencyUnit` -/
inductive FreqUnit where
  | step
  | episode
  deriving DecidableEq, Repr, Inhabited

/-- On-policy algorithms. `a2c = true`: one optimizer step per rollout (`A2C.train`);
`a2c = false`: PPO, `nEpochs` passes over minibatches of size `batch`. -/
structure OnCfg where
  nSteps : Nat
  a2c : Bool
  batch : Nat
  nEpochs : Nat
  deriving Repr, Inhabited

/-- Off-policy algorithms. `gradSteps < 0` means "as many gradient steps as transitions collected in
the rollout". `policyDelay = 0`: no separate actor optimizer (DQN); `d ≥ 1`: the actor optimizer
steps when the running update counter is a multiple of `d` (TD3; SAC and DDPG have `d = 1`). -/
structure OffCfg where
  freq : Nat
  unit : FreqUnit
  gradSteps : Int
  learningStarts : Nat
  policyDelay : Nat
  deriving Repr, Inhabited

inductive Kind where
  | on (c : OnCfg)
  | off (c : OffCfg)
  deriving Repr, Inhabited

structure Cfg where
  nEnvs : Nat
  kind : Kind
  deriving Repr, Inhabited

/-! ### State (the training clocks) -/

structure State where
  /-- `num_timesteps` -/
  num : Nat := 0
  /-- `_total_timesteps` (target of the current / last `learn` call) -/
  total : Nat := 0
  /-- `_num_timesteps_at_start` -/
  start : Nat := 0
  /-- `_current_progress_remaining` -/
  progress : Rat := 1
  /-- `_n_updates` -/
  nUpdates : Nat := 0
  /-- number of `optimizer.step()` calls of the main optimizer (policy / q-net / critic) so far -/
  optSteps : Nat := 0
  /-- `_episode_num` -/
  episodeNum : Nat := 0
  /-- inside the `while` loop of `learn` (between two `env.step`s) -/
  running : Bool := false
  /-- the last `learn` call was ended by the callback -/
  stopped : Bool := false
  /-- `n_steps` / `num_collected_steps` of the rollout in progress (kept after the loop ended) -/
  colSteps : Nat := 0
  /-- `num_collected_episodes` of the rollout in progress -/
  colEps : Nat := 0
  deriving Repr, Inhabited, DecidableEq

/-- a freshly constructed algorithm -/
def State.init : State := {}

/-! ### Inputs and observable events -/

inductive Op where
  /-- `model.learn(total_timesteps = total, reset_num_timesteps = reset)` -/
  | learn (total : Nat) (reset : Bool)
  /-- one vectorised environment step inside `collect_rollouts`: `stop` = the callback's `on_step`
  returned `False`; `dones` = number of sub-environments whose episode ended; `kl` = for a PPO `train()`
  triggered by this step, one flag per minibatch in the order they are evaluated: "the approximate KL of
  this minibatch exceeds `1.5 * target_kl`" (missing entries = `false`; `[]` when `target_kl` is `None`). -/
  | env (stop : Bool) (dones : Nat) (kl : List Bool)
  deriving Repr, Inhabited

inductive Ev where
  /-- `_setup_learn` done: counter and target (what `on_training_start` sees) -/
  | setup (num total : Nat)
  /-- `callback.on_rollout_start()`; `seen` = `_current_progress_remaining` at that moment -/
  | rolloutStart (num : Nat) (seen : Rat)
  /-- `callback.on_step()` after `num_timesteps += n_envs` -/
  | step (num : Nat) (seen : Rat)
  /-- `_update_current_progress_remaining(num, total)` stored `p` (the value every schedule gets) -/
  | progress (num total : Nat) (p : Rat)
  /-- `callback.on_rollout_end()`; `steps` vectorised steps were collected in this rollout -/
  | rolloutEnd (num steps : Nat) (seen : Rat)
  /-- one `train()` call: `opt` steps of the main optimizer, `actor` steps of a separate actor
  optimizer, every one with learning rate `lr_schedule(p)`; `nUpdates` = `_n_updates` afterwards -/
  | train (num opt actor : Nat) (p : Rat) (nUpdates : Nat)
  /-- the loop of `learn` ended (`on_training_end`) -/
  | finish (num : Nat) (stopped : Bool)
  deriving Repr, Inhabited, DecidableEq

/-! ### Pure helpers -/

/-- `max(1.0 - float(num_timesteps) / float(total_timesteps), 0.0)` (exact) -/
def progressOf (num total : Nat) : Rat :=
  let x : Rat := 1 - (num : Rat) / (total : Rat)
  if x < 0 then 0 else x

/-- number of minibatches `RolloutBuffer.get(batch)` yields for `n` samples: `⌈n / batch⌉` -/
def nBatches (n batch : Nat) : Nat := (n + batch - 1) / batch

/-- `⌈a / b⌉` -/
def ceilDiv (a b : Nat) : Nat := (a + b - 1) / b

/-- optimizer steps of one un-cut PPO `train()`: `n_epochs × ⌈n_steps·n_envs / batch_size⌉` -/
def ppoFull (nEnvs : Nat) (c : OnCfg) : Nat := c.nEpochs * nBatches (c.nSteps * nEnvs) c.batch

/-- `should_collect_more_steps(train_freq, num_collected_steps, num_collected_episodes)` -/
def shouldCollectMore (c : OffCfg) (steps eps : Nat) : Bool :=
  match c.unit with
  | .step => decide (steps < c.freq)
  | .episode => decide (eps < c.freq)

/-- `gradient_steps if gradient_steps >= 0 else rollout.episode_timesteps` -/
def gradStepsOf (nEnvs : Nat) (c : OffCfg) (colSteps : Nat) : Nat :=
  if c.gradSteps ≥ 0 then c.gradSteps.toNat else colSteps * nEnvs

/-- TD3's loop: `for _ in range(g): _n_updates += 1; if _n_updates % policy_delay == 0: actor step`,
started with `_n_updates = u`. For `delay = 0` (no separate actor) the count is `0`. -/
def actorSteps (delay u g : Nat) : Nat :=
  if delay = 0 then 0
  else ((List.range g).filter (fun i => (u + i + 1) % delay == 0)).length

/-- `get_linear_fn(start, end, end_fraction)(progress_remaining)` (DQN's exploration schedule) -/
def linearFn (start stop endFraction p : Rat) : Rat :=
  if (1 - p) > endFraction then stop else start + (1 - p) * (stop - start) / endFraction

/-! ### The machine -/

/-- `_setup_learn`: counter handling. -/
def setupLearn (s : State) (total : Nat) (reset : Bool) : State :=
  let num := if reset then 0 else s.num
  let tot := if reset then total else total + s.num
  { s with num := num, episodeNum := if reset then 0 else s.episodeNum, total := tot, start := num,
           stopped := false }

/-- The test `while self.num_timesteps < total_timesteps:` followed, when it succeeds, by the
beginning of `collect_rollouts` (counters zeroed, `on_rollout_start`). -/
def loopHead (s : State) : State × List Ev :=
  if s.num < s.total then
    ({ s with running := true, colSteps := 0, colEps := 0 }, [.rolloutStart s.num s.progress])
  else
    ({ s with running := false }, [.finish s.num false])

/-- index of the first `true` -/
def firstTrue : List Bool → Option Nat
  | [] => none
  | true :: _ => some 0
  | false :: t => (firstTrue t).map (· + 1)

/-- `(optimizer steps, _n_updates increment)` of one on-policy `train()`.
A2C: one step. PPO: `n_epochs` passes over the `nb` minibatches; the first minibatch (index `j`, counted over
the epochs) whose KL flag is set ends the call *before* its optimizer step: `j` steps were made, and the epoch
`j / nb` in which it happened is still counted in `_n_updates`. -/
def onTrainCounts (nEnvs : Nat) (c : OnCfg) (kl : List Bool) : Nat × Nat :=
  if c.a2c then (1, 1)
  else
    match firstTrue (kl.take (ppoFull nEnvs c)) with
    | some j => (j, j / nBatches (c.nSteps * nEnvs) c.batch + 1)
    | none => (ppoFull nEnvs c, c.nEpochs)

/-- `train()` of PPO / A2C: learning rate from the current progress, then the optimizer steps. -/
def trainOn (nEnvs : Nat) (c : OnCfg) (s : State) (kl : List Bool) : State × List Ev :=
  let k := onTrainCounts nEnvs c kl
  let s' := { s with nUpdates := s.nUpdates + k.2, optSteps := s.optSteps + k.1 }
  (s', [.train s.num k.1 0 s.progress s'.nUpdates])

/-- The block after `collect_rollouts` in `OffPolicyAlgorithm.learn`. -/
def trainOff (nEnvs : Nat) (c : OffCfg) (s : State) : State × List Ev :=
  if s.num > 0 ∧ s.num > c.learningStarts then
    let g := gradStepsOf nEnvs c s.colSteps
    if g > 0 then
      let s' := { s with nUpdates := s.nUpdates + g, optSteps := s.optSteps + g }
      (s', [.train s.num g (actorSteps c.policyDelay s.nUpdates g) s.progress s'.nUpdates])
    else (s, [])
  else (s, [])

/-- One vectorised environment step and everything the library does until the next one. -/
def envStep (cfg : Cfg) (s : State) (stop : Bool) (dones : Nat) (kl : List Bool) : State × List Ev :=
  -- self.num_timesteps += env.num_envs ; callback.on_step()
  let s1 := { s with num := s.num + cfg.nEnvs }
  let evStep := Ev.step s1.num s1.progress
  if stop then
    -- `return False` / `continue_training=False` → `break` → `on_training_end`
    ({ s1 with running := false, stopped := true }, [evStep, .finish s1.num true])
  else
    match cfg.kind with
    | .on c =>
      let s2 := { s1 with colSteps := s1.colSteps + 1 }
      if s2.colSteps < c.nSteps then (s2, [evStep])
      else
        let p := progressOf s2.num s2.total
        let s3 := { s2 with progress := p }
        let (s4, evT) := trainOn cfg.nEnvs c s3 kl
        let (s5, evH) := loopHead s4
        (s5, [evStep, .rolloutEnd s2.num s2.colSteps s2.progress, .progress s3.num s3.total p] ++ evT ++ evH)
    | .off c =>
      let p := progressOf s1.num s1.total
      let s2 := { s1 with colSteps := s1.colSteps + 1, progress := p, colEps := s1.colEps + dones,
                          episodeNum := s1.episodeNum + dones }
      let evs := [evStep, .progress s2.num s2.total p]
      if shouldCollectMore c s2.colSteps s2.colEps then (s2, evs)
      else
        let (s3, evT) := trainOff cfg.nEnvs c s2
        let (s4, evH) := loopHead s3
        (s4, evs ++ [.rolloutEnd s2.num s2.colSteps s2.progress] ++ evT ++ evH)

/-- An input is meaningful only in the right phase: `learn` when no call is in progress, an
environment step only inside a call. -/
def applicable (s : State) : Op → Bool
  | .learn _ _ => !s.running
  | .env _ _ _ => s.running

/-- Reaction to one input (inputs that are not applicable are ignored). -/
def step (cfg : Cfg) (s : State) (op : Op) : State × List Ev :=
  if applicable s op then
    match op with
    | .learn total reset =>
      let s1 := setupLearn s total reset
      let (s2, ev) := loopHead s1
      (s2, .setup s1.num s1.total :: ev)
    | .env stop dones kl => envStep cfg s stop dones kl
  else (s, [])

/-- A whole history. -/
def run (cfg : Cfg) : State → List Op → State × List Ev
  | s, [] => (s, [])
  | s, op :: ops =>
    let r1 := step cfg s op
    let r2 := run cfg r1.1 ops
    (r2.1, r1.2 ++ r2.2)

/-! ### Specification vocabulary (used by the theorems in `Props/C12.lean`) -/

/-- the rollout in progress has collected what `train_freq` / `n_steps` asks for -/
def rolloutDone (cfg : Cfg) (s : State) : Prop :=
  match cfg.kind with
  | .on c => c.nSteps ≤ s.colSteps
  | .off c => shouldCollectMore c s.colSteps s.colEps = false

/-- `rolloutEnd` reports the number of `step` events since the last `rolloutStart` (`k` = steps so far) -/
def rolloutStepsOk : Nat → List Ev → Prop
  | _, [] => True
  | _, .rolloutStart _ _ :: es => rolloutStepsOk 0 es
  | k, .step _ _ :: es => rolloutStepsOk (k + 1) es
  | k, .rolloutEnd _ steps _ :: es => steps = k ∧ rolloutStepsOk k es
  | k, _ :: es => rolloutStepsOk k es

/-- "the counter moves by `n` per step": every `step` event carries the previous value + `n`;
`setup` announces the value a call starts from. -/
def countsOk (n : Nat) : Nat → List Ev → Prop
  | _, [] => True
  | _, .setup num _ :: es => countsOk n num es
  | cur, .step num _ :: es => num = cur + n ∧ countsOk n num es
  | cur, _ :: es => countsOk n cur es

/-- "progress never increases during a call": the values stored by consecutive progress updates
between two `setup`s are non-increasing. `last` = the previous one of this call, if any. -/
def antitoneOk : Option Rat → List Ev → Prop
  | _, [] => True
  | _, .setup _ _ :: es => antitoneOk none es
  | last, .progress _ _ p :: es => (∀ q, last = some q → p ≤ q) ∧ antitoneOk (some p) es
  | last, _ :: es => antitoneOk last es

/-- "each update uses the schedule's value": the progress a `train` event applies to the learning
rate is the value of the most recent progress update *of the same call* (never a stale one). -/
def lrOk : Option Rat → List Ev → Prop
  | _, [] => True
  | _, .setup _ _ :: es => lrOk none es
  | _, .progress _ _ p :: es => lrOk (some p) es
  | last, .train _ _ _ p _ :: es => last = some p ∧ lrOk last es
  | last, _ :: es => lrOk last es

/-- "progress = max(1 - num_timesteps / total_timesteps, 0) of the *current* clocks": every progress
update is computed from the counter value the last `step` announced and the target `setup` announced. -/
def progressOk : Nat → Nat → List Ev → Prop
  | _, _, [] => True
  | _, _, .setup num total :: es => progressOk num total es
  | _, tot, .step num _ :: es => progressOk num tot es
  | cur, tot, .progress num total p :: es =>
    num = cur ∧ total = tot ∧ p = progressOf cur tot ∧ progressOk cur tot es
  | cur, tot, _ :: es => progressOk cur tot es

/-- the progress value an event carries (stored, used for the learning rate, or seen by a callback) -/
def Ev.prog : Ev → Option Rat
  | .setup _ _ => none
  | .rolloutStart _ p => some p
  | .step _ p => some p
  | .progress _ _ p => some p
  | .rolloutEnd _ _ p => some p
  | .train _ _ _ p _ => some p
  | .finish _ _ => none

/-- all `train` events of a trace: `(num_timesteps at that moment, optimizer steps)` -/
def trains : List Ev → List (Nat × Nat)
  | [] => []
  | .train num opt _ _ _ :: es => (num, opt) :: trains es
  | _ :: es => trains es

/-! ### Example configurations (non-vacuity examples in `Props/C12.lean`) -/

/-- PPO, 2 envs, `n_steps = 4` (rollout of 8 transitions), minibatches of 3, 2 epochs -/
def exPPO : Cfg := { nEnvs := 2, kind := .on { nSteps := 4, a2c := false, batch := 3, nEpochs := 2 } }

/-- A2C, 3 envs, `n_steps = 5` -/
def exA2C : Cfg := { nEnvs := 3, kind := .on { nSteps := 5, a2c := true, batch := 0, nEpochs := 0 } }

/-- DQN, 4 envs, `train_freq = 2` steps, `gradient_steps = -1`, `learning_starts = 8` -/
def exDQN : Cfg :=
  { nEnvs := 4, kind := .off { freq := 2, unit := .step, gradSteps := -1, learningStarts := 8, policyDelay := 0 } }

/-- TD3, 1 env, `train_freq = (1, "episode")`, `gradient_steps = 3`, `learning_starts = 2`, `policy_delay = 2` -/
def exTD3 : Cfg :=
  { nEnvs := 1, kind := .off { freq := 1, unit := .episode, gradSteps := 3, learningStarts := 2, policyDelay := 2 } }

/-- `k` environment steps without stop request, without episode end, without KL exit -/
def quiet (k : Nat) : List Op := List.replicate k (.env false 0 [])

end SB3Verif.Learn
