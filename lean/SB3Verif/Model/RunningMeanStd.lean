/-
Model of `RunningMeanStd` (stable_baselines3/common/running_mean_std.py), one coordinate at a time.

NumPy evaluates `update` / `update_from_moments` element-wise over the data shape (`axis=0` is the
batch axis), so the vectorised object is this scalar object mapped over the coordinates; `count` is the
same number for every coordinate.

Import-free; generic over the scalar type so that the theorems (any linearly ordered field) and the
driver (`Rat`) run the same definitions.
-/

namespace SB3Verif.RMS

/-- `(mean, var, count)` of one coordinate. -/
structure Mom (α : Type) where
  mean : α
  var : α
  count : α
deriving Repr, DecidableEq

variable {α : Type} [Add α] [Sub α] [Mul α] [Div α] [Zero α] [One α] [NatCast α]

/-- `RunningMeanStd.__init__`: `mean = 0`, `var = 1`, `count = epsilon` (default `1e-4`). -/
def Mom.prior (eps0 : α) : Mom α := { mean := 0, var := 1, count := eps0 }

/-- `update_from_moments(batch_mean, batch_var, batch_count)` — the parallel-variance merge,
operation by operation as in the code. -/
def updateFromMoments (s : Mom α) (bm bv bc : α) : Mom α :=
  let delta := bm - s.mean
  let totCount := s.count + bc
  let newMean := s.mean + delta * bc / totCount
  let mA := s.var * s.count
  let mB := bv * bc
  let m2 := mA + mB + delta * delta * s.count * bc / (s.count + bc)
  let newVar := m2 / (s.count + bc)
  let newCount := bc + s.count
  { mean := newMean, var := newVar, count := newCount }

/-- Sum of a list (`foldr`, so that `lsum (x :: xs) = x + lsum xs` by `rfl`). -/
def lsum : List α → α
  | [] => 0
  | x :: xs => x + lsum xs

/-- `np.mean(arr, axis=0)` for one coordinate. -/
def batchMean (xs : List α) : α := lsum xs / (xs.length : α)

/-- `np.var(arr, axis=0)` for one coordinate: the population variance `mean(|x - mean(x)|²)`. -/
def batchVar (xs : List α) : α :=
  let m := batchMean xs
  lsum (xs.map fun x => (x - m) * (x - m)) / (xs.length : α)

/-- `(mean, var, count)` of a batch on its own. -/
def momentsOf (xs : List α) : Mom α :=
  { mean := batchMean xs, var := batchVar xs, count := (xs.length : α) }

/-- `update(arr)`: batch mean, batch population variance, batch size, then the merge. -/
def update (s : Mom α) (xs : List α) : Mom α :=
  updateFromMoments s (batchMean xs) (batchVar xs) (xs.length : α)

/-- `combine(other)` -/
def combine (s o : Mom α) : Mom α := updateFromMoments s o.mean o.var o.count

/-- The statistics after a whole stream of batches. -/
def updateAll (s : Mom α) (batches : List (List α)) : Mom α := batches.foldl update s

/-! Specification vocabulary: weighted power sums `(W, S₁, S₂) = (count, count·mean, count·(var+mean²))`. -/

structure Sums (α : Type) where
  w : α
  s1 : α
  s2 : α

def Mom.toSums (m : Mom α) : Sums α :=
  { w := m.count, s1 := m.mean * m.count, s2 := (m.var + m.mean * m.mean) * m.count }

def Sums.toMom (s : Sums α) : Mom α :=
  { mean := s.s1 / s.w, var := s.s2 / s.w - (s.s1 / s.w) * (s.s1 / s.w), count := s.w }

/-- power sums of a raw sample: `(N, Σx, Σx²)` -/
def sumsOf (xs : List α) : Sums α :=
  { w := (xs.length : α), s1 := lsum xs, s2 := lsum (xs.map fun x => x * x) }

def Sums.add (a b : Sums α) : Sums α := { w := a.w + b.w, s1 := a.s1 + b.s1, s2 := a.s2 + b.s2 }

end SB3Verif.RMS
