/-
Model of `ReplayBuffer` / `DictReplayBuffer` (stable_baselines3/common/buffers.py), mechanism level.

* constructor      — `buffer_size = max(buffer_size // n_envs, 1)`; rejects
                     `optimize_memory_usage ∧ handle_timeout_termination` (ValueError) and
                     `DictReplayBuffer ∧ optimize_memory_usage` (assert); arrays are `np.zeros`.
* `add`            — writes every field array at `pos` (the memory-optimised variant writes the next
                     observation into `observations[(pos+1) % buffer_size]`, it has no `next_observations`),
                     `timeouts` only when `handle_timeout_termination`; then `pos += 1`, wrap ⇒ `full`.
* `reset`          — `pos = 0; full = False` (array content stays).
* `size`           — `buffer_size if full else pos`.
* `sample`         — raw draw `k ∈ [lo, hi)` (`np.random.randint(lo, hi)`), slot `= k` or, memory-optimised and
                     full, `(k + pos) % buffer_size` with `k ∈ [1, buffer_size)`; env column `e ∈ [0, n_envs)`.
* `_get_samples`   — every field gathered at the same `(slot, env)`; next observation from
                     `observations[(slot+1) % buffer_size]` when memory-optimised; `dones * (1 - timeouts)`.

Stored values are opaque *tags* (`Nat`; `0` = the `np.zeros` initial content): provenance of a sampled
value is then decidable. `dones` / `timeouts` are the numbers 0/1 the float32 arrays hold (`Int`), so
that the mask `dones * (1 - timeouts)` is the code's arithmetic.

Import-free (core only): the driver `SB3Verif/Driver/C03.lean` runs these very definitions.
-/

namespace SB3Verif.Replay

/-- What one `add()` call stores for one sub-environment column. `timeout` is
`infos[e].get("TimeLimit.truncated", False)`. -/
structure Trans where
  obs : Nat
  next : Nat
  act : Nat
  rew : Nat
  done : Bool
  timeout : Bool
deriving Repr, DecidableEq, Inhabited

/-- The arguments of one `add()` call: one `Trans` per sub-environment. -/
abbrev Row := List Trans

structure Cfg where
  bufferSize : Nat
  nEnvs : Nat
  memopt : Bool      -- optimize_memory_usage
  hto : Bool         -- handle_timeout_termination
  isDict : Bool      -- DictReplayBuffer
deriving Repr, DecidableEq

/-- `self.buffer_size = max(buffer_size // n_envs, 1)` -/
def Cfg.cap (c : Cfg) : Nat := max (c.bufferSize / c.nEnvs) 1

/-- The constructor raises for `memopt ∧ hto` (ValueError) and for `Dict ∧ memopt` (assert). -/
def Cfg.valid (c : Cfg) : Bool := !(c.memopt && (c.hto || c.isDict))

structure Buf where
  cfg : Cfg
  pos : Nat
  full : Bool
  obsA : List (List Nat)     -- observations       [cap][n_envs]
  nextA : List (List Nat)    -- next_observations  [cap][n_envs]   (not allocated / never touched when memopt)
  actA : List (List Nat)     -- actions
  rewA : List (List Nat)     -- rewards
  doneA : List (List Int)    -- dones    (float32 0/1)
  toA : List (List Int)      -- timeouts (float32 0/1)
deriving Repr

def b2i (b : Bool) : Int := if b then 1 else 0

def zerosN (cap n : Nat) : List (List Nat) := List.replicate cap (List.replicate n 0)
def zerosI (cap n : Nat) : List (List Int) := List.replicate cap (List.replicate n 0)

def Buf.init (c : Cfg) : Buf :=
  { cfg := c, pos := 0, full := false,
    obsA := zerosN c.cap c.nEnvs, nextA := zerosN c.cap c.nEnvs,
    actA := zerosN c.cap c.nEnvs, rewA := zerosN c.cap c.nEnvs,
    doneA := zerosI c.cap c.nEnvs, toA := zerosI c.cap c.nEnvs }

/-- `ReplayBuffer.__init__` / `DictReplayBuffer.__init__` -/
def Buf.new? (c : Cfg) : Option Buf := if c.valid then some (Buf.init c) else none

/-- `add(obs, next_obs, action, reward, done, infos)` -/
def Buf.add (b : Buf) (row : Row) : Buf :=
  let cap := b.cfg.cap
  -- self.observations[self.pos] = obs
  let obs1 := b.obsA.set b.pos (row.map (·.obs))
  -- memopt: self.observations[(self.pos + 1) % self.buffer_size] = next_obs
  let obs2 := if b.cfg.memopt then obs1.set ((b.pos + 1) % cap) (row.map (·.next)) else obs1
  -- else:   self.next_observations[self.pos] = next_obs
  let next' := if b.cfg.memopt then b.nextA else b.nextA.set b.pos (row.map (·.next))
  let act' := b.actA.set b.pos (row.map (·.act))
  let rew' := b.rewA.set b.pos (row.map (·.rew))
  let done' := b.doneA.set b.pos (row.map (fun t => b2i t.done))
  -- if self.handle_timeout_termination: self.timeouts[self.pos] = [info.get("TimeLimit.truncated", False) …]
  let to' := if b.cfg.hto then b.toA.set b.pos (row.map (fun t => b2i t.timeout)) else b.toA
  -- self.pos += 1; if self.pos == self.buffer_size: self.full = True; self.pos = 0
  let p := b.pos + 1
  { cfg := b.cfg,
    pos := if p = cap then 0 else p,
    full := if p = cap then true else b.full,
    obsA := obs2, nextA := next', actA := act', rewA := rew', doneA := done', toA := to' }

/-- `reset()`: only the cursor and the flag. -/
def Buf.reset (b : Buf) : Buf := { b with pos := 0, full := false }

/-- `size()` -/
def Buf.size (b : Buf) : Nat := if b.full then b.cfg.cap else b.pos

/-! ### Operation lists (histories) -/

inductive Op where
  | add (row : Row)
  | reset
deriving Repr

def Buf.step (b : Buf) : Op → Buf
  | .add row => b.add row
  | .reset => b.reset

/-- The buffer after a history of `add` / `reset` calls (`size` / `sample` do not change the state). -/
def run (c : Cfg) (ops : List Op) : Buf := ops.foldl Buf.step (Buf.init c)

def histStep (H : List Row) : Op → List Row
  | .add row => H ++ [row]
  | .reset => []

/-- Specification-side ghost: the rows added since the last `reset`, oldest first. -/
def histOf (ops : List Op) : List Row := ops.foldl histStep []

/-- What add number `a` (since the last reset) stored for environment `e`. -/
def cellOf (H : List Row) (a e : Nat) : Trans := (H.getD a []).getD e default

/-! ### Sampling -/

/-- `[lo, hi)` handed to `np.random.randint` for the buffer index. -/
def Buf.drawRange (b : Buf) : Nat × Nat :=
  if b.cfg.memopt then
    if b.full then (1, b.cfg.cap) else (0, b.pos)
  else (0, if b.full then b.cfg.cap else b.pos)

/-- Raw draw → `batch_inds` entry. -/
def Buf.slotOfDraw (b : Buf) (k : Nat) : Nat :=
  if b.cfg.memopt && b.full then (k + b.pos) % b.cfg.cap else k

/-- Every buffer index `sample` can produce. -/
def Buf.sampleSlots (b : Buf) : List Nat :=
  let r := b.drawRange
  (List.range' r.1 (r.2 - r.1)).map b.slotOfDraw

/-- Every `(index, env)` pair `sample` can gather. -/
def Buf.domain (b : Buf) : List (Nat × Nat) :=
  b.sampleSlots.flatMap fun s => (List.range b.cfg.nEnvs).map fun e => (s, e)

def cellN (A : List (List Nat)) (s e : Nat) : Nat := (A.getD s []).getD e 0
def cellI (A : List (List Int)) (s e : Nat) : Int := (A.getD s []).getD e 0

/-- One sampled transition (before `to_torch`). -/
structure Sampled where
  obs : Nat
  next : Nat
  act : Nat
  rew : Nat
  done : Int
deriving Repr, DecidableEq

/-- `_get_samples` for one `(batch index, env index)` pair. -/
def Buf.get (b : Buf) (s e : Nat) : Sampled :=
  { obs := cellN b.obsA s e,
    next := if b.cfg.memopt then cellN b.obsA ((s + 1) % b.cfg.cap) e else cellN b.nextA s e,
    act := cellN b.actA s e,
    rew := cellN b.rewA s e,
    done := cellI b.doneA s e * (1 - cellI b.toA s e) }

/-- `sample(batch_size)` given the raw random draws `(k, e)`; `none` = `np.random.randint` raises
(`low >= high`: nothing can be sampled) or a draw is outside the range `randint` can return. -/
def Buf.sample (b : Buf) (draws : List (Nat × Nat)) : Option (List Sampled) :=
  let r := b.drawRange
  if r.1 < r.2 ∧ draws.all (fun d => r.1 ≤ d.1 && d.1 < r.2 && d.2 < b.cfg.nEnvs) then
    some (draws.map fun d => b.get (b.slotOfDraw d.1) d.2)
  else none

/-- The whole table `sample` draws from: every `(slot, env)` of the domain with what `_get_samples`
returns for it; `none` when `sample` raises. -/
def Buf.table (b : Buf) : Option (List ((Nat × Nat) × Sampled)) :=
  if b.drawRange.1 < b.drawRange.2 then some (b.domain.map fun p => (p, b.get p.1 p.2)) else none

/-! ### Normalisation at sampling time (`sample(env=VecNormalize)`) -/

/-- `clip((x - mean) / scale, -c, c)` — the shape of `VecNormalize.normalize_obs` / `normalize_reward`
(`scale = sqrt(var + epsilon)`), applied by `_get_samples` to observations, next observations and
rewards, never to actions or dones. Generic in the scalar so the theorem and the driver (`Rat`) share it. -/
def clipAffine {α : Type} [Sub α] [Div α] [Neg α] [Max α] [Min α] (mean scale c : α) (x : α) : α :=
  max (-c) (min c ((x - mean) / scale))

structure SampledN (α : Type) where
  obs : α
  next : α
  act : Nat
  rew : α
  done : Int

/-- `_get_samples(…, env)`: `fo` = observation normalisation, `fr` = reward normalisation. -/
def Sampled.normalize {α : Type} (fo fr : Nat → α) (t : Sampled) : SampledN α :=
  { obs := fo t.obs, next := fo t.next, act := t.act, rew := fr t.rew, done := t.done }

/-! ### Chaining (what the memory-optimised variant presupposes of its caller) -/

/-- Unless a transition ended an episode, the next `add` starts from its next observation. -/
def Chained (H : List Row) : Prop :=
  ∀ a e, a + 1 < H.length → (cellOf H a e).done = false → (cellOf H (a + 1) e).obs = (cellOf H a e).next

/-- Every row has one entry per sub-environment (otherwise NumPy raises on the assignment). -/
def WF (n : Nat) (H : List Row) : Prop := ∀ row ∈ H, row.length = n

def Op.wf (n : Nat) : Op → Bool
  | .add row => row.length == n
  | .reset => true

end SB3Verif.Replay
