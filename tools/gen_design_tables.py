#!/usr/bin/env python3
"""Regenerates the machine-generated tables of DESIGN.md (between the AUTOGEN markers) from seeded/*/meta.json,
known_findings.json, evidence/*.json and lean/SB3Verif/Props/*.lean."""
import glob, json, os, re
V = os.path.dirname(os.path.dirname(os.path.abspath(__file__)))

def seeded_table():
    rows = ["| id | property | what the change needs in order to manifest | demo fails with / passes without | existing tests run with it | `./check` on the changed tree |", "|---|---|---|---|---|---|"]
    for d in sorted(glob.glob(os.path.join(V, "seeded", "*"))):
        m = json.load(open(os.path.join(d, "meta.json")))
        c = m["confirmed"]
        chk = m["check_result"]
        verdict = "**caught** (exit 1" + (", VIOLATION with replay" if "VIOLATION" in chk.get("first_line", "") or chk["exit"] == 1 else "") + ")" if chk["exit"] == 1 else f"NOT caught (exit {chk['exit']})"
        rows.append(f"| {m['seeded_id']} | {m['property']} | {m['needs_to_manifest']} | {c['demo_rc_with_change']} / {c['demo_rc_without_change']} | {c['tests_run']} → {c['tests_result']} | {verdict} |")
    return "\n".join(rows)

def findings_table():
    d = json.load(open(os.path.join(V, "known_findings.json")))
    rows = ["| id | property | status | what fails |", "|---|---|---|---|"]
    for f in d["findings"]:
        st = f["status"] + (f" ({f['commit']})" if f.get("commit") else "")
        rows.append(f"| {f['id']} | {f['property']} | {st} | {f['what'][:400]} |")
    return "\n".join(rows)

def theorem_table():
    rows = ["| property | theorems in `Props/` (+ generated tie lemmas) | non-vacuity examples | model / lemma / driver lines | last evidence: cases, distinct non-trivial, model-vs-impl comparisons |", "|---|---|---|---|---|"]
    for p in sorted(glob.glob(os.path.join(V, "lean", "SB3Verif", "Props", "C*.lean"))):
        pid = os.path.basename(p)[:-5]
        if not re.fullmatch(r"C\d\d", pid):
            # composition file (Props/CxxCyy.lean): audited through its re-exports in Props/Cxx.lean (§9.8)
            src = open(p).read()
            nth = len(re.findall(r"^theorem\s", src, re.M)); nex = len(re.findall(r"^example\b", src, re.M))
            rows.append(f"| {pid} (composition, audited via {pid[:3]}) | {nth} theorems | {nex} | {sum(1 for _ in open(p))} lines | - |")
            continue
        ev = os.path.join(V, "evidence", f"{pid}.json")
        e = json.load(open(ev))["coverage"] if os.path.exists(ev) else {}
        mods = e.get("lean_modules", [])
        def lines(prefix):
            n = 0
            for m in mods:
                if m.startswith(prefix):
                    f = os.path.join(V, "lean", *m.split(".")) + ".lean"
                    n += sum(1 for _ in open(f)) if os.path.exists(f) else 0
            return n
        rows.append(f"| {pid} | {e.get('discharged','?')}/{e.get('obligations','?')} | {e.get('nonvacuity_examples','?')} | {lines('SB3Verif.Model')} / {lines('SB3Verif.Lemmas')} / {lines('SB3Verif.Driver')} | {e.get('evaluations','?')}, {e.get('distinct_nontrivial','?')}, {e.get('traces_validated_against_impl','?')} |")
    return "\n".join(rows)

p = os.path.join(V, "DESIGN.md")
s = open(p).read()
for name, fn in (("SEEDED", seeded_table), ("FINDINGS", findings_table), ("THEOREMS", theorem_table)):
    a, b = f"<!-- AUTOGEN:{name} -->", f"<!-- /AUTOGEN:{name} -->"
    if a in s and b in s:
        s = s[: s.index(a) + len(a)] + "\n" + fn() + "\n" + s[s.index(b):]
open(p, "w").write(s)
print("DESIGN.md tables regenerated")
