/-
Driver for C15: runs the executable models `SB3Verif.RMS` / `SB3Verif.VecNorm` (at `Rat`, with the
rational square root `ratSqrt`) on the operations the harness (`/verif/harness/c15.py`) performed on the
real `RunningMeanStd` / `VecNormalize` / `sync_envs_normalization`.

Wrappers live in numbered slots `w`. Arrays cross coordinate-major (`arr[j]` = coordinate `j` along the
batch axis); a batch is `[[key, arr], …]`; a `Box` observation uses the key `""`.
Answers are rounded down to multiples of `2⁻⁹⁶` (exact rationals of the model have thousands of
digits); raw values handed back (`orig`, untouched keys) are dyadic and cross exactly.

ops
  {"op":"new","w":i,"n":n,"training":b,"norm_obs":b,"norm_reward":b,"clip_obs":q,"clip_reward":q,
   "gamma":q,"epsilon":q,"eps0":q,"dims":[[key,d]]}                         → {"ok":true}
  {"op":"reset","w":i,"obs":batch}                                           → {"obs":batch,"stats":S}
  {"op":"step","w":i,"obs":batch,"rew":[q],"dones":[b],"terms":[batch|null]}  → {"obs":…,"rew":[q],"terms":[…],"stats":S}
  {"op":"set","w":i,"field":"training|norm_obs|norm_reward","value":b}       → {"ok":true}
  {"op":"saveload","w":i}                                                    → {"stats":S}
  {"op":"sync","src":i,"dst":j}                                              → {"stats":S of dst}
  {"op":"probe","w":i,"kind":"normalize_obs|unnormalize_obs","obs":batch}    → {"obs":batch}
  {"op":"probe","w":i,"kind":"normalize_reward|unnormalize_reward","rew":[q]} → {"rew":[q]}
  {"op":"orig","w":i}                                                        → {"obs":batch,"rew":[q]}
  {"op":"stats","w":i}                                                       → {"stats":S}
  {"op":"rms","eps0":q,"batches":[[q]]}        fold of `update` from the prior → {"mom":[mean,var,count]}
  {"op":"rms_moments","mom":[m,v,c],"bm":q,"bv":q,"bc":q}                    → {"mom":…}
  {"op":"rms_combine","a":[m,v,c],"b":[m,v,c]}                               → {"mom":…}
  S = {"obs_rms":[[key,[[mean,var,count]]]] | null, "ret_rms":[mean,var,count], "returns":[q]}
an operation the code answers with AttributeError (norm_obs on, no obs_rms) → {"error":"no-obs-rms"}
-/
import SB3Verif.Driver.Proto
import SB3Verif.Model.VecNormalize

open Lean SB3Verif.Proto SB3Verif.RMS SB3Verif.VecNorm

abbrev Q := Rat

/-- round down to a multiple of `2⁻⁹⁶` -/
def roundQ (q : Rat) : Rat :=
  let s : Int := 2 ^ 96
  mkRat (q * (s : Rat)).floor (2 ^ 96)

def qJ (q : Rat) : Json := ratJ (roundQ q)
def momJ (m : Mom Q) : Json := Json.arr #[qJ m.mean, qJ m.var, qJ m.count]
def arrJ (a : Arr Q) : Json := listJ (listJ qJ) a
def batchJ (b : Batch Q) : Json := listJ (fun ka => Json.arr #[strJ ka.1, arrJ ka.2]) b

def asPair {β γ : Type} (f : Json → Except String β) (g : Json → Except String γ) (j : Json) : Except String (β × γ) :=
  match j.getArr? with
  | .ok #[a, b] => do return (← f a, ← g b)
  | _ => .error s!"not a pair: {j.compress}"

def asArr : Json → Except String (Arr Q) := asListOf (asListOf asRat)
def asBatch : Json → Except String (Batch Q) := asListOf (asPair asStr asArr)
def asOptBatch (j : Json) : Except String (Option (Batch Q)) :=
  if j.isNull then .ok none else (asBatch j).map some
def asMom (j : Json) : Except String (Mom Q) :=
  match j.getArr? with
  | .ok #[a, b, c] => do return { mean := ← asRat a, var := ← asRat b, count := ← asRat c }
  | _ => .error s!"not a mom: {j.compress}"

def statsJ (s : VN Q) : Json :=
  objJ [("obs_rms", if s.hasObsRms then listJ (fun kms => Json.arr #[strJ kms.1, listJ momJ kms.2]) s.obsRms else Json.null),
        ("ret_rms", momJ s.retRms),
        ("returns", listJ qJ s.returns)]

abbrev St := List (Nat × VN Q)

def getW (st : St) (w : Nat) : Except String (VN Q) :=
  match st.lookup w with
  | some s => .ok s
  | none => .error s!"no wrapper in slot {w}"

def setW (st : St) (w : Nat) (s : VN Q) : St := (w, s) :: st.filter (fun p => p.1 != w)

/-- every normalised key present with the right number of coordinate columns, every column `n` long -/
def checkBatch (s : VN Q) (b : Batch Q) (n : Nat) : Except String Unit := do
  for ka in b do
    for col in ka.2 do
      if col.length != n then throw s!"column length {col.length} != {n} in key {ka.1}"
  if s.normObs && s.hasObsRms then
    for kms in s.obsRms do
      match b.lookup kms.1 with
      | none => throw s!"key {kms.1} missing"
      | some a => if a.length != kms.2.length then throw s!"key {kms.1}: {a.length} coordinates, statistics have {kms.2.length}"

/-- the model divides by `sqrt(var + eps)`: never answer with a silent division by zero -/
def checkPos (s : VN Q) : Except String Unit := do
  if s.normObs then
    for kms in s.obsRms do
      for m in kms.2 do
        if m.var + s.cfg.eps ≤ 0 then throw "nonpositive var+eps (obs)"
  if s.normRew then
    if s.retRms.var + s.cfg.eps ≤ 0 then throw "nonpositive var+eps (ret)"

def stepC15 (st : St) (j : Json) : Except String (St × Json) := do
  let op ← getStr j "op"
  match op with
  | "new" =>
    let w ← getNat j "w"
    let cfg : Cfg Q := { clipObs := ← getRat j "clip_obs", clipRew := ← getRat j "clip_reward",
                         gamma := ← getRat j "gamma", eps := ← getRat j "epsilon" }
    let dims ← getList (asPair asStr asNat) j "dims"
    let s := VN.init cfg (← getNat j "n") (← getBool j "training") (← getBool j "norm_obs")
      (← getBool j "norm_reward") (← getRat j "eps0") dims
    return (setW st w s, objJ [("ok", boolJ true)])
  | "reset" =>
    let w ← getNat j "w"
    let s ← getW st w
    let obs ← fld j "obs" >>= asBatch
    if s.obsError then throw "no-obs-rms"
    checkBatch s obs s.nEnvs
    let (s', o) := s.reset obs
    checkPos s'
    return (setW st w s', objJ [("obs", batchJ o), ("stats", statsJ s')])
  | "step" =>
    let w ← getNat j "w"
    let s ← getW st w
    let obs ← fld j "obs" >>= asBatch
    let rew ← getList asRat j "rew"
    let dones ← getList asBool j "dones"
    let terms ← getList asOptBatch j "terms"
    if s.obsError then throw "no-obs-rms"
    checkBatch s obs s.nEnvs
    if rew.length != s.nEnvs || dones.length != s.nEnvs || terms.length != s.nEnvs then throw "bad lengths"
    for t in terms do
      match t with
      | some b => checkBatch s b 1
      | none => pure ()
    let (s', o) := s.stepWait obs rew dones terms
    checkPos s'
    let termJ : Option (Batch Q) → Json := fun t => match t with | some b => batchJ b | none => Json.null
    return (setW st w s', objJ [("obs", batchJ o.obs), ("rew", listJ qJ o.rew), ("terms", listJ termJ o.terms),
                                ("stats", statsJ s')])
  | "set" =>
    let w ← getNat j "w"
    let s ← getW st w
    let b ← getBool j "value"
    let ev : Ev Q ← match (← getStr j "field") with
      | "training" => pure (Ev.setTraining b)
      | "norm_obs" => pure (Ev.setNormObs b)
      | "norm_reward" => pure (Ev.setNormRew b)
      | f => throw s!"bad field {f}"
    return (setW st w (s.apply ev), objJ [("ok", boolJ true)])
  | "saveload" =>
    let w ← getNat j "w"
    let s ← getW st w
    let s' := s.apply Ev.saveLoad
    return (setW st w s', objJ [("stats", statsJ s')])
  | "sync" =>
    let src ← getW st (← getNat j "src")
    let d ← getNat j "dst"
    let dst ← getW st d
    let s' := dst.syncFrom src
    return (setW st d s', objJ [("stats", statsJ s')])
  | "probe" =>
    let w ← getNat j "w"
    let s ← getW st w
    match (← getStr j "kind") with
    | "normalize_obs" =>
      let obs ← fld j "obs" >>= asBatch
      if s.obsError then throw "no-obs-rms"
      checkPos s
      return (st, objJ [("obs", batchJ (s.normalizeObs obs))])
    | "unnormalize_obs" =>
      let obs ← fld j "obs" >>= asBatch
      if s.obsError then throw "no-obs-rms"
      checkPos s
      return (st, objJ [("obs", batchJ (s.unnormalizeObs obs))])
    | "normalize_reward" =>
      checkPos s
      return (st, objJ [("rew", listJ qJ (s.normalizeReward (← getList asRat j "rew")))])
    | "unnormalize_reward" =>
      checkPos s
      return (st, objJ [("rew", listJ qJ (s.unnormalizeReward (← getList asRat j "rew")))])
    | k => throw s!"bad probe {k}"
  | "orig" =>
    let s ← getW st (← getNat j "w")
    return (st, objJ [("obs", batchJ s.getOriginalObs), ("rew", listJ qJ s.getOriginalReward)])
  | "stats" =>
    let s ← getW st (← getNat j "w")
    return (st, objJ [("stats", statsJ s)])
  | "rms" =>
    let eps0 ← getRat j "eps0"
    let batches ← getList (asListOf asRat) j "batches"
    for b in batches do
      if b.isEmpty then throw "empty batch"
    return (st, objJ [("mom", momJ (updateAll (Mom.prior eps0) batches))])
  | "rms_moments" =>
    let m ← fld j "mom" >>= asMom
    let r := updateFromMoments m (← getRat j "bm") (← getRat j "bv") (← getRat j "bc")
    if m.count + (← getRat j "bc") == 0 then throw "zero total count"
    return (st, objJ [("mom", momJ r)])
  | "rms_combine" =>
    let a ← fld j "a" >>= asMom
    let b ← fld j "b" >>= asMom
    if a.count + b.count == 0 then throw "zero total count"
    return (st, objJ [("mom", momJ (combine a b))])
  | _ => throw s!"bad-op {op}"

def main : IO Unit := SB3Verif.Proto.run stepC15 []
