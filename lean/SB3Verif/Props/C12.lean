/-
C12 — learn(): step, update and schedule accounting.

Property theorems only (helper lemmas are in `SB3Verif/Lemmas/Learn.lean`).
All statements are about the executable model `SB3Verif/Model/Learn.lean`, whose definitions the driver
`SB3Verif/Driver/C12.lean` runs against real `learn()` calls of PPO, A2C, DQN, SAC, TD3 and DDPG.

Reading guide: a history is a `List Op` (`learn total reset` calls and the vectorised environment steps
`env stop dones kl` that happen inside them); `run cfg s ops` is the final clock state and the trace of
events (`setup`, `rolloutStart`, `step`, `progress`, `rolloutEnd`, `train`, `finish`).
"For all histories" = for all `ops` (and, where stated, for all start states `s`, reachable or not).
-/
import SB3Verif.Lemmas.Learn
import SB3Verif.Props.C12C13
import SB3Verif.Props.C08C12

namespace SB3Verif.C12

open SB3Verif.Learn SB3Verif.LearnLemmas

/-! ## 1. The timestep counter -/

/-- **`reset_num_timesteps` is honoured.** A `learn(T, reset)` call on an idle algorithm starts counting at
`0` (reset) or at the current counter (no reset), sets the target to `start + T`, clears `_episode_num`
only on reset, and leaves the update counters and the stored progress alone. The first event tells the
callback exactly these clocks. -/
theorem reset_num_semantics (cfg : Cfg) (s : State) (T : ℕ) (r : Bool) (h : s.running = false) :
    let s' := (step cfg s (.learn T r)).1
    s'.start = (if r then 0 else s.num) ∧ s'.num = s'.start ∧ s'.total = s'.start + T ∧
      s'.episodeNum = (if r then 0 else s.episodeNum) ∧ s'.nUpdates = s.nUpdates ∧ s'.optSteps = s.optSteps ∧
      s'.progress = s.progress ∧ s'.stopped = false ∧
      (step cfg s (.learn T r)).2.head? = some (.setup s'.num s'.total) := by
  rw [step_learn _ _ _ _ h]
  rcases loopHead_cases (setupLearn s T r) with ⟨he, _⟩ | ⟨he, _⟩ <;> rw [he] <;> cases r <;>
    simp [setupLearn, Nat.add_comm]

/-- **The counter advances by `n_envs` per vectorised step** — in every history, from every state: each
`step` event carries the previous counter value plus `n_envs` (`setup` announces where a call starts). -/
theorem num_advances_by_nenvs (cfg : Cfg) (s : State) (ops : List Op) :
    countsOk cfg.nEnvs s.num (run cfg s ops).2 :=
  run_counts cfg s ops

/-- The same on the state; target and start of the call do not move while the call runs. -/
theorem env_step_moves_only_the_counter (cfg : Cfg) (s : State) (a : Bool) (d : ℕ) (k : List Bool)
    (h : s.running = true) :
    (step cfg s (.env a d k)).1.num = s.num + cfg.nEnvs ∧ (step cfg s (.env a d k)).1.total = s.total ∧
      (step cfg s (.env a d k)).1.start = s.start :=
  step_env_clocks cfg s a d k h

/-- **A stop request ends the call at once**: the counter has moved by this step's `n_envs`, the callback
saw it, and nothing else happens — no progress update, no `train()`, no further rollout; the update
counters and the stored progress are untouched. -/
theorem stop_request_immediate (cfg : Cfg) (s : State) (d : ℕ) (k : List Bool) (h : s.running = true) :
    step cfg s (.env true d k) =
      ({ s with num := s.num + cfg.nEnvs, running := false, stopped := true },
        [.step (s.num + cfg.nEnvs) s.progress, .finish (s.num + cfg.nEnvs) true]) := by
  rw [step_env _ _ _ _ _ h, envStep_stop]

/-- After a call ended (normally or by a stop request) nothing moves until the next `learn`. -/
theorem idle_until_next_learn (cfg : Cfg) (s : State) (a : Bool) (d : ℕ) (k : List Bool) (h : s.running = false) :
    step cfg s (.env a d k) = (s, []) :=
  step_env_idle cfg s a d k h

/-! ## 2. Where a call ends -/

/-- **A call that is not stopped ends at the first rollout boundary at or after the target** — every
algorithm, every `train_freq` unit, every history from a fresh algorithm (several calls, stop requests,
resets …). When the machine is idle and the last call was not stopped: the counter has reached the
target, and either no step was made (`num = start`: the target was already met) or the last rollout
was complete (`rolloutDone`) and *began* strictly before the target (`num - n_envs·colSteps < total`),
so no earlier boundary had reached it; the stored progress is the one of the final counter. -/
theorem stops_at_first_boundary (cfg : Cfg) (ops : List Op) :
    let s := (run cfg State.init ops).1
    s.running = false → s.stopped = false →
      s.total ≤ s.num ∧
        (s.num = s.start ∨
          (s.start + cfg.nEnvs * s.colSteps ≤ s.num ∧ s.num - cfg.nEnvs * s.colSteps < s.total ∧ rolloutDone cfg s ∧
            s.progress = progressOf s.num s.total)) :=
  (genInv_run cfg State.init ops (genInv_init cfg)).fin

/-- While a call is running, the rollout in progress began strictly before the target (a new rollout is
never started at or after it). -/
theorem rollout_starts_before_target (cfg : Cfg) (ops : List Op) :
    let s := (run cfg State.init ops).1
    s.running = true → s.start + cfg.nEnvs * s.colSteps ≤ s.num ∧ s.num - cfg.nEnvs * s.colSteps < s.total :=
  (genInv_run cfg State.init ops (genInv_init cfg)).run

/-- `rolloutEnd` reports exactly the number of `step` events since its `rolloutStart` (this is the
"collected steps" that `gradient_steps = -1` multiplies by `n_envs`). -/
theorem rollout_end_reports_its_steps (cfg : Cfg) (ops : List Op) :
    rolloutStepsOk 0 (run cfg State.init ops).2 :=
  run_rolloutSteps cfg State.init ops 0 (by simp [State.init])

/-- **Closed form, on-policy** (`R = n_envs · n_steps`): a `learn(T, reset)` call from ANY idle state,
followed by any environment steps (stop requests allowed, any KL exits), that is over and was not stopped
has made exactly `⌈T / R⌉` rollouts: `num = start + R · ⌈T / R⌉`. It overshoots the target whenever
`R ∤ T`. -/
theorem final_count_on_policy (cfg : Cfg) (c : OnCfg) (hk : cfg.kind = .on c) (hn : 0 < cfg.nEnvs) (hL : 0 < c.nSteps)
    (s0 : State) (h0 : s0.running = false) (T : ℕ) (r : Bool) (ins : List Op)
    (hins : ∀ op ∈ ins, ∃ a d k, op = .env a d k) :
    let s := (run cfg s0 (.learn T r :: ins)).1
    s.running = false → s.stopped = false →
      s.num = (if r then 0 else s0.num) + cfg.nEnvs * c.nSteps * ceilDiv T (cfg.nEnvs * c.nSteps) := by
  intro s hr hs
  have inv := onInv_call cfg c false hk hL s0 h0 T r 0 0 ins
    (fun op hop => by obtain ⟨a, d, k, rfl⟩ := hins op hop; exact ⟨a, d, k, rfl, fun h => by cases h⟩)
  obtain ⟨i, hnum, h1, h2, _⟩ := inv.fin hr hs
  rw [← ceil_unique _ T i (Nat.mul_pos hn hL) h1 h2]
  exact hnum

/-- **Closed form, off-policy with `train_freq` in steps** (`R = n_envs · train_freq`): same statement. -/
theorem final_count_off_policy_steps (cfg : Cfg) (c : OffCfg) (hk : cfg.kind = .off c) (hu : c.unit = .step)
    (hn : 0 < cfg.nEnvs) (hL : 0 < c.freq) (s0 : State) (h0 : s0.running = false) (T : ℕ) (r : Bool)
    (ins : List Op) (hins : ∀ op ∈ ins, ∃ a d k, op = .env a d k) :
    let s := (run cfg s0 (.learn T r :: ins)).1
    s.running = false → s.stopped = false →
      s.num = (if r then 0 else s0.num) + cfg.nEnvs * c.freq * ceilDiv T (cfg.nEnvs * c.freq) := by
  intro s hr hs
  have inv := offInv_call cfg c hk hu hn hL s0 h0 T r ins hins
  obtain ⟨i, hnum, h1, h2, _⟩ := inv.fin hr hs
  rw [← ceil_unique _ T i (Nat.mul_pos hn hL) h1 h2]
  exact hnum

/-! ## 3. Gradient updates -/

/-- **No gradient update before `learning_starts`** (off-policy): in every history, from every state, every
`train()` happens with `num_timesteps > learning_starts` (and `> 0`). -/
theorem no_update_before_learning_starts (cfg : Cfg) (c : OffCfg) (hk : cfg.kind = .off c) (s : State)
    (ops : List Op) : ∀ x ∈ trains (run cfg s ops).2, c.learningStarts < x.1 ∧ 0 < x.1 :=
  run_trains_off cfg c hk s ops

/-- **Off-policy update count per rollout** (both `train_freq` units): a step that is not a stop request is
followed by `train()` exactly when it completes the rollout (`should_collect_more_steps` turns false) and
`num_timesteps > learning_starts`, `> 0`; the number of gradient steps is `gradient_steps`, or for `-1` the
transitions collected in this rollout (`(colSteps+1) · n_envs`); `gradient_steps = 0` means none. -/
theorem update_count_off_policy_rollout (cfg : Cfg) (c : OffCfg) (hk : cfg.kind = .off c) (s : State)
    (hr : s.running = true) (d : ℕ) (k : List Bool) :
    trains (step cfg s (.env false d k)).2 =
      if shouldCollectMore c (s.colSteps + 1) (s.colEps + d) = false ∧ 0 < s.num + cfg.nEnvs ∧
          c.learningStarts < s.num + cfg.nEnvs ∧ 0 < gradStepsOf cfg.nEnvs c (s.colSteps + 1)
      then [(s.num + cfg.nEnvs, gradStepsOf cfg.nEnvs c (s.colSteps + 1))] else [] :=
  trains_off_step cfg c hk s hr d k

/-- **On-policy update count per rollout**: exactly the step that completes the `n_steps`-th step of the
rollout is followed by one `train()`, with `onTrainCounts` optimizer steps (`1` for A2C,
`n_epochs · ⌈n_steps·n_envs / batch_size⌉` for PPO unless the KL test cuts it). -/
theorem update_count_on_policy_rollout (cfg : Cfg) (c : OnCfg) (hk : cfg.kind = .on c) (s : State)
    (hr : s.running = true) (d : ℕ) (k : List Bool) :
    trains (step cfg s (.env false d k)).2 =
      if s.colSteps + 1 < c.nSteps then [] else [(s.num + cfg.nEnvs, (onTrainCounts cfg.nEnvs c k).1)] :=
  trains_on_step cfg c hk s hr d k

/-- what one un-cut on-policy `train()` does: A2C one optimizer step / one update; PPO
`n_epochs · ⌈n_steps·n_envs / batch_size⌉` optimizer steps / `n_epochs` updates -/
theorem on_policy_train_counts (nEnvs : ℕ) (c : OnCfg) :
    onTrainCounts nEnvs c [] =
      if c.a2c then (1, 1) else (c.nEpochs * ((c.nSteps * nEnvs + c.batch - 1) / c.batch), c.nEpochs) := by
  unfold onTrainCounts ppoFull nBatches
  cases c.a2c <;> simp [firstTrue]

/-- **PPO's `target_kl` exit, exact count.** With one flag per minibatch ("this minibatch's approximate KL exceeds
`1.5·target_kl`", in evaluation order over the epochs), a `train()` makes exactly `u` optimizer steps where `u` is the
index of the FIRST flagged minibatch among the `n_epochs·⌈R/batch⌉` of the call — every earlier minibatch got its
step, the flagged one and all later ones did not — or all of them when none is flagged; `_n_updates` counts the
epochs begun (`u / nb + 1`, resp. `n_epochs`). -/
theorem kl_exit_exact_count (nEnvs : ℕ) (c : OnCfg) (kl : List Bool) (h : c.a2c = false) :
    (onTrainCounts nEnvs c kl).1 ≤ ppoFull nEnvs c ∧
      (∀ i, i < (onTrainCounts nEnvs c kl).1 → kl.getD i false = false) ∧
      ((onTrainCounts nEnvs c kl).1 < ppoFull nEnvs c → kl.getD (onTrainCounts nEnvs c kl).1 false = true) ∧
      ((onTrainCounts nEnvs c kl).1 < ppoFull nEnvs c →
        (onTrainCounts nEnvs c kl).2 = (onTrainCounts nEnvs c kl).1 / nBatches (c.nSteps * nEnvs) c.batch + 1) ∧
      ((onTrainCounts nEnvs c kl).1 = ppoFull nEnvs c → (onTrainCounts nEnvs c kl).2 = c.nEpochs) :=
  onTrainCounts_exact nEnvs c kl h

/-- in particular the exit can only remove optimizer steps (and never adds updates) -/
theorem kl_exit_only_removes_updates (nEnvs : ℕ) (c : OnCfg) (kl : List Bool) (h : c.a2c = false) :
    (onTrainCounts nEnvs c kl).1 ≤ ppoFull nEnvs c ∧ (onTrainCounts nEnvs c kl).2 ≤ c.nEpochs :=
  onTrainCounts_le nEnvs c kl h

/-- **On-policy update count of a whole call**: a `learn(T, reset)` call from any idle state that is over and
was not stopped, with no KL exit, made exactly `⌈T/R⌉` `train()` calls: the optimizer stepped
`⌈T/R⌉ · (1 | n_epochs·⌈R/batch⌉)` times and `_n_updates` grew by `⌈T/R⌉ · (1 | n_epochs)`. -/
theorem update_count_on_policy (cfg : Cfg) (c : OnCfg) (hk : cfg.kind = .on c) (hn : 0 < cfg.nEnvs) (hL : 0 < c.nSteps)
    (s0 : State) (h0 : s0.running = false) (T : ℕ) (r : Bool) (ins : List Op)
    (hins : ∀ op ∈ ins, ∃ a d, op = .env a d []) :
    let s := (run cfg s0 (.learn T r :: ins)).1
    let m := ceilDiv T (cfg.nEnvs * c.nSteps)
    s.running = false → s.stopped = false →
      s.optSteps = s0.optSteps + (onTrainCounts cfg.nEnvs c []).1 * m ∧
        s.nUpdates = s0.nUpdates + (onTrainCounts cfg.nEnvs c []).2 * m := by
  intro s m hr hs
  have inv := onInv_call cfg c true hk hL s0 h0 T r (onTrainCounts cfg.nEnvs c []).1
    (onTrainCounts cfg.nEnvs c []).2 ins
    (fun op hop => by obtain ⟨a, d, rfl⟩ := hins op hop; exact ⟨a, d, [], rfl, fun _ => rfl⟩)
  obtain ⟨i, _, h1, h2, hc⟩ := inv.fin hr hs
  have : i = m := ceil_unique _ T i (Nat.mul_pos hn hL) h1 h2
  rw [this] at hc
  exact hc rfl

/-- **Off-policy update count of a whole call** (`train_freq` in steps, `R = n_envs·train_freq`): a call that is
over and was not stopped made `⌈T/R⌉` rollouts, of which the first `min(⌈T/R⌉, ⌊(learning_starts - start)/R⌋)`
ended at or before `learning_starts`; each of the others was followed by `g` gradient steps
(`g = gradient_steps`, or `R` for `-1`). Both the optimizer-step count and `_n_updates` grew by exactly that. -/
theorem update_count_off_policy (cfg : Cfg) (c : OffCfg) (hk : cfg.kind = .off c) (hu : c.unit = .step)
    (hn : 0 < cfg.nEnvs) (hL : 0 < c.freq) (s0 : State) (h0 : s0.running = false) (T : ℕ) (r : Bool)
    (ins : List Op) (hins : ∀ op ∈ ins, ∃ a d k, op = .env a d k) :
    let s := (run cfg s0 (.learn T r :: ins)).1
    let start := if r then 0 else s0.num
    let R := cfg.nEnvs * c.freq
    let m := ceilDiv T R
    let g := gradStepsOf cfg.nEnvs c c.freq
    s.running = false → s.stopped = false →
      s.optSteps = s0.optSteps + g * (m - min m ((c.learningStarts - start) / R)) ∧
        s.nUpdates = s0.nUpdates + g * (m - min m ((c.learningStarts - start) / R)) := by
  intro s start R m g hr hs
  have inv := offInv_call cfg c hk hu hn hL s0 h0 T r ins hins
  obtain ⟨i, _, h1, h2, ho, hup⟩ := inv.fin hr hs
  have : i = m := ceil_unique _ T i (Nat.mul_pos hn hL) h1 h2
  rw [this] at ho hup
  exact ⟨ho, hup⟩

/-- TD3's delayed actor: during `g` gradient steps started at update counter `u` the actor optimizer steps
once per multiple of `policy_delay` in `(u, u+g]` — `⌊(u+g)/d⌋ - ⌊u/d⌋` times (SAC/DDPG: `d = 1`, every step). -/
theorem td3_actor_steps (d u g : ℕ) (hd : 0 < d) : actorSteps d u g = (u + g) / d - u / d :=
  actorSteps_closed d u g hd

/-! ## 4. Progress and schedules -/

/-- **The progress value is in `[0, 1]`** for every counter and target (including overshoot and `total = 0`). -/
theorem progress_in_unit_interval (num total : ℕ) : 0 ≤ progressOf num total ∧ progressOf num total ≤ 1 :=
  ⟨progressOf_nonneg num total, progressOf_le_one num total⟩

/-- it is `1 - num/total` up to the target and `0` from the target on -/
theorem progress_formula (num total : ℕ) (ht : 0 < total) :
    (num ≤ total → progressOf num total = 1 - (num : ℚ) / (total : ℚ)) ∧ (total ≤ num → progressOf num total = 0) :=
  ⟨fun h => progressOf_before num total h ht, fun h => progressOf_after num total h ht⟩

/-- **Every progress value of every history is in `[0, 1]`**: what the schedules receive (`progress`, `train`
events) and what callbacks see in `_current_progress_remaining` (`rolloutStart`, `step`, `rolloutEnd`),
over any sequence of calls of a fresh algorithm. -/
theorem progress_values_in_unit_interval (cfg : Cfg) (ops : List Op) :
    ∀ e ∈ (run cfg State.init ops).2, ∀ p, e.prog = some p → 0 ≤ p ∧ p ≤ 1 :=
  (run_unit cfg State.init ops (by simp [UnitProg, State.init])).1

/-- **A call that runs to its end leaves the progress at exactly `0`** (so every schedule has reached its final
value): any history of a fresh algorithm, whenever the last call made at least one step and was not stopped. -/
theorem progress_zero_after_completed_call (cfg : Cfg) (ops : List Op) :
    let s := (run cfg State.init ops).1
    s.running = false → s.stopped = false → s.start < s.num → s.progress = 0 := by
  intro s
  have inv : GenInv cfg s := genInv_run cfg State.init ops (genInv_init cfg)
  clear_value s
  intro hr hs hlt
  obtain ⟨hge, h⟩ := inv.fin hr hs
  rcases h with h | ⟨_, hb, _, hp⟩
  · omega
  · rw [hp]
    exact progressOf_after _ _ hge (by omega)

/-- **Progress is computed from the current clocks**: every progress update of every history is
`max(1 - num/total, 0)` for the counter value the last `step` announced and the target of the call. -/
theorem progress_is_clamped_fraction (cfg : Cfg) (s : State) (ops : List Op) :
    progressOk s.num s.total (run cfg s ops).2 :=
  run_progress cfg s ops

/-- **Progress never increases during a call**: between two `setup`s the stored values are non-increasing —
every history, every start state. -/
theorem progress_antitone_within_call (cfg : Cfg) (s : State) (ops : List Op) :
    antitoneOk none (run cfg s ops).2 :=
  run_antitone cfg s ops none (by intro q h; cases h)

/-- **Every update uses the schedule's value at the current progress**: the progress a `train()` turns into
the learning rate (and clip ranges) is the value stored by the most recent progress update of the same call —
never a stale value from an earlier call. -/
theorem lr_is_schedule_of_progress (cfg : Cfg) (s : State) (ops : List Op) (last : Option ℚ) :
    lrOk last (run cfg s ops).2 :=
  run_lr cfg s ops last

/-- DQN's linear exploration schedule: starts at `initial`, reaches `final` once a fraction `f` of the call is
over, … -/
theorem linear_schedule_endpoints (a b f p : ℚ) (hf : 0 < f) :
    linearFn a b f 1 = a ∧ (f < 1 - p → linearFn a b f p = b) :=
  ⟨linearFn_at_one a b f hf, linearFn_end a b f p⟩

/-- … stays between the two for every progress value `≤ 1`, … -/
theorem linear_schedule_bounds (a b f p : ℚ) (hf : 0 < f) (hp : p ≤ 1) :
    min a b ≤ linearFn a b f p ∧ linearFn a b f p ≤ max a b :=
  linearFn_bounds a b f p hf hp

/-- … and (for `final ≤ initial`) never increases when the progress decreases. -/
theorem linear_schedule_monotone (a b f p p' : ℚ) (hf : 0 < f) (hab : b ≤ a) (hpp : p' ≤ p) (hp : p ≤ 1) :
    linearFn a b f p' ≤ linearFn a b f p :=
  linearFn_mono a b f p p' hf hab hpp hp

/-- Hence the exploration rate computed from any progress update of any history lies between
`exploration_final_eps` and `exploration_initial_eps`. -/
theorem exploration_rate_in_range (cfg : Cfg) (ops : List Op) (a b f : ℚ) (hf : 0 < f) :
    ∀ e ∈ (run cfg State.init ops).2, ∀ n t p, e = .progress n t p →
      min a b ≤ linearFn a b f p ∧ linearFn a b f p ≤ max a b := by
  intro e he n t p hp
  have := progress_values_in_unit_interval cfg ops e he p (by rw [hp]; rfl)
  exact linearFn_bounds a b f p hf this.2

/-! ## 5. Agreement with the independently written loop model of C13 (`Model/Callback.lean`) -/

/-- Re-export of `C12C13.learn_loop_models_agree` (statement and translation functions: `Props/C12C13.lean`): for
every configuration, handler (callback tree), episode-end function and fuel, a `learn` call completed by the
`Callback.LS` machine and this model fed with the translated inputs show the same callback-visible trace and end with
the same counter and target. -/
theorem agrees_with_callback_loop_model {σ : Type} (cfg : Cfg) (dones : Callback.Dones)
    (hsz : 0 < LearnCallback.rolloutParam cfg) (st0 : State) (h0 : st0.running = false) (T : ℕ) (r : Bool) (g0 : ℕ)
    (h : σ → Callback.Call → σ × Bool) (cb : σ) (fuel : ℕ) :
    let s := Callback.LS.runN (LearnCallback.cbCfg cfg dones) h fuel (Callback.LS.setup st0.num g0 cb T r)
    let R := run cfg st0 (.learn T r :: LearnCallback.opsOf dones g0 s.trace)
    s.pc = .done →
      LearnCallback.projC s.trace = LearnCallback.projE R.2 ∧ R.1.running = false ∧ R.1.num = s.num ∧
        R.1.total = s.total :=
  C12C13.learn_loop_models_agree cfg dones hsz st0 h0 T r g0 h cb fuel

/-- … and over any sequence of `learn` calls, each machine threading its own state. -/
theorem agrees_with_callback_loop_model_seq {σ : Type} (cfg : Cfg) (dones : Callback.Dones)
    (hsz : 0 < LearnCallback.rolloutParam cfg) (h : σ → Callback.Call → σ × Bool)
    (cs : List LearnCallback.CallSpec) (g0 : ℕ) (cb : σ) :
    LearnCallback.SeqAgree cfg dones h State.init 0 g0 cb cs :=
  C12C13.learn_loop_models_agree_seq cfg dones hsz h cs g0 cb

/-! ## Non-vacuity: the hypotheses above are met by concrete, non-trivial runs -/

example : exPPO.kind = .on ⟨4, false, 3, 2⟩ ∧ 0 < exPPO.nEnvs ∧ State.init.running = false := ⟨rfl, by decide, rfl⟩
example : exDQN.kind = .off ⟨2, .step, -1, 8, 0⟩ ∧ (⟨2, .step, -1, 8, 0⟩ : OffCfg).unit = .step := ⟨rfl, rfl⟩
/-- the trace predicates are not trivially true -/
example : ¬ countsOk 2 0 [.step 3 1] := by simp [countsOk]
example : ¬ antitoneOk none [.progress 1 2 (1 / 2), .progress 2 2 (3 / 4)] := by
  simp only [antitoneOk]; norm_num
example : ¬ lrOk (some (1 / 2)) [.train 4 1 0 (1 / 4) 1] := by simp only [lrOk]; norm_num
example : ¬ progressOk 8 20 [.progress 8 20 (-1 / 5)] := by
  simp only [progressOk]
  rw [show progressOf 8 20 = 3 / 5 by decide +kernel]
  norm_num
example : ¬ rolloutStepsOk 0 [.step 1 1, .rolloutEnd 1 2 1] := by simp [rolloutStepsOk]
/-- PPO, 2 envs × 4 steps, `learn(20)`: three rollouts, overshoot to 24 (`8 ∤ 20`), 3·(2·3) optimizer steps -/
example : (run exPPO State.init (.learn 20 true :: quiet 12)).1.num = 24 := by decide +kernel
example : (run exPPO State.init (.learn 20 true :: quiet 12)).1.running = false := by decide +kernel
example : (run exPPO State.init (.learn 20 true :: quiet 12)).1.stopped = false := by decide +kernel
example : (run exPPO State.init (.learn 20 true :: quiet 12)).1.optSteps = 18 := by decide +kernel
example : 0 + exPPO.nEnvs * 4 * ceilDiv 20 (exPPO.nEnvs * 4) = 24 := by decide
example : ∀ op ∈ quiet 12, ∃ a d, op = Op.env a d [] := by
  intro op h; exact ⟨false, 0, by simpa [quiet] using (List.eq_of_mem_replicate h)⟩
/-- the last progress of that call would be `1 - 24/20 < 0` without the clamp -/
example : progressOf 24 20 = 0 ∧ progressOf 16 20 = 1 / 5 := by decide +kernel
/-- a second call without reset continues at 24 towards 24 + 5 and is stopped by the callback at its 3rd step -/
example :
    (run exPPO State.init (.learn 20 true :: quiet 12 ++ [.learn 5 false, .env false 0 [], .env false 0 [],
      .env true 0 []])).1 =
      { num := 30, total := 29, start := 24, progress := 0, nUpdates := 6, optSteps := 18, episodeNum := 0,
        running := false, stopped := true, colSteps := 2, colEps := 0 } := by decide +kernel
/-- DQN, 4 envs, `train_freq = 2`, `gradient_steps = -1`, `learning_starts = 8`, `learn(10)`: boundaries 8, 16;
no update at 8 (`8 > 8` is false), 8 gradient steps at 16 -/
example : trains (run exDQN State.init (.learn 10 true :: quiet 4)).2 = [(16, 8)] := by decide +kernel
example : (run exDQN State.init (.learn 10 true :: quiet 4)).1.num = 16 := by decide +kernel
example : gradStepsOf exDQN.nEnvs ⟨2, .step, -1, 8, 0⟩ 2 * (ceilDiv 10 8 - min (ceilDiv 10 8) ((8 - 0) / 8)) = 8 := by
  decide
/-- TD3, one episode per rollout: episodes of 2, 1 and 2 steps; updates only once `num > 2` -/
example :
    trains (run exTD3 State.init
      [.learn 4 true, .env false 0 [], .env false 1 [], .env false 1 [], .env false 0 [], .env false 1 []]).2 =
      [(3, 3), (5, 3)] := by decide +kernel
example : actorSteps 2 3 5 = 3 := by decide
/-- PPO, 2 epochs × 3 minibatches: the 5th minibatch (index 4, in epoch `4 / 3 = 1`) is the first whose KL exceeds —
4 optimizer steps, 2 updates counted; a later flag (index 5) changes nothing, a flag beyond the call's minibatches
is never reached -/
example : onTrainCounts 2 ⟨4, false, 3, 2⟩ [false, false, false, false, true, true] = (4, 2) := by decide
example : onTrainCounts 2 ⟨4, false, 3, 2⟩ [false, false, false, false, false, false, true] = (6, 2) := by decide
example : onTrainCounts 2 ⟨4, false, 3, 2⟩ [true] = (0, 1) := by decide
example : linearFn 1 (1 / 20) (1 / 10) (19 / 20) = 21 / 40 := by decide +kernel

/-- Re-export of `C08C12.dqn_updates_of_history` / `td3_updates_of_history` / `dqn_updates_of_stretch`
(`Props/C08C12.lean`): the trace of ANY `learn()` history of this model, fed to C08's counter machine, makes exactly
`⌊(n_calls₀ + K)/p⌋ − ⌊n_calls₀/p⌋` DQN target updates (`K` = vectorised steps of the trace, `p = max (I / n_envs) 1`),
no gradient step of DQN touches the target, TD3/DDPG make `⌊(u₀ + G)/delay⌋ − ⌊u₀/delay⌋` delayed updates (`G` = gradient
steps of the trace), and for a stretch without counter reset `K = Δnum_timesteps / n_envs`. -/
theorem target_updates_of_learn_history {α : Type} (ccfg : Cadence.Cfg α) (c : Cadence.Ctr)
    (cfg : Cfg) (s : State) (ops : List Op) :
    (ccfg.algo = .dqn →
      (Cadence.envFlags (Cadence.ctrRun ccfg c (C08C12.toCtr (run cfg s ops).2)).2).count true =
        (c.nCalls + C08C12.stepCount (run cfg s ops).2) / Cadence.dqnEvery ccfg - c.nCalls / Cadence.dqnEvery ccfg ∧
      (Cadence.gradFlags (Cadence.ctrRun ccfg c (C08C12.toCtr (run cfg s ops).2)).2).count true = 0) ∧
    (ccfg.algo = .td3 →
      (Cadence.gradFlags (Cadence.ctrRun ccfg c (C08C12.toCtr (run cfg s ops).2)).2).count true =
        (c.nUpdates + C08C12.gradCount (run cfg s ops).2) / ccfg.delay - c.nUpdates / ccfg.delay) :=
  ⟨fun h => C08C12.dqn_updates_of_history ccfg h c cfg s ops, fun h => C08C12.td3_updates_of_history ccfg h c cfg s ops⟩

theorem dqn_updates_of_stretch {α : Type} (ccfg : Cadence.Cfg α) (h : ccfg.algo = .dqn) (c : Cadence.Ctr) (n cur : ℕ)
    (hn : 0 < n) (evs : List Ev) (hc : countsOk n cur evs) (hs : C08C12.noSetup evs = true) :
    (Cadence.envFlags (Cadence.ctrRun ccfg c (C08C12.toCtr evs)).2).count true =
      (c.nCalls + (C08C12.lastNum cur evs - cur) / n) / Cadence.dqnEvery ccfg - c.nCalls / Cadence.dqnEvery ccfg :=
  C08C12.dqn_updates_of_stretch ccfg h c n cur hn evs hc hs

end SB3Verif.C12
