/-
Model of `polyak_update` (stable_baselines3/common/utils.py) and of the tensors it acts on.

    with th.no_grad():
        for param, target_param in zip_strict(params, target_params):
            target_param.data.mul_(1 - tau)
            th.add(target_param.data, param.data, alpha=tau, out=target_param.data)

* `polyak1`       — the two in-place lines on one scalar: first `t * (1 - tau)`, then `+ tau * o`.
* `zipStrict`     — `zip_strict`: a length mismatch is an error (`none`), never a silent truncation.
* `polyakTensor`  — element-wise over one (flattened) tensor; a shape mismatch is an error.
* `polyakUpdate`  — the call on two lists of tensors (what `polyak_update` receives).
* `Store`         — named tensors (every parameter / running statistic of the online and target networks
                    under one name per tensor *object*), `polyakGroup` = the same call made on two lists of
                    names, executed sequentially and in place exactly like the loop, `applyWrite` = an
                    optimizer step (or a training-mode forward pass updating running statistics): it can
                    only write the tensors it owns.

Import-free; generic over the scalar type so that the theorems (any commutative ring / ordered field)
and the driver (`Rat`) run the same definitions.
-/

namespace SB3Verif.Polyak

/-- `zip_strict`: pairs of corresponding elements, `none` when the lengths differ. -/
def zipStrict {β γ : Type} : List β → List γ → Option (List (β × γ))
  | [], [] => some []
  | a :: as, b :: bs =>
    match zipStrict as bs with
    | some r => some ((a, b) :: r)
    | none => none
  | _, _ => none

section scalar
variable {α : Type} [Add α] [Sub α] [Mul α] [One α]

/-- `target_param.data.mul_(1 - tau)` -/
def scaleTarget (τ t : α) : α := t * (1 - τ)

/-- one element after both in-place lines:
`th.add(target, param, alpha=tau, out=target)` applied to the scaled target. -/
def polyak1 (τ t o : α) : α := scaleTarget τ t + τ * o

/-- one tensor (flattened): `polyakTensor τ target online`; shapes must agree. -/
def polyakTensor (τ : α) (t o : List α) : Option (List α) :=
  match zipStrict t o with
  | some ps => some (ps.map fun p => polyak1 τ p.1 p.2)
  | none => none

/-- all tensors of the (already strictly zipped) pairs `(param, target_param)` -/
def polyakAll (τ : α) : List (List α × List α) → Option (List (List α))
  | [] => some []
  | (o, t) :: rest =>
    match polyakTensor τ t o, polyakAll τ rest with
    | some nt, some r => some (nt :: r)
    | _, _ => none

/-- `polyak_update(params, target_params, tau)`: the new contents of `target_params`
(`params` is only read), or `none` when the code raises. -/
def polyakUpdate (τ : α) (params targets : List (List α)) : Option (List (List α)) :=
  match zipStrict params targets with
  | some ps => polyakAll τ ps
  | none => none

/-! ### Named tensors -/

/-- All tensors the training loop can touch, one entry per tensor object. -/
abbrev Store (α : Type) := List (String × List α)

/-- overwrite the tensor called `n` (in place: position and name are kept) -/
def Store.set {α : Type} (s : Store α) (n : String) (v : List α) : Store α :=
  s.map fun e => if e.1 == n then (e.1, v) else e

/-- the loop body of `polyak_update` over `(param name, target name)` pairs, sequentially, in place -/
def polyakPairs (τ : α) : List (String × String) → Store α → Option (Store α)
  | [], s => some s
  | (o, t) :: rest, s =>
    match s.lookup o, s.lookup t with
    | some ov, some tv =>
      match polyakTensor τ tv ov with
      | some nv => polyakPairs τ rest (s.set t nv)
      | none => none
    | _, _ => none

/-- `polyak_update(online tensors, target tensors, tau)` on the store -/
def polyakGroup (τ : α) (online target : List String) (s : Store α) : Option (Store α) :=
  match zipStrict online target with
  | some ps => polyakPairs τ ps s
  | none => none

end scalar

/-- One external write: an `optimizer.step()` (owned = the tensors in its `param_groups`) or a forward pass
of an online network in training mode (owned = that network's running statistics). `vals` are the new
contents; whatever `vals` says about a tensor that is not owned is ignored. -/
structure Write (α : Type) where
  owned : List String
  vals : Store α

def applyWrite {α : Type} (w : Write α) (s : Store α) : Store α :=
  s.map fun e =>
    if w.owned.contains e.1 then
      match w.vals.lookup e.1 with
      | some v => (e.1, v)
      | none => e
    else e

def applyWrites {α : Type} (ws : List (Write α)) (s : Store α) : Store α :=
  ws.foldl (fun s w => applyWrite w s) s

end SB3Verif.Polyak
