"""
C13 — Callback event protocol.

Implementation under test: stable_baselines3.common.callbacks (BaseCallback, CallbackList, EventCallback,
EveryNTimesteps, EvalCallback, CheckpointCallback, StopTrainingOnMaxEpisodes) driven by the real
`learn()` of A2C / PPO / DQN / SAC / TD3 (on_policy_algorithm.py, off_policy_algorithm.py, base_class.py).
Model: lean/SB3Verif/Model/Callback.lean (driver lean/SB3Verif/Driver/C13.lean).

Observation: every node of a generated callback tree is instrumented *from the harness* (instance-level
wrappers around its six entry points) so that the complete call tree of every `learn()` is recorded; the leaves
are recording user callbacks that note what a user can read (`n_calls`, `num_timesteps`, `locals`) and that
answer False at scripted call counts. `evaluate_policy` (as imported by callbacks.py) and `BaseAlgorithm.save`
are spied to observe evaluations / checkpoints.

Two detectors:
  * correspondence: leaf/eval/save event log, per-node attributes, root call trace == Lean model's;
  * oracle: the property coded locally per node of the recorded call tree + the root grammar against the
    scripted environments' own logs (no use of the Lean model).
"""
from __future__ import annotations

import copy
import json
import math
import os
import shutil
import tempfile
import warnings
from fractions import Fraction as F

import numpy as np

from harness.common import guarded, ratj

RULE = (
    "cases from one SplitMix64 stream: algorithm in A2C/PPO/DQN/SAC/TD3, n_envs 1..3, rollout size 1..6 "
    "(off-policy: train_freq in steps or, single env, in episodes), scripted training envs (episode ends scripted), "
    "random callback tree (depth<=3, fan-out<=3: CallbackList / EveryNTimesteps(1..7) / LogEveryNTimesteps / "
    "EvalCallback(freq 0..5, on-new-best and after-eval children, scripted eval env so that the sequence of mean rewards "
    "is scripted) / CheckpointCallback(1..5) / StopTrainingOnMaxEpisodes(1..4) / StopTrainingOnRewardThreshold and "
    "StopTrainingOnNoModelImprovement(max 0..2, min 0..2) below EvalCallbacks / ConvertCallback around a recording "
    "function / recording leaf that answers False at scripted n_calls), root passed as object, python list, bare "
    "function or None, 1-3 learn() calls with/without reset_num_timesteps, totals not multiples of the rollout size. "
    "non-trivial = tree with >= 2 levels and (a stop request that fired or a second learn call); "
    "distinct = distinct canonical case"
)
STREAMS = {
    "events": "ordered log of leaf entry points (n_calls, num_timesteps, locals step, answer), evaluations and saves "
              "of each learn() == model's",
    "attrs": "n_calls / num_timesteps / last_time_trigger / n_episodes / best_mean_reward of every node after each "
             "learn() == model's",
    "trace": "entry points invoked on the root callback with arguments and answers == model's loop machine",
}

EPS = ["on_training_start", "on_rollout_start", "update_locals", "on_step", "on_rollout_end", "on_training_end"]
EP_SHORT = {"on_training_start": "training_start", "on_rollout_start": "rollout_start", "update_locals": "update_locals",
            "on_step": "step", "on_rollout_end": "rollout_end", "on_training_end": "training_end"}
ALGOS = ["A2C", "PPO", "DQN", "SAC", "TD3"]
ON_POLICY = ("A2C", "PPO")


# ------------------------------------------------------------------------------------------------
# generation
# ------------------------------------------------------------------------------------------------
def gen_env_script(rng, must_end):
    style = rng.weighted([("mixed", 5), ("len1", 1), ("never", 0 if must_end else 1), ("both", 1), ("short", 2)])
    length = rng.randint(3, 9)
    out = []
    for _ in range(length):
        rew = rng.choice([0.0, 1.0, -1.0, 0.5, 2.0, -0.25, 3.0])
        if style == "never":
            term = trunc = False
        elif style == "len1":
            term, trunc = rng.choice([(True, False), (False, True), (True, True)])
        elif style == "both":
            term, trunc = (True, True) if rng.chance(0.4) else (False, False)
        elif style == "short":
            term, trunc = rng.weighted([((False, False), 2), ((True, False), 2), ((False, True), 1)])
        else:
            term, trunc = rng.weighted([((False, False), 6), ((True, False), 2), ((False, True), 2), ((True, True), 1)])
        out.append([rew, term, trunc])
    if must_end and not any(t or u for _, t, u in out):
        out[rng.randint(0, length - 1)][1] = True
    return out


def gen_eval_script(rng):
    """episodes of the eval env must end; rewards dyadic so that returns are exact"""
    length = rng.randint(2, 7)
    out = []
    for _ in range(length):
        rew = rng.choice([0.0, 1.0, -1.0, 0.5, 2.0, 4.0, -2.0])
        term, trunc = rng.weighted([((False, False), 3), ((True, False), 3), ((False, True), 1)])
        out.append([rew, term, trunc])
    out[-1][1] = True
    return out


THRESHOLDS = [-1.0, 0.0, 0.5, 1.0, 2.0, 3.0, 4.0]


def gen_tree(rng, depth, counter, horizon, under_best=False, top=False, pe=False):
    """horizon ~ number of vectorised steps the whole case performs (for picking stop points);
    pe: this position's `parent` attribute is an EvalCallback (directly or through CallbackLists), so the two
    callbacks that read `parent.best_mean_reward` may be placed here"""
    nid = counter[0]
    counter[0] += 1
    pe_kinds = [("thr", 5), ("noimp", 6)] if pe else []
    if depth <= 0:
        kind = rng.weighted([("leaf", 7), ("fn", 2), ("ckpt", 2), ("maxep", 1.5)] + pe_kinds)
    else:
        kind = rng.weighted([("leaf", 3 if not top else 1.5), ("fn", 1), ("list", 4 if not top else 6), ("everyN", 3),
                             ("eval", 3), ("logN", 0.7), ("ckpt", 1 if not top else 0.5),
                             ("maxep", 0.8 if not top else 0.3)] + pe_kinds)
    if kind in ("leaf", "fn"):
        stops = []
        if rng.chance(0.3):
            for _ in range(rng.randint(1, 2)):
                stops.append(rng.randint(1, max(1, horizon)))
        return {"t": kind, "id": nid, "stops": sorted(set(stops))}
    if kind == "ckpt":
        return {"t": "ckpt", "id": nid, "freq": rng.randint(1, 5)}
    if kind == "maxep":
        return {"t": "maxep", "id": nid, "max": rng.randint(1, 4)}
    if kind == "thr":
        return {"t": "thr", "id": nid, "thr": rng.choice(THRESHOLDS)}
    if kind == "noimp":
        return {"t": "noimp", "id": nid, "max": rng.randint(0, 2), "min": rng.randint(0, 2)}
    if kind == "logN":
        cid = counter[0]
        counter[0] += 1
        return {"t": "logN", "id": nid, "cid": cid, "n": rng.randint(1, 7)}
    if kind == "list":
        n = rng.weighted([(0, 0.3), (1, 2), (2, 4), (3, 3)])
        return {"t": "list", "id": nid, "ch": [gen_tree(rng, depth - 1, counter, horizon, under_best, pe=pe) for _ in range(n)]}
    if kind == "everyN":
        return {"t": "everyN", "id": nid, "n": rng.randint(1, 7),
                "ch": gen_tree(rng, depth - 1, counter, max(1, horizon // 2), under_best)}
    # eval
    def child(hz, ub):
        if rng.chance(0.12):
            # a callback reading `parent.best_mean_reward` two CallbackLists below the EvalCallback (parent pass-through)
            def stopper():
                i = counter[0]
                counter[0] += 1
                return ({"t": "thr", "id": i, "thr": rng.choice(THRESHOLDS)} if rng.chance(0.5)
                        else {"t": "noimp", "id": i, "max": rng.randint(0, 2), "min": rng.randint(0, 2)})
            outer = counter[0]
            inner = counter[0] + 1
            counter[0] += 2
            inner_ch = [stopper()]
            if rng.chance(0.5):
                inner_ch.append(gen_tree(rng, 0, counter, hz, ub, pe=True))
            outer_ch = [{"t": "list", "id": inner, "ch": inner_ch}]
            if rng.chance(0.4):
                outer_ch.append(gen_tree(rng, 0, counter, hz, ub, pe=True))
            return {"t": "list", "id": outer, "ch": outer_ch}
        return gen_tree(rng, depth - 1, counter, hz, ub, pe=True)

    best = child(2, True) if rng.chance(0.6) else None
    after = child(max(1, horizon // 2), under_best) if rng.chance(0.7) else None
    return {"t": "eval", "id": nid, "freq": rng.weighted([(0, 0.5), (1, 3), (2, 3), (3, 2), (4, 1), (5, 1)]),
            "best": best, "after": after, "script": gen_eval_script(rng), "n_ep": rng.randint(1, 3)}


def gen_case(rng, widen=False):
    algo = rng.choice(ALGOS)
    n_envs = rng.weighted([(1, 4), (2, 3), (3, 2)])
    unit = "step"
    if algo not in ON_POLICY and n_envs == 1 and rng.chance(0.3):
        unit = "episode"
    k = rng.randint(1, 6) if unit == "step" else rng.randint(1, 2)
    n_learn = rng.weighted([(1, 3), (2, 4), (3, 2)])
    learns = []
    for i in range(n_learn):
        learns.append({"total": rng.randint(1, 24 if not widen else 40), "reset": True if i == 0 and rng.chance(0.7) else rng.chance(0.5),
                       "set_env": bool(i > 0 and rng.chance(0.3))})
    horizon = max(2, sum(l["total"] for l in learns) // n_envs)
    counter = [0]
    rootmode = "obj"
    if rng.chance(0.04):
        tree = {"t": "none", "id": 0}
        rootmode = "none"
    else:
        tree = gen_tree(rng, rng.weighted([(0, 1), (1, 3), (2, 4), (3, 3)]), counter, horizon, top=True)
        if tree["t"] == "list" and rng.chance(0.25):
            rootmode = "pylist"
        elif tree["t"] == "fn" and rng.chance(0.6):
            rootmode = "fn"
    return {
        "rootmode": rootmode,
        "algo": algo, "n_envs": n_envs, "unit": unit, "k": k,
        "scripts": [gen_env_script(rng, unit == "episode") for _ in range(n_envs)],
        "tree": tree, "pylist": rootmode == "pylist",
        "learns": learns, "learning_starts": rng.choice([0, 0, 3, 100]), "seed": rng.randint(0, 2**31 - 1),
    }


def gen_two_models(rng):
    """oracle-only stream: one callback container used by model A, one of its children lent to a model B in between,
    then A again (order A, B, A): every event A's run delivers must carry A and A's counter (seeded change C13-i)"""
    n = rng.randint(1, 3)
    return {"kind": "two_models", "algo": rng.choice(["A2C", "DQN"]), "n_envs": n, "k": rng.randint(1, 4), "unit": "step",
            "learning_starts": 0, "seed": rng.randint(0, 2**31 - 1),
            "scripts": [gen_script(rng) for _ in range(n)] if "gen_script" in globals() else None,
            "container": rng.choice(["list", "eval", "everyN"]), "every": rng.randint(1, 5),
            "totals": [rng.randint(2, 12), rng.randint(2, 20), rng.randint(2, 12)], "reset_third": rng.chance(0.5)}


def gen_cases(ctx):
    cases = [gen_case(ctx.rng, ctx.widen) for _ in range(ctx.budget(320, 3600))]
    cases += [gen_two_models(ctx.rng) for _ in range(ctx.budget(24, 240))]
    return cases


def check_two_models(ctx, case):
    """see gen_two_models"""
    import warnings

    from stable_baselines3.common.callbacks import BaseCallback, CallbackList, EvalCallback, EveryNTimesteps
    from stable_baselines3.common.vec_env import DummyVecEnv

    from harness.envs import EnvFn

    rep = ctx.report
    rep.count("kind:two_models:" + case["container"])
    warnings.filterwarnings("ignore")
    base = dict(case)
    if not base.get("scripts"):
        base["scripts"] = [[[1.0, False, False]] * 5 + [[0.0, True, False]] for _ in range(case["n_envs"])]
    A, envA = make_model(base)
    B, envB = make_model(dict(base, seed=case["seed"] + 1))
    bad = []

    class Rec(BaseCallback):
        def __init__(self, name):
            super().__init__()
            self.name = name
            self.owner = None   # the model whose learn() is running

        def _chk(self, ev):
            own = self.owner
            if own is None:
                return
            if self.model is not own:
                bad.append((self.name, ev, "callback.model is not the model being trained"))
            elif int(self.num_timesteps) != int(own.num_timesteps) and ev != "training_start_pre":
                bad.append((self.name, ev, f"num_timesteps {int(self.num_timesteps)} != model's {int(own.num_timesteps)}"))

        def _on_training_start(self):
            self._chk("training_start")

        def _on_rollout_start(self):
            if self.owner is not None and self.model is not self.owner:
                bad.append((self.name, "rollout_start", "callback.model is not the model being trained"))

        def _on_step(self):
            self._chk("step")
            return True

    leaf = Rec("leaf")
    inner = Rec("inner")
    try:
        if case["container"] == "list":
            container = CallbackList([leaf, EveryNTimesteps(case["every"], inner)])
            lend = leaf
        elif case["container"] == "everyN":
            container = CallbackList([EveryNTimesteps(case["every"], inner), leaf])
            lend = leaf
        else:
            evenv = DummyVecEnv([EnvFn(env_id=9, obs_kind="box1", act_kind=act_kind(base), script=base["scripts"][0],
                                       check_actions=False)])
            container = EvalCallback(evenv, callback_on_new_best=inner, callback_after_eval=None, eval_freq=case["every"],
                                     n_eval_episodes=1, verbose=0, warn=False)
            container = CallbackList([container, leaf])
            lend = inner
        for cb in (leaf, inner):
            cb.owner = A
        guarded(ctx, case, lambda: A.learn(case["totals"][0], callback=container))
        for cb in (leaf, inner):
            cb.owner = B if cb is lend else None
        guarded(ctx, case, lambda: B.learn(case["totals"][1], callback=lend))
        for cb in (leaf, inner):
            cb.owner = A
        guarded(ctx, case, lambda: A.learn(case["totals"][2], callback=container, reset_num_timesteps=case["reset_third"]))
    finally:
        envA.close()
        envB.close()
    rep.case(case, {k: case[k] for k in ("algo", "n_envs", "container", "reset_third")})
    if bad:
        rep.violation("a callback lent to another model in between reports the wrong model / timestep counter", case,
                      {"kind": "two_models", "container": case["container"], "what": bad[0][2].split(" ")[0]},
                      {"first": [list(map(str, b)) for b in bad[:4]]})


# ------------------------------------------------------------------------------------------------
# tree helpers
# ------------------------------------------------------------------------------------------------
def rootmode(case):
    return case.get("rootmode") or ("pylist" if case.get("pylist") else "obj")


def children_of(nd):
    """[(edge, child)] of present children"""
    t = nd["t"]
    if t == "list":
        return [("list", c) for c in nd["ch"]]
    if t == "everyN":
        return [("event", nd["ch"])]
    if t == "logN":
        # LogEveryNTimesteps = EveryNTimesteps around ConvertCallback(self._log_data)
        return [("event", {"t": "fn", "id": nd["cid"], "stops": [], "log": True})]
    if t == "eval":
        return [(e, nd[e]) for e in ("best", "after") if nd[e] is not None]
    return []


def index_tree(tree):
    """id -> (node, depth, under_best, under_event, id of the EvalCallback its `parent` attribute is, or None)"""
    out = {}

    def go(nd, depth, ub, ue, pe, nl):
        out[nd["id"]] = (nd, depth, ub, ue, pe)
        lists_above[nd["id"]] = nl
        for edge, c in children_of(nd):
            cpe = pe if edge == "list" else (nd["id"] if nd["t"] == "eval" else None)
            go(c, depth + 1, ub or edge == "best", ue or edge != "list", cpe, nl + 1 if edge == "list" else 0)

    lists_above = {}
    go(tree, 0, False, False, None, 0)
    index_tree.lists_above = lists_above
    return out


def valid_tree(tree):
    """the two callbacks that read `parent.best_mean_reward` must have an EvalCallback as `parent`"""
    return all(v[4] is not None for v in index_tree(tree).values() if v[0]["t"] in ("thr", "noimp"))


def lean_tree(nd):
    if nd is None:
        return None
    t = nd["t"]
    if t == "none":
        return None
    if t in ("leaf", "fn"):
        return {"t": t, "id": nd["id"], "stops": nd["stops"]}
    if t == "list":
        return {"t": "list", "id": nd["id"], "ch": [lean_tree(c) for c in nd["ch"]]}
    if t == "everyN":
        return {"t": "everyN", "id": nd["id"], "n": nd["n"], "ch": lean_tree(nd["ch"])}
    if t == "logN":
        return {"t": "everyN", "id": nd["id"], "n": nd["n"], "ch": {"t": "fn", "id": nd["cid"], "stops": []}}
    if t == "eval":
        return {"t": "eval", "id": nd["id"], "freq": nd["freq"], "best": lean_tree(nd["best"]), "after": lean_tree(nd["after"])}
    if t == "ckpt":
        return {"t": "ckpt", "id": nd["id"], "freq": nd["freq"]}
    if t == "thr":
        return {"t": "thr", "id": nd["id"], "thr": ratj(F(nd["thr"]))}
    if t == "noimp":
        return {"t": "noimp", "id": nd["id"], "max": nd["max"], "min": nd["min"]}
    return {"t": "maxep", "id": nd["id"], "max": nd["max"]}


def shrink_candidates(case):
    if case.get("kind") == "two_models":
        return
    for c in _shrink_candidates(case):
        if valid_tree(c["tree"]):
            yield c


def _shrink_candidates(case):
    if len(case["learns"]) > 1:
        for i in range(len(case["learns"])):
            c = copy.deepcopy(case)
            del c["learns"][i]
            yield c
    # replace the tree by one of its sub-trees / drop a child of a list / simplify a node
    def subtrees(nd):
        for _, c in children_of(nd):
            yield c
            yield from subtrees(c)

    for sub in subtrees(case["tree"]):
        c = copy.deepcopy(case)
        c["tree"] = copy.deepcopy(sub)
        c["pylist"] = False
        c["rootmode"] = "obj"
        yield c

    def edits(nd):
        """yield (apply, undo) in-place edits on a deep copy"""
        if nd["t"] == "list":
            for i in range(len(nd["ch"])):
                yield ("drop", nd, i)
        if nd["t"] == "eval":
            for e in ("best", "after"):
                if nd[e] is not None:
                    yield ("none", nd, e)
        if nd["t"] == "leaf" and nd["stops"]:
            yield ("nostop", nd, None)
        for _, ch in children_of(nd):
            yield from edits(ch)

    n_edits = sum(1 for _ in edits(case["tree"]))
    for j in range(n_edits):
        c = copy.deepcopy(case)
        what, nd, arg = list(edits(c["tree"]))[j]
        if what == "drop":
            del nd["ch"][arg]
        elif what == "none":
            nd[arg] = None
        else:
            nd["stops"] = []
        yield c
    if case["n_envs"] > 1:
        c = copy.deepcopy(case)
        c["n_envs"] -= 1
        c["scripts"] = c["scripts"][:-1]
        yield c
    for i, l in enumerate(case["learns"]):
        if l["total"] > 1:
            c = copy.deepcopy(case)
            c["learns"][i]["total"] = l["total"] // 2
            yield c
    if case["algo"] != "A2C" and case["unit"] == "step":
        c = copy.deepcopy(case)
        c["algo"] = "A2C"
        yield c


# ------------------------------------------------------------------------------------------------
# running the implementation
# ------------------------------------------------------------------------------------------------
def loc_of(node):
    """which step the node's `locals` describe: ScriptedEnv counts its step() calls in info['k']"""
    infos = node.locals.get("infos") if isinstance(node.locals, dict) else None
    if infos is None:
        return 0
    return int(infos[0]["k"])


class Rec:
    def __init__(self):
        self.stack = []
        self.roots = []      # entries invoked from outside any recorded node
        self.events = []     # user-visible events, in order
        self.snaps = []      # leaf step snapshots of locals (for the oracle)
        self.evals = []      # mean reward of each evaluation, in order
        self.saved = []      # paths handed to model.save
        self.nodes = {}
        self.model = None
        self.env0 = None

    def begin(self, nid, ep):
        e = {"id": nid, "ep": ep, "envk": int(self.env0.n_steps), "mnum": int(self.model.num_timesteps), "ch": []}
        (self.stack[-1]["ch"] if self.stack else self.roots).append(e)
        self.stack.append(e)
        return e

    def end(self, e, node, ret, raised):
        self.stack.pop()
        e["ret"] = None if ret is None else bool(ret)
        e["raised"] = raised
        e["nc"] = int(node.n_calls)
        e["nt"] = int(node.num_timesteps)
        e["loc"] = loc_of(node)


def instrument(node, nid, rec, observable_answer=False, answer_loc=True):
    node._nid = nid
    rec.nodes[nid] = node
    for ep in EPS:
        orig = getattr(node, ep)

        def w(*a, _orig=orig, _ep=ep, **k):
            e = rec.begin(nid, _ep)
            ok = False
            r = None
            try:
                r = _orig(*a, **k)
                ok = True
                if observable_answer and _ep == "on_step":
                    # StopTrainingOnMaxEpisodes: its answer is what a user observes of it
                    rec.events.append([nid, "step", int(node.n_calls), int(node.num_timesteps),
                                       loc_of(node) if answer_loc else 0, bool(r)])
                return r
            finally:
                rec.end(e, node, r, not ok)

        setattr(node, ep, w)


def build_tree(nd, rec, tmpdir, case):
    from stable_baselines3.common.callbacks import (BaseCallback, CallbackList, CheckpointCallback, ConvertCallback,
                                                    EvalCallback, EveryNTimesteps, LogEveryNTimesteps,
                                                    StopTrainingOnMaxEpisodes, StopTrainingOnNoModelImprovement,
                                                    StopTrainingOnRewardThreshold)
    from stable_baselines3.common.vec_env import DummyVecEnv

    from harness.envs import EnvFn

    class RecLeaf(BaseCallback):
        """a user callback: records what it can read at every hook; answers False at scripted call counts"""

        def __init__(self, nid, stops):
            super().__init__()
            self.nid = nid
            self.stops = set(stops)

        def _note(self, kind, ret=True):
            rec.events.append([self.nid, kind, int(self.n_calls), int(self.num_timesteps), loc_of(self), ret])

        def _on_training_start(self):
            self._note("training_start")

        def _on_rollout_start(self):
            self._note("rollout_start")

        def _on_rollout_end(self):
            self._note("rollout_end")

        def _on_training_end(self):
            self._note("training_end")

        def _on_step(self):
            ret = self.n_calls not in self.stops
            self._note("step", ret)
            loc = self.locals
            snap = {"id": self.nid, "envk": int(rec.env0.n_steps), "mnum": int(self.model.num_timesteps), "has": "infos" in loc,
                    "nt": int(self.num_timesteps), "nc": int(self.n_calls)}
            if "infos" in loc:
                snap["k"] = [int(i["k"]) for i in loc["infos"]]
                snap["tags"] = [int(i["tag"]) for i in loc["infos"]]
                snap["rewards"] = [float(x) for x in np.asarray(loc["rewards"]).reshape(-1)]
                snap["dones"] = [bool(x) for x in np.asarray(loc["dones"]).reshape(-1)]
                snap["new_obs0"] = [float(x) for x in np.asarray(loc["new_obs"])[:, 0]]
                snap["term_tags"] = [None if i.get("terminal_observation") is None else float(np.asarray(i["terminal_observation"]).reshape(-1)[0])
                                     for i in loc["infos"]]
                snap["counter"] = int(loc["n_steps"]) if "n_steps" in loc else int(loc["num_collected_steps"]) - 1
            rec.snaps.append(snap)
            return ret

    def go(nd):
        t = nd["t"]
        if t == "leaf":
            o = RecLeaf(nd["id"], nd["stops"])
        elif t == "list":
            o = CallbackList([go(c) for c in nd["ch"]])
        elif t == "everyN":
            o = EveryNTimesteps(nd["n"], go(nd["ch"]))
        elif t == "ckpt":
            o = CheckpointCallback(nd["freq"], os.path.join(tmpdir, "ck"), name_prefix=f"ck{nd['id']}")
        elif t == "maxep":
            o = StopTrainingOnMaxEpisodes(nd["max"])
        elif t == "fn":
            o = ConvertCallback(make_fn(nd["id"], nd["stops"], rec))
        elif t == "thr":
            o = StopTrainingOnRewardThreshold(nd["thr"], verbose=0)
        elif t == "noimp":
            o = StopTrainingOnNoModelImprovement(nd["max"], nd["min"], verbose=0)
        elif t == "logN":
            o = LogEveryNTimesteps(nd["n"])
            instrument(o.callback, nd["cid"], rec, observable_answer=True)
        else:
            env = DummyVecEnv([EnvFn(env_id=7, obs_kind="box1", act_kind=act_kind(case), script=nd["script"], check_actions=False)])
            o = EvalCallback(env, callback_on_new_best=go(nd["best"]) if nd["best"] is not None else None,
                             callback_after_eval=go(nd["after"]) if nd["after"] is not None else None,
                             n_eval_episodes=nd["n_ep"], eval_freq=nd["freq"], verbose=0, warn=False)
        instrument(o, nd["id"], rec, observable_answer=t in ("maxep", "thr", "noimp"), answer_loc=(t == "maxep"))
        return o

    return go(nd)


def make_fn(nid, stops, rec):
    """an old-style function callback: records what it can read from `locals`, counts its own invocations and answers
    False at scripted counts"""
    st = {"fc": 0}
    stops = set(stops)

    def f(locals_, globals_):
        st["fc"] += 1
        ret = st["fc"] not in stops
        infos = locals_.get("infos")
        loc = int(infos[0]["k"]) if infos is not None else 0
        rec.events.append([nid, "step", st["fc"], int(locals_["self"].num_timesteps), loc, ret])
        return ret

    return f


def act_kind(case):
    return "box_sym" if case["algo"] in ("SAC", "TD3") else "discrete"


def make_model(case):
    import stable_baselines3 as sb3
    from stable_baselines3.common.vec_env import DummyVecEnv

    from harness.envs import EnvFn

    n = case["n_envs"]
    venv = DummyVecEnv([EnvFn(env_id=e, obs_kind="box1", act_kind=act_kind(case), script=case["scripts"][e], check_actions=False)
                        for e in range(n)])
    kw = dict(policy="MlpPolicy", env=venv, device="cpu", verbose=0, seed=case["seed"], policy_kwargs=dict(net_arch=[4]))
    a, k = case["algo"], case["k"]
    if a == "A2C":
        m = sb3.A2C(n_steps=k, **kw)
    elif a == "PPO":
        size = k * n
        m = sb3.PPO(n_steps=k, batch_size=max(size, 1), n_epochs=1, normalize_advantage=size > 1, **kw)
    else:
        cls = getattr(sb3, a)
        extra = dict(target_update_interval=3) if a == "DQN" else {}
        m = cls(train_freq=(k, case["unit"]), learning_starts=case["learning_starts"], gradient_steps=1, batch_size=4,
                buffer_size=64, **extra, **kw)
    return m, venv


def run_impl(ctx, case):
    import stable_baselines3.common.callbacks as cbmod
    from stable_baselines3.common.base_class import BaseAlgorithm
    from stable_baselines3.common.callbacks import CallbackList

    warnings.filterwarnings("ignore")
    rec = Rec()
    tmpdir = tempfile.mkdtemp(prefix="c13_")
    orig_eval, orig_save, orig_init = cbmod.evaluate_policy, BaseAlgorithm.save, BaseAlgorithm._init_callback

    def spy_eval(model, env, **kw):
        cb = kw["callback"].__self__
        res = orig_eval(model, env, **kw)
        mean = float(np.mean(res[0]))
        rec.events.append([cb._nid, "eval", int(cb.n_calls), int(cb.num_timesteps), 0, True])
        rec.evals.append(mean)
        if rec.stack:
            rec.stack[-1].setdefault("eval_means", []).append(mean)
        return res

    def spy_save(self, path, *a, **k):
        rec.saved.append(str(path))
        if rec.stack:
            top = rec.stack[-1]
            node = rec.nodes[top["id"]]
            top.setdefault("saves", []).append(os.path.basename(str(path)))
            rec.events.append([top["id"], "save", int(node.n_calls), int(node.num_timesteps), 0, True])
        return orig_save(self, path, *a, **k)

    def spy_init(self, callback, progress_bar=False):
        cb = orig_init(self, callback, progress_bar)
        if not hasattr(cb, "_nid"):
            # learn() was given a python list / a bare function / None: the CallbackList or ConvertCallback made by
            # _init_callback is the root (a fresh object on every call)
            instrument(cb, case["tree"]["id"], rec)
        return cb

    from stable_baselines3.common.off_policy_algorithm import OffPolicyAlgorithm
    from stable_baselines3.common.on_policy_algorithm import OnPolicyAlgorithm

    dump_orig = {c: c.dump_logs for c in (OnPolicyAlgorithm, OffPolicyAlgorithm)}

    def make_spy_dump(orig):
        def spy_dump(self, *a, **k):
            if rec.stack:
                rec.stack[-1]["dumps"] = rec.stack[-1].get("dumps", 0) + 1
            return orig(self, *a, **k)
        return spy_dump

    out = {"learns": [], "tmpdir": tmpdir}
    try:
        model, venv = make_model(case)
        rec.model, rec.env0 = model, venv.envs[0]
        mode = rootmode(case)
        if mode == "pylist":
            root = [build_tree(c, rec, tmpdir, case) for c in case["tree"]["ch"]]
        elif mode == "fn":
            root = make_fn(case["tree"]["id"], case["tree"]["stops"], rec)
        elif mode == "none":
            root = None
        else:
            root = build_tree(case["tree"], rec, tmpdir, case)
        cbmod.evaluate_policy, BaseAlgorithm.save, BaseAlgorithm._init_callback = spy_eval, spy_save, spy_init
        for c, o in dump_orig.items():
            c.dump_logs = make_spy_dump(o)
        idx = index_tree(case["tree"])
        for l in case["learns"]:
            e0, r0, s0, v0 = len(rec.events), len(rec.roots), len(rec.snaps), len(rec.evals)
            raised = None
            prev_num = int(model.num_timesteps)
            try:
                # log_interval huge: the only dump_logs() calls are those of LogEveryNTimesteps
                if l.get("set_env"):
                    model.set_env(model.get_env())
                model.learn(l["total"], callback=root, reset_num_timesteps=l["reset"], log_interval=10**9)
            except AssertionError as ex:
                raised = f"AssertionError: {str(ex)[:120]}"
                rec.stack.clear()
            attrs, bests = [], []
            for nid in sorted(idx):
                if nid not in rec.nodes:
                    continue
                o = rec.nodes[nid]
                t = idx[nid][0]["t"]
                if t == "none":
                    continue
                extra = (loc_of(o) if t in ("leaf", "fn") else int(o.last_time_trigger) if t in ("everyN", "logN")
                         else int(o.n_episodes) if t == "maxep" else int(o.no_improvement_evals) if t == "noimp" else 0)
                attrs.append([nid, int(o.n_calls), int(o.num_timesteps), extra])
                if t in ("eval", "noimp"):
                    b = o.best_mean_reward if t == "eval" else o.last_best_mean_reward
                    bests.append([nid, None if b == -math.inf else ratj(F(b))])
            out["learns"].append({
                "events": rec.events[e0:], "roots": rec.roots[r0:], "snaps": rec.snaps[s0:], "evals": rec.evals[v0:],
                "prev_num": prev_num, "num": int(model.num_timesteps), "g": int(rec.env0.n_steps), "raised": raised,
                "attrs": attrs, "bests": bests,
            })
            if raised:
                break
        out["env_logs"] = [[x for x in e.log if x[0] == "step"] for e in venv.envs]
        out["saved"] = list(rec.saved)
        out["files"] = sorted(os.listdir(os.path.join(tmpdir, "ck"))) if os.path.isdir(os.path.join(tmpdir, "ck")) else []
    finally:
        cbmod.evaluate_policy, BaseAlgorithm.save, BaseAlgorithm._init_callback = orig_eval, orig_save, orig_init
        for c, o in dump_orig.items():
            c.dump_logs = o
        shutil.rmtree(tmpdir, ignore_errors=True)
    return out


# ------------------------------------------------------------------------------------------------
# oracle: the property, coded on the recorded call tree and the environments' own logs
# ------------------------------------------------------------------------------------------------
class Viol:
    def __init__(self, ctx, case):
        self.ctx, self.case, self.seen = ctx, case, set()

    def __call__(self, what, sig, detail=None):
        key = json.dumps(sig, sort_keys=True)
        if key in self.seen:
            return
        self.seen.add(key)
        case = self.case
        self.ctx.report.violation(what, case, sig, detail)


def true_dones(out, g):
    """number of sub-environments whose episode ended at the g-th vectorised step (from the envs' own logs)"""
    return sum(1 for log in out["env_logs"] if g - 1 < len(log) and (log[g - 1][4] or log[g - 1][5]))


def dones_stream(out):
    G = max((len(l) for l in out["env_logs"]), default=0)
    return [true_dones(out, g) for g in range(1, G + 1)]


def oracle(ctx, case, out):
    viol = Viol(ctx, case)
    idx = index_tree(case["tree"])
    lists_above = index_tree.lists_above
    n_envs = case["n_envs"]
    on_policy = case["algo"] in ON_POLICY
    cnt = {i: 0 for i in idx}          # on_step invocations per node so far (n_calls must equal it)
    last = {i: 0 for i in idx}         # EveryNTimesteps: time of the last trigger
    best = {i: -math.inf for i in idx}
    neps = {i: 0 for i in idx}
    fcnt = {i: 0 for i in idx}         # invocations of a function callback (its own count, never reset)
    hist = {i: [] for i in idx}        # StopTrainingOnNoModelImprovement: (call index, parent's best) per call
    fresh_root = rootmode(case) != "obj"
    def cause(nid):
        # informative only: the node sits below a callback_on_new_best edge (finding K-C13-b, fixed by 4379697)
        return {"under_new_best": True} if idx[nid][2] else {}

    def walk(E):
        nid, ep, ch = E["id"], E["ep"], E["ch"]
        nd, depth, ub, ue, pe = idx[nid]
        t = nd["t"]
        got = [(c["id"], c["ep"]) for c in ch]
        rets = {c["id"]: c["ret"] for c in ch}
        exp, exp_ret = [], None
        if ep == "on_step":
            cnt[nid] += 1
            if E["nc"] != cnt[nid]:
                viol("n_calls is not the number of on_step() invocations of this callback", {"kind": "n_calls", "node": t},
                     {"id": nid, "n_calls": E["nc"], "invocations": cnt[nid]})
            if E["nt"] != E["mnum"]:
                viol("num_timesteps seen by a callback during on_step() is not the model's counter", {"kind": "num_timesteps", "node": t, "ep": ep},
                     {"id": nid, "seen": E["nt"], "model": E["mnum"]})
            if E["loc"] != E["envk"] and not E["raised"]:
                viol("locals of a callback during on_step() do not describe the environment step just made",
                     {"kind": "locals", "node": t, **cause(nid)}, {"id": nid, "locals_step": E["loc"], "env_step": E["envk"]})
        if ep == "on_training_start" and E["nt"] != E["mnum"]:
            viol("num_timesteps after on_training_start() is not the model's counter", {"kind": "num_timesteps", "node": t, "ep": ep},
                 {"id": nid, "seen": E["nt"], "model": E["mnum"]})
        if t == "list":
            exp = [(c["id"], ep) for c in nd["ch"]]
            if ep == "on_step":
                exp_ret = all(rets.get(c["id"]) is not False for c in nd["ch"])
        elif t in ("everyN", "logN"):
            c = nd["ch"]["id"] if t == "everyN" else nd["cid"]
            if ep in ("on_training_start", "update_locals"):
                exp = [(c, ep)]
            elif ep == "on_step":
                due = E["mnum"] - last[nid] >= nd["n"]
                if due:
                    exp = [(c, ep)]
                    last[nid] = E["mnum"]
                    exp_ret = rets.get(c) is not False
                else:
                    exp_ret = True
        elif t == "eval":
            b = nd["best"]["id"] if nd["best"] is not None else None
            a = nd["after"]["id"] if nd["after"] is not None else None
            if ep in ("on_training_start", "update_locals"):
                # both children receive the event; which one first is not part of the property
                exp = [(x, ep) for x in (a, b) if x is not None]
                if sorted(got) == sorted(exp):
                    exp = got
            elif ep == "on_step":
                due = nd["freq"] > 0 and cnt[nid] % nd["freq"] == 0
                means = E.get("eval_means", [])
                if len(means) != (1 if due else 0):
                    viol("EvalCallback does not evaluate exactly when n_calls is a multiple of eval_freq", {"kind": "eval_cadence"},
                         {"id": nid, "n_calls": cnt[nid], "freq": nd["freq"], "evaluations": len(means)})
                exp_ret = True
                if means:
                    m = means[0]
                    b_ok = True
                    if m > best[nid]:
                        best[nid] = m
                        if b is not None:
                            exp.append((b, ep))
                            b_ok = rets.get(b) is not False
                    if b_ok and a is not None:
                        exp.append((a, ep))
                        exp_ret = rets.get(a) is not False
                    elif not b_ok:
                        exp_ret = False
        elif t == "ckpt":
            if ep == "on_step":
                due = cnt[nid] % nd["freq"] == 0
                want = [f"ck{nid}_{E['mnum']}_steps.zip"] if due else []
                if E.get("saves", []) != want:
                    viol("CheckpointCallback does not save exactly when n_calls is a multiple of save_freq (file named by num_timesteps)",
                         {"kind": "checkpoint_cadence"}, {"id": nid, "n_calls": cnt[nid], "freq": nd["freq"], "saved": E.get("saves", []), "expected": want})
                exp_ret = True
        elif t == "maxep":
            if ep == "on_step":
                if E["raised"]:
                    viol("StopTrainingOnMaxEpisodes raised instead of counting the episodes of this step",
                         {"kind": "raise", "node": t, **cause(nid)}, {"id": nid})
                else:
                    neps[nid] += true_dones(out, E["envk"])
                    exp_ret = neps[nid] < nd["max"] * n_envs
        elif t == "leaf":
            if ep == "on_step":
                exp_ret = cnt[nid] not in nd["stops"]
        elif t == "fn":
            if ep == "on_step":
                fcnt[nid] += 1
                exp_ret = fcnt[nid] not in nd["stops"]
                if nd.get("log") and E.get("dumps", 0) != 1:
                    viol("LogEveryNTimesteps does not dump the logs exactly once per trigger", {"kind": "log_dump"},
                         {"id": nid, "dumps": E.get("dumps", 0)})
        elif t == "none":
            if ep == "on_step":
                exp_ret = True
        elif t == "thr":
            if ep == "on_step":
                if pe is None or E["raised"]:
                    nested = pe is not None and lists_above[nid] >= 2
                    viol("StopTrainingOnRewardThreshold raised although its position's parent is an EvalCallback" if pe is not None
                         else "StopTrainingOnRewardThreshold raised", {"kind": "raise", "node": t, **({"nested_lists": True} if nested else {})},
                         {"id": nid, "lists_between_it_and_the_EvalCallback": lists_above[nid]})
                else:
                    # training continues iff the parent's best mean reward is still below the threshold
                    exp_ret = best[pe] < nd["thr"]
        elif t == "noimp":
            if ep == "on_step":
                if pe is None or E["raised"]:
                    nested = pe is not None and lists_above[nid] >= 2
                    viol("StopTrainingOnNoModelImprovement raised although its position's parent is an EvalCallback" if pe is not None
                         else "StopTrainingOnNoModelImprovement raised", {"kind": "raise", "node": t, **({"nested_lists": True} if nested else {})},
                         {"id": nid, "lists_between_it_and_the_EvalCallback": lists_above[nid]})
                else:
                    h = hist[nid]
                    h.append((cnt[nid], best[pe]))
                    # number of trailing evaluations (counted only after min_evals) without a new best
                    streak = 0
                    for j in range(len(h) - 1, -1, -1):
                        prev = h[j - 1][1] if j > 0 else -math.inf
                        if h[j][0] > nd["min"] and not (h[j][1] > prev):
                            streak += 1
                        else:
                            break
                    exp_ret = not (streak > nd["max"])
        if got != exp and not E["raised"]:
            missing = [x for x in exp if x not in got]
            extra = [x for x in got if x not in exp]
            sig = {"kind": "forward", "node": t, "ep": ep, "missing": len(missing) > 0, "extra": len(extra) > 0}
            what = "a callback does not forward an event to exactly the children that must receive it, in order"
            if t == "everyN" and ep == "on_step":
                sig["kind"] = "everyN_cadence"
                what = ("EveryNTimesteps does not trigger its child exactly when num_timesteps - (last trigger, re-armed at a "
                        "counter reset) >= n_steps")
            elif t == "eval" and ep == "on_step":
                sig["kind"] = "eval_children"
                what = ("EvalCallback does not step on-new-best (iff new best, first) and after-eval (iff on-new-best did not "
                        "answer False) as documented")
            if t == "eval" and ep in ("on_training_start", "update_locals") and not extra and \
                    all(x[0] == (nd["best"] or {}).get("id") for x in missing):
                sig["child"] = "on_new_best"
                what = "EvalCallback does not forward training start / locals to its callback_on_new_best child"
            else:
                sig.update(cause(nid))
            viol(what, sig, {"id": nid, "expected": exp, "got": got, "num_timesteps": E["mnum"], "n_calls": E["nc"]})
        if ep == "on_step" and exp_ret is not None and not E["raised"] and (E["ret"] is not False) != exp_ret:
            rule = {
                "thr": "StopTrainingOnRewardThreshold does not continue exactly while the parent's best mean reward < threshold",
                "noimp": "StopTrainingOnNoModelImprovement does not stop exactly when more than max_no_improvement_evals "
                         "consecutive evaluations after min_evals brought no new best",
                "maxep": "StopTrainingOnMaxEpisodes does not stop exactly when the episodes finished in all sub-environments "
                         "reach max_episodes * n_envs",
                "fn": "the answer of a function callback is not handed up by ConvertCallback",
            }.get(t, "on_step() answer of a callback is not what its children / its rule imply")
            viol(rule, {"kind": "answer", "node": t, **cause(nid)}, {"id": nid, "answer": E["ret"], "expected": exp_ret,
                                                                      "n_calls": E["nc"], "num_timesteps": E["mnum"]})
        for c in ch:
            walk(c)

    g_before = 0
    for li, (l, L) in enumerate(zip(case["learns"], out["learns"])):
        num0 = 0 if l["reset"] else L["prev_num"]
        total = l["total"] if l["reset"] else l["total"] + L["prev_num"]
        # documented re-arming of EveryNTimesteps when the counter went backwards
        for i in idx:
            if idx[i][0]["t"] in ("everyN", "logN"):
                last[i] = min(last[i], num0)
        if fresh_root:
            cnt[case["tree"]["id"]] = 0
        roots = L["roots"]
        root_id = case["tree"]["id"]
        for E in roots:
            if E["id"] != root_id:
                viol("an entry point was invoked on an inner callback directly by the training loop", {"kind": "root"}, {"id": E["id"]})
        # ---- root grammar against the environment --------------------------------------------
        state, envk, num, stopped = "init", g_before, num0, False
        idx_in_rollout = {}
        in_rollout_steps, rollouts, eps_in_rollout = 0, [], 0
        bad = None
        for pos, E in enumerate(roots):
            ep = E["ep"]
            if E["raised"]:
                break
            if state == "init" and ep == "on_training_start":
                state = "between"
                if E["mnum"] != num0:
                    bad = ("training start does not see the counter learn() starts from", pos)
            elif state == "between" and ep == "on_rollout_start":
                state, in_rollout_steps, eps_in_rollout = "rollout", 0, 0
                if not num < total:
                    bad = ("a rollout starts although num_timesteps >= total_timesteps", pos)
            elif state == "between" and ep == "on_training_end":
                state = "final"
                if num < total:
                    bad = ("training ends without a stop request although num_timesteps < total_timesteps", pos)
            elif state == "rollout" and ep == "update_locals" and E["envk"] == envk + 1:
                state, envk = "locals", E["envk"]
            elif state == "rollout" and ep == "update_locals" and E["envk"] == envk and in_rollout_steps > 0:
                state = "tail"  # refresh of the same step's locals before rollout end (on-policy loops)
            elif state == "rollout" and ep == "update_locals":
                bad = ("not exactly one environment step between two step events", pos)
            elif state in ("rollout", "tail") and ep == "on_rollout_end":
                rollouts.append(in_rollout_steps)
                if E["envk"] != envk:
                    bad = ("an environment step happened before rollout end without a step event", pos)
                if case["unit"] == "step" and in_rollout_steps != case["k"]:
                    bad = ("a completed rollout does not have the configured number of steps", pos)
                if case["unit"] == "episode" and not (eps_in_rollout >= case["k"]):
                    bad = ("an episodic rollout ended before the configured number of episodes", pos)
                state = "between"
            elif state == "locals" and ep == "on_step":
                num += n_envs
                idx_in_rollout[envk] = in_rollout_steps
                in_rollout_steps += 1
                eps_in_rollout += true_dones(out, envk)
                if E["envk"] != envk:
                    bad = ("an environment step happened between update_locals and on_step", pos)
                if E["mnum"] != num:
                    bad = ("the timestep counter at a step event is not start + n_envs * (number of steps)", pos)
                if E["ret"] is False:
                    state, stopped = "stopped", True
                else:
                    state = "rollout"
            elif state == "stopped" and ep == "on_training_end":
                state = "final"
                if E["envk"] != envk:
                    bad = ("the environment was stepped after a stop request", pos)
            else:
                bad = (f"event {EP_SHORT[ep]} is out of order (after state {state})", pos)
            if bad:
                break
        if bad is None and not L["raised"]:
            if state != "final":
                bad = ("learn() returned without training end", len(roots))
            elif L["g"] != envk:
                bad = ("the environment was stepped after the last step event", len(roots))
        if bad:
            viol("root callback: " + bad[0], {"kind": "grammar", "what": bad[0][:60]},
                 {"learn": li, "position": bad[1], "sequence": [[EP_SHORT[e["ep"]], e["envk"], e["mnum"], e["ret"]] for e in roots][:80]})
        # ---- local rules on the call tree ----------------------------------------------------
        for E in roots:
            walk(E)
        # ---- what a user callback reads in locals is the truth of that very step ----------------
        for s in L["snaps"]:
            nid = s["id"]
            if s["nt"] != s["mnum"]:
                viol("num_timesteps a user callback reads inside _on_step() is not the model's counter at that step",
                     {"kind": "user_num_timesteps"}, s)
            if not s["has"]:
                viol("a step event without step locals", {"kind": "locals_missing", **cause(nid)}, s)
                continue
            g = s["envk"]
            okk = all(k == g for k in s["k"])
            for e in range(n_envs):
                log = out["env_logs"][e]
                if not okk or g - 1 >= len(log):
                    okk = False
                    break
                _, _, tag, rew, term, trunc = log[g - 1][:6]
                done = term or trunc
                if s["tags"][e] != tag or s["rewards"][e] != rew or s["dones"][e] != done:
                    okk = False
                if done:
                    if s["term_tags"][e] != float(tag):
                        okk = False
                elif s["new_obs0"][e] != float(tag):
                    okk = False
            if not okk:
                viol("locals at a step event (new_obs / rewards / dones / infos) are not those of that very environment step",
                     {"kind": "locals_values", **cause(nid)}, s)
            if s["envk"] in idx_in_rollout and s["counter"] != idx_in_rollout[s["envk"]]:
                viol("the loop counter in locals (n_steps / num_collected_steps) is not the index of this step in its rollout",
                     {"kind": "locals_counter", **cause(nid)}, {"snap": s, "index": idx_in_rollout[s["envk"]]})
            if s["mnum"] != (s["envk"] - g_before) * n_envs + num0:
                viol("timestep counter at a leaf's step event is not start + n_envs * steps", {"kind": "leaf_counter"}, s)
        # ---- leaves reached through lists only see the whole protocol --------------------------
        by_leaf = {}
        for ev in L["events"]:
            by_leaf.setdefault(ev[0], []).append(ev)
        root_seq = [EP_SHORT[e["ep"]] for e in roots if e["ep"] != "update_locals" and not e["raised"]]
        for nid, (nd, depth, ub, ue, pe) in idx.items():
            if nd["t"] != "leaf":
                continue
            seq = [ev[1] for ev in by_leaf.get(nid, [])]
            if not ue:
                if seq != root_seq and not L["raised"]:
                    viol("a callback inside (nested) CallbackLists does not see every event of the training loop in order",
                         {"kind": "list_leaf_sequence"}, {"id": nid, "seen": seq[:60], "loop": root_seq[:60]})
            else:
                if any(k in ("rollout_start", "rollout_end", "training_end") for k in seq):
                    viol("a child of an event callback received rollout/training-end events (documented: trigger only)",
                         {"kind": "event_child_extra"}, {"id": nid, "seen": seq[:40]})
        g_before = L["g"]
    # ---- checkpoint files exist -----------------------------------------------------------------
    want_files = sorted({os.path.basename(p) for p in out["saved"]})
    if want_files != out["files"]:
        viol("checkpoint files on disk are not the ones saved", {"kind": "files"}, {"saved": want_files, "files": out["files"]})
    # ---- final best_mean_reward ------------------------------------------------------------------
    if out["learns"] and not out["learns"][-1]["raised"]:
        for nid, b in out["learns"][-1]["bests"]:
            if idx[nid][0]["t"] == "noimp":
                want = hist[nid][-1][1] if hist[nid] else -math.inf
                if b != (None if want == -math.inf else ratj(F(want))):
                    viol("last_best_mean_reward is not the parent's best at the last call", {"kind": "last_best"},
                         {"id": nid, "got": b})
                continue
            exp = None if best[nid] == -math.inf else ratj(F(best[nid]))
            if b != exp:
                viol("best_mean_reward is not the maximum of the evaluation means", {"kind": "best"}, {"id": nid, "got": b, "expected": exp})


# ------------------------------------------------------------------------------------------------
# correspondence with the Lean model
# ------------------------------------------------------------------------------------------------
def model_op(case, out):
    evals = [ratj(F(m)) for L in out["learns"] for m in L["evals"]]
    return {
        "op": "run", "tree": lean_tree(case["tree"]), "n_envs": case["n_envs"], "on_policy": case["algo"] in ON_POLICY,
        "kind": "steps" if case["unit"] == "step" else "episodes", "k": case["k"], "dones": dones_stream(out),
        "evals": evals, "learns": case["learns"][:len(out["learns"])], "fuel": 20000, "fresh_root": rootmode(case) != "obj",
    }


def impl_trace(roots):
    tr = []
    for E in roots:
        if E["raised"]:
            break
        ep = EP_SHORT[E["ep"]]
        arg = E["mnum"] if ep in ("training_start", "step") else E["envk"] if ep == "update_locals" else 0
        tr.append([ep, arg, True if ep != "step" else (E["ret"] is not False)])
    return tr


def compare(ctx, case, out, mo):
    rep = ctx.report
    if "error" in mo:
        rep.disagree("events", case, "ok", mo)
        return
    if len(mo["learns"]) != len(out["learns"]):
        rep.disagree("events", case, len(out["learns"]), len(mo["learns"]))
        return
    for li, (L, M) in enumerate(zip(out["learns"], mo["learns"])):
        raised = L["raised"] is not None
        if raised != M["raised"]:
            rep.disagree("events", case, {"learn": li, "raised": L["raised"]}, {"raised": M["raised"]})
            return
        if raised:
            # compare only what happened before the root call in which the code raised
            n_root = len(M["trace"])
            tr = impl_trace(L["roots"])[:n_root]
            if tr != M["trace"]:
                rep.disagree("trace", case, {"learn": li, "trace": tr}, {"trace": M["trace"]})
                return
            cut = L["num"]
            evs = [e for e in L["events"]]
            while evs and evs[-1][1] in ("step", "save", "eval") and evs[-1][3] == cut:
                evs.pop()
            if evs != M["events"]:
                rep.disagree("events", case, {"learn": li, "events": evs}, {"events": M["events"]})
                return
            rep.agree()
            continue
        if L["events"] != M["events"]:
            k = next((i for i, (a, b) in enumerate(zip(L["events"], M["events"])) if a != b), min(len(L["events"]), len(M["events"])))
            rep.disagree("events", case, {"learn": li, "first_diff": k, "events": L["events"][max(0, k - 3):k + 3], "n": len(L["events"])},
                         {"events": M["events"][max(0, k - 3):k + 3], "n": len(M["events"])})
            return
        rep.agree()
        tr = impl_trace(L["roots"])
        if tr != M["trace"] or L["num"] != M["num"] or L["g"] != M["g"]:
            rep.disagree("trace", case, {"learn": li, "trace": tr, "num": L["num"], "g": L["g"]},
                         {"trace": M["trace"], "num": M["num"], "g": M["g"]})
            return
        rep.agree()
        if L["attrs"] != M["attrs"] or L["bests"] != M["bests"]:
            rep.disagree("attrs", case, {"learn": li, "attrs": L["attrs"], "bests": L["bests"]},
                         {"attrs": M["attrs"], "bests": M["bests"]})
            return
        rep.agree()


def classify(ctx, case, out):
    rep = ctx.report
    idx = index_tree(case["tree"])
    depth = max(v[1] for v in idx.values())
    kinds = {v[0]["t"] for v in idx.values()}
    stop_fired = any(ev[1] == "step" and ev[5] is False for L in out["learns"] for ev in L["events"])
    rep.count(f"algo:{case['algo']}")
    rep.count(f"n_envs:{case['n_envs']}")
    rep.count(f"unit:{case['unit']}")
    rep.count(f"rollout_size:{case['k']}")
    rep.count(f"learn_calls:{len(case['learns'])}")
    rep.count(f"tree_depth:{depth}")
    rep.count(f"tree_nodes:{min(len(idx), 10)}{'+' if len(idx) > 10 else ''}")
    for k in sorted(kinds):
        rep.count(f"has:{k}")
    rep.count("root:" + rootmode(case))
    if stop_fired:
        rep.count("stop_request_fired")
    for L in out["learns"]:
        for ev in L["events"]:
            if ev[1] == "step" and ev[5] is False and ev[0] in idx:
                rep.count("false_answer_from:" + idx[ev[0]][0]["t"])
    if any(l["reset"] for l in case["learns"][1:]):
        rep.count("later_learn_with_reset")
    if any(not l["reset"] for l in case["learns"][1:]):
        rep.count("later_learn_without_reset")
    if any(L["raised"] for L in out["learns"]):
        rep.count("learn_raised")
    rep.count("evaluations", sum(len(L["evals"]) for L in out["learns"]))
    rep.count("saves", len(out["saved"]))
    rep.count("env_steps", out["learns"][-1]["g"] if out["learns"] else 0)
    nt = depth >= 1 and (stop_fired or len(case["learns"]) >= 2)
    return nt


def check_cases(ctx, cases):
    rep = ctx.report
    ops, plan = [], []
    for case in cases:
        if case.get("kind") == "two_models":
            check_two_models(ctx, case)
            continue
        out = guarded(ctx, case, lambda: run_impl(ctx, case))
        if out is None:
            rep.case(case, None)
            continue
        nt = classify(ctx, case, out)
        rep.case(case, case if nt else None)
        oracle(ctx, case, out)
        plan.append((case, out, len(ops)))
        ops.append(model_op(case, out))
    outs = ctx.lean.run(ops)
    for case, out, i in plan:
        if outs[i] is None:
            continue
        compare(ctx, case, out, outs[i])
