/-
C16 — Hindsight relabelling is sound (HerReplayBuffer).

Property theorems only (helper lemmas are in `SB3Verif/Lemmas/Her.lean`). All statements are about the
executable model `SB3Verif/Model/Her.lean`, whose definitions the driver `SB3Verif/Driver/C16.lean` runs
against the real `HerReplayBuffer`.

Vocabulary. A *column* (`Col`) is the part of the buffer that belongs to one environment; its history is
a list of `COp` (`add t` / `truncate`). `runG hTT cap ops = (c, g)`: `c` is the column after `ops`
(`ghost_erasure`: exactly `Col.run`, the function the driver executes), `g` the ghost history: entry
number `a` is the transition of the `a`-th add as stored now and the flag `last` (= it is the final
transition of its real episode: `done`, or cut by `truncate_last_trajectory`). Slot of add `a` is
`a % cap`. Everything is for every capacity `cap ≥ 1`, every `handle_timeout_termination` flag and
every operation sequence — episodes of any length, wrapping the ring or longer than it.
-/
import SB3Verif.Lemmas.Her
import SB3Verif.Props.C16C04

namespace SB3Verif.C16

open SB3Verif.Her

/-- The ghost history does not influence the buffer: the first component of `runG` is `Col.run`. -/
theorem ghost_erasure (hTT : Bool) (cap : Nat) (ops : List COp) : (runG hTT cap ops).1 = Col.run hTT cap ops :=
  Lemmas.runG_fst hTT cap ops

/-- The ring size `max(buffer_size // n_envs, 1)` is positive for every configuration, so the hypothesis
`0 < cap` of the theorems below is met by every buffer the code can build. -/
theorem ring_size_pos (bufferSize nEnvs : Nat) : 0 < ringSize bufferSize nEnvs := by
  unfold ringSize; exact Nat.lt_of_lt_of_le Nat.one_pos (Nat.le_max_right _ _)

/-- Every environment's column of the whole buffer evolves as the single-column machine fed with that
environment's part of every operation (shared `pos`, `n_envs` and capacity unchanged). -/
theorem columns_independent (cap n : Nat) (hTT : Bool) (ops : List Op) (e : Nat) (he : e < n) :
    (Her.run cap n hTT ops).cols.getD e default = Col.run hTT cap (ops.map (Op.proj e)) ∧
    (Her.run cap n hTT ops).nEnvs = n ∧ (Her.run cap n hTT ops).cap = cap :=
  Lemmas.her_run_col cap n hTT ops e he

/-- **Episode-segment invariant** (main theorem). After any operation sequence, a slot `s` with
`ep_length[s] = L > 0` lies in a *segment*: there is an add number `f` such that
* `s = (f + j) % cap` with `j < L`, `ep_start[s] = f % cap`, and the index-in-episode the code computes,
  `(s - ep_start[s]) % cap`, is `j`;
* the segment's adds `f … f+L-1` all exist and are among the last `cap` adds (`g.length ≤ f + cap`): none
  has been overwritten;
* every one of the `L` slots `(f + k) % cap` carries the same `(ep_start, ep_length)`, holds exactly the
  transition of add `f + k`, and `last` is set on the final one only — `L` consecutive adds of one
  episode, which has ended. -/
theorem episode_segments_inv (hTT : Bool) (cap : Nat) (hcap : 0 < cap) (ops : List COp) (s : Nat) (hs : s < cap)
    (hv : 0 < (runG hTT cap ops).1.epLen.getD s 0) :
    ∃ f j, j < (runG hTT cap ops).1.epLen.getD s 0 ∧ s = (f + j) % cap ∧
      (runG hTT cap ops).1.epStart.getD s 0 = f % cap ∧ (runG hTT cap ops).1.curIdx s = j ∧
      f + (runG hTT cap ops).1.epLen.getD s 0 ≤ (runG hTT cap ops).2.length ∧
      (runG hTT cap ops).2.length ≤ f + cap ∧
      ∀ k, k < (runG hTT cap ops).1.epLen.getD s 0 →
        (runG hTT cap ops).1.epLen.getD ((f + k) % cap) 0 = (runG hTT cap ops).1.epLen.getD s 0 ∧
        (runG hTT cap ops).1.epStart.getD ((f + k) % cap) 0 = f % cap ∧
        (runG hTT cap ops).1.slots.getD ((f + k) % cap) default = ((runG hTT cap ops).2.getD (f + k) default).t ∧
        (((runG hTT cap ops).2.getD (f + k) default).last = true ↔ k + 1 = (runG hTT cap ops).1.epLen.getD s 0) :=
  Lemmas.seg_full (Lemmas.inv_runG hTT cap hcap ops) s hs hv

/-- The write pointer is the add counter modulo the capacity, and all arrays keep their size. -/
theorem pos_is_add_counter (hTT : Bool) (cap : Nat) (hcap : 0 < cap) (ops : List COp) :
    (runG hTT cap ops).1.pos = (runG hTT cap ops).2.length % cap ∧ (runG hTT cap ops).1.cap = cap ∧
    (runG hTT cap ops).1.epStart.length = cap ∧ (runG hTT cap ops).1.epLen.length = cap ∧
    (runG hTT cap ops).1.slots.length = cap :=
  let h := Lemmas.inv_runG hTT cap hcap ops
  ⟨h.hpos, h.ccap, h.lenS, h.lenL, h.lenD⟩

/-- **Unfinished episodes are never sampleable**: a not-yet-overwritten add `a` whose episode has not ended
(no `last` flag at or after `a`) sits in a slot with `ep_length = 0`. -/
theorem unfinished_never_valid (hTT : Bool) (cap : Nat) (hcap : 0 < cap) (ops : List COp) (a : Nat)
    (ha : a < (runG hTT cap ops).2.length) (hl : (runG hTT cap ops).2.length ≤ a + cap)
    (hopen : ∀ k, a ≤ k → k < (runG hTT cap ops).2.length → ((runG hTT cap ops).2.getD k default).last = false) :
    (runG hTT cap ops).1.valid (a % cap) = false :=
  Lemmas.unfinished_core (Lemmas.inv_runG hTT cap hcap ops) a ha hl hopen

/-- **Overwritten transitions are never returned**: a sampleable slot holds the transition of one of the
last `cap` adds (the most recent add to that slot), and that add's episode has ended inside the history. -/
theorem overwritten_never_valid (hTT : Bool) (cap : Nat) (hcap : 0 < cap) (ops : List COp) (s : Nat) (hs : s < cap)
    (hv : (runG hTT cap ops).1.valid s = true) :
    ∃ a e, a < (runG hTT cap ops).2.length ∧ (runG hTT cap ops).2.length ≤ a + cap ∧ s = a % cap ∧
      (runG hTT cap ops).1.slots.getD s default = ((runG hTT cap ops).2.getD a default).t ∧
      endsAt (runG hTT cap ops).2 a e :=
  Lemmas.valid_core (Lemmas.inv_runG hTT cap hcap ops) s hs hv

/-- **The relabelling goal comes from the same episode.** For a sampleable slot `s` and any
index-in-episode `idx` the strategy can produce (`goalRange`), the slot the goal is read from
(`goalSlot`) is itself sampleable and holds add `a'`, the sampled slot holds add `a`, both not
overwritten, both in the episode that ended at add `e` (so no episode boundary lies between them);
`future` ⇒ `a ≤ a'` (at or after the transition), `final` ⇒ `a' = e` (the last transition),
`episode` ⇒ any transition of the episode. -/
theorem relabel_same_episode (hTT : Bool) (cap : Nat) (hcap : 0 < cap) (ops : List COp) (strat : Strategy)
    (s idx : Nat) (hs : s < cap) (hv : (runG hTT cap ops).1.valid s = true)
    (hlo : ((runG hTT cap ops).1.goalRange strat s).1 ≤ idx) (hhi : idx < ((runG hTT cap ops).1.goalRange strat s).2) :
    ∃ a a' e, a < (runG hTT cap ops).2.length ∧ (runG hTT cap ops).2.length ≤ a + cap ∧
      a' < (runG hTT cap ops).2.length ∧ (runG hTT cap ops).2.length ≤ a' + cap ∧
      s = a % cap ∧ (runG hTT cap ops).1.goalSlot s idx = a' % cap ∧
      (runG hTT cap ops).1.slots.getD s default = ((runG hTT cap ops).2.getD a default).t ∧
      (runG hTT cap ops).1.slots.getD ((runG hTT cap ops).1.goalSlot s idx) default =
        ((runG hTT cap ops).2.getD a' default).t ∧
      (runG hTT cap ops).1.valid ((runG hTT cap ops).1.goalSlot s idx) = true ∧
      endsAt (runG hTT cap ops).2 a e ∧ endsAt (runG hTT cap ops).2 a' e ∧
      sameEpisode (runG hTT cap ops).2 a a' ∧
      (strat = .future → a ≤ a') ∧ (strat = .final → a' = e) := by
  obtain ⟨a, a', e, h1, h2, h3, h4, h5, h6, h7, h8, h9, h10, h11, h12, h13⟩ :=
    Lemmas.relabel_core (Lemmas.inv_runG hTT cap hcap ops) strat s idx hs hv hlo hhi
  exact ⟨a, a', e, h1, h2, h3, h4, h5, h6, h7, h8, h9, h10, h11, Lemmas.endsAt_sameEpisode h10 h11, h12, h13⟩

/-- The strategy's range is never empty on a sampleable slot (so `np.random.randint(low, high)` is
well defined): the current index is below the episode length. -/
theorem goal_range_nonempty (hTT : Bool) (cap : Nat) (hcap : 0 < cap) (ops : List COp) (strat : Strategy) (s : Nat)
    (hs : s < cap) (hv : (runG hTT cap ops).1.valid s = true) :
    ((runG hTT cap ops).1.goalRange strat s).1 < ((runG hTT cap ops).1.goalRange strat s).2 := by
  have hv' : 0 < (runG hTT cap ops).1.epLen.getD s 0 := by simpa [Col.valid] using hv
  obtain ⟨f, j, hj, -, -, hci, -⟩ := Lemmas.seg_full (Lemmas.inv_runG hTT cap hcap ops) s hs hv'
  cases strat <;> simp only [Col.goalRange] <;> omega

/-- **A virtual transition keeps the stored transition** — observation, achieved goals, action, next
observation and the done flag (`done ∧ ¬timeout`, as for real samples) are those of the sampled slot;
only the desired goal changes, and it is the *same* new goal in the observation and the next observation:
the next achieved goal stored in the goal slot. -/
theorem relabel_keeps_transition (cr : Nat → Nat → Int) (c : Col) (s idx : Nat) :
    (c.virt cr s idx).obs = (c.real s).obs ∧ (c.virt cr s idx).ach = (c.real s).ach ∧
    (c.virt cr s idx).act = (c.real s).act ∧ (c.virt cr s idx).nobs = (c.real s).nobs ∧
    (c.virt cr s idx).nach = (c.real s).nach ∧ (c.virt cr s idx).done = (c.real s).done ∧
    (c.virt cr s idx).dg = (c.slots.getD (c.goalSlot s idx) default).nach ∧
    (c.virt cr s idx).ndg = (c.virt cr s idx).dg :=
  ⟨rfl, rfl, rfl, rfl, rfl, rfl, rfl, rfl⟩

/-- **The reward is recomputed** by the environment's `compute_reward` from the *next* achieved goal of
the sampled transition and the new goal (not from the stored reward, not from the current achieved goal). -/
theorem reward_recomputed (cr : Nat → Nat → Int) (c : Col) (s idx : Nat) :
    (c.virt cr s idx).rew = cr (c.slots.getD s default).nach (c.virt cr s idx).dg :=
  rfl

/-- A real sample is the stored transition, unchanged. -/
theorem real_sample_is_stored (c : Col) (s : Nat) :
    (c.real s).dg = (c.slots.getD s default).dg ∧ (c.real s).ndg = (c.slots.getD s default).ndg ∧
    (c.real s).rew = (c.slots.getD s default).rew ∧ (c.real s).nach = (c.slots.getD s default).nach :=
  ⟨rfl, rfl, rfl, rfl⟩

/-- **Virtual share**: `nbVirtual n B` is exactly `⌊n·B/(n+1)⌋` — characterised without division — and is
smaller than a non-empty batch (at least one real transition). -/
theorem virtual_share (n B : Nat) :
    (n + 1) * nbVirtual n B ≤ n * B ∧ n * B < (n + 1) * (nbVirtual n B + 1) ∧ nbVirtual n B ≤ B ∧
    (0 < B → nbVirtual n B < B) := by
  refine ⟨Nat.mul_div_le _ _, Nat.lt_mul_div_succ _ (by omega), Lemmas.nbVirtual_le n B, fun hB => ?_⟩
  unfold nbVirtual
  apply Nat.div_lt_of_lt_mul
  rw [Nat.add_mul]; omega

/-- **Every sampled batch is sound** (whole buffer, any number of environments). If the draws are
possible outcomes of `np.random.choice(valid_indices)` / the strategy's `np.random.randint`
(`sampleOk`), then the batch is `real ++ virt` with `|virt| = ⌊n·B/(n+1)⌋`, `|real|` the rest; every
element of `real` is a stored transition (`IsStored`: not overwritten, episode finished) of some
environment `e`, and every element of `virt` is a correct hindsight relabelling (`IsRelabelled`:
transition and goal from the same finished episode of the same environment `e`, neither overwritten,
strategy respected, goal substituted in both observations, reward = `compute_reward(next achieved, new goal)`). -/
theorem sample_sound (cr : Nat → Nat → Int) (cap n : Nat) (hTT : Bool) (ops : List Op) (hcap : 0 < cap) (hn : 0 < n)
    (strat : Strategy) (nGoal batch : Nat) (draws goals : List Nat)
    (hok : (Her.run cap n hTT ops).sampleOk strat nGoal batch draws goals = true) :
    ∃ real virt, (Her.run cap n hTT ops).sampleOut cr strat nGoal batch draws goals = real ++ virt ∧
      real.length = batch - nbVirtual nGoal batch ∧ virt.length = nbVirtual nGoal batch ∧
      (∀ x, x ∈ real → ∃ e, e < n ∧ IsStored cap (ghostOf hTT cap ops e) x) ∧
      (∀ x, x ∈ virt → ∃ e, e < n ∧ IsRelabelled cr strat cap (ghostOf hTT cap ops e) x) :=
  Lemmas.sample_core cr cap n hTT ops hcap hn strat nGoal batch draws goals hok

/-- **`truncate_last_trajectory` closes an open episode**: if the column is inside an episode
(`_current_ep_start ≠ pos`), then afterwards the last stored transition (Python index `pos - 1`) is
sampleable and the next add starts a new episode (`_current_ep_start = pos`). -/
theorem truncate_makes_last_valid (hTT : Bool) (cap : Nat) (hcap : 0 < cap) (ops : List COp)
    (hopen : (runG hTT cap ops).1.cur ≠ (runG hTT cap ops).1.pos) :
    ((runG hTT cap ops).1.truncate hTT).valid
        (((runG hTT cap ops).1.pos + (runG hTT cap ops).1.cap - 1) % (runG hTT cap ops).1.cap) = true ∧
      ((runG hTT cap ops).1.truncate hTT).cur = ((runG hTT cap ops).1.truncate hTT).pos :=
  Lemmas.truncate_last_valid hTT (Lemmas.inv_runG hTT cap hcap ops) hopen

/-- **Without truncation the open episode stays unsampleable**: as long as no episode end follows it,
the last add's slot has `ep_length = 0`. -/
theorem no_truncate_keeps_open (hTT : Bool) (cap : Nat) (hcap : 0 < cap) (ops : List COp)
    (hne : 0 < (runG hTT cap ops).2.length)
    (hopen : ((runG hTT cap ops).2.getD ((runG hTT cap ops).2.length - 1) default).last = false) :
    (runG hTT cap ops).1.valid (((runG hTT cap ops).2.length - 1) % cap) = false := by
  refine Lemmas.unfinished_core (Lemmas.inv_runG hTT cap hcap ops) _ (by omega) (by omega) ?_
  intro k h1 h2
  have : k = (runG hTT cap ops).2.length - 1 := by omega
  rw [this]; exact hopen

/-- **Tail of a long episode / full laps are dropped.** Let the open episode of a column have started at
add `F` (the add before it, if any, ended an episode; no episode end since). When add number `A` ends it
(`t.done`), the episode has `T = A + 1 - F` transitions — any number, possibly many times the capacity.
Afterwards, among the episode's transitions that are still stored (`A + 1 ≤ a + cap`), exactly the last
`T % cap` are sampleable. In particular an episode whose length is a multiple of the capacity leaves
nothing sampleable (sound, merely conservative), and an episode shorter than the ring is sampleable entirely. -/
theorem long_episode_keeps_tail (hTT : Bool) (cap : Nat) (hcap : 0 < cap) (ops : List COp) (t : Trans)
    (hdone : t.done = true) :
    ∃ F, F ≤ (runG hTT cap ops).2.length ∧
      (F = 0 ∨ ((runG hTT cap ops).2.getD (F - 1) default).last = true) ∧
      (∀ a, F ≤ a → a < (runG hTT cap ops).2.length → ((runG hTT cap ops).2.getD a default).last = false) ∧
      ∀ a, F ≤ a → a ≤ (runG hTT cap ops).2.length → (runG hTT cap ops).2.length + 1 ≤ a + cap →
        (((runG hTT cap ops).1.add hTT t).valid (a % cap) = true ↔
          (runG hTT cap ops).2.length + 1 ≤ a + ((runG hTT cap ops).2.length + 1 - F) % cap) :=
  Lemmas.long_tail_core hTT cap _ _ t hdone (Lemmas.inv_runG hTT cap hcap ops) (Lemmas.invF_runG hTT cap hcap ops)

/-- **An episode whose length is a multiple of the capacity is dropped**: with `F`, `A`, `T = A + 1 - F`
as in `long_episode_keeps_tail`, if `T % cap = 0` none of the episode's stored transitions is sampleable
(nothing wrong is ever returned; the episode is merely lost). -/
theorem full_lap_episode_dropped (hTT : Bool) (cap : Nat) (hcap : 0 < cap) (ops : List COp) (t : Trans)
    (hdone : t.done = true) :
    ∃ F, F ≤ (runG hTT cap ops).2.length ∧
      (F = 0 ∨ ((runG hTT cap ops).2.getD (F - 1) default).last = true) ∧
      (∀ a, F ≤ a → a < (runG hTT cap ops).2.length → ((runG hTT cap ops).2.getD a default).last = false) ∧
      (((runG hTT cap ops).2.length + 1 - F) % cap = 0 →
        ∀ a, F ≤ a → a ≤ (runG hTT cap ops).2.length → (runG hTT cap ops).2.length + 1 ≤ a + cap →
          ((runG hTT cap ops).1.add hTT t).valid (a % cap) = false) := by
  obtain ⟨F, h1, h2, h3, h4⟩ := long_episode_keeps_tail hTT cap hcap ops t hdone
  refine ⟨F, h1, h2, h3, fun h0 a ha1 ha2 ha3 => ?_⟩
  cases hv : ((runG hTT cap ops).1.add hTT t).valid (a % cap)
  · rfl
  · have := (h4 a ha1 ha2 ha3).mp hv
    rw [h0] at this; omega

/-- The state reached by one more add is the run of the extended history (so the previous theorem speaks
about reachable states). -/
theorem run_snoc (hTT : Bool) (cap : Nat) (ops : List COp) (op : COp) :
    (runG hTT cap (ops ++ [op])).1 = (runG hTT cap ops).1.step hTT op := by
  simp [runG, List.foldl_append, stepG]

/-! ### End to end with the off-policy collection of C04 (re-exported from `Props/C16C04.lean`) -/

section EndToEnd

open SB3Verif.OffPolicy SB3Verif.Lemmas.OffPolicyHer

/-- see `C16C04.her_sample_is_env_hindsight`: for every off-policy run without `VecNormalize` (any `n_envs`,
episode scripts, `train_freq` / `learn()` split) feeding a HER buffer of any capacity, every real sample is a
sub-environment's own transition of a finished, not overwritten ENVIRONMENT episode, and every virtual sample keeps
such a transition and takes its new goal from the next achieved goal of a transition of the same environment
episode (`future`: at or after it, `final`: the last one), with reward `compute_reward(next achieved, new goal)`. -/
theorem her_after_offpolicy_collection {α : Type} [Add α] [Sub α] [Mul α] [Div α] [Neg α] [One α] [LT α]
    [DecidableLT α] (cr : Nat → Nat → Int) (T : HTagging α) (hTT : Bool) (cap : Nat)
    (cfg : Cfg α) (calls : List (Call α)) (hv : cfg.vecNormalize = false)
    (hwf : ∀ c ∈ calls, c.wf cfg = true) (hcap : 0 < cap) (hn : 0 < cfg.nEnvs) (strat : Strategy)
    (nGoal batch : Nat) (draws goals : List Nat)
    (hok : (Her.run cap cfg.nEnvs hTT (toOps T (run cfg calls).st.buffer)).sampleOk strat nGoal batch draws goals
      = true) :
    ∃ real virt,
      (Her.run cap cfg.nEnvs hTT (toOps T (run cfg calls).st.buffer)).sampleOut cr strat nGoal batch draws goals
        = real ++ virt ∧
      real.length = batch - nbVirtual nGoal batch ∧ virt.length = nbVirtual nGoal batch ∧
      (∀ x, x ∈ real → ∃ e a ee t b, e < cfg.nEnvs ∧ EnvTransAt (run cfg calls) e a t b ∧
        (run cfg calls).w.log.length ≤ a + cap ∧ EnvEndsAt (run cfg calls).w.log e a ee ∧
        x = realOf (envTrans T hTT cfg.post t b)) ∧
      (∀ x, x ∈ virt → ∃ e a a' ee t b t' b', e < cfg.nEnvs ∧
        EnvTransAt (run cfg calls) e a t b ∧ EnvTransAt (run cfg calls) e a' t' b' ∧
        (run cfg calls).w.log.length ≤ a + cap ∧ (run cfg calls).w.log.length ≤ a' + cap ∧
        EnvEndsAt (run cfg calls).w.log e a ee ∧ EnvEndsAt (run cfg calls).w.log e a' ee ∧
        (strat = .future → a ≤ a') ∧ (strat = .final → a' = ee) ∧
        x = relabelOf cr (envTrans T hTT cfg.post t b) (envTrans T hTT cfg.post t' b')) :=
  C16C04.her_sample_is_env_hindsight cr T hTT cap cfg calls hv hwf hcap hn strat nGoal batch draws goals hok

/-- see `C16C04.her_episodes_are_env_episodes`: the episode boundaries of the HER segments are the environment's
own `terminated ∨ truncated` steps. -/
theorem her_episodes_are_env_episodes {α : Type} [Add α] [Sub α] [Mul α] [Div α] [Neg α] [One α] [LT α]
    [DecidableLT α] (T : HTagging α) (hTT : Bool) (cap : Nat) (cfg : Cfg α)
    (calls : List (Call α)) (hv : cfg.vecNormalize = false) (hwf : ∀ c ∈ calls, c.wf cfg = true)
    (e a ee : Nat) (he : e < cfg.nEnvs) :
    endsAt (ghostOf hTT cap (toOps T (run cfg calls).st.buffer) e) a ee ↔ EnvEndsAt (run cfg calls).w.log e a ee :=
  C16C04.her_episodes_are_env_episodes T hTT cap cfg calls hv hwf e a ee he

end EndToEnd

/-! ### Non-vacuity: concrete histories meet the hypotheses above -/

/-- transition with tags `10·k + field`, given `done` -/
private def tr (k : Nat) (done : Bool) : Trans :=
  { obs := 10 * k, ach := 10 * k + 1, dg := 10 * k + 2, act := 10 * k + 3, nobs := 10 * k + 4, nach := 10 * k + 5,
    ndg := 10 * k + 6, rew := -(k : Int), done := done, timeout := false, info := k }

/-- capacity 3; an episode of 5 steps (longer than the ring: its last 2 steps survive), then one open step:
slots 0,1 are sampleable with `(ep_start, ep_length) = (0, 2)`, slot 2 (open episode) is not. -/
example :
    let c := (runG true 3 [.add (tr 0 false), .add (tr 1 false), .add (tr 2 false), .add (tr 3 false),
      .add (tr 4 true), .add (tr 5 false)]).1
    (c.epLen, c.epStart, c.pos, c.cur) = ([2, 2, 0], [0, 0, 2], 0, 2) := by decide

/-- an episode that wraps the ring end: capacity 4, episodes of 3 and 3 steps → second one in slots 3,0,1 -/
example :
    let c := (runG true 4 [.add (tr 0 false), .add (tr 1 false), .add (tr 2 true), .add (tr 3 false),
      .add (tr 4 false), .add (tr 5 true)]).1
    (c.epLen, c.epStart, c.valid 0, c.goalRange .future 0, c.goalSlot 0 2) = ([3, 3, 0, 3], [3, 3, 0, 3], true, (1, 3), 1) := by
  decide

/-- `truncate_makes_last_valid`'s hypothesis holds mid-episode -/
example : (runG true 3 [.add (tr 0 true), .add (tr 1 false)]).1.cur ≠ (runG true 3 [.add (tr 0 true), .add (tr 1 false)]).1.pos := by
  decide

/-- `sample_sound`'s hypothesis: two environments, capacity 3, draws of valid flat indices, `future` goals -/
example :
    (Her.run 3 2 true [.add [tr 0 false, tr 1 true], .add [tr 2 true, tr 3 false]]).sampleOk .future 4 5
      [0, 1, 2, 0, 2] [0, 0, 1, 1] = true := by decide

/-- the batch produced for those draws: one real sample followed by four relabelled ones -/
example :
    ((Her.run 3 2 true [.add [tr 0 false, tr 1 true], .add [tr 2 true, tr 3 false]]).sampleOut
      (fun a g => (a * 1000 + g : Nat)) .future 4 5 [0, 1, 2, 0, 2] [0, 0, 1, 1]).map (fun s => (s.obs, s.dg, s.ndg, s.rew))
      = [(20, 22, 26, -2), (0, 5, 5, 5005), (10, 15, 15, 15015), (20, 25, 25, 25025), (0, 25, 25, 5025)] := by decide

/-- `no_truncate_keeps_open` / `unfinished_never_valid`: the last add of an open episode -/
example : ((runG true 3 [.add (tr 0 true), .add (tr 1 false)]).2.getD 1 default).last = false := by decide

/-- a 7-step episode in a ring of 3 (two full laps + 1): only its last transition is sampleable -/
example :
    ((runG true 3 (List.replicate 6 (.add (tr 0 false)))).1.add true (tr 1 true)).epLen = [1, 0, 0] := by decide

/-- a 6-step episode in a ring of 3 (exactly two laps): nothing is sampleable -/
example :
    ((runG true 3 (List.replicate 5 (.add (tr 0 false)))).1.add true (tr 1 true)).epLen = [0, 0, 0] := by decide

end SB3Verif.C16
