/-
Helper lemmas for C20 about the JSON lines and the human-readable table of the logger model.
Core only.
-/
import SB3Verif.Lemmas.Logger
import SB3Verif.Model.PyFloat

namespace SB3Verif.Logger.Lemmas

open SB3Verif.Logger
open SB3Verif.Csv (Str Cell)

/-! ### JSON lines -/

/-- a number token the JSON reader can delimit: non-empty, no delimiter character -/
def jtokClean (t : Str) : Bool := !t.isEmpty && t.all (fun c => !jsonDelim c)

def jvalOk : JVal → Bool
  | .num t => jtokClean t
  | .str _ => true

theorem stripPrefix_append (pre s : Str) : stripPrefix pre (pre ++ s) = some s := by
  simp [stripPrefix, List.isPrefixOf_iff_prefix]

theorem readJStr_escape (s : Str) : ∀ (acc rest : Str),
    readJStr false acc (jsonEscape s ++ '"' :: rest) = some (acc ++ s, rest) := by
  induction s with
  | nil => intro acc rest; simp [jsonEscape, readJStr]
  | cons c s ih =>
    intro acc rest
    simp only [jsonEscape]
    split
    · rename_i h; subst h
      simp only [List.cons_append, readJStr, if_true]
      simp [ih]
    · split
      · rename_i h1 h; subst h
        simp only [List.cons_append, readJStr, if_true]
        simp [ih]
      · split
        · rename_i h1 h2 h; subst h
          simp only [List.cons_append, readJStr, if_true]
          simp [ih]
        · split
          · rename_i h1 h2 h3 h; subst h
            simp only [List.cons_append, readJStr, if_true]
            simp [ih]
          · split
            · rename_i h1 h2 h3 h4 h; subst h
              simp only [List.cons_append, readJStr, if_true]
              simp [ih]
            · rename_i h1 h2 h3 h4 h5
              simp only [List.cons_append, readJStr, h1, h2, if_false]
              simp [ih]

theorem readJTok_clean (t : Str) : ∀ (acc : Str) (d : Char) (rest : Str),
    (∀ c ∈ t, jsonDelim c = false) → jsonDelim d = true →
    readJTok acc (t ++ d :: rest) = (acc ++ t, d :: rest) := by
  induction t with
  | nil => intro acc d rest _ hd; simp [readJTok, hd]
  | cons c t ih =>
    intro acc d rest h hd
    have hc := h c (by simp)
    simp only [List.cons_append, readJTok, hc]
    rw [ih _ d rest (fun c hc => h c (by simp [hc])) hd]
    simp

theorem readJVal_bytes (v : JVal) (hv : jvalOk v = true) (d : Char) (rest : Str) (hd : jsonDelim d = true) :
    readJVal (v.bytes ++ d :: rest) = some (v, d :: rest) := by
  cases v with
  | str s =>
    simp only [JVal.bytes, jsonStr, List.cons_append, List.append_assoc, readJVal, if_true]
    rw [readJStr_escape]; simp
  | num t =>
    simp only [jvalOk, jtokClean, Bool.and_eq_true, Bool.not_eq_true', List.isEmpty_eq_false_iff,
      List.all_eq_true] at hv
    obtain ⟨hne, hall⟩ := hv
    cases t with
    | nil => exact absurd rfl hne
    | cons c t' =>
      have hc := hall c (by simp)
      have hcq : c ≠ '"' := by
        intro h; subst h; simp [jsonDelim] at hc
      simp only [JVal.bytes, List.cons_append, readJVal, hcq, if_false]
      have := readJTok_clean (c :: t') [] d rest (fun c hc => hall c hc) hd
      simp only [List.cons_append, List.nil_append] at this
      rw [this]
      simp

theorem jsonItems_ne_nil (kv : Str × JVal) (r : List (Str × JVal)) : ∃ t, jsonItems (kv :: r) = '"' :: t := by
  obtain ⟨k, v⟩ := kv
  cases r with
  | nil => exact ⟨jsonEscape k ++ '"' :: ':' :: ' ' :: v.bytes, by simp [jsonItems, jsonStr]⟩
  | cons b r' =>
    exact ⟨jsonEscape k ++ '"' :: ':' :: ' ' :: (v.bytes ++ ',' :: ' ' :: jsonItems (b :: r')), by simp [jsonItems, jsonStr]⟩

theorem length_le_jsonItems (kvs : List (Str × JVal)) : kvs.length ≤ (jsonItems kvs).length := by
  induction kvs with
  | nil => simp
  | cons kv r ih =>
    obtain ⟨k, v⟩ := kv
    cases r with
    | nil => simp [jsonItems, jsonStr]
    | cons b r' =>
      simp only [jsonItems, jsonStr, List.length_append, List.length_cons] at ih ⊢
      omega

/-- the items of one object -/
theorem readJItems_items (kvs : List (Str × JVal)) : ∀ (fuel : Nat) (acc : List (Str × JVal)),
    kvs ≠ [] → kvs.length ≤ fuel → (∀ kv ∈ kvs, jvalOk kv.2 = true) →
    readJItems fuel acc (jsonItems kvs ++ ['}', '\n']) = some (acc ++ kvs) := by
  induction kvs with
  | nil => intro _ _ h; exact absurd rfl h
  | cons kv r ih =>
    intro fuel acc _ hf hok
    obtain ⟨k, v⟩ := kv
    cases fuel with
    | zero => simp at hf
    | succ fuel =>
      have hv := hok (k, v) (by simp)
      cases r with
      | nil =>
        have e : jsonItems [(k, v)] ++ ['}', '\n']
            = ['"'] ++ (jsonEscape k ++ '"' :: ([':', ' '] ++ (v.bytes ++ '}' :: ['\n']))) := by
          simp [jsonItems, jsonStr]
        rw [e]
        simp only [readJItems]
        rw [stripPrefix_append]
        simp only [Option.bind_some, readJStr_escape, List.nil_append]
        rw [stripPrefix_append]
        simp only [Option.bind_some]
        rw [readJVal_bytes v hv '}' ['\n'] (by decide)]
        simp
      | cons b r' =>
        have e : jsonItems ((k, v) :: b :: r') ++ ['}', '\n']
            = ['"'] ++ (jsonEscape k ++ '"' :: ([':', ' '] ++ (v.bytes ++ ',' :: (' ' :: (jsonItems (b :: r') ++ ['}', '\n']))))) := by
          simp [jsonItems, jsonStr]
        rw [e]
        simp only [readJItems]
        rw [stripPrefix_append]
        simp only [Option.bind_some, readJStr_escape, List.nil_append]
        rw [stripPrefix_append]
        simp only [Option.bind_some]
        rw [readJVal_bytes v hv ',' _ (by decide)]
        simp only [Option.bind_some]
        have hne : (',' :: ' ' :: (jsonItems (b :: r') ++ ['}', '\n'])) ≠ ['}', '\n'] := by
          intro h; injection h with h1 _; exact absurd h1 (by decide)
        simp only [hne, if_false]
        have e2 : (',' :: ' ' :: (jsonItems (b :: r') ++ ['}', '\n'])) = [',', ' '] ++ (jsonItems (b :: r') ++ ['}', '\n']) := rfl
        rw [e2, stripPrefix_append]
        simp only [Option.bind_some]
        rw [ih fuel (acc ++ [(k, v)]) (by simp) (by simpa using hf) (fun kv hkv => hok kv (by simp [hkv]))]
        simp

/-- **one JSON line reads back to the row that was written** -/
theorem parseJsonLine_jsonLine (kvs : List (Str × JVal)) (hok : ∀ kv ∈ kvs, jvalOk kv.2 = true) :
    parseJsonLine (jsonLine kvs) = some kvs := by
  have e : jsonLine kvs = ['{'] ++ (jsonItems kvs ++ ['}', '\n']) := by simp [jsonLine]
  rw [e]
  simp only [parseJsonLine]
  rw [stripPrefix_append]
  simp only [Option.bind_some]
  cases kvs with
  | nil => simp [jsonItems]
  | cons kv r =>
    obtain ⟨t, ht⟩ := jsonItems_ne_nil kv r
    have hne : jsonItems (kv :: r) ++ ['}', '\n'] ≠ ['}', '\n'] := by
      rw [ht]; intro h; injection h with h1 _; exact absurd h1 (by decide)
    simp only [hne, if_false]
    have := readJItems_items (kv :: r) ((jsonItems (kv :: r) ++ ['}', '\n']).length + 1) [] (by simp)
      (by have := length_le_jsonItems (kv :: r); simp only [List.length_append] at *; omega) hok
    simpa using this


/-- no raw line feed -/
def noNl (s : Str) : Prop := ∀ c ∈ s, c ≠ '\n'

theorem noNl_append {a b : Str} (ha : noNl a) (hb : noNl b) : noNl (a ++ b) := by
  intro c hc
  rcases List.mem_append.mp hc with h | h
  · exact ha c h
  · exact hb c h

theorem noNl_jsonEscape (s : Str) : noNl (jsonEscape s) := by
  induction s with
  | nil => intro c hc; simp [jsonEscape] at hc
  | cons c s ih =>
    simp only [jsonEscape]
    have hcons : ∀ (a b : Char), a ≠ '\n' → b ≠ '\n' → noNl (a :: b :: jsonEscape s) := by
      intro a b ha hb x hx
      rcases List.mem_cons.mp hx with h | h
      · exact h ▸ ha
      · rcases List.mem_cons.mp h with h | h
        · exact h ▸ hb
        · exact ih x h
    split
    · exact hcons _ _ (by decide) (by decide)
    · split
      · exact hcons _ _ (by decide) (by decide)
      · split
        · exact hcons _ _ (by decide) (by decide)
        · split
          · exact hcons _ _ (by decide) (by decide)
          · split
            · exact hcons _ _ (by decide) (by decide)
            · rename_i h1 h2 h3 h4 h5
              intro x hx
              rcases List.mem_cons.mp hx with h | h
              · exact h ▸ h3
              · exact ih x h

theorem noNl_jsonStr (s : Str) : noNl (jsonStr s) := by
  intro c hc
  simp only [jsonStr, List.mem_cons, List.mem_append] at hc
  rcases hc with h | h | h
  · exact h ▸ (by decide)
  · exact noNl_jsonEscape s c h
  · rcases h with h | h
    · exact h ▸ (by decide)
    · simp at h

theorem noNl_jval (v : JVal) (hv : jvalOk v = true) : noNl v.bytes := by
  cases v with
  | str s => exact noNl_jsonStr s
  | num t =>
    simp only [jvalOk, jtokClean, Bool.and_eq_true, Bool.not_eq_true', List.all_eq_true] at hv
    intro c hc h
    subst h
    have := hv.2 _ hc
    simp [jsonDelim] at this

theorem noNl_jsonItems (kvs : List (Str × JVal)) (hok : ∀ kv ∈ kvs, jvalOk kv.2 = true) : noNl (jsonItems kvs) := by
  induction kvs with
  | nil => intro c hc; simp [jsonItems] at hc
  | cons kv r ih =>
    obtain ⟨k, v⟩ := kv
    have hv := noNl_jval v (hok (k, v) (by simp))
    have hsep : noNl [':', ' '] := by intro c hc; simp at hc; rcases hc with h | h <;> subst h <;> decide
    have hsep2 : noNl [',', ' '] := by intro c hc; simp at hc; rcases hc with h | h <;> subst h <;> decide
    cases r with
    | nil =>
      have : jsonItems [(k, v)] = jsonStr k ++ ([':', ' '] ++ v.bytes) := by simp [jsonItems]
      rw [this]
      exact noNl_append (noNl_jsonStr k) (noNl_append hsep hv)
    | cons b r' =>
      have : jsonItems ((k, v) :: b :: r') = jsonStr k ++ ([':', ' '] ++ (v.bytes ++ ([',', ' '] ++ jsonItems (b :: r')))) := by
        simp [jsonItems]
      rw [this]
      exact noNl_append (noNl_jsonStr k) (noNl_append hsep (noNl_append hv (noNl_append hsep2
        (ih (fun kv hkv => hok kv (by simp [hkv]))))))

theorem splitNlAux_clean (t : Str) : ∀ (cur rest : Str), noNl t →
    splitNlAux cur (t ++ '\n' :: rest) = (cur ++ t ++ ['\n']) :: splitNlAux [] rest := by
  induction t with
  | nil => intro cur rest _; simp [splitNlAux]
  | cons c t ih =>
    intro cur rest h
    have hc : c ≠ '\n' := h c (by simp)
    simp only [List.cons_append, splitNlAux, hc, if_false]
    rw [ih _ rest (fun x hx => h x (by simp [hx]))]
    simp

/-- **the whole JSON file reads back to the rows that were written** -/
theorem readJson_lines (rows : List (List (Str × JVal))) (hok : ∀ r ∈ rows, ∀ kv ∈ r, jvalOk kv.2 = true) :
    readJson (rows.map jsonLine).flatten = some rows := by
  have hsplit : ∀ (rows : List (List (Str × JVal))), (∀ r ∈ rows, ∀ kv ∈ r, jvalOk kv.2 = true) →
      splitNlAux [] (rows.map jsonLine).flatten = rows.map jsonLine := by
    intro rows
    induction rows with
    | nil => intro _; simp [splitNlAux]
    | cons r rs ih =>
      intro hok
      have e : jsonLine r = ('{' :: (jsonItems r ++ ['}'])) ++ ['\n'] := by simp [jsonLine]
      have hn : noNl ('{' :: (jsonItems r ++ ['}'])) := by
        intro c hc
        rcases List.mem_cons.mp hc with h | h
        · exact h ▸ (by decide)
        · rcases List.mem_append.mp h with h | h
          · exact noNl_jsonItems r (hok r (by simp)) c h
          · simp only [List.mem_singleton] at h; exact h ▸ (by decide)
      simp only [List.map_cons, List.flatten_cons]
      rw [e, List.append_assoc, List.singleton_append, splitNlAux_clean _ [] _ hn,
        ih (fun r hr => hok r (by simp [hr]))]
      simp
  simp only [readJson, hsplit rows hok]
  induction rows with
  | nil => rfl
  | cons r rs ih =>
    simp only [List.map_cons, List.mapM_cons, parseJsonLine_jsonLine r (hok r (by simp))]
    rw [ih (fun r hr => hok r (by simp [hr]))]
    rfl

/-- number tokens of `str(int)` are fine for the JSON reader -/
theorem intRepr_jtokClean (i : Int) : jtokClean (intRepr i) = true := by
  have hd : ∀ c ∈ digitChars, jsonDelim c = false := by decide
  have hnat : ∀ n, jtokClean (natDigits n) = true := by
    intro n
    simp only [jtokClean, Bool.and_eq_true, Bool.not_eq_true', List.isEmpty_eq_false_iff, List.all_eq_true]
    refine ⟨natDigitsAux_ne_nil _ _ _ (Or.inr (by simp)), ?_⟩
    intro c hc
    rcases natDigitsAux_mem _ _ _ c hc with h | h
    · exact hd c h
    · simp at h
  simp only [intRepr]
  split
  · have := hnat i.natAbs
    simp only [jtokClean, Bool.and_eq_true, Bool.not_eq_true', List.all_eq_true, List.isEmpty_cons,
      List.mem_cons, forall_eq_or_imp] at this ⊢
    exact ⟨trivial, by decide, this.2⟩
  · exact hnat _

theorem jvalOk_jsonRow {α} (R : Render α) (hR : ∀ x, jtokClean (R.json x) = true) (p : Pending α) :
    ∀ kv ∈ jsonRow R p, jvalOk kv.2 = true := by
  intro kv hkv
  simp only [jsonRow, visible, List.map_map, List.mem_map, Function.comp] at hkv
  obtain ⟨e, _, rfl⟩ := hkv
  cases hv : e.val with
  | int i => simpa [Val.jval, hv, jvalOk] using intRepr_jtokClean i
  | flt x => simpa [Val.jval, hv, jvalOk] using hR x
  | str s => simp [Val.jval, jvalOk]


/-! ### the human-readable table -/

/-- the key as it is displayed: `tag/name` is shown as an indented `name` under the line of its tag -/
def shownKey (key : Str) : Str :=
  match findSlash key with
  | some (p + 1) => [' ', ' ', ' '] ++ key.drop (p + 2)
  | _ => key

/-- keys the table is specified for: non-empty and not starting with `/` -/
def keyShapeOk (key : Str) : Prop := key ≠ [] ∧ findSlash key ≠ some 0

theorem mem_insertByKey {α} (e x : Entry α) (l : Pending α) : x ∈ insertByKey e l ↔ x = e ∨ x ∈ l := by
  induction l with
  | nil => simp [insertByKey]
  | cons a r ih =>
    simp only [insertByKey]
    split
    · simp
    · simp only [List.mem_cons, ih]; tauto

theorem mem_sortByKey {α} (x : Entry α) (l : Pending α) : x ∈ sortByKey l ↔ x ∈ l := by
  induction l with
  | nil => simp [sortByKey]
  | cons a r ih => simp [sortByKey, mem_insertByKey, ih]

theorem truncate_ne_nil (n : Nat) (s : Str) (h : s ≠ []) : truncate n s ≠ [] := by
  simp only [truncate]
  split
  · simp
  · exact h

theorem findSlash_some_lt (key : Str) (i : Nat) (h : findSlash key = some i) : i < key.length ∧ key[i]? = some '/' := by
  induction key generalizing i with
  | nil => simp [findSlash] at h
  | cons c s ih =>
    simp only [findSlash] at h
    split at h
    · rename_i hc; injection h with h; subst h; simp [hc]
    · cases hs : findSlash s with
      | none => simp [hs] at h
      | some j =>
        simp only [hs, Option.map_some, Option.some.injEq] at h
        subst h
        have := ih j hs
        exact ⟨by simp [this.1], by simpa using this.2⟩

theorem findSlash_none (key : Str) (h : findSlash key = none) : '/' ∉ key := by
  induction key with
  | nil => simp
  | cons c s ih =>
    simp only [findSlash] at h
    split at h
    · exact absurd h (by simp)
    · rename_i hc
      cases hs : findSlash s with
      | none => simp only [List.mem_cons, not_or]; exact ⟨fun h' => hc h'.symm, ih hs⟩
      | some j => simp [hs] at h

/-- invariants of the loop of `HumanOutputFormat.write` -/
structure HInv (maxLen : Nat) (tag : Str) (m : K2S) : Prop where
  /-- the current tag has its line -/
  tagLine : tag ≠ [] → ∃ v, ((tag, truncate maxLen tag), v) ∈ m
  /-- only tag lines have the key `(tag, truncate tag)`, and their text is empty -/
  onlyTag : ∀ x ∈ m, x.1.2 = truncate maxLen x.1.1 → x.2 = []
  /-- a tag contains a slash -/
  slash : tag = [] ∨ '/' ∈ tag

theorem k2sHas_iff (k : Str × Str) (m : K2S) : k2sHas k m = true ↔ ∃ v, (k, v) ∈ m := by
  simp only [k2sHas, List.any_eq_true, beq_iff_eq]
  constructor
  · rintro ⟨x, hx, rfl⟩; exact ⟨x.2, hx⟩
  · rintro ⟨v, hv⟩; exact ⟨(k, v), hv, rfl⟩

/-- setting the (empty) text of a tag line never disturbs another entry -/
theorem k2sSet_tag (maxLen : Nat) (t : Str) (m : K2S) (h : ∀ x ∈ m, x.1.2 = truncate maxLen x.1.1 → x.2 = []) :
    k2sSet (t, truncate maxLen t) [] m = m ∨
      k2sSet (t, truncate maxLen t) [] m = m ++ [((t, truncate maxLen t), [])] := by
  induction m with
  | nil => right; simp [k2sSet]
  | cons a r ih =>
    obtain ⟨k', v'⟩ := a
    simp only [k2sSet]
    split
    · rename_i hk
      left
      have := h (k', v') (by simp) (by rw [hk])
      simp only at this
      rw [this]
    · rcases ih (fun x hx => h x (by simp [hx])) with h' | h'
      · left; rw [h']
      · right; rw [h']; simp

theorem k2sSet_length_of_not_has (k : Str × Str) (v : Str) (m : K2S) (h : ¬ k2sHas k m = true) :
    (k2sSet k v m).length = m.length + 1 := by
  induction m with
  | nil => simp [k2sSet]
  | cons a r ih =>
    obtain ⟨k', v'⟩ := a
    have hk' : k' ≠ k := by
      intro heq
      apply h
      rw [k2sHas_iff]; exact ⟨v', by simp [heq]⟩
    simp only [k2sSet, hk', if_false, List.length_cons]
    rw [ih]
    intro hh; apply h
    rw [k2sHas_iff] at hh ⊢
    obtain ⟨v, hv⟩ := hh; exact ⟨v, by simp [hv]⟩

/-- one key of the loop: the invariants are kept, nothing is lost, and the key's line is there -/
theorem humanKey_spec (maxLen : Nat) (tag : Str) (m : K2S) (key valueStr : Str) (tag' : Str) (m' : K2S)
    (inv : HInv maxLen tag m) (hk : keyShapeOk key) (h : humanKey maxLen tag m key valueStr = some (tag', m')) :
    HInv maxLen tag' m' ∧ (∀ x ∈ m, x ∈ m') ∧
      ((tag', truncate maxLen (shownKey key)), truncate maxLen valueStr) ∈ m' := by
  simp only [humanKey] at h
  -- the two shapes of key
  cases hs : findSlash key with
  | none =>
    simp only [hs] at h
    have hnin : ¬ (tag ≠ [] ∧ tag <:+: key) := by
      rintro ⟨hne, hin⟩
      rcases inv.slash with h0 | h0
      · exact hne h0
      · exact findSlash_none key hs (hin.subset h0)
    have hkey' : (if (!tag.isEmpty && decide (tag <:+: key)) = true then [' ', ' ', ' '] ++ key.drop tag.length else key) = key := by
      split
      · rename_i hc
        simp only [Bool.and_eq_true, Bool.not_eq_true', List.isEmpty_eq_false_iff, decide_eq_true_eq] at hc
        exact absurd hc hnin
      · rfl
    rw [hkey'] at h
    split at h
    · exact absurd h (by simp)
    · rename_i hhas
      simp only [Option.some.injEq, Prod.mk.injEq] at h
      obtain ⟨rfl, rfl⟩ := h
      have hshown : shownKey key = key := by simp [shownKey, hs]
      refine ⟨⟨?_, ?_, inv.slash⟩, fun x hx => List.mem_append.mpr (Or.inl hx), by simp [hshown]⟩
      · intro hne
        obtain ⟨v, hv⟩ := inv.tagLine hne
        exact ⟨v, List.mem_append.mpr (Or.inl hv)⟩
      · intro x hx heq
        rcases List.mem_append.mp hx with hx | hx
        · exact inv.onlyTag x hx heq
        · simp only [List.mem_singleton] at hx
          subst hx
          simp only at heq
          exfalso
          by_cases hne : tag = []
          · subst hne
            have : truncate maxLen ([] : Str) = [] := by simp [truncate]
            rw [this] at heq
            exact truncate_ne_nil maxLen key hk.1 heq
          · obtain ⟨v, hv⟩ := inv.tagLine hne
            have : k2sHas (tag, truncate maxLen key) m = true := by
              rw [k2sHas_iff]; exact ⟨v, heq ▸ hv⟩
            exact hhas this
  | some i =>
    cases i with
    | zero => exact absurd hs hk.2
    | succ p =>
      simp only [hs] at h
      have hlt := findSlash_some_lt key (p + 1) hs
      have htlen : (key.take (p + 2)).length = p + 2 := by
        simp only [List.length_take]; omega
      have htne : key.take (p + 2) ≠ [] := by
        intro h0; rw [h0] at htlen; simp at htlen
      have hin : key.take (p + 2) <:+: key := (List.take_prefix _ _).isInfix
      have hkey' : (if (!(key.take (p + 2)).isEmpty && decide (key.take (p + 2) <:+: key)) = true
          then [' ', ' ', ' '] ++ key.drop (key.take (p + 2)).length else key) = shownKey key := by
        have : (!(key.take (p + 2)).isEmpty && decide (key.take (p + 2) <:+: key)) = true := by
          simp only [Bool.and_eq_true, Bool.not_eq_true', List.isEmpty_eq_false_iff, decide_eq_true_eq]
          exact ⟨htne, hin⟩
        rw [if_pos this, htlen]
        simp [shownKey, hs]
      rw [hkey'] at h
      split at h
      · exact absurd h (by simp)
      · rename_i hhas
        simp only [Option.some.injEq, Prod.mk.injEq] at h
        obtain ⟨rfl, rfl⟩ := h
        have hslash : '/' ∈ key.take (p + 2) := by
          have h1 : (key.take (p + 2))[p + 1]? = some '/' := by
            rw [List.getElem?_take]; simp [hlt.2]
          exact List.mem_of_getElem? h1
        have hset := k2sSet_tag maxLen (key.take (p + 2)) m inv.onlyTag
        have hsub : ∀ x ∈ m, x ∈ k2sSet (key.take (p + 2), truncate maxLen (key.take (p + 2))) [] m := by
          intro x hx
          rcases hset with h' | h' <;> rw [h']
          · exact hx
          · exact List.mem_append.mpr (Or.inl hx)
        have htag : ∃ v, ((key.take (p + 2), truncate maxLen (key.take (p + 2))), v)
            ∈ k2sSet (key.take (p + 2), truncate maxLen (key.take (p + 2))) [] m := by
          rcases hset with h' | h'
          · -- the tag line was already there
            have : k2sHas (key.take (p + 2), truncate maxLen (key.take (p + 2))) m = true := by
              -- otherwise `k2sSet` would have appended
              by_contra hno
              have hlen := k2sSet_length_of_not_has (key.take (p + 2), truncate maxLen (key.take (p + 2))) [] m hno
              rw [h'] at hlen; omega
            rw [h']
            exact (k2sHas_iff _ _).mp this
          · rw [h']; exact ⟨[], by simp⟩
        have honly : ∀ x ∈ k2sSet (key.take (p + 2), truncate maxLen (key.take (p + 2))) [] m,
            x.1.2 = truncate maxLen x.1.1 → x.2 = [] := by
          intro x hx heq
          rcases hset with h' | h' <;> rw [h'] at hx
          · exact inv.onlyTag x hx heq
          · rcases List.mem_append.mp hx with hx | hx
            · exact inv.onlyTag x hx heq
            · simp only [List.mem_singleton] at hx; subst hx; rfl
        refine ⟨⟨?_, ?_, Or.inr hslash⟩, fun x hx => List.mem_append.mpr (Or.inl (hsub x hx)), by simp⟩
        · intro _
          obtain ⟨v, hv⟩ := htag
          exact ⟨v, List.mem_append.mpr (Or.inl hv)⟩
        · intro x hx heq
          rcases List.mem_append.mp hx with hx | hx
          · exact honly x hx heq
          · simp only [List.mem_singleton] at hx
            subst hx
            simp only at heq
            exfalso
            obtain ⟨v, hv⟩ := htag
            apply hhas
            rw [k2sHas_iff]
            exact ⟨v, heq ▸ hv⟩

/-- the whole loop: every processed entry has its line in the final dictionary -/
theorem humanLoop_spec {α} (R : Render α) (maxLen : Nat) (es : Pending α) : ∀ (tag : Str) (m mf : K2S),
    HInv maxLen tag m → (∀ e ∈ es, keyShapeOk e.key) → humanLoop R maxLen tag m es = some mf →
    (∀ x ∈ m, x ∈ mf) ∧
      ∀ e ∈ es, ∃ tg, ((tg, truncate maxLen (shownKey e.key)), truncate maxLen (e.val.humanStr R)) ∈ mf := by
  induction es with
  | nil =>
    intro tag m mf _ _ h
    simp only [humanLoop, Option.some.injEq] at h
    subst h
    exact ⟨fun x hx => hx, by simp⟩
  | cons e es ih =>
    intro tag m mf inv hk h
    simp only [humanLoop] at h
    cases hkey : humanKey maxLen tag m e.key (e.val.humanStr R) with
    | none => simp [hkey] at h
    | some r =>
      obtain ⟨tag', m'⟩ := r
      simp only [hkey] at h
      obtain ⟨inv', hsub, hmem⟩ := humanKey_spec maxLen tag m e.key _ tag' m' inv (hk e (by simp)) hkey
      obtain ⟨hsub', hall⟩ := ih tag' m' mf inv' (fun e' he' => hk e' (by simp [he'])) h
      refine ⟨fun x hx => hsub' x (hsub x hx), ?_⟩
      intro e' he'
      rcases List.mem_cons.mp he' with h' | h'
      · subst h'; exact ⟨tag', hsub' _ hmem⟩
      · exact hall e' h'

/-- one printed line of the table -/
def humanLine (kw vw : Nat) (k v : Str) : Str :=
  ['|', ' '] ++ k ++ List.replicate (kw - k.length) ' ' ++ [' ', '|', ' '] ++ v ++ List.replicate (vw - v.length) ' '
    ++ [' ', '|', '\n']

theorem humanLines_contains (kw vw : Nat) (m : K2S) (x : (Str × Str) × Str) (hx : x ∈ m) :
    humanLine kw vw x.1.2 x.2 <:+: humanLines kw vw m := by
  induction m with
  | nil => simp at hx
  | cons a r ih =>
    obtain ⟨⟨tg, k⟩, v⟩ := a
    rcases List.mem_cons.mp hx with h | h
    · subst h
      refine ⟨[], humanLines kw vw r, ?_⟩
      simp [humanLines, humanLine]
    · obtain ⟨pre, suf, hps⟩ := ih h
      refine ⟨['|', ' '] ++ k ++ List.replicate (kw - k.length) ' ' ++ [' ', '|', ' '] ++ v
        ++ List.replicate (vw - v.length) ' ' ++ [' ', '|', '\n'] ++ pre, suf, ?_⟩
      simp only [humanLines]
      rw [← hps]
      simp

/-- **every recorded, not excluded key has its line in the table** -/
theorem humanWrite_contains {α} (R : Render α) (maxLen : Nat) (p : Pending α) (text : Str)
    (hk : ∀ e ∈ p, keyShapeOk e.key) (hw : humanWrite R maxLen p = some text)
    (e : Entry α) (he : e ∈ p) (h1 : STDOUT ∉ e.excl) (h2 : LOG ∉ e.excl) :
    ∃ kw vw, humanLine kw vw (truncate maxLen (shownKey e.key)) (truncate maxLen (e.val.humanStr R)) <:+: text := by
  simp only [humanWrite] at hw
  cases hl : humanLoop R maxLen [] [] (humanVisible (sortByKey p)) with
  | none => simp [hl] at hw
  | some mf =>
    simp only [hl, Option.map_some, Option.some.injEq] at hw
    subst hw
    have hev : e ∈ humanVisible (sortByKey p) := by
      simp only [humanVisible, List.mem_filter, mem_sortByKey, Bool.not_eq_true', Bool.or_eq_false_iff,
        List.contains_eq_mem, decide_eq_false_iff_not]
      exact ⟨he, h1, h2⟩
    have hks : ∀ e' ∈ humanVisible (sortByKey p), keyShapeOk e'.key := by
      intro e' he'
      simp only [humanVisible, List.mem_filter, mem_sortByKey] at he'
      exact hk e' he'.1
    have inv0 : HInv maxLen [] [] := ⟨fun h => absurd rfl h, by simp, Or.inl rfl⟩
    obtain ⟨_, hall⟩ := humanLoop_spec R maxLen _ [] [] mf inv0 hks hl
    obtain ⟨tg, hmem⟩ := hall e hev
    have hne : mf.isEmpty = false := by
      cases mf with
      | nil => simp at hmem
      | cons _ _ => rfl
    simp only [humanTable, hne, Bool.false_eq_true, if_false]
    generalize maxLen' (mf.map (fun kv => kv.1.2)) = kw
    generalize maxLen' (mf.map (fun kv => kv.2)) = vw
    refine ⟨kw, vw, ?_⟩
    obtain ⟨pre, suf, hps⟩ := humanLines_contains kw vw mf _ hmem
    refine ⟨(List.replicate (kw + vw + 7) '-' ++ ['\n']) ++ pre, suf ++ (List.replicate (kw + vw + 7) '-' ++ ['\n']), ?_⟩
    rw [← hps]
    simp only [List.append_assoc]


/-! ### the driver's number printing produces clean tokens -/

theorem fracDigits_mem (f : Nat) : ∀ (r : Rat) (c : Char), c ∈ fracDigits f r → c ∈ digitChars := by
  induction f with
  | zero => intro r c h; simp [fracDigits] at h
  | succ f ih =>
    intro r c h
    simp only [fracDigits] at h
    split at h
    · simp at h
    · rcases List.mem_cons.mp h with h | h
      · exact h ▸ digit_mem _
      · exact ih _ c h

theorem pyFloatRepr_chars (q : Rat) : pyFloatRepr q ≠ [] ∧
    ∀ c ∈ pyFloatRepr q, c ∈ digitChars ∨ c = '-' ∨ c = '.' := by
  simp only [pyFloatRepr]
  constructor
  · simp
  · intro c hc
    simp only [List.mem_append, List.mem_cons] at hc
    rcases hc with (hc | hc) | hc | hc
    · split at hc
      · simp only [List.mem_singleton] at hc; exact Or.inr (Or.inl hc)
      · simp at hc
    · rcases natDigitsAux_mem _ _ _ c hc with h | h
      · exact Or.inl h
      · simp at h
    · exact Or.inr (Or.inr hc)
    · split at hc
      · simp only [List.mem_singleton] at hc; exact Or.inl (hc ▸ by decide)
      · exact Or.inl (fracDigits_mem _ _ c hc)

theorem pyFloatRepr_clean (q : Rat) : Csv.tokClean (pyFloatRepr q) = true := by
  obtain ⟨hne, hall⟩ := pyFloatRepr_chars q
  simp only [Csv.tokClean, Bool.and_eq_true, Bool.not_eq_true', List.isEmpty_eq_false_iff, List.all_eq_true]
  refine ⟨hne, ?_⟩
  intro c hc
  rcases hall c hc with h | h | h
  · exact digitChars_not_special c h
  · subst h; decide
  · subst h; decide

theorem pyFloatRepr_jtokClean (q : Rat) : jtokClean (pyFloatRepr q) = true := by
  obtain ⟨hne, hall⟩ := pyFloatRepr_chars q
  have hd : ∀ c ∈ digitChars, jsonDelim c = false := by decide
  simp only [jtokClean, Bool.and_eq_true, Bool.not_eq_true', List.isEmpty_eq_false_iff, List.all_eq_true]
  refine ⟨hne, ?_⟩
  intro c hc
  rcases hall c hc with h | h | h
  · exact hd c h
  · subst h; decide
  · subst h; decide

end SB3Verif.Logger.Lemmas
