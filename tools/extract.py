#!/usr/bin/env python3
"""
Secondary tie between model and code: *formula extraction* (DESIGN.md §2.3).

For a property Cxx with a template `lean/Gen/Cxx.lean.in`, the arithmetic kernels named in
`lean/Gen/Cxx.spec.json` are read from the CURRENT source under $SB3_REPO with Python's `ast`, translated to
Lean definitions over an abstract scalar type, substituted into the template (which also contains the tie
lemmas `Generated.f … = Model.f …`, proved by `rfl`/`ring`/`simp`), and the result is elaborated with
`lake env lean`. Nothing is cached: the generated text is rebuilt from the source on every run.

Outcomes (JSON on stdout):
  {"status": "ok", "obligations": k, "theorems": [...], "axioms": {...}}
  {"status": "unavailable", "reason": …}     the code was restructured: the extractor no longer finds the
                                             expressions / the leaves it expects (no alarm; primary tie decides)
  {"status": "broken", "log": …}             expressions found with the expected leaves but a tie lemma fails:
                                             the formula in the code is no longer the formula of the model
spec format: {"items": [{"name": "delta", "file": "stable_baselines3/common/buffers.py",
                          "class": "RolloutBuffer", "func": "compute_returns_and_advantage",
                          "target": "delta", "occurrence": 0, "leaves": ["rewards_step", …]}]}
`target` is the assigned name (or "return" for the returned expression, "attr:NAME" for `self.NAME = …`,
"sub:NAME" for `NAME[…] = …`, "if" for the test of the `occurrence`-th `if` statement of the function, or
"find:TEXT" for the `occurrence`-th outermost arithmetic/comparison expression whose source contains TEXT, wherever it
occurs: inside a subscript, a call argument, a tuple …).
Optional per item: "type" (concrete Lean type of all leaves, e.g. "Nat"/"Int"; default: a type parameter α with
"classes"), "result" (Lean result type, e.g. "Bool" for a condition), "inline" {leaf: lean term}, "calls" {python call text: lean function} (e.g. {"np.sqrt": "HasSqrt.sqrt"}; a key that starts with a dot, {".exp": "f"}, maps the method call RECV.exp(args) on any receiver to (f RECV args) with RECV translated recursively),
"leaves" (the expected leaf names; a different set means the code was restructured -> status unavailable; with
"leaves_mode": "subset" only a NEW leaf means restructured, a leaf that disappeared is left to the tie lemma: the
def keeps all expected leaves as parameters). Leaves that are Lean keywords are written «kw».
Supported expression forms: + - * / // % **, unary -, numeric constants, names/attributes/subscripts (leaves),
max/min/clip/float/int, comparisons (== != < <= > >=), and/or/not, conditional expressions.
"""
from __future__ import annotations

import ast
import json
import os
import re
import subprocess
import sys
from fractions import Fraction

VERIF = os.path.dirname(os.path.dirname(os.path.abspath(__file__)))
LEAN = os.path.join(VERIF, "lean")
REPO = os.environ.get("SB3_REPO", "/repo")
ALLOWED_AXIOMS = {"propext", "Classical.choice", "Quot.sound"}


class Unsupported(Exception):
    pass


def sanitize(src: str) -> str:
    s = src.replace("self.", "")
    s = re.sub(r"\s+", "", s)
    if re.fullmatch(r"[A-Za-z_][A-Za-z0-9_.]*[A-Za-z0-9]_+", s):
        s += "u"   # `obs_` is not `obs`
    s = s.replace("+", "_p").replace("-", "_m").replace("*", "_x")
    s = re.sub(r"[^A-Za-z0-9_]", "_", s)
    s = re.sub(r"_+", "_", s).strip("_")
    if not s or s[0].isdigit():
        s = "v_" + s
    return s


LEAN_KEYWORDS = {"end", "from", "at", "in", "do", "then", "else", "if", "fun", "let", "have", "show", "by", "with", "match",
                 "where", "open", "at", "then", "def", "theorem", "instance", "class", "structure", "namespace", "section",
                 "variable", "universe", "import", "export", "local", "prefix", "infix", "notation", "macro", "syntax",
                 "deriving", "extends", "for", "unless", "return", "mut", "try", "catch", "finally", "using", "calc", "Type", "Prop", "Sort"}


def quote(name: str) -> str:
    """Lean identifier for a leaf: keywords are written «kw»"""
    return f"«{name}»" if name in LEAN_KEYWORDS else name


class Tr(ast.NodeVisitor):
    """Python arithmetic expression -> Lean term over a scalar type; leaves become parameters."""

    def __init__(self, src: str, inline=None, calls=None, opaque=None):
        self.src = src
        self.leaves = []
        self.inline = inline or {}
        self.calls = calls or {}
        self.opaque = {re.sub(r"\s+", "", k): v for k, v in (opaque or {}).items()}
        self.origins = {}
        self.collisions = []
        self.env = None  # symbolic store of the block translator (variable -> Lean term); None for plain expressions
        self.list_mode = False

    def register(self, name, text):
        """two different source texts must not share one Lean name (`obs_` / `obs`, `self.pos` / `pos`: sanitize() drops
        `self.` and outer underscores); a collision makes the item unavailable"""
        canon = re.sub(r"\s+", "", text)
        prev = self.origins.setdefault(name, canon)
        if prev != canon:
            self.collisions.append((name, prev, canon))

    def leaf(self, node):
        name = sanitize(ast.get_source_segment(self.src, node))
        self.register(name, ast.get_source_segment(self.src, node))
        if self.env is not None and name in self.env:
            return self.env[name]
        if name in self.inline:
            return "(" + self.inline[name] + ")"
        if name not in self.leaves:
            self.leaves.append(name)
        return quote(name)

    def tr(self, n) -> str:
        if self.opaque:
            txt = re.sub(r"\s+", "", ast.unparse(n))
            if txt in self.opaque:
                # an expression the translator does not interpret (a None test, an external predicate): named leaf
                name = self.opaque[txt]
                if name not in self.leaves:
                    self.leaves.append(name)
                return quote(name)
        if isinstance(n, ast.Constant) and isinstance(n.value, bool):
            return "true" if n.value else "false"
        if self.list_mode:
            # lists of string constants (member-name lists): literals, `[*xs, "a"]`, `xs + ["a"]`
            if isinstance(n, ast.Constant) and isinstance(n.value, str):
                return json.dumps(n.value)
            if isinstance(n, ast.List):
                parts, cur = [], []
                for e in n.elts:
                    if isinstance(e, ast.Starred):
                        if cur:
                            parts.append("[" + ", ".join(cur) + "]")
                            cur = []
                        parts.append(self.tr(e.value))
                    else:
                        cur.append(self.tr(e))
                if cur or not parts:
                    parts.append("[" + ", ".join(cur) + "]")
                return parts[0] if len(parts) == 1 else "(" + " ++ ".join(parts) + ")"
            if isinstance(n, ast.BinOp) and isinstance(n.op, ast.Add):
                return f"({self.tr(n.left)} ++ {self.tr(n.right)})"
        if isinstance(n, ast.BinOp):
            a, b = self.tr(n.left), self.tr(n.right)
            op = {ast.Add: "+", ast.Sub: "-", ast.Mult: "*", ast.Div: "/", ast.FloorDiv: "/", ast.Mod: "%"}.get(type(n.op))
            if op is None:
                if isinstance(n.op, ast.Pow):
                    return f"({a} ^ {b})"
                raise Unsupported(ast.dump(n.op))
            return f"({a} {op} {b})"
        if isinstance(n, ast.UnaryOp) and isinstance(n.op, ast.USub):
            return f"(-{self.tr(n.operand)})"
        if isinstance(n, ast.Constant) and isinstance(n.value, (int, float)) and not isinstance(n.value, bool):
            q = Fraction(str(n.value))
            if q.denominator == 1:
                return f"({q.numerator})" if q.numerator < 0 else f"{q.numerator}"
            return f"({q.numerator} / {q.denominator})"
        if isinstance(n, (ast.Name, ast.Attribute, ast.Subscript)):
            return self.leaf(n)
        if isinstance(n, ast.Call):
            fn = ast.get_source_segment(self.src, n.func)
            if isinstance(n.func, ast.Attribute) and n.func.attr in ("astype", "item", "copy", "clone", "float", "flatten", "detach") \
                    and ("." + n.func.attr) not in self.calls and fn not in self.calls:
                # dtype conversions / copies do not change the mathematical value (arguments are not translated)
                return self.tr(n.func.value)
            args = [self.tr(a) for a in n.args]
            if fn in self.calls:
                # per-item mapping of a library call to a Lean function, e.g. {"np.sqrt": "HasSqrt.sqrt"}
                return "(" + " ".join([self.calls[fn]] + args) + ")" if args else self.calls[fn]
            if isinstance(n.func, ast.Attribute) and ("." + n.func.attr) in self.calls:
                # method call on an arbitrary receiver: `RECV.exp()` -> (f RECV) with the receiver translated
                # recursively, for a mapping whose key starts with a dot, e.g. {".exp": "TScalar.exp"}
                return "(" + " ".join([self.calls["." + n.func.attr], self.tr(n.func.value)] + args) + ")"
            if fn in ("max", "min", "np.maximum", "np.minimum") and len(args) == 2:
                return f"({'max' if 'max' in fn else 'min'} {args[0]} {args[1]})"
            if fn in ("float", "int", "np.float32", "np.array", "np.asarray") and len(args) == 1:
                return args[0]
            if fn in ("np.clip", "th.clamp", "th.clip") and len(args) == 3:
                return f"(max {args[1]} (min {args[0]} {args[2]}))"
            if fn in ("np.square",) and len(args) == 1:
                return f"({args[0]} * {args[0]})"
            raise Unsupported(f"call {fn}")
        if isinstance(n, (ast.ListComp, ast.GeneratorExp)):
            # `[f(i) for i in …]` -> the element expression f(i) with the loop variable as a leaf
            return self.tr(n.elt)
        if isinstance(n, ast.IfExp):
            return f"(if {self.tr(n.test)} then {self.tr(n.body)} else {self.tr(n.orelse)})"
        if isinstance(n, ast.Compare) and len(n.ops) == 1:
            a, b = self.tr(n.left), self.tr(n.comparators[0])
            op = {ast.Eq: "==", ast.NotEq: "!=", ast.Lt: "<", ast.LtE: "≤", ast.Gt: ">", ast.GtE: "≥"}.get(type(n.ops[0]))
            if op is None:
                raise Unsupported(ast.dump(n.ops[0]))
            if op in ("==", "!="):
                return f"({a} {op} {b})"
            return f"(decide ({a} {op} {b}))"
        if isinstance(n, ast.BoolOp):
            op = " && " if isinstance(n.op, ast.And) else " || "
            return "(" + op.join(self.tr(v) for v in n.values) + ")"
        if isinstance(n, ast.UnaryOp) and isinstance(n.op, ast.Not):
            return f"(!{self.tr(n.operand)})"
        raise Unsupported(type(n).__name__)


def find_func(tree, cls, func):
    scope = tree
    if cls:
        scope = next((n for n in ast.walk(tree) if isinstance(n, ast.ClassDef) and n.name == cls), None)
        if scope is None:
            raise Unsupported(f"class {cls} not found")
    f = next((n for n in ast.walk(scope) if isinstance(n, (ast.FunctionDef,)) and n.name == func), None)
    if f is None:
        raise Unsupported(f"function {func} not found")
    return f


def find_expr(fn, target, occurrence):
    hits = []
    if target.startswith("find:"):
        # outermost arithmetic / comparison expressions whose source text contains the given substring
        needle = re.sub(r"\s+", "", target[5:])
        kinds = (ast.BinOp, ast.Compare, ast.BoolOp, ast.IfExp, ast.UnaryOp)
        cand = [n for n in ast.walk(fn) if isinstance(n, kinds) and needle in re.sub(r"\s+", "", ast.unparse(n))]
        inner = set()
        for n in cand:
            for m in ast.walk(n):
                if m is not n and isinstance(m, kinds):
                    inner.add(id(m))
        hits = sorted((n for n in cand if id(n) not in inner), key=lambda v: (v.lineno, v.col_offset))
        if occurrence >= len(hits):
            raise Unsupported(f"no expression containing '{target[5:]}' (#{occurrence})")
        return hits[occurrence]
    for n in ast.walk(fn):
        if target == "if" and isinstance(n, ast.If):
            hits.append(n.test)
            continue
        if target == "return" and isinstance(n, ast.Return) and n.value is not None:
            hits.append(n.value)
        elif isinstance(n, (ast.Assign, ast.AugAssign)):
            tgts = n.targets if isinstance(n, ast.Assign) else [n.target]
            for t in tgts:
                if target.startswith("attr:") and isinstance(t, ast.Attribute) and t.attr == target[5:]:
                    hits.append(n.value)
                elif isinstance(t, ast.Name) and t.id == target:
                    hits.append(n.value)
                elif target.startswith("sub:") and isinstance(t, ast.Subscript) and sanitize(ast.unparse(t.value)) == target[4:]:
                    hits.append(n.value)
    hits.sort(key=lambda v: (v.lineno, v.col_offset))
    if occurrence >= len(hits):
        raise Unsupported(f"assignment to {target} (#{occurrence}) not found")
    return hits[occurrence]


# ---------------------------------------------------------------------------------------------------------------------
# statement-level translation: a block of statements -> its effect on the variables it assigns (symbolic execution)
class BlockTr:
    """
    Symbolic execution of a straight-line / branching block of Python statements (assignments to names, `self.attr`
    and subscripts, augmented assignments, tuple assignments, if/elif/else, return, calls with side effects named in
    `effects`) into one Lean term per output variable. A variable that is read before the block assigns it is a leaf
    (a parameter of the generated definition: its value on entry); a read after an assignment sees the assigned term, so
    the ORDER of the statements, stale reads and early returns are part of what is extracted. Loops are not executed:
    select a loop body with "block": "for:K" / "while:K" and model one iteration.
    """

    def __init__(self, src, item):
        self.src = src
        self.item = item
        self.tr = Tr(src, item.get("inline"), item.get("calls"), item.get("opaque"))
        self.tr.env = {}
        self.tr.list_mode = bool(item.get("list_mode"))
        self.effects = item.get("effects", {})
        self.skip = [re.sub(r"\s+", "", k) for k in item.get("skip", [])]
        self.havoc = [re.sub(r"\s+", "", k) for k in item.get("havoc", [])]
        self.bool_leaves = set()
        self.n_fresh = {}
        self.fresh_names = set()
        self.effect_arg = item.get("effect_arg", {})

    def fresh(self, nm):
        """leaf for the unknown value a variable has after an external call: nm_new, nm_new2, … (one per assignment)"""
        self.n_fresh[nm] = self.n_fresh.get(nm, 0) + 1
        name = nm + "_new" + ("" if self.n_fresh[nm] == 1 else str(self.n_fresh[nm]))
        self.fresh_names.add(name)
        return name

    def name_of(self, target):
        name = sanitize(ast.get_source_segment(self.src, target))
        self.tr.register(name, ast.get_source_segment(self.src, target))
        return name

    def cur(self, env, name):
        """current symbolic value of a variable (its entry value is a leaf)"""
        if name in env:
            return env[name]
        if name.startswith("eff_") or name.startswith("effseq_") or name in ("brk", "cont", "raised"):
            return "false"
        if name == "ret":
            return self.item.get("no_return", "true")
        if name not in self.tr.leaves:
            self.tr.leaves.append(name)
        return quote(name)

    def expr(self, env, node):
        self.tr.env = env
        return self.tr.tr(node)

    def skipped(self, s):
        """statements without an effect on the modelled state: pass / assert / docstrings, simple statements matching a
        `skip` needle (logging, printing), and an `if` all of whose statements are skipped"""
        if isinstance(s, (ast.Pass, ast.Assert)) or (isinstance(s, ast.Expr) and isinstance(s.value, ast.Constant)):
            return True
        if isinstance(s, ast.If):
            return all(self.skipped(b) for b in list(s.body) + list(s.orelse))
        if isinstance(s, (ast.For, ast.While, ast.With, ast.Try)):
            return False
        text = re.sub(r"\s+", "", ast.unparse(s))
        return any(k in text for k in self.skip)

    @staticmethod
    def may_return(stmts):
        return any(isinstance(n, (ast.Return, ast.Break, ast.Continue, ast.Raise)) for s in stmts for n in ast.walk(s))

    def assign(self, env, target, term):
        if isinstance(target, (ast.Name, ast.Attribute, ast.Subscript)):
            env[self.name_of(target)] = term
        else:
            raise Unsupported("assignment target " + type(target).__name__)

    def targets_of(self, s):
        ts = s.targets if isinstance(s, ast.Assign) else [s.target]
        out = []
        for t in ts:
            out += list(t.elts) if isinstance(t, ast.Tuple) else [t]
        return out

    def run(self, stmts, env):
        if not stmts:
            return env
        s, rest = stmts[0], stmts[1:]
        if self.item.get("lenient") and isinstance(s, (ast.For, ast.While)) and not self.skipped(s):
            # a nested loop is not executed: everything it assigns becomes unknown (it must not contain a listed effect)
            for n in ast.walk(s):
                if isinstance(n, ast.Expr) and isinstance(n.value, ast.Call):
                    fn = re.sub(r"\s+", "", ast.unparse(n.value.func))
                    if any(fn == k or fn.endswith("." + k) for k in self.effects):
                        raise Unsupported("listed effect inside a nested loop: " + fn)
            for n in ast.walk(s):
                if isinstance(n, (ast.Assign, ast.AugAssign, ast.AnnAssign)):
                    for e in self.targets_of(n):
                        if isinstance(e, (ast.Name, ast.Attribute, ast.Subscript)):
                            nm = self.name_of(e)
                            env.pop(nm, None)
                            env[nm] = self.cur({}, self.fresh(nm))
            return self.run(rest, env)
        if self.item.get("lenient") and isinstance(s, (ast.Assign, ast.AugAssign, ast.AnnAssign, ast.Expr)):
            # lenient mode (long training loops): a simple statement the translator cannot express (tensor code) makes
            # the variables it assigns unknown (fresh leaves `<name>_new`) and is otherwise ignored; control flow,
            # counters and listed effects are still executed symbolically, in order
            saved_leaves = list(self.tr.leaves)
            try:
                return self.run1(s, rest, dict(env))
            except Unsupported:
                if isinstance(s, ast.Expr):
                    fn = re.sub(r"\s+", "", ast.unparse(s.value.func)) if isinstance(s.value, ast.Call) else ""
                    if any(fn == k or fn.endswith("." + k) for k in self.effects):
                        raise
                    self.tr.leaves[:] = saved_leaves
                    return self.run(rest, env)
                self.tr.leaves[:] = saved_leaves
                for e in self.targets_of(s):
                    if isinstance(e, (ast.Name, ast.Attribute, ast.Subscript)):
                        nm = self.name_of(e)
                        env.pop(nm, None)
                        env[nm] = self.cur({}, self.fresh(nm))
                return self.run(rest, env)
        return self.run1(s, rest, env)

    def run1(self, s, rest, env):
        text = re.sub(r"\s+", "", ast.unparse(s))
        if self.skipped(s):
            return self.run(rest, env)
        if isinstance(s, ast.With):
            # context managers (th.no_grad(), …) do not change values: the body runs in place
            return self.run(list(s.body) + rest, env)
        if isinstance(s, ast.Return):
            if isinstance(s.value, ast.Tuple):
                for k, e in enumerate(s.value.elts):   # `return a, b` -> outputs ret_0, ret_1
                    env[f"ret_{k}"] = self.expr(env, e)
                return env
            env["ret"] = self.expr(env, s.value) if s.value is not None else "()"
            return env
        if isinstance(s, ast.Raise):
            # the call is rejected on this path: nothing after it runs
            env["raised"] = "true"
            return env
        if isinstance(s, (ast.Break, ast.Continue)):
            # leaving the loop body early: the rest of the body is not executed on this path
            env["brk" if isinstance(s, ast.Break) else "cont"] = "true"
            return env
        if isinstance(s, ast.If):
            saved_leaves = list(self.tr.leaves)
            try:
                c = self.expr(env, s.test)
            except Unsupported:
                if not self.item.get("lenient"):
                    raise
                # a test the translator cannot express: an unknown Boolean (it reaches an output only if the two
                # branches differ on a tracked variable)
                self.tr.leaves[:] = saved_leaves
                self.n_cond = getattr(self, "n_cond", 0) + 1
                c = self.cur({}, f"cond{self.n_cond}")
                self.bool_leaves.add(f"cond{self.n_cond}")
            if self.may_return(s.body) or self.may_return(s.orelse):
                et = self.run(list(s.body) + rest, dict(env))
                ef = self.run(list(s.orelse) + rest, dict(env))
                return self.merge(c, et, ef)
            et = self.run(list(s.body), dict(env))
            ef = self.run(list(s.orelse), dict(env))
            return self.run(rest, self.merge(c, et, ef))
        if isinstance(s, ast.Assign) and isinstance(s.value, ast.Dict) and len(s.targets) == 1 and \
                isinstance(s.targets[0], (ast.Name, ast.Attribute)) and \
                all(isinstance(k, ast.Constant) and isinstance(k.value, str) for k in s.value.keys):
            # `d = {"r": a, "l": b, …}`: one variable per constant key (`d["r"]` is read / written as d_r)
            base = self.name_of(s.targets[0])
            for k, v in zip(s.value.keys, s.value.values):
                nm = sanitize(base + "_" + k.value)
                saved = list(self.tr.leaves)
                try:
                    env[nm] = self.expr(env, v)
                except Unsupported:
                    if not self.item.get("lenient"):
                        raise
                    self.tr.leaves[:] = saved
                    env.pop(nm, None)
                    env[nm] = self.cur({}, self.fresh(nm))
            return self.run(rest, env)
        if isinstance(s, ast.Assign):
            if any(k in text for k in self.havoc):
                # result of an external call: the targets become fresh leaves (their value after the call)
                for t in s.targets:
                    for e in (t.elts if isinstance(t, ast.Tuple) else [t]):
                        nm = self.name_of(e)
                        env.pop(nm, None)
                        env[nm] = self.cur({}, self.fresh(nm))
                return self.run(rest, env)
            for t in s.targets:
                if isinstance(t, ast.Tuple):
                    if not (isinstance(s.value, ast.Tuple) and len(s.value.elts) == len(t.elts)):
                        raise Unsupported("tuple assignment from a non-tuple: " + ast.unparse(s)[:60])
                    vals = [self.expr(env, v) for v in s.value.elts]
                    for e, v in zip(t.elts, vals):
                        self.assign(env, e, v)
                else:
                    self.assign(env, t, self.expr(env, s.value))
            return self.run(rest, env)
        if isinstance(s, ast.AugAssign):
            op = {ast.Add: "+", ast.Sub: "-", ast.Mult: "*", ast.Div: "/", ast.FloorDiv: "/", ast.Mod: "%"}.get(type(s.op))
            if op is None:
                raise Unsupported("augmented assignment " + type(s.op).__name__)
            old = self.expr(env, s.target)
            self.assign(env, s.target, f"({old} {op} {self.expr(env, s.value)})")
            return self.run(rest, env)
        if isinstance(s, ast.AnnAssign) and s.value is not None:
            self.assign(env, s.target, self.expr(env, s.value))
            return self.run(rest, env)
        if isinstance(s, ast.Expr) and isinstance(s.value, ast.Call) and self.tr.list_mode and \
                isinstance(s.value.func, ast.Attribute) and s.value.func.attr == "append" and len(s.value.args) == 1:
            # `xs.append(v)` on a member-name list
            tgt = s.value.func.value
            self.assign(env, tgt, f"({self.expr(env, tgt)} ++ [{self.expr(env, s.value.args[0])}])")
            return self.run(rest, env)
        if isinstance(s, ast.Expr) and isinstance(s.value, ast.Call):
            fn = re.sub(r"\s+", "", ast.unparse(s.value.func))
            # exact callee names first, then the longest suffix (`np.random.seed` is not `random.seed`)
            for k, v in sorted(self.effects.items(), key=lambda kv: -len(kv[0])):
                if fn == k or (fn.endswith("." + k) and fn not in self.effects):
                    # effect v is reached on this path; `effseq_v_u` records whether effect u had been reached before
                    for u in dict.fromkeys(self.effects.values()):
                        if u != v and ("effseq_%s_%s" % (v, u)) not in env:
                            env["effseq_%s_%s" % (v, u)] = self.cur(env, "eff_" + u)
                    env["eff_" + v] = "true"
                    if v in self.effect_arg:
                        # the value handed to the effect (argument index from the spec)
                        env["effarg_" + v] = self.expr(env, s.value.args[self.effect_arg[v]])
                    return self.run(rest, env)
            raise Unsupported("statement with an unlisted side effect: " + ast.unparse(s)[:80])
        raise Unsupported("statement " + type(s).__name__ + ": " + ast.unparse(s)[:60])

    def merge(self, c, et, ef):
        out = {}
        for k in list(dict.fromkeys(list(et) + list(ef))):
            a, b = self.cur(et, k), self.cur(ef, k)
            out[k] = a if a == b else f"(if {c} then {a} else {b})"
        return out


def select_block(fn, sel):
    if sel in (None, "body"):
        return list(fn.body)
    kind, _, k = sel.partition(":")
    cls = {"for": ast.For, "while": ast.While, "with": ast.With, "if": ast.If, "else": ast.If}.get(kind)
    if cls is None:
        raise Unsupported("block selector " + sel)
    hits = sorted((n for n in ast.walk(fn) if isinstance(n, cls)), key=lambda v: (v.lineno, v.col_offset))
    if int(k or 0) >= len(hits):
        raise Unsupported(f"{sel}: no such loop")
    return list(hits[int(k or 0)].orelse if kind == "else" else hits[int(k or 0)].body)


def extract_block(item):
    """kind == "block": see BlockTr. Spec fields: block ("body" | "for:K" | "while:K" | "with:K"), start / stop (source needles:
    first statement containing `start` … up to, not including, the first later statement containing `stop`),
    outputs [{"var": name, "type": T}] (name: sanitized variable, "ret" for the return value, "eff_X" for an effect),
    leaf_types {leaf: T}, type (default leaf type, else α), skip [needles], havoc [needles], effects {callee: X},
    opaque {python expression: leaf}, no_return (Lean term for `ret` on a path that falls off the end),
    effect_arg {X: argument index} (output `effarg_X`), effects_absent_false (a listed effect no path reaches is `false`
    instead of making the item unavailable), merge_names (Lean names two source texts may share, reviewed by hand:
    `self.x` and a local `x` that is a copy of it; any other collision makes the item unavailable), lenient (untranslatable simple statements / tests / nested loops
    become unknowns instead of making the item unavailable), strict (false: extra assigned variables are allowed),
    type_params / alpha_from_section (binders supplied by the template), list_mode (lists of string constants:
    literals, `[*xs, "a"]`, `xs + [...]`, `xs.append(v)`), calls {callee: lean function}. Statement forms: assignments
    (names, attributes, subscripts, tuples, dict literals), augmented assignments, if/elif/else, return (also tuples ->
    ret_0, ret_1), break / continue / raise (outputs `brk`, `cont`, `raised`), with, assert / pass / docstrings."""
    path = os.path.join(REPO, item["file"])
    src = open(path).read()
    tree = ast.parse(src)
    fn = find_func(tree, item.get("class"), item["func"])
    stmts = select_block(fn, item.get("block"))
    norm = lambda s: re.sub(r"\s+", "", ast.unparse(s))
    if item.get("start"):
        k = next((i for i, s in enumerate(stmts) if re.sub(r"\s+", "", item["start"]) in norm(s)), None)
        if k is None:
            raise Unsupported(f"{item['name']}: start statement not found")
        stmts = stmts[k:]
    if item.get("stop"):
        k = next((i for i, s in enumerate(stmts) if i > 0 and re.sub(r"\s+", "", item["stop"]) in norm(s)), None)
        if k is None:
            raise Unsupported(f"{item['name']}: stop statement not found")
        stmts = stmts[:k]
    bt = BlockTr(src, item)
    env = bt.run(stmts, {})
    bad = sorted({c for c in bt.tr.collisions if c[0] not in item.get("merge_names", [])})
    if bad:
        # two distinct Python variables would become one Lean variable: the translation would not mean what the code does
        raise Unsupported(f"{item['name']}: distinct source names share a Lean name: {bad}")
    outs = []
    for o in item["outputs"]:
        if o["var"] not in env and item.get("effects_absent_false") and o["var"].startswith(("eff_", "effseq_")):
            # no path of the block reaches that call any more: the effect does not happen (item option; without it a
            # vanished call is read as "restructured" and the tie is unavailable)
            outs.append("false")
            continue
        if o["var"] not in env and item.get("effects_absent_false") and o["var"].startswith("effarg_"):
            outs.append(bt.cur(env, o["var"]))
            continue
        if o["var"] not in env and not o.get("optional"):
            raise Unsupported(f"{item['name']}: block does not assign {o['var']}")
        outs.append(bt.cur(env, o["var"]))
    extra = sorted(k for k in env if k not in {o["var"] for o in item["outputs"]} and k not in item.get("locals", [])
                   and not k.startswith("effseq_") and not k.startswith("effarg_"))
    if extra and item.get("strict", True):
        # a NEW assigned variable = the code was restructured (or grew a new piece of state)
        raise Unsupported(f"{item['name']}: block assigns unexpected variables {extra}")
    # leaves that occur in the output terms (a local of one branch merged with "unassigned" never reaches an output)
    occurs = lambda l: any(re.search(r"(?<![\w«.])" + re.escape(l) + r"(?![\w»])", o) for o in outs)
    leaves = sorted(l for l in bt.tr.leaves if occurs(l))
    # synthetic `condK` leaves (an untranslatable test on which an OUTPUT now depends) are not a restructuring: they stay
    # parameters of the definition, so the tie lemma no longer applies -> broken obligation (the block's control
    # dependence changed); a leaf that DISAPPEARED is left to the tie lemma as well; only a new named leaf = restructured
    # (the entry value of an OUTPUT variable appearing as a leaf = "the block now sometimes keeps the old value": likewise)
    outvars = {o["var"] for o in item["outputs"]}
    # (an unknown value `v_new` — result of an external call or of an untranslatable statement — that an output did not
    # depend on before: likewise)
    named = [l for l in leaves if l not in bt.bool_leaves and (l not in outvars or l in item.get("leaves", []))
             and (l not in bt.fresh_names or l in item.get("leaves", []))]
    if "leaves" in item and sorted(item["leaves"]) != named:
        if not set(named) <= set(item["leaves"]):
            raise Unsupported(f"{item['name']}: leaves {named} differ from expected {sorted(item['leaves'])}")
        leaves = sorted(set(item["leaves"]) | set(leaves))
    dty = item.get("type")
    lt = dict({b: "Bool" for b in bt.bool_leaves}, **item.get("leaf_types", {}))
    binders = " ".join(f"({quote(l)} : {lt.get(l, dty or 'α')})" for l in leaves)
    rty = " × ".join(o["type"] for o in item["outputs"])
    uses_alpha = lambda t: re.search(r"(?<![\w])α(?![\w])", t) is not None
    generic = ((dty is None) and any(l not in lt for l in leaves)) or any(uses_alpha(o["type"]) for o in item["outputs"]) \
        or any(uses_alpha(lt.get(l, dty or "α")) for l in leaves)
    head = f"def {item['name']} " + (item["type_params"] + " " if item.get("type_params") else "")
    if generic:
        head += ("" if item.get("alpha_from_section") else "{α : Type} ") + item.get("classes", "[Add α] [Sub α] [Mul α] [Div α] [Neg α] [OfNat α 0] [OfNat α 1] [OfNat α 2]") + " "
    body = outs[0] if len(outs) == 1 else "(" + ",\n   ".join(outs) + ")"
    text = f"{head}{binders} : {rty} :=\n  {body}"
    return text, {"name": item["name"], "kind": "block", "statements": len(stmts), "lean": body, "leaves": leaves,
                  "where": f"{item['file']}:{stmts[0].lineno}-{stmts[-1].end_lineno}" if stmts else item["file"]}


def extract_item(item):
    if item.get("kind") == "block":
        return extract_block(item)
    path = os.path.join(REPO, item["file"])
    src = open(path).read()
    tree = ast.parse(src)
    fn = find_func(tree, item.get("class"), item["func"])
    expr = find_expr(fn, item["target"], item.get("occurrence", 0))
    tr = Tr(src, item.get("inline"), item.get("calls"), item.get("opaque"))
    tr.list_mode = bool(item.get("list_mode"))
    term = tr.tr(expr)
    bad = sorted({c for c in tr.collisions if c[0] not in item.get("merge_names", [])})
    if bad:
        raise Unsupported(f"{item['name']}: distinct source names share a Lean name: {bad}")
    leaves = sorted(tr.leaves)
    if "leaves" in item:
        exp = sorted(item["leaves"])
        if item.get("leaves_mode") == "subset":
            # a leaf that DISAPPEARED is a formula change (-> tie lemma decides), a NEW leaf is a restructuring
            if not set(leaves) <= set(exp):
                raise Unsupported(f"{item['name']}: leaves {leaves} not within expected {exp}")
            leaves = exp
        elif exp != leaves:
            raise Unsupported(f"{item['name']}: leaves {leaves} differ from expected {exp}")
    params = " ".join(quote(l) for l in leaves)
    result = item.get("result")
    if item.get("type"):
        # concrete scalar type (e.g. Nat, Int): no type parameter, no classes
        ty = item["type"]
        binder = f"({params} : {ty}) " if leaves else ""
        text = f"def {item['name']} {binder}: {result or ty} :=\n  {term}"
    else:
        classes = item.get("classes", "[Add α] [Sub α] [Mul α] [Div α] [Neg α] [OfNat α 0] [OfNat α 1] [OfNat α 2]")
        binder = f"({params} : α) " if leaves else ""
        text = f"def {item['name']} {{α : Type}} {classes} {binder}: {result or 'α'} :=\n  {term}"
    return text, {"name": item["name"], "expr": ast.get_source_segment(src, expr), "lean": term, "leaves": leaves,
                  "where": f"{item['file']}:{expr.lineno}"}


def run(prop: str):
    tpath = os.path.join(LEAN, "Gen", f"{prop}.lean.in")
    spath = os.path.join(LEAN, "Gen", f"{prop}.spec.json")
    if not (os.path.exists(tpath) and os.path.exists(spath)):
        return {"status": "none"}
    spec = json.load(open(spath))
    tmpl = open(tpath).read()
    infos = []
    if any(it.get("kind") == "block" for it in spec["items"]):
        # the statement-level translator first translates a handful of functions whose meaning is known
        # (tools/test_extract.py): a broken translator must not validate (or break) a tie
        try:
            import test_extract

            failed = test_extract.run_tests()
        except Exception as e:  # noqa
            failed = ["self-test crashed: " + repr(e)]
        if failed:
            return {"status": "unavailable", "reason": "translator self-test failed: " + "; ".join(failed)[:400], "extracted": []}
    try:
        for item in spec["items"]:
            text, info = extract_item(item)
            infos.append(info)
            tmpl = tmpl.replace("{{" + item["name"] + "}}", text)
    except (Unsupported, OSError, SyntaxError) as e:
        return {"status": "unavailable", "reason": str(e), "extracted": infos}
    names = re.findall(r"^theorem\s+(\S+)", tmpl, re.M)
    ns = re.search(r"^namespace\s+(\S+)", tmpl, re.M)
    full = [(ns.group(1) + "." if ns else "") + n for n in names]
    tmpl += "\n" + "".join(f"#print axioms {n}\n" for n in full)
    h = abs(hash((REPO, prop))) % (1 << 32)
    gdir = os.path.join(LEAN, ".lake", "gen")
    os.makedirs(gdir, exist_ok=True)
    gpath = os.path.join(gdir, f"{prop}_{h:08x}.lean")
    open(gpath, "w").write(tmpl)
    p = subprocess.run(["lake", "env", "lean", gpath], cwd=LEAN, stdout=subprocess.PIPE, stderr=subprocess.STDOUT, timeout=900)
    out = p.stdout.decode(errors="replace")
    flat = re.sub(r"\s+", " ", out)
    axioms, bad = {}, []
    for n in full:
        m = re.search(r"'" + re.escape(n) + r"' depends on axioms: \[([^\]]*)\]", flat)
        if m:
            ax = {a.strip() for a in m.group(1).split(",") if a.strip()}
        elif re.search(r"'" + re.escape(n) + r"' does not depend on any axioms", flat):
            ax = set()
        else:
            bad.append(n)
            continue
        axioms[n] = sorted(ax)
        if not ax <= ALLOWED_AXIOMS:
            bad.append(n)
    forbidden = re.findall(r"\b(sorry|admit|native_decide)\b", re.sub(r"--.*", "", tmpl))
    if p.returncode != 0 or bad or forbidden:
        return {"status": "broken", "log": out[-2500:], "extracted": infos, "failed": bad, "generated": gpath}
    try:
        os.remove(gpath)
    except OSError:
        pass
    return {"status": "ok", "obligations": len(full), "theorems": full, "axioms": axioms, "extracted": infos}


if __name__ == "__main__":
    print(json.dumps(run(sys.argv[1]), indent=1))
