/-
Driver for C01: runs the executable model `SB3Verif.VecEnv` (observations = tags `Nat`, rewards = `Rat`) on the
operations the harness (`/verif/harness/c01.py`) performed on the real `DummyVecEnv` / `SubprocVecEnv`.

VAL   = null | {"b":bool} | {"i":int} | {"s":str} | {"o":tag} | {"d":OPTS} | {"l":[int]}
INFO  = [[key, VAL], …]                OPTS = [[key, int], …]
CALL  = ["step", a] | ["reset", seed|null, OPTS|null]

ops
  {"op":"new","kind":"dummy"|"subproc","n":n}                       → {"ok":true}
  {"op":"seed","s":int}                                             → {"seeds":[int|null], "reset_infos":[INFO]}
  {"op":"set_options","arg":null|{"dict":OPTS}|{"list":[OPTS]}}     → {"reset_infos":[INFO]}
  {"op":"reset","zs":[{"obs":tag,"info":INFO}]}                     → {"obs":[tag|null],"reset_infos":[INFO],"calls":[[CALL]]}
  {"op":"step","acts":[int],"xs":[{"obs":tag,"rew":q,"term":b,"trunc":b,"info":INFO,"rst":null|{"obs","info"}}]}
        → {"obs":[tag|null],"rews":[q|null],"dones":[bool],"infos":[INFO],"reset_infos":[INFO],"calls":[[CALL]]}
  {"op":"layout","keys":[str],"n":n,"stale":null|[[[key,tag]]],"obs":[[[key,tag]]]}   (needs no "new")
        → {"dummy":[[[key,tag|null]]] (row per sub-env of buf_obs after the save loop), "subproc":[…] (rows of _stack_obs)}
  an operation outside the model's domain (`Op.valid`)              → {"error":…}
Every answer also carries "spec": the same operation run on `n` independent copies of the single-environment
specification `EnvSpec` (projected with `Op.proj`), in the same format per sub-environment.
-/
import SB3Verif.Driver.Proto
import SB3Verif.Model.VecEnv

open Lean SB3Verif.Proto SB3Verif.VecEnv

abbrev V := Vec Nat Rat

def asOpts (j : Json) : Except String Opts := do
  let l ← asList j
  l.mapM fun kv => do
    match kv with
    | .arr #[k, v] => return (← asStr k, ← asInt v)
    | _ => throw s!"not a key/value pair: {kv.compress}"

def asVal (j : Json) : Except String (Val Nat) :=
  match j with
  | .null => pure .none
  | _ =>
    match j.getObjVal? "l" with
    | .ok l => do return .list (← asListOf asInt l)
    | .error _ =>
    match j.getObjVal? "b", j.getObjVal? "i", j.getObjVal? "s", j.getObjVal? "o", j.getObjVal? "d" with
    | .ok b, _, _, _, _ => do return .bool (← asBool b)
    | _, .ok i, _, _, _ => do return .int (← asInt i)
    | _, _, .ok s, _, _ => do return .str (← asStr s)
    | _, _, _, .ok o, _ => do return .obs (← asNat o)
    | _, _, _, _, .ok d => do return .dict (← asOpts d)
    | _, _, _, _, _ => throw s!"not a value: {j.compress}"

def asInfo (j : Json) : Except String (Info Nat) := do
  let l ← asList j
  l.mapM fun kv => do
    match kv with
    | .arr #[k, v] => return (← asStr k, ← asVal v)
    | _ => throw s!"not a key/value pair: {kv.compress}"

def asResetRes (j : Json) : Except String (ResetRes Nat) := do
  return { obs := ← getNat j "obs", info := ← (fld j "info" >>= asInfo) }

def asStepResp (j : Json) : Except String (StepResp Nat Rat) := do
  let rstJ ← fld j "rst"
  let rst ← match rstJ with
    | .null => pure none
    | r => do pure (some (← asResetRes r))
  return { raw := { obs := ← getNat j "obs", rew := ← getRat j "rew", terminated := ← getBool j "term",
                    truncated := ← getBool j "trunc", info := ← (fld j "info" >>= asInfo) },
           rst := rst }

def asOptArg (j : Json) : Except String OptArg :=
  match j with
  | .null => pure .none
  | _ =>
    match j.getObjVal? "dict", j.getObjVal? "list" with
    | .ok d, _ => do return .dict (← asOpts d)
    | _, .ok l => do return .list (← asListOf asOpts l)
    | _, _ => throw s!"not an options argument: {j.compress}"

def optsJ (o : Opts) : Json := listJ (fun kv => Json.arr #[strJ kv.1, intJ kv.2]) o

def valJ : Val Nat → Json
  | .none => Json.null
  | .bool b => objJ [("b", boolJ b)]
  | .int i => objJ [("i", intJ i)]
  | .str s => objJ [("s", strJ s)]
  | .obs o => objJ [("o", natJ o)]
  | .dict d => objJ [("d", optsJ d)]
  | .list l => objJ [("l", listJ intJ l)]

def infoJ (d : Info Nat) : Json := listJ (fun kv => Json.arr #[strJ kv.1, valJ kv.2]) d

def optJ {α} (f : α → Json) : Option α → Json
  | none => Json.null
  | some a => f a

def callJ : Call → Json
  | .step a => Json.arr #[strJ "step", intJ a]
  | .reset s o => Json.arr #[strJ "reset", optJ intJ s, optJ optsJ o]

def envOutJ (o : EnvOut Nat Rat) : Json :=
  objJ [("obs", optJ natJ o.obs), ("rew", optJ ratJ o.rew), ("done", optJ boolJ o.done), ("info", optJ infoJ o.info),
        ("reset_info", infoJ o.resetInfo), ("calls", listJ callJ o.calls), ("seed", optJ intJ o.seed)]

def outJ (op : String) (o : Out Nat Rat) (spec : Json) : Json :=
  let common := [("reset_infos", listJ infoJ o.resetInfos), ("spec", spec)]
  match op with
  | "seed" => objJ (("seeds", listJ (optJ intJ) o.seeds) :: common)
  | "set_options" => objJ common
  | "reset" => objJ ([("obs", listJ (optJ natJ) o.obs), ("calls", listJ (listJ callJ) o.calls)] ++ common)
  | _ => objJ ([("obs", listJ (optJ natJ) o.obs), ("rews", listJ (optJ ratJ) o.rews), ("dones", listJ boolJ o.dones),
                ("infos", listJ infoJ o.infos), ("calls", listJ (listJ callJ) o.calls)] ++ common)

structure St where
  vec : V
  specs : List (EnvSpec Nat)

def asKeyed (j : Json) : Except String (String → Nat) := do
  let l ← asList j
  let kvs ← l.mapM fun kv => do
    match kv with
    | .arr #[k, v] => return (← asStr k, ← asNat v)
    | _ => throw s!"not a key/tag pair: {kv.compress}"
  return fun k => (kvs.lookup k).getD 0

def rowJ (r : List (String × Option Nat)) : Json := listJ (fun kv => Json.arr #[strJ kv.1, optJ natJ kv.2]) r

def layoutOp (j : Json) : Except String Json := do
  let keys ← getList asStr j "keys"
  let n ← getNat j "n"
  let obs ← getList asKeyed j "obs"
  if obs.length != n then throw "layout: one observation per sub-environment expected"
  let b0 : ObsBuf String Nat := ObsBuf.init keys n
  let b1 ← match (← fld j "stale") with
    | .null => pure b0
    | sj => do
      let st ← asListOf asKeyed sj
      if st.length != n then throw "layout: one stale observation per sub-environment expected"
      pure (b0.saveAll 0 st)
  let b2 := b1.saveAll 0 obs
  let stacked := stackObs keys obs
  return objJ [("dummy", listJ rowJ ((List.range n).map b2.row)),
               ("subproc", listJ rowJ ((List.range n).map (stackRow stacked)))]

def stepC01 (st : Option St) (j : Json) : Except String (Option St × Json) := do
  let op ← getStr j "op"
  if op == "layout" then
    return (st, ← layoutOp j)
  if op == "new" then
    let n ← getNat j "n"
    let k ← getStr j "kind"
    let kind ← match k with
      | "dummy" => pure Kind.dummy
      | "subproc" => pure Kind.subproc
      | _ => throw s!"bad kind {k}"
    return (some { vec := Vec.init kind n, specs := (List.range n).map EnvSpec.init }, objJ [("ok", boolJ true)])
  let some s := st | throw "no vec env (send new first)"
  let mop : Op Nat Rat ← match op with
    | "seed" => do pure (Op.seed (← getInt j "s"))
    | "set_options" => do pure (Op.setOptions (← (fld j "arg" >>= asOptArg)))
    | "reset" => do pure (Op.reset (← getList asResetRes j "zs"))
    | "step" => do pure (Op.step (← getList asInt j "acts") (← getList asStepResp j "xs"))
    | _ => throw s!"bad-op {op}"
  match s.vec.apply mop with
  | .error e => throw e
  | .ok (v', out) =>
    let res := s.specs.map fun e => e.apply (mop.proj e.idx)
    let specJ := listJ (fun (r : EnvSpec Nat × EnvOut Nat Rat) => envOutJ r.2) res
    return (some { vec := v', specs := res.map (·.1) }, outJ op out specJ)

def main : IO Unit := SB3Verif.Proto.run stepC01 none
