/-
Model of `RolloutBuffer` / `DictRolloutBuffer` (stable_baselines3/common/buffers.py):

* `compute_returns_and_advantage` — the backward GAE loop, per environment column
  (NumPy evaluates the loop body element-wise over the `n_envs` axis, so the vectorised loop is the
  per-column loop mapped over columns: `gae`).
* `swap_and_flatten`            — `(T, n, …) → (n*T, …)`, flat index `e*T + t`.
* `get(batch_size)`             — one permutation of `0 … T*n-1` cut into consecutive slices.
* `_get_samples`                — every field gathered with the same flat indices.

Import-free; generic over the scalar type so that the theorems (any commutative ring) and the
driver (`Rat`) run the same definitions.
-/

namespace SB3Verif.Rollout

/-- One stored step of one environment: reward, value estimate, episode-start flag (0/1 as a scalar,
exactly like the float32 array `episode_starts`). -/
structure Step (α : Type) where
  r : α
  v : α
  start : α

variable {α : Type} [Add α] [Sub α] [Mul α] [Zero α] [One α]

/-- `next_values, next_non_terminal` for a step, given the steps that follow it:
the final step uses `last_values` and `1 - dones`, every other one uses the following step's
value and `1 - episode_starts[step+1]`. -/
def nextOf (lastV lastNnt : α) : List (Step α) → α × α
  | [] => (lastV, lastNnt)
  | s' :: _ => (s'.v, 1 - s'.start)

/-- `delta = rewards[step] + gamma * next_values * next_non_terminal - values[step]` -/
def delta (γ : α) (s : Step α) (nv nnt : α) : α := s.r + γ * nv * nnt - s.v

/-- The backward loop of `compute_returns_and_advantage` for one environment column.
`gaeCol γ lam lastV lastNnt steps` is the list `advantages[0..T-1]`; the head of the recursive
result is the loop variable `last_gae_lam` (initially `0`). -/
def gaeCol (γ lam lastV lastNnt : α) : List (Step α) → List α
  | [] => []
  | s :: rest =>
    let advRest := gaeCol γ lam lastV lastNnt rest
    let (nv, nnt) := nextOf lastV lastNnt rest
    let lastGae := advRest.headD 0
    (delta γ s nv nnt + γ * lam * nnt * lastGae) :: advRest

/-! Specification vocabulary for the closed form (used by the theorems in `Props/C05.lean`). -/

/-- `next_values` seen by step `k` of the column. -/
def nvAt (lastV lastNnt : α) (ss : List (Step α)) (k : Nat) : α :=
  (nextOf lastV lastNnt (ss.drop (k + 1))).1

/-- `next_non_terminal` seen by step `k`: `1 - episode_starts[k+1]`, or `1 - dones` for the last step. -/
def nntAt (lastV lastNnt : α) (ss : List (Step α)) (k : Nat) : α :=
  (nextOf lastV lastNnt (ss.drop (k + 1))).2

/-- TD residual of step `k` (`0` outside the rollout). -/
def deltaAt (γ lastV lastNnt : α) (ss : List (Step α)) (k : Nat) : α :=
  match ss[k]? with
  | some s => delta γ s (nvAt lastV lastNnt ss k) (nntAt lastV lastNnt ss k)
  | none => 0

/-- `returns = advantages + values` -/
def returnsCol (adv : List α) (steps : List (Step α)) : List α :=
  List.zipWith (fun a s => a + s.v) adv steps

/-- Column `e` of a `T × n` table given as a list of rows. -/
def column {β : Type} [Inhabited β] (rows : List (List β)) (e : Nat) : List β :=
  rows.map (fun row => row.getD e default)

/-- Transpose of a rectangular table with `n` columns. -/
def transposeN {β : Type} [Inhabited β] (n : Nat) (rows : List (List β)) : List (List β) :=
  (List.range n).map (column rows)

/-- `swap_and_flatten`: `arr.swapaxes(0, 1).reshape(T * n, …)` — columns one after the other. -/
def swapFlatten {β : Type} [Inhabited β] (n : Nat) (rows : List (List β)) : List β :=
  (transposeN n rows).flatten

/-- The whole vectorised computation: inputs are `T × n` tables of rewards, values and
episode starts, plus `last_values` and `1 - dones` per environment. Output: the `n` advantage
columns (each of length `T`). -/
def gae [Inhabited α] (γ lam : α) (n : Nat) (rew val start : List (List α)) (lastV lastDone : List α) :
    List (List α) :=
  (List.range n).map fun e =>
    let steps := (List.zip (column rew e) (List.zip (column val e) (column start e))).map
      (fun x => Step.mk x.1 x.2.1 x.2.2)
    gaeCol γ lam (lastV.getD e default) (1 - lastDone.getD e default) steps

/-! ### Minibatches -/

/-- Consecutive slices of length `b` (the last one may be shorter). Mirrors
`while start_idx < N: yield indices[start_idx : start_idx + b]; start_idx += b`.
`fuel` bounds the number of iterations; `chunks` supplies `l.length`, which always suffices. -/
def chunksAux {β : Type} (b : Nat) : Nat → List β → List (List β)
  | 0, _ => []
  | fuel + 1, l =>
    if l.isEmpty then []
    else l.take b :: chunksAux b fuel (l.drop b)

def chunks {β : Type} (b : Nat) (l : List β) : List (List β) := chunksAux b l.length l

/-- `(step, env)` a flat index refers to after `swap_and_flatten`: `i = e*T + t`. -/
def unflat (T i : Nat) : Nat × Nat := (i % T, i / T)

/-- `get(batch_size)` at the level of provenance: for a permutation `perm` of `0 … T*n-1`, the
minibatches as lists of `(step, env)` pairs. `batch = none` means one batch of everything. -/
def getBatches (T n : Nat) (perm : List Nat) (batch : Option Nat) : List (List (Nat × Nat)) :=
  let b := batch.getD (T * n)
  (chunks b perm).map (fun c => c.map (unflat T))

/-- `_get_samples`: gather one flattened field at the given flat indices. -/
def gather {β : Type} [Inhabited β] (flat : List β) (idx : List Nat) : List β :=
  idx.map (fun i => flat.getD i default)

/-! ### The buffer as a small state machine (`add`, `full`, `reset`) -/

structure Buf (β : Type) where
  T : Nat
  n : Nat
  rows : List (List β)   -- rows added so far (each of length `n`)
  full : Bool

def Buf.init {β : Type} (T n : Nat) : Buf β := { T := T, n := n, rows := [], full := false }

/-- `add` writes at `pos = rows.length`; `full` becomes true when `pos` reaches `buffer_size`.
Adding to a full buffer is an error in the code (index out of bounds): modelled as `none`. -/
def Buf.add {β : Type} (b : Buf β) (row : List β) : Option (Buf β) :=
  if b.rows.length < b.T then
    let rows := b.rows ++ [row]
    some { b with rows := rows, full := rows.length == b.T }
  else none

def Buf.reset {β : Type} (b : Buf β) : Buf β := { b with rows := [], full := false }

end SB3Verif.Rollout
