/-
Model of *when* the target networks are updated (stable_baselines3/{dqn/dqn.py, sac/sac.py, td3/td3.py},
`OffPolicyAlgorithm.collect_rollouts` / `learn`).

A training history is a list of operations

* `envStep`      one vectorised environment step: `collect_rollouts` calls `self._on_step()` once
                 (`n_envs` transitions). DQN: `_n_calls += 1; if _n_calls % max(I // n_envs, 1) == 0: polyak`.
                 SAC/TD3/DDPG: `_on_step` does nothing.
* `train iters`  one call `self.train(gradient_steps=G)` with `G = iters.length`; iteration `g = 0 … G-1` of
                 `for gradient_step in range(G)` first performs the external writes `pre`
                 (optimizer steps on the online networks, running statistics moved by training-mode forward
                 passes; their results are inputs of the model), then takes the cadence decision
                   DQN       never in `train`
                   SAC       `(self._n_updates + gradient_step) % target_update_interval == 0`
                             (`_n_updates += G` only after the loop)
                   TD3/DDPG  `self._n_updates += 1` at the top of the iteration, then
                             `self._n_updates % policy_delay == 0`
                 and, if it fires, performs the writes `delayed` (TD3: the actor optimizer step, which lives
                 inside the same `if`) followed by the `polyak_update` calls of `groups`, in order, the
                 parameter groups with `tau`, the running-statistics groups with `1.0`.

The counters (`Ctr`) evolve independently of the tensors, so the cadence theorems are stated on
`ctrRun`; `run` (counters + tensors) uses the same decision functions `onStepCtr` / `iterCtr`.
-/
import SB3Verif.Model.Polyak

namespace SB3Verif.Cadence

open SB3Verif.Polyak

inductive Algo where
  | dqn | sac | td3
  deriving DecidableEq, Repr

/-- one `polyak_update(online, target, coef)` call; `soft = true`: `coef = tau`, else `coef = 1.0`
(running statistics are copied) -/
structure Group where
  online : List String
  target : List String
  soft : Bool

structure Cfg (α : Type) where
  algo : Algo
  nEnvs : Nat
  interval : Nat      -- target_update_interval (DQN, SAC)
  delay : Nat         -- policy_delay (TD3; DDPG is TD3 with 1)
  tau : α
  groups : List Group

/-- `_n_calls` (DQN) and `_n_updates`; both survive `learn()` calls. -/
structure Ctr where
  nCalls : Nat
  nUpdates : Nat
  deriving DecidableEq, Repr

/-- `max(self.target_update_interval // self.n_envs, 1)` -/
def dqnEvery {α : Type} (cfg : Cfg α) : Nat := max (cfg.interval / cfg.nEnvs) 1

/-- `_on_step()` on the counters: new counters, and whether the target is updated now -/
def onStepCtr {α : Type} (cfg : Cfg α) (c : Ctr) : Ctr × Bool :=
  match cfg.algo with
  | .dqn =>
    let c' := { c with nCalls := c.nCalls + 1 }
    (c', c'.nCalls % dqnEvery cfg == 0)
  | _ => (c, false)

/-- iteration `g` of the loop in `train()` on the counters -/
def iterCtr {α : Type} (cfg : Cfg α) (c : Ctr) (g : Nat) : Ctr × Bool :=
  match cfg.algo with
  | .dqn => (c, false)
  | .sac => (c, (c.nUpdates + g) % cfg.interval == 0)
  | .td3 =>
    let c' := { c with nUpdates := c.nUpdates + 1 }
    (c', c'.nUpdates % cfg.delay == 0)

/-- after the loop: DQN and SAC add `gradient_steps` to `_n_updates` (TD3 already counted) -/
def endTrainCtr {α : Type} (cfg : Cfg α) (c : Ctr) (G : Nat) : Ctr :=
  match cfg.algo with
  | .td3 => c
  | _ => { c with nUpdates := c.nUpdates + G }

/-- the loop `for g in range(g, g + k)` on the counters; one flag per iteration -/
def loopCtr {α : Type} (cfg : Cfg α) (c : Ctr) (g : Nat) : Nat → Ctr × List Bool
  | 0 => (c, [])
  | k + 1 =>
    let (c1, f) := iterCtr cfg c g
    let (c2, fs) := loopCtr cfg c1 (g + 1) k
    (c2, f :: fs)

inductive Ev where
  | env (fired : Bool)     -- one `_on_step`
  | grad (fired : Bool)    -- one gradient step (iteration of the loop in `train`)
  deriving DecidableEq, Repr

/-- shape of an operation: all the counters can see -/
inductive CtrOp where
  | envStep
  | train (G : Nat)
  deriving DecidableEq, Repr

def ctrStep {α : Type} (cfg : Cfg α) (c : Ctr) : CtrOp → Ctr × List Ev
  | .envStep =>
    let (c', f) := onStepCtr cfg c
    (c', [Ev.env f])
  | .train G =>
    let (c', fs) := loopCtr cfg c 0 G
    (endTrainCtr cfg c' G, fs.map Ev.grad)

def ctrRun {α : Type} (cfg : Cfg α) (c : Ctr) : List CtrOp → Ctr × List Ev
  | [] => (c, [])
  | op :: ops =>
    let (c1, e1) := ctrStep cfg c op
    let (c2, e2) := ctrRun cfg c1 ops
    (c2, e1 ++ e2)

/-- flags of the gradient steps, in order, over the whole history -/
def gradFlags : List Ev → List Bool
  | [] => []
  | .grad f :: r => f :: gradFlags r
  | .env _ :: r => gradFlags r

/-- flags of the environment steps, in order, over the whole history -/
def envFlags : List Ev → List Bool
  | [] => []
  | .env f :: r => f :: envFlags r
  | .grad _ :: r => envFlags r

def totalGrad : List CtrOp → Nat
  | [] => 0
  | .train G :: r => G + totalGrad r
  | .envStep :: r => totalGrad r

def totalEnv : List CtrOp → Nat
  | [] => 0
  | .envStep :: r => 1 + totalEnv r
  | .train _ :: r => totalEnv r

/-! ### Counters + tensors -/

section store
variable {α : Type} [Add α] [Sub α] [Mul α] [One α]

/-- the `polyak_update` calls made when the cadence fires, in program order -/
def applyGroups (cfg : Cfg α) : List Group → Store α → Option (Store α)
  | [], s => some s
  | g :: gs, s =>
    match polyakGroup (if g.soft then cfg.tau else 1) g.online g.target s with
    | some s' => applyGroups cfg gs s'
    | none => none

structure St (α : Type) where
  store : Store α
  ctr : Ctr

/-- one iteration of the loop in `train()` -/
structure Iter (α : Type) where
  pre : List (Write α)
  delayed : List (Write α)

inductive Op (α : Type) where
  | envStep
  | train (iters : List (Iter α))

def Op.shape {α : Type} : Op α → CtrOp
  | .envStep => .envStep
  | .train iters => .train iters.length

/-- `_on_step()` -/
def onStep (cfg : Cfg α) (st : St α) : Option (St α × Bool) :=
  let (c', f) := onStepCtr cfg st.ctr
  if f then
    match applyGroups cfg cfg.groups st.store with
    | some s' => some ({ store := s', ctr := c' }, true)
    | none => none
  else some ({ st with ctr := c' }, false)

/-- iteration `g` of the loop in `train()` -/
def iterStep (cfg : Cfg α) (st : St α) (g : Nat) (it : Iter α) : Option (St α × Bool) :=
  let s1 := applyWrites it.pre st.store
  let (c', f) := iterCtr cfg st.ctr g
  if f then
    match applyGroups cfg cfg.groups (applyWrites it.delayed s1) with
    | some s' => some ({ store := s', ctr := c' }, true)
    | none => none
  else some ({ store := s1, ctr := c' }, false)

def loopStep (cfg : Cfg α) (st : St α) (g : Nat) : List (Iter α) → Option (St α × List Bool)
  | [] => some (st, [])
  | it :: its =>
    match iterStep cfg st g it with
    | some (st1, f) =>
      match loopStep cfg st1 (g + 1) its with
      | some (st2, fs) => some (st2, f :: fs)
      | none => none
    | none => none

def step (cfg : Cfg α) (st : St α) : Op α → Option (St α × List Ev)
  | .envStep =>
    match onStep cfg st with
    | some (st', f) => some (st', [Ev.env f])
    | none => none
  | .train iters =>
    match loopStep cfg st 0 iters with
    | some (st', fs) => some ({ st' with ctr := endTrainCtr cfg st'.ctr iters.length }, fs.map Ev.grad)
    | none => none

def run (cfg : Cfg α) (st : St α) : List (Op α) → Option (St α × List Ev)
  | [] => some (st, [])
  | op :: ops =>
    match step cfg st op with
    | some (st1, e1) =>
      match run cfg st1 ops with
      | some (st2, e2) => some (st2, e1 ++ e2)
      | none => none
    | none => none

end store

/-! ### Specification vocabulary (used by the theorems in `Props/C08.lean`) -/

def Ev.fired : Ev → Bool
  | .env f => f
  | .grad f => f

/-- every tensor name that some `polyak_update` call of the configuration writes -/
def allTargets (gs : List Group) : List String := gs.flatMap (·.target)

/-- every tensor name that some `polyak_update` call of the configuration reads -/
def allOnline (gs : List Group) : List String := gs.flatMap (·.online)

/-- `n` is owned by none of the external writes (optimizer steps, forward passes) of the iteration -/
def Iter.untouched {α : Type} (it : Iter α) (n : String) : Prop :=
  (∀ w ∈ it.pre, n ∉ w.owned) ∧ (∀ w ∈ it.delayed, n ∉ w.owned)

/-- `n` is owned by no external write of the operation -/
def Op.untouched {α : Type} : Op α → String → Prop
  | .envStep, _ => True
  | .train iters, n => ∀ it ∈ iters, it.untouched n

end SB3Verif.Cadence
