/-
Model of the observation-transforming VecEnv wrappers of stable-baselines3
(`stable_baselines3/common/vec_env/`):

* `StackedObservations` / `VecFrameStack`   (stacked_observations.py, vec_frame_stack.py)
* `VecTransposeImage`                       (vec_transpose.py)
* `VecExtractDictObs`                       (vec_extract_dict_obs.py)
* `VecMonitor`                              (vec_monitor.py; episode statistics are C18's subject, here only
                                             the pass-through and the `episode` entry)
* `VecCheckNan`                             (vec_check_nan.py; identity on values)

Data representation
  * an n-d array is its shape and its elements in C (row-major) order: `Arr`;
  * an observation is a list of `(key, array)`; a `Box` observation has the single key `""`
    (exactly like `DummyVecEnv.buf_obs`, which uses the key `None` for non-Dict spaces);
  * every wrapper acts on each environment separately (`np.roll` along the stacking axis of the batched
    array is the per-environment roll; `np.transpose(…, (0, 3, 1, 2))` is the per-environment
    `(2, 0, 1)`), so the model is written for ONE environment (`Rec` = one environment's
    `(obs, reward, done, info)`); the vectorised wrapper is the map over environments (`vecStep`).

`StackedObservations` works on the array cut into *rows along the stacking axis*:
  channels-first: stacking axis 0 — in C order the whole array is one row, a frame is a prefix block;
  channels-last : stacking axis -1 — the rows are the runs of `shape[-1]` consecutive elements.
`np.roll(·, -c, axis)`, `[..., :-c]`, `[..., -c:] = obs`, `np.concatenate(…, axis)` act on every row
independently: `updateRow`, lifted to arrays by `updateArr`.

Import-free (core only).
-/

namespace SB3Verif.Wrappers

/-! ### Arrays -/

/-- number of elements of an array of the given shape -/
def prod : List Nat → Nat
  | [] => 1
  | d :: ds => d * prod ds

/-- n-d array: shape and elements in C order -/
structure Arr where
  shape : List Nat
  data : List Int
deriving DecidableEq, Repr, Inhabited

def Arr.zeros (shape : List Nat) : Arr := ⟨shape, List.replicate (prod shape) 0⟩

/-- `shape` and element count agree -/
def Arr.wf (a : Arr) : Bool := a.data.length == prod a.shape

/-- row `r` when flat data is cut into rows of length `k` -/
def row (k r : Nat) (d : List Int) : List Int := (d.drop (r * k)).take k

/-- all rows of length `k` -/
def rows (k : Nat) (d : List Int) : List (List Int) :=
  (List.range (d.length / k)).map fun r => row k r d

abbrev Obs := List (String × Arr)

/-- value stored under `k` (the empty array when absent: callers are type-checked by `build`) -/
def getKey (k : String) (o : Obs) : Arr := (o.lookup k).getD default

/-! ### `StackedObservations`: one row along the stacking axis -/

/-- `np.roll(l, -c)` : element `i` of the result is element `(i + c) mod len` of `l` -/
def roll (c : Nat) (l : List Int) : List Int := l.drop (c % l.length) ++ l.take (c % l.length)

/-- Python `l[:-c]` (`shift = -c`; for `c = 0` this is `l[:0]`, the empty slice) -/
def sliceTo (c : Nat) (l : List Int) : List Int := if c = 0 then [] else l.take (l.length - c)

/-- Python `l[-c:]` -/
def sliceFrom (c : Nat) (l : List Int) : List Int := if c = 0 then l else l.drop (l.length - c)

/-- `l[-c:] = o` (shapes agree) -/
def assignTail (c : Nat) (l o : List Int) : List Int := sliceTo c l ++ o

/-- `reset`: `stacked_obs[...] = 0; stacked_obs[..., -c:] = observation` with `c = observation.shape[stack_dim]` -/
def resetRow (buf obs : List Int) : List Int :=
  assignTail obs.length (List.replicate buf.length 0) obs

/-- `update` for one row of one environment:
roll by one frame; if `done`, the stacked terminal observation is `rolled[:-c] ++ terminal`
(only when a terminal observation is present) and the window is zeroed; then the new frame is written last.
Result: the new window (a copy of which is returned) and the new `terminal_observation`. -/
def updateRow (buf obs : List Int) (done : Bool) (term : Option (List Int)) : List Int × Option (List Int) :=
  let c := obs.length
  let rolled := roll c buf
  let term' := if done then term.map (fun t => sliceTo c rolled ++ t) else term
  let kept := if done then List.replicate rolled.length 0 else rolled
  (assignTail c kept obs, term')

/-! ### `StackedObservations` on arrays -/

def lastDim (s : List Nat) : Nat := s.getLastD 1

/-- length of a row along the stacking axis: the whole array (axis 0, C order) or the last axis -/
def rowLen (first : Bool) (a : Arr) : Nat := if first then a.data.length else lastDim a.shape

def rowsOf (first : Bool) (a : Arr) : List (List Int) := rows (rowLen first a) a.data

/-- `stacked_shape[repeat_axis] *= n_stack` -/
def stackedShape (n : Nat) (first : Bool) (shape : List Nat) : List Nat :=
  if first then
    match shape with
    | [] => []
    | d :: ds => (d * n) :: ds
  else
    match shape.reverse with
    | [] => []
    | d :: ds => (ds.reverse) ++ [d * n]

def resetArr (first : Bool) (buf obs : Arr) : Arr :=
  let kb := rowLen first buf
  let ko := rowLen first obs
  ⟨buf.shape, (List.range (buf.data.length / kb)).flatMap fun r =>
      resetRow (row kb r buf.data) (row ko r obs.data)⟩

def updateArr (first : Bool) (buf obs : Arr) (done : Bool) (term : Option Arr) : Arr × Option Arr :=
  let kb := rowLen first buf
  let ko := rowLen first obs
  let m := buf.data.length / kb
  let res := fun r => updateRow (row kb r buf.data) (row ko r obs.data) done
      (term.map fun t => row (rowLen first t) r t.data)
  (⟨buf.shape, (List.range m).flatMap fun r => (res r).1⟩,
   if done then term.map (fun _ => ⟨buf.shape, (List.range m).flatMap fun r => ((res r).2).getD []⟩) else term)

/-! ### Specification vocabulary for frame stacking -/

/-- the last `n` frames of the episode `ep` (oldest first), left-padded with `z` when the episode is shorter -/
def paddedFrames {α : Type} (n : Nat) (z : α) (ep : List α) : List α :=
  List.replicate (n - ep.length) z ++ ep.drop (ep.length - n)

/-- row-level stack: the padded frames one after the other -/
def paddedRow (n c : Nat) (ep : List (List Int)) : List Int :=
  (paddedFrames n (List.replicate c 0) ep).flatten

/-- `np.concatenate(frames, axis = 0 | -1)` of frames of shape `shape` (C order) -/
def concatFrames (first : Bool) (shape : List Nat) (frames : List Arr) : Arr :=
  let z := Arr.zeros shape
  let k := rowLen first z
  ⟨stackedShape frames.length first shape,
   (List.range (z.data.length / k)).flatMap fun r => frames.flatMap fun f => row k r f.data⟩

/-- what a frame stack of depth `n` must show for the current episode `ep` -/
def stackOf (first : Bool) (n : Nat) (shape : List Nat) (ep : List Arr) : Arr :=
  concatFrames first shape (paddedFrames n (Arr.zeros shape) ep)

/-- a frame of the base space: right shape, right number of elements -/
def FrameOK (shape : List Nat) (a : Arr) : Prop := a.shape = shape ∧ a.data.length = prod shape

/-- one environment's history as seen by one `StackedObservations` sub-stack -/
inductive FEv where
  | reset (o : Arr)
  | step (o : Arr) (done : Bool) (term : Option Arr)
deriving Repr

/-- window after a history -/
def fsRun (first : Bool) (buf : Arr) : List FEv → Arr
  | [] => buf
  | .reset o :: rest => fsRun first (resetArr first buf o) rest
  | .step o d t :: rest => fsRun first (updateArr first buf o d t).1 rest

/-- frames of the current episode after a history (oldest first), starting from the frames `ep` -/
def curEpisode (ep : List Arr) : List FEv → List Arr
  | [] => ep
  | .reset o :: rest => curEpisode [o] rest
  | .step o false _ :: rest => curEpisode (ep ++ [o]) rest
  | .step o true _ :: rest => curEpisode [o] rest

def FEv.frames : FEv → List Arr
  | .reset o => [o]
  | .step o _ none => [o]
  | .step o _ (some t) => [o, t]

/-- every observation and terminal observation of the event is a frame of the base space -/
def EvOK (shape : List Nat) (e : FEv) : Prop := ∀ f ∈ e.frames, FrameOK shape f

/-- row-level history (used by the row-level theorem) -/
inductive REv where
  | reset (o : List Int)
  | step (o : List Int) (done : Bool) (term : Option (List Int))

def rowRun (buf : List Int) : List REv → List Int
  | [] => buf
  | .reset o :: rest => rowRun (resetRow buf o) rest
  | .step o d t :: rest => rowRun (updateRow buf o d t).1 rest

def rowEpisode (ep : List (List Int)) : List REv → List (List Int)
  | [] => ep
  | .reset o :: rest => rowEpisode [o] rest
  | .step o false _ :: rest => rowEpisode (ep ++ [o]) rest
  | .step o true _ :: rest => rowEpisode [o] rest

def REv.frames : REv → List (List Int)
  | .reset o => [o]
  | .step o _ none => [o]
  | .step o _ (some t) => [o, t]

/-! ### `VecTransposeImage` -/

/-- `np.transpose(image, (2, 0, 1))` in C order: `out[c, h, w] = in[h, w, c]`.
Arrays that are not rank 3 are left alone (the real call raises; `build` only installs the wrapper on
rank-3 image keys). -/
def transposeHWC (a : Arr) : Arr :=
  match a.shape with
  | [h, w, c] =>
    ⟨[c, h, w], (List.range c).flatMap fun ch => (List.range (h * w)).map fun p => a.data.getD (p * c + ch) 0⟩
  | _ => a

def transposeObs (keys : List String) (o : Obs) : Obs :=
  o.map fun kv => if keys.contains kv.1 then (kv.1, transposeHWC kv.2) else kv

/-! ### Records -/

structure Episode where
  r : Int
  l : Nat
deriving DecidableEq, Repr

/-- `info` of one environment: the entries the wrappers read or write, and an opaque payload standing
for everything else the environment put there -/
structure Info where
  terminal : Option Obs
  truncated : Bool
  episode : Option Episode
  payload : Int
deriving DecidableEq, Repr

/-- one environment's slice of a `step_wait()` result -/
structure Rec where
  obs : Obs
  rew : Int
  done : Bool
  info : Info
deriving DecidableEq, Repr

/-! ### Wrapper state and transition (one environment) -/

inductive WS where
  /-- per key: stack on the first axis?; the windows (`stacked_obs[env]` of every sub-stack) -/
  | frameStack (firsts : List (String × Bool)) (bufs : Obs)
  /-- keys whose arrays are transposed (`[""]` for an image Box, the image keys of a Dict, `[]` when `skip`) -/
  | transpose (keys : List String)
  | extract (key : String)
  /-- `episode_returns[env]`, `episode_lengths[env]` -/
  | monitor (ret : Int) (len : Nat)
  | checkNan
deriving DecidableEq, Repr

def firstOf (firsts : List (String × Bool)) (k : String) : Bool := (firsts.lookup k).getD false

/-- `StackedObservations.update` on a (possibly Dict) observation of one environment: every key is
handled by its own sub-stack; the terminal observation's entries are replaced key by key. -/
def fsUpdate (firsts : List (String × Bool)) (bufs : Obs) (obs : Obs) (done : Bool) (term : Option Obs) :
    Obs × Option Obs :=
  let res := fun (kv : String × Arr) =>
    updateArr (firstOf firsts kv.1) (getKey kv.1 bufs) kv.2 done (term.map (getKey kv.1))
  (obs.map fun kv => (kv.1, (res kv).1),
   if done then term.map (fun _ => obs.map fun kv => (kv.1, ((res kv).2).getD default)) else term)

def fsReset (firsts : List (String × Bool)) (bufs : Obs) (obs : Obs) : Obs :=
  obs.map fun kv => (kv.1, resetArr (firstOf firsts kv.1) (getKey kv.1 bufs) kv.2)

def extractObs (key : String) (o : Obs) : Obs := [("", getKey key o)]

/-- `step_wait` of one wrapper for one environment -/
def WS.step : WS → Rec → WS × Rec
  | .frameStack firsts bufs, r =>
    let (o, t) := fsUpdate firsts bufs r.obs r.done r.info.terminal
    (.frameStack firsts o, { r with obs := o, info := { r.info with terminal := t } })
  | .transpose keys, r =>
    (.transpose keys,
     { r with obs := transposeObs keys r.obs,
              info := { r.info with terminal := if r.done then r.info.terminal.map (transposeObs keys)
                                                 else r.info.terminal } })
  | .extract key, r =>
    (.extract key,
     { r with obs := extractObs key r.obs,
              info := { r.info with terminal := r.info.terminal.map (extractObs key) } })
  | .monitor ret len, r =>
    let ret' := ret + r.rew
    let len' := len + 1
    if r.done then
      (.monitor 0 0, { r with info := { r.info with episode := some ⟨ret', len'⟩ } })
    else (.monitor ret' len', r)
  | .checkNan, r => (.checkNan, r)

/-- `reset` of one wrapper for one environment -/
def WS.reset : WS → Obs → WS × Obs
  | .frameStack firsts bufs, o => let o' := fsReset firsts bufs o; (.frameStack firsts o', o')
  | .transpose keys, o => (.transpose keys, transposeObs keys o)
  | .extract key, o => (.extract key, extractObs key o)
  | .monitor _ _, o => (.monitor 0 0, o)
  | .checkNan, o => (.checkNan, o)

/-- a stack of wrappers, innermost first -/
def stackStep : List WS → Rec → List WS × Rec
  | [], r => ([], r)
  | w :: ws, r =>
    let (w', r') := w.step r
    let (ws', r'') := stackStep ws r'
    (w' :: ws', r'')

def stackReset : List WS → Obs → List WS × Obs
  | [], o => ([], o)
  | w :: ws, o =>
    let (w', o') := w.reset o
    let (ws', o'') := stackReset ws o'
    (w' :: ws', o'')

/-- the transformation a wrapper (in its present state) gives to an *ordinary* observation, i.e. the
observation it returns for a step that does not end the episode -/
def WS.obsFn : WS → Obs → Obs
  | .frameStack firsts bufs, o => (fsUpdate firsts bufs o false none).1
  | .transpose keys, o => transposeObs keys o
  | .extract key, o => extractObs key o
  | .monitor _ _, o => o
  | .checkNan, o => o

/-- the same for a stack of wrappers (innermost first) -/
def stackObsFn : List WS → Obs → Obs
  | [], o => o
  | w :: ws, o => stackObsFn ws (w.obsFn o)

/-- keys, shapes and element counts of an observation -/
def obsSig (o : Obs) : List (String × List Nat × Nat) := o.map fun kv => (kv.1, kv.2.shape, kv.2.data.length)

def KeysNodup (o : Obs) : Prop := (o.map (·.1)).Nodup

/-- the vectorised wrapper stack: one state per environment -/
def vecStep (sts : List (List WS)) (rs : List Rec) : List (List WS × Rec) :=
  List.zipWith stackStep sts rs

def vecReset (sts : List (List WS)) (os : List Obs) : List (List WS × Obs) :=
  List.zipWith stackReset sts os

/-! ### Observation spaces -/

structure Box where
  shape : List Nat
  low : List Int
  high : List Int
  dtype : String
deriving DecidableEq, Repr

/-- a `Box` (single key `""`, `isDict = false`) or a one-level `Dict` of boxes -/
structure Space where
  isDict : Bool
  subs : List (String × Box)
deriving DecidableEq, Repr

/-- `is_image_space` (default arguments): rank 3, uint8, bounds exactly 0 / 255 -/
def Box.isImage (b : Box) : Bool :=
  b.shape.length == 3 && b.dtype == "uint8" && b.low.all (· == 0) && b.high.all (· == 255)

/-- `is_image_space_channels_first`: `np.argmin(shape) == 0` (first minimum) -/
def channelsFirstHeuristic : List Nat → Bool
  | [] => false
  | d :: ds => ds.all (fun x => d ≤ x)

inductive Order where
  | auto | first | last
deriving DecidableEq, Repr

/-- `compute_stacking`: stack on the first axis? -/
def computeFirst (b : Box) : Order → Bool
  | .auto => b.isImage && channelsFirstHeuristic b.shape
  | .first => true
  | .last => false

/-- `np.concatenate([bound] * n, axis = 0 | -1)` in C order: the bound array tiled `n` times along the stacking
axis, i.e. laid out exactly like `n` stacked frames -/
def tileAxis (n : Nat) (first : Bool) (shape : List Nat) (d : List Int) : List Int :=
  (concatFrames first shape (List.replicate n ⟨shape, d⟩)).data

def stackedBox (n : Nat) (first : Bool) (b : Box) : Box :=
  { shape := stackedShape n first b.shape,
    low := tileAxis n first b.shape b.low,
    high := tileAxis n first b.shape b.high,
    dtype := b.dtype }

/-- the formula used before fix e25cae6 (finding K-C17-a): `np.repeat(bound, n, axis)` repeats every slab along
the axis `n` times *consecutively*. Kept only for the lemma that documents why it was wrong. -/
def repeatAxisOld (n : Nat) (first : Bool) (shape : List Nat) (d : List Int) : List Int :=
  if first then
    (rows (prod shape.tail) d).flatMap fun slab => (List.replicate n slab).flatten
  else d.flatMap fun x => List.replicate n x

def stackedBoxOld (n : Nat) (first : Bool) (b : Box) : Box :=
  { shape := stackedShape n first b.shape,
    low := repeatAxisOld n first b.shape b.low,
    high := repeatAxisOld n first b.shape b.high,
    dtype := b.dtype }

/-- `transpose_space` -/
def transposeBox (b : Box) : Box :=
  match b.shape with
  | [h, w, c] => { shape := [c, h, w], low := List.replicate (c * h * w) 0, high := List.replicate (c * h * w) 255,
                   dtype := b.dtype }
  | _ => b

inductive OrderSpec where
  | all (o : Order)
  | perKey (m : List (String × Order))
deriving Repr

inductive WCfg where
  | frameStack (n : Nat) (order : OrderSpec)
  | transpose (skip : Bool)
  | extract (key : String)
  | monitor
  | checkNan
deriving Repr

def OrderSpec.isPerKey : OrderSpec → Bool
  | .perKey _ => true
  | .all _ => false

/-- `channels_order[key]` (a single string / `None` applies to every key) -/
def orderFor? (spec : OrderSpec) (k : String) : Option Order :=
  match spec with
  | .all o => some o
  | .perKey m => m.lookup k

/-- constructor of a wrapper over a VecEnv with observation space `sp`: initial state (one environment)
and declared observation space, or the constructor's error -/
def WCfg.build (cfg : WCfg) (sp : Space) : Except String (WS × Space) :=
  match cfg with
  | .frameStack n spec =>
    if n = 0 then .error "n_stack=0"
    else if !sp.isDict && spec.isPerKey then .error "TypeError"
    else if sp.subs.any (fun kb => kb.2.shape.isEmpty) then .error "IndexError"
    else if sp.subs.any (fun kb => (orderFor? spec kb.1).isNone) then .error "KeyError"
    else
      let firsts := sp.subs.map fun kb => (kb.1, computeFirst kb.2 ((orderFor? spec kb.1).getD .auto))
      .ok (.frameStack firsts
              (sp.subs.map fun kb => (kb.1, Arr.zeros (stackedShape n (firstOf firsts kb.1) kb.2.shape))),
           { sp with subs := sp.subs.map fun kb => (kb.1, stackedBox n (firstOf firsts kb.1) kb.2) })
  | .transpose skip =>
    if !(sp.isDict || sp.subs.all (fun kb => kb.2.isImage)) then .error "AssertionError"
    else if skip then .ok (.transpose [], sp)
    else if sp.subs.any (fun kb => kb.2.isImage && channelsFirstHeuristic kb.2.shape) then .error "AssertionError"
    else
      let keys := (sp.subs.filter fun kb => kb.2.isImage).map (·.1)
      .ok (.transpose keys,
           { sp with subs := sp.subs.map fun kb => if keys.contains kb.1 then (kb.1, transposeBox kb.2) else kb })
  | .extract key =>
    if !sp.isDict then .error "AssertionError"
    else match sp.subs.lookup key with
      | none => .error "KeyError"
      | some b => .ok (.extract key, { isDict := false, subs := [("", b)] })
  | .monitor => .ok (.monitor 0 0, sp)
  | .checkNan => .ok (.checkNan, sp)

/-- a whole stack of wrappers, innermost first -/
def buildStack : List WCfg → Space → Except String (List WS × Space)
  | [], sp => .ok ([], sp)
  | c :: cs, sp =>
    match c.build sp with
    | .error e => .error e
    | .ok (w, sp') =>
      match buildStack cs sp' with
      | .error e => .error e
      | .ok (ws, sp'') => .ok (w :: ws, sp'')

/-- a history of calls on a wrapper stack (one environment) -/
inductive Op where
  | reset (o : Obs)
  | step (r : Rec)

/-- every observation and terminal observation the stack returns along a history -/
def stackOutputs : List WS → List Op → List Obs
  | _, [] => []
  | ws, .reset o :: rest => (stackReset ws o).2 :: stackOutputs (stackReset ws o).1 rest
  | ws, .step r :: rest =>
    (stackStep ws r).2.obs :: ((stackStep ws r).2.info.terminal.toList ++ stackOutputs (stackStep ws r).1 rest)

/-- the observation handed in by a call -/
def Op.obs : Op → Obs
  | .reset o => o
  | .step r => r.obs

/-- what key `k`'s sub-stack of a `VecFrameStack` sees of a call -/
def Op.proj (k : String) : Op → FEv
  | .reset o => .reset (getKey k o)
  | .step r => .step (getKey k r.obs) r.done (r.info.terminal.map (getKey k))

/-- the windows (all keys) of a `VecFrameStack` after a history of calls -/
def fsRunObs (firsts : List (String × Bool)) (bufs : Obs) : List Op → Obs
  | [] => bufs
  | .reset o :: rest => fsRunObs firsts (fsReset firsts bufs o) rest
  | .step r :: rest => fsRunObs firsts (fsUpdate firsts bufs r.obs r.done r.info.terminal).1 rest

/-- keys, shapes and element counts an observation of the space must have -/
def spaceSig (sp : Space) : List (String × List Nat × Nat) :=
  sp.subs.map fun kb => (kb.1, kb.2.shape, prod kb.2.shape)

/-- keys distinct; every sub-space has rank ≥ 1 and no empty dimension -/
def SpaceOK (sp : Space) : Prop :=
  (sp.subs.map (·.1)).Nodup ∧ ∀ kb ∈ sp.subs, kb.2.shape ≠ [] ∧ 0 < prod kb.2.shape

/-- what the wrappers rely on from the VecEnv below them: observations and terminal observations have the base
space's keys and shapes, and a terminal observation is present only when the episode ended -/
def OpOK (sp : Space) : Op → Prop
  | .reset o => obsSig o = spaceSig sp
  | .step r => obsSig r.obs = spaceSig sp ∧ (∀ t, r.info.terminal = some t → obsSig t = spaceSig sp) ∧
      (r.done = false → r.info.terminal = none)

/-! ### Membership in a declared space -/

def shapesOfObs (o : Obs) : List (String × List Nat) := o.map fun kv => (kv.1, kv.2.shape)
def shapesOfSpace (sp : Space) : List (String × List Nat) := sp.subs.map fun kb => (kb.1, kb.2.shape)

/-- shape-level membership: same keys in the same order, same shapes, element counts right -/
def obsHasShape (sp : Space) (o : Obs) : Bool :=
  shapesOfObs o == shapesOfSpace sp && o.all (fun kv => kv.2.wf)

def withinBounds (low high data : List Int) : Bool :=
  data.length == low.length && data.length == high.length &&
    (List.zip data (List.zip low high)).all fun x => x.2.1 ≤ x.1 && x.1 ≤ x.2.2

/-- `Box.contains` without the dtype part -/
def Box.contains (b : Box) (a : Arr) : Bool := a.shape == b.shape && withinBounds b.low b.high a.data

def Space.contains (sp : Space) (o : Obs) : Bool :=
  o.map (·.1) == sp.subs.map (·.1) && (List.zip sp.subs o).all fun x => x.1.2.contains x.2.2

/-- every box of the space has one scalar pair of bounds `lo ≤ 0 ≤ hi` (images; any Box built from scalars
whose interval contains 0) -/
def ScalarBounds (sp : Space) : Prop :=
  ∀ kb ∈ sp.subs, ∃ lo hi : Int, lo ≤ 0 ∧ 0 ≤ hi ∧
    kb.2.low = List.replicate (prod kb.2.shape) lo ∧ kb.2.high = List.replicate (prod kb.2.shape) hi

/-- the observations handed to the stack are members of the base space -/
def OpIn (sp : Space) : Op → Prop
  | .reset o => sp.contains o = true
  | .step r => sp.contains r.obs = true ∧ ∀ t, r.info.terminal = some t → sp.contains t = true

end SB3Verif.Wrappers
