/-
Driver for C08: runs the executable models `SB3Verif.Polyak` / `SB3Verif.Cadence` on the operations the
harness (`/verif/harness/c08.py`) observed on the real `polyak_update` and on real DQN / SAC / TD3 / DDPG runs.

ops
  {"op":"polyak","tau":q,"params":[[q]],"targets":[[q]]}
        → {"targets":[[q]]} | {"error":"polyak-raises"}                 (`polyakUpdate`)
  {"op":"new","algo":"dqn"|"sac"|"td3","n_envs":n,"interval":I,"delay":d,"tau":q,
   "groups":[{"online":[name],"target":[name],"soft":bool}],"store":[[name,[q]]],
   "n_calls":c,"n_updates":u,"watch":[name]}
        → {"ok":true}                                                   (fresh state)
  {"op":"env"}
        → {"fired":bool,"n_calls":c,"watch":[[q]]|null}                  (`step … .envStep`)
  {"op":"train","iters":[{"pre":[W],"delayed":[W]}]}   W = {"owned":[name],"vals":[[name,[q]]]}
        → {"fired":[bool],"n_updates":u,"after":[[[q]]|null]}            (`step … (.train iters)`)
          after[i] = watched tensors after iteration i when it fired
  watched values are printed as [floor(q * 2^64), 2^64]
  {"op":"reload","store":[[name,[q]]]}
        → {"ok":true}        (save/load: tensors replaced by the loaded ones, counters kept)
  {"op":"get"} → {"watch":[[q]],"n_calls":c,"n_updates":u}
-/
import SB3Verif.Driver.Proto
import SB3Verif.Model.Polyak
import SB3Verif.Model.Cadence

open Lean SB3Verif.Proto SB3Verif.Polyak SB3Verif.Cadence

structure DState where
  cfg : Cfg Rat
  st : St Rat
  watch : List String
  ready : Bool

def initD : DState :=
  { cfg := { algo := .dqn, nEnvs := 1, interval := 1, delay := 1, tau := 1, groups := [] },
    st := { store := [], ctr := { nCalls := 0, nUpdates := 0 } }, watch := [], ready := false }

def asEntry (j : Json) : Except String (String × List Rat) := do
  match j.getArr? with
  | .ok #[n, v] => do
    let name ← asStr n
    let vals ← asListOf asRat v
    return (name, vals)
  | _ => throw s!"not a store entry: {j.compress}"

def asStore (j : Json) : Except String (Store Rat) := asListOf asEntry j

def asWrite (j : Json) : Except String (Write Rat) := do
  let owned ← getList asStr j "owned"
  let vals ← fld j "vals" >>= asStore
  return { owned := owned, vals := vals }

def asIter (j : Json) : Except String (Iter Rat) := do
  let pre ← getList asWrite j "pre"
  let delayed ← getList asWrite j "delayed"
  return { pre := pre, delayed := delayed }

def asGroup (j : Json) : Except String Group := do
  let o ← getList asStr j "online"
  let t ← getList asStr j "target"
  let s ← getBool j "soft"
  return { online := o, target := t, soft := s }

/-- Printing only: a watched value `q` leaves the driver as `[⌊q · 2^64⌋, 2^64]` (the state keeps the exact
rational; after `k` soft updates its denominator has `~ 60·k` bits, which is pointless to print and
compare against float32 numbers). -/
def approxJ (q : Rat) : Json :=
  Json.arr #[toJson (q * ((2 : Rat) ^ 64)).floor, toJson ((2 : Int) ^ 64)]

def watched (d : DState) (s : Store Rat) : Except String Json := do
  let vs ← d.watch.mapM fun n =>
    match s.lookup n with
    | some v => pure (listJ approxJ v)
    | none => throw s!"watched tensor missing: {n}"
  return Json.arr vs.toArray

/-- per-iteration report: the same `iterStep` that `loopStep`/`step` fold, replayed to print the
watched tensors after each iteration that fired -/
def traceIters (d : DState) (st : St Rat) (g : Nat) : List (Iter Rat) → Except String (St Rat × List Json)
  | [] => pure (st, [])
  | it :: its => do
    match iterStep d.cfg st g it with
    | none => throw "polyak-raises"
    | some (st1, f) =>
      let j ← if f then watched d st1.store else pure Json.null
      let (st2, js) ← traceIters d st1 (g + 1) its
      return (st2, j :: js)

def stepC08 (d : DState) (j : Json) : Except String (DState × Json) := do
  let op ← getStr j "op"
  match op with
  | "polyak" =>
    let τ ← getRat j "tau"
    let ps ← getList (asListOf asRat) j "params"
    let ts ← getList (asListOf asRat) j "targets"
    match polyakUpdate τ ps ts with
    | some r => return (d, objJ [("targets", listJ (listJ ratJ) r)])
    | none => throw "polyak-raises"
  | "new" =>
    let algoS ← getStr j "algo"
    let algo ← match algoS with
      | "dqn" => pure Algo.dqn
      | "sac" => pure Algo.sac
      | "td3" => pure Algo.td3
      | _ => throw s!"bad-algo {algoS}"
    let n ← getNat j "n_envs"
    let I ← getNat j "interval"
    let dl ← getNat j "delay"
    if n = 0 then throw "n_envs = 0"
    if algo = .sac && I = 0 then throw "zero-interval"
    if algo = .td3 && dl = 0 then throw "zero-delay"
    let τ ← getRat j "tau"
    let groups ← getList asGroup j "groups"
    let store ← fld j "store" >>= asStore
    let c ← getNat j "n_calls"
    let u ← getNat j "n_updates"
    let watch ← getList asStr j "watch"
    let d' : DState :=
      { cfg := { algo := algo, nEnvs := n, interval := I, delay := dl, tau := τ, groups := groups },
        st := { store := store, ctr := { nCalls := c, nUpdates := u } }, watch := watch, ready := true }
    return (d', objJ [("ok", boolJ true)])
  | "env" =>
    if !d.ready then throw "no-state"
    match step d.cfg d.st Op.envStep with
    | some (st', [Ev.env f]) =>
      let w ← if f then watched d st'.store else pure Json.null
      return ({ d with st := st' }, objJ [("fired", boolJ f), ("n_calls", natJ st'.ctr.nCalls), ("watch", w)])
    | some _ => throw "driver: unexpected event list"
    | none => throw "polyak-raises"
  | "train" =>
    if !d.ready then throw "no-state"
    let iters ← getList asIter j "iters"
    match step d.cfg d.st (Op.train iters) with
    | none => throw "polyak-raises"
    | some (st', evs) =>
      let (stT, after) ← traceIters d d.st 0 iters
      let w1 ← watched d st'.store
      let w2 ← watched d stT.store
      if w1 != w2 then throw "driver: trace differs from step"
      return ({ d with st := st' },
        objJ [("fired", listJ boolJ (gradFlags evs)), ("n_updates", natJ st'.ctr.nUpdates),
              ("after", Json.arr after.toArray)])
  | "reload" =>
    if !d.ready then throw "no-state"
    let store ← fld j "store" >>= asStore
    return ({ d with st := { d.st with store := store } }, objJ [("ok", boolJ true)])
  | "get" =>
    if !d.ready then throw "no-state"
    let w ← watched d d.st.store
    return (d, objJ [("watch", w), ("n_calls", natJ d.st.ctr.nCalls), ("n_updates", natJ d.st.ctr.nUpdates)])
  | _ => throw s!"bad-op {op}"

def main : IO Unit := SB3Verif.Proto.run stepC08 initD
