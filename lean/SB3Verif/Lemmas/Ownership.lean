/-
Helper lemmas for C19 (`Props/C19.lean`): the heap machine refines the value machine on
copy-discipline programs; value-level facts about caller writes.
-/
import SB3Verif.Model.Ownership

namespace SB3Verif.Ownership.Lemmas

open SB3Verif.Ownership

/-! ### heap updates -/

theorem upd_same (h : Addr → Val) (a : Addr) (v : Val) : upd h a v a = v := by simp [upd]

theorem upd_ne (h : Addr → Val) (a : Addr) (v : Val) (x : Addr) (hx : x ≠ a) : upd h a v x = h x := by
  simp [upd, hx]

theorem map_upd_not_mem (h : Addr → Val) (a : Addr) (v : Val) (l : List Addr) (hn : a ∉ l) :
    l.map (upd h a v) = l.map h := by
  apply List.map_congr_left
  intro x hx
  exact upd_ne _ _ _ _ (by rintro rfl; exact hn hx)

theorem map_upd_nodup (h : Addr → Val) (a : Addr) (v : Val) :
    ∀ (l : List Addr) (k : Nat), l.Nodup → l[k]? = some a → l.map (upd h a v) = (l.map h).set k v := by
  intro l
  induction l with
  | nil => intro k _ hk; simp at hk
  | cons x xs ih =>
    intro k hnd hk
    rw [List.nodup_cons] at hnd
    cases k with
    | zero =>
      simp at hk
      subst hk
      simp [upd_same, map_upd_not_mem _ _ _ _ hnd.1]
    | succ k =>
      simp at hk
      have hmem : a ∈ xs := List.mem_of_getElem? hk
      have hne : x ≠ a := by rintro rfl; exact hnd.1 hmem
      simp [upd_ne _ _ _ _ hne, ih k hnd.2 hk]

/-! ### evaluation -/

theorem evalSrc_eq (heap : Addr → Val) (slots args : List Addr) (s : Src) :
    evalSrc heap slots args s = vEvalSrc (slots.map heap) (args.map heap) s := by
  induction s with
  | const v => rfl
  | slot k =>
    simp only [evalSrc, vEvalSrc, List.getElem?_map]
    cases slots[k]? <;> rfl
  | arg i =>
    simp only [evalSrc, vEvalSrc, List.getElem?_map]
    cases args[i]? <;> rfl
  | add a b iha ihb => simp only [evalSrc, vEvalSrc, iha, ihb]

theorem argAddrs_mem (held : List Addr) (hs : List Nat) : ∀ a ∈ argAddrs held hs, a ∈ held := by
  intro a ha
  simp only [argAddrs, List.mem_filterMap] at ha
  obtain ⟨h, _, hh⟩ := ha
  exact List.mem_of_getElem? hh

theorem argVals_map (heap : Addr → Val) (held : List Addr) (hs : List Nat) :
    argVals (held.map heap) hs = (argAddrs held hs).map heap := by
  induction hs with
  | nil => rfl
  | cons h hs ih =>
    simp only [argVals, argAddrs, List.filterMap_cons, List.getElem?_map] at ih ⊢
    cases held[h]? with
    | none => simpa using ih
    | some a => simpa using ih

/-! ### separation invariant -/

/-- library cells and caller-held objects are pairwise different allocated addresses -/
structure Sep (s : St) : Prop where
  nodup : (s.slots ++ s.held).Nodup
  bound : ∀ a ∈ s.slots ++ s.held, a < s.next

theorem init_sep (n : Nat) : Sep (init n) := by
  constructor
  · simp [init, List.nodup_range]
  · intro a ha
    simpa [init] using ha

theorem abs_init (n : Nat) : abs (init n) = vinit n := by
  simp only [abs, init, vinit, cellVals, heldVals, List.map_nil]
  congr 1
  apply List.ext_getElem <;> simp

/-- invariant of the frame of a disciplined call started in `s` -/
structure FInv (s : St) (f : Frame) (vf : VFrame) : Prop where
  slots : f.slots = s.slots
  nodup : (s.slots ++ s.held ++ f.res).Nodup
  bound : ∀ a ∈ s.slots ++ s.held ++ f.res, a < f.next
  heldv : s.held.map f.heap = s.held.map s.heap
  cells : vf.cells = f.slots.map f.heap
  res : vf.res = f.res.map f.heap

theorem finv_start (s : St) (hs : Sep s) : FInv s ⟨s.heap, s.next, s.slots, s.dead, []⟩ ⟨cellVals s, []⟩ := by
  constructor <;> simp [cellVals, hs.nodup]
  intro a ha
  exact hs.bound a (by simpa using ha)

theorem finv_step (s : St) (args : List Addr) (hargs : ∀ a ∈ args, a ∈ s.held) (f : Frame) (vf : VFrame)
    (ins : Instr) (hd : ins.discipline = true) (h : FInv s f vf) :
    FInv s (execInstr args f ins) (vExecInstr (args.map s.heap) vf ins) := by
  have hargv : args.map f.heap = args.map s.heap := by
    apply List.map_congr_left
    intro a ha
    have hm := hargs a ha
    have := h.heldv
    have h1 : ∀ x ∈ s.held, f.heap x = s.heap x := by
      intro x hx
      exact (List.map_inj_left.mp this) x hx
    exact h1 a hm
  have hnd := h.nodup
  rw [List.nodup_append] at hnd
  obtain ⟨hnd1, hndr, hdisj⟩ := hnd
  rw [List.nodup_append] at hnd1
  obtain ⟨hnds, hndh, hdisj2⟩ := hnd1
  cases ins with
  | setSlot k src =>
    simp only [execInstr, vExecInstr]
    cases hk : f.slots[k]? with
    | none =>
      have hlen : f.slots.length ≤ k := by simpa using hk
      have : vf.cells.set k (vEvalSrc vf.cells (args.map s.heap) src) = vf.cells := by
        apply List.set_eq_of_length_le
        rw [h.cells]; simpa using hlen
      simp only [this]
      exact h
    | some a =>
      have hmem : a ∈ s.slots := by rw [← h.slots]; exact List.mem_of_getElem? hk
      have hnh : a ∉ s.held := fun hx => hdisj2 a hmem a hx rfl
      have hnr : a ∉ f.res := fun hx => hdisj a (List.mem_append_left _ hmem) a hx rfl
      have hev : evalSrc f.heap f.slots args src = vEvalSrc vf.cells (args.map s.heap) src := by
        rw [evalSrc_eq, hargv, h.cells]
      constructor
      · exact h.slots
      · exact h.nodup
      · exact h.bound
      · simp only []
        rw [map_upd_not_mem _ _ _ _ hnh]; exact h.heldv
      · simp only []
        rw [map_upd_nodup _ _ _ f.slots k (by rw [h.slots]; exact hnds) hk, ← h.cells, hev]
      · simp only []
        rw [map_upd_not_mem _ _ _ _ hnr]; exact h.res
  | stash i =>
    simp only [execInstr, vExecInstr]
    cases args[i]? with
    | none => exact h
    | some a => exact ⟨h.slots, h.nodup, h.bound, h.heldv, h.cells, h.res⟩
  | retFresh src =>
    simp only [execInstr, vExecInstr]
    have hfresh : f.next ∉ s.slots ++ s.held ++ f.res := fun hx => Nat.lt_irrefl _ (h.bound _ hx)
    have hns : f.next ∉ f.slots := by rw [h.slots]; exact fun hx => hfresh (by simp [hx])
    have hnh : f.next ∉ s.held := fun hx => hfresh (by simp [hx])
    have hnr : f.next ∉ f.res := fun hx => hfresh (by simp [hx])
    have hev : evalSrc f.heap f.slots args src = vEvalSrc vf.cells (args.map s.heap) src := by
      rw [evalSrc_eq, hargv, h.cells]
    constructor
    · exact h.slots
    · simp only []
      rw [← List.append_assoc, List.nodup_append]
      refine ⟨h.nodup, by simp, ?_⟩
      intro a ha b hb hab
      simp at hb
      subst hb
      subst hab
      exact hfresh ha
    · simp only []
      intro a ha
      rw [← List.append_assoc, List.mem_append] at ha
      rcases ha with ha | ha
      · exact Nat.lt_succ_of_lt (h.bound a ha)
      · simp at ha; subst ha; exact Nat.lt_succ_self _
    · simp only []
      rw [map_upd_not_mem _ _ _ _ hnh]; exact h.heldv
    · simp only []
      rw [map_upd_not_mem _ _ _ _ hns]; exact h.cells
    · simp only [List.map_append, List.map_cons, List.map_nil, upd_same]
      rw [map_upd_not_mem _ _ _ _ hnr, ← h.res, hev]
  | retFreshStash src =>
    simp only [execInstr, vExecInstr]
    have hfresh : f.next ∉ s.slots ++ s.held ++ f.res := fun hx => Nat.lt_irrefl _ (h.bound _ hx)
    have hns : f.next ∉ f.slots := by rw [h.slots]; exact fun hx => hfresh (by simp [hx])
    have hnh : f.next ∉ s.held := fun hx => hfresh (by simp [hx])
    have hnr : f.next ∉ f.res := fun hx => hfresh (by simp [hx])
    have hev : evalSrc f.heap f.slots args src = vEvalSrc vf.cells (args.map s.heap) src := by
      rw [evalSrc_eq, hargv, h.cells]
    constructor
    · exact h.slots
    · simp only []
      rw [← List.append_assoc, List.nodup_append]
      refine ⟨h.nodup, by simp, ?_⟩
      intro a ha b hb hab
      simp at hb
      subst hb
      subst hab
      exact hfresh ha
    · simp only []
      intro a ha
      rw [← List.append_assoc, List.mem_append] at ha
      rcases ha with ha | ha
      · exact Nat.lt_succ_of_lt (h.bound a ha)
      · simp at ha; subst ha; exact Nat.lt_succ_self _
    · simp only []
      rw [map_upd_not_mem _ _ _ _ hnh]; exact h.heldv
    · simp only []
      rw [map_upd_not_mem _ _ _ _ hns]; exact h.cells
    · simp only [List.map_append, List.map_cons, List.map_nil, upd_same]
      rw [map_upd_not_mem _ _ _ _ hnr, ← h.res, hev]
  | aliasSlot k i => simp [Instr.discipline] at hd
  | writeArg i src => simp [Instr.discipline] at hd
  | retSlot k => simp [Instr.discipline] at hd
  | retArg i => simp [Instr.discipline] at hd

theorem finv_fold (s : St) (args : List Addr) (hargs : ∀ a ∈ args, a ∈ s.held) :
    ∀ (ins : List Instr) (f : Frame) (vf : VFrame), ins.all Instr.discipline = true → FInv s f vf →
      FInv s (ins.foldl (execInstr args) f) (ins.foldl (vExecInstr (args.map s.heap)) vf) := by
  intro ins
  induction ins with
  | nil => intro f vf _ h; exact h
  | cons i is ih =>
    intro f vf hd h
    simp only [List.all_cons, Bool.and_eq_true] at hd
    simp only [List.foldl_cons]
    exact ih _ _ hd.2 (finv_step s args hargs f vf i hd.1 h)


/-! ### one step, whole programs -/

theorem step_refines (s : St) (hs : Sep s) (st : Step) (hd : st.discipline = true) :
    Sep (step s st) ∧ abs (step s st) = vstep (abs s) st := by
  have hnd := hs.nodup
  rw [List.nodup_append] at hnd
  obtain ⟨hnds, hndh, hdisj⟩ := hnd
  cases st with
  | new v =>
    have hfresh : s.next ∉ s.slots ++ s.held := fun hx => Nat.lt_irrefl _ (hs.bound _ hx)
    have hns : s.next ∉ s.slots := fun hx => hfresh (by simp [hx])
    have hnh : s.next ∉ s.held := fun hx => hfresh (by simp [hx])
    constructor
    · constructor
      · simp only [step]
        rw [← List.append_assoc, List.nodup_append]
        refine ⟨hs.nodup, by simp, ?_⟩
        intro a ha b hb hab
        simp at hb
        subst hb
        subst hab
        exact hfresh ha
      · simp only [step]
        intro a ha
        rw [← List.append_assoc, List.mem_append] at ha
        rcases ha with ha | ha
        · exact Nat.lt_succ_of_lt (hs.bound a ha)
        · simp at ha; subst ha; exact Nat.lt_succ_self _
    · simp only [abs, step, vstep, cellVals, heldVals, List.map_append, List.map_cons, List.map_nil, upd_same]
      rw [map_upd_not_mem _ _ _ _ hns, map_upd_not_mem _ _ _ _ hnh]
  | write h v =>
    simp only [step, vstep]
    cases hk : s.held[h]? with
    | none =>
      refine ⟨hs, ?_⟩
      have hlen : s.held.length ≤ h := by simpa using hk
      simp only [abs]
      congr 1
      symm
      apply List.set_eq_of_length_le
      simpa [heldVals] using hlen
    | some a =>
      have hmem : a ∈ s.held := List.mem_of_getElem? hk
      have hns : a ∉ s.slots := fun hx => hdisj a hx a hmem rfl
      refine ⟨⟨hs.nodup, hs.bound⟩, ?_⟩
      simp only [abs, cellVals, heldVals]
      rw [map_upd_not_mem _ _ _ _ hns, map_upd_nodup _ _ _ s.held h hndh hk]
  | call ins hsn =>
    have hd' : ins.all Instr.discipline = true := by simpa [Step.discipline] using hd
    have hF := finv_fold s (argAddrs s.held hsn) (argAddrs_mem s.held hsn) ins _ _ hd' (finv_start s hs)
    constructor
    · constructor
      · simp only [step]
        rw [hF.slots, ← List.append_assoc]
        exact hF.nodup
      · simp only [step]
        rw [hF.slots, ← List.append_assoc]
        exact hF.bound
    · simp only [abs, step, vstep, cellVals, heldVals, List.map_append]
      rw [argVals_map, hF.heldv, ← hF.cells, ← hF.res]
      rfl

theorem run_refines : ∀ (p : List Step) (s : St), Sep s → Disciplined p →
    Sep (run p s) ∧ abs (run p s) = vrun p (abs s) := by
  intro p
  induction p with
  | nil => intro s hs _; exact ⟨hs, rfl⟩
  | cons st rest ih =>
    intro s hs hd
    have h1 := step_refines s hs st (hd st (by simp))
    have h2 := ih (step s st) h1.1 (fun x hx => hd x (by simp [hx]))
    simp only [run, vrun, List.foldl_cons] at h2 ⊢
    rw [← h1.2]
    exact h2

theorem run_append (p q : List Step) (s : St) : run (p ++ q) s = run q (run p s) := by
  simp [run, List.foldl_append]

theorem vrun_append (p q : List Step) (v : VSt) : vrun (p ++ q) v = vrun q (vrun p v) := by
  simp [vrun, List.foldl_append]

/-! ### value machine: the caller's own objects -/

theorem vrun_lastWrite (h : Nat) : ∀ (rest : List Step) (v : VSt), h < v.held.length →
    (vrun rest v).held.getD h 0 = lastWrite h rest (v.held.getD h 0) := by
  intro rest
  induction rest with
  | nil => intro v _; rfl
  | cons st rest ih =>
    intro v hlt
    simp only [vrun, List.foldl_cons]
    cases st with
    | new x =>
      have := ih (vstep v (.new x)) (by simp [vstep]; omega)
      simp only [vrun] at this
      rw [this]
      simp only [vstep, lastWrite]
      congr 1
      simp [List.getD_eq_getElem?_getD, List.getElem?_append_left hlt]
    | write h' x =>
      have := ih (vstep v (.write h' x)) (by simp [vstep]; omega)
      simp only [vrun] at this
      rw [this]
      simp only [vstep, lastWrite]
      by_cases hh : h' = h
      · subst hh
        simp [List.getD_eq_getElem?_getD, hlt]
      · simp [List.getD_eq_getElem?_getD, hh, List.getElem?_set_ne hh]
    | call ins hs =>
      have := ih (vstep v (.call ins hs)) (by simp [vstep]; omega)
      simp only [vrun] at this
      rw [this]
      simp only [vstep, lastWrite]
      congr 1
      simp [List.getD_eq_getElem?_getD, List.getElem?_append_left hlt]

/-! ### value machine: dead writes do not matter -/

/-- two value states that differ at most in caller objects outside `U` -/
structure Agree (U : Nat → Bool) (v w : VSt) : Prop where
  cells : v.cells = w.cells
  trace : v.trace = w.trace
  len : v.held.length = w.held.length
  held : ∀ h, U h = true → v.held[h]? = w.held[h]?

theorem agree_refl (U : Nat → Bool) (v : VSt) : Agree U v v := ⟨rfl, rfl, rfl, fun _ _ => rfl⟩

theorem append_getElem?_congr (l1 l2 r : List Val) (h : Nat) (hlen : l1.length = l2.length)
    (heq : l1[h]? = l2[h]?) : (l1 ++ r)[h]? = (l2 ++ r)[h]? := by
  simp only [List.getElem?_append, hlen]
  split
  · rename_i hlt
    have h1 : h < l1.length := by omega
    simpa [List.getElem?_eq_getElem h1, List.getElem?_eq_getElem hlt] using heq
  · rfl

theorem argVals_congr (l1 l2 : List Val) (hs : List Nat) (h : ∀ x ∈ hs, l1[x]? = l2[x]?) :
    argVals l1 hs = argVals l2 hs := by
  induction hs with
  | nil => rfl
  | cons x xs ih =>
    simp only [argVals, List.filterMap_cons] at ih ⊢
    rw [h x (by simp), ih (fun y hy => h y (by simp [hy]))]

theorem vrun_strip : ∀ (rest : List Step) (v w : VSt), Agree (fun h => usedLater h rest) v w →
    (vrun rest v).trace = (vrun (stripDeadWrites rest) w).trace := by
  intro rest
  induction rest with
  | nil => intro v w h; exact h.trace
  | cons st rest ih =>
    intro v w hag
    cases st with
    | new x =>
      simp only [stripDeadWrites, vrun, List.foldl_cons]
      apply ih
      refine ⟨hag.cells, hag.trace, by simp [vstep, hag.len], ?_⟩
      intro h hu
      simp only [vstep]
      exact append_getElem?_congr _ _ _ _ hag.len (hag.held h (by simpa [usedLater] using hu))
    | write h' x =>
      simp only [stripDeadWrites]
      by_cases hu' : usedLater h' rest = true
      · simp only [hu', if_true, vrun, List.foldl_cons]
        apply ih
        refine ⟨hag.cells, hag.trace, by simp [vstep, hag.len], ?_⟩
        intro h hu
        simp only [vstep, List.getElem?_set, hag.len]
        split
        · rfl
        · exact hag.held h (by simpa [usedLater] using hu)
      · simp only [hu', vrun, List.foldl_cons]
        have : (vrun rest (vstep v (.write h' x))).trace = (vrun (stripDeadWrites rest) w).trace := by
          apply ih
          refine ⟨hag.cells, hag.trace, by simp [vstep, hag.len], ?_⟩
          intro h hu
          have hne : h' ≠ h := by
            rintro rfl
            exact hu' hu
          simp only [vstep, List.getElem?_set_ne hne]
          exact hag.held h (by simpa [usedLater] using hu)
        simpa [vrun] using this
    | call ins hs =>
      simp only [stripDeadWrites, vrun, List.foldl_cons]
      apply ih
      have hargs : argVals v.held hs = argVals w.held hs := by
        apply argVals_congr
        intro x hx
        apply hag.held
        simp [usedLater, hx]
      simp only [vstep, hargs, hag.cells, hag.trace]
      refine ⟨rfl, rfl, by simp [hag.len], ?_⟩
      intro h hu
      exact append_getElem?_congr _ _ _ _ hag.len (hag.held h (by simp [usedLater, hu]))

theorem strip_mem : ∀ (rest : List Step) (st : Step), st ∈ stripDeadWrites rest → st ∈ rest := by
  intro rest
  induction rest with
  | nil => intro st h; simp [stripDeadWrites] at h
  | cons x xs ih =>
    intro st h
    cases x with
    | new v =>
      simp only [stripDeadWrites, List.mem_cons] at h ⊢
      rcases h with h | h
      · exact Or.inl h
      · exact Or.inr (ih st h)
    | write h' v =>
      simp only [stripDeadWrites] at h
      split at h
      · simp only [List.mem_cons] at h ⊢
        rcases h with h | h
        · exact Or.inl h
        · exact Or.inr (ih st h)
      · exact List.mem_cons_of_mem _ (ih st h)
    | call ins hs =>
      simp only [stripDeadWrites, List.mem_cons] at h ⊢
      rcases h with h | h
      · exact Or.inl h
      · exact Or.inr (ih st h)

theorem strip_disciplined (rest : List Step) (h : Disciplined rest) : Disciplined (stripDeadWrites rest) :=
  fun st hst => h st (strip_mem rest st hst)

end SB3Verif.Ownership.Lemmas
