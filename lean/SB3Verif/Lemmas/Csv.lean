/-
Helper lemmas for C20 about the CSV model (`SB3Verif/Model/Csv.lean`):
physical-line splitting, the quote-parity padding loop of the header rewrite, the reader.
Core only (no Mathlib needed).
-/
import SB3Verif.Model.Csv

namespace SB3Verif.Csv.Lemmas

open SB3Verif.Csv

/-! ### quote parity -/

/-- parity of the number of quotes seen, starting from `p` -/
def qpar : Bool → Str → Bool
  | p, [] => p
  | p, c :: s => if c = '"' then qpar (!p) s else qpar p s

/-- every line break of `s` is inside quotes when scanning starts with parity `p` -/
def guarded : Bool → Str → Bool
  | _, [] => true
  | p, c :: s =>
    if c = '"' then guarded (!p) s
    else if c = '\n' ∨ c = '\r' then p && guarded p s
    else guarded p s

theorem qpar_append (p : Bool) (a b : Str) : qpar p (a ++ b) = qpar (qpar p a) b := by
  induction a generalizing p with
  | nil => rfl
  | cons c a ih => simp only [List.cons_append, qpar]; split <;> exact ih _

theorem guarded_append (p : Bool) (a b : Str) :
    guarded p (a ++ b) = (guarded p a && guarded (qpar p a) b) := by
  induction a generalizing p with
  | nil => simp [guarded, qpar]
  | cons c a ih =>
    simp only [List.cons_append, guarded, qpar]
    split
    · exact ih _
    · split
      · rw [ih]; simp [Bool.and_assoc]
      · exact ih _

theorem qpar_not (p : Bool) (s : Str) : qpar (!p) s = !qpar p s := by
  induction s generalizing p with
  | nil => rfl
  | cons c s ih => simp only [qpar]; split <;> simp [ih]

theorem oddQuotes_nil : oddQuotes [] = false := by simp [oddQuotes]

theorem oddQuotes_eq_qpar (l : Str) : oddQuotes l = qpar false l := by
  have h : ∀ (l : Str) (p : Bool), qpar p l = (p != oddQuotes l) := by
    intro l
    induction l with
    | nil => intro p; simp [qpar, oddQuotes]
    | cons c l ih =>
      intro p
      simp only [qpar]
      by_cases hc : c = '"'
      · subst hc
        simp only [if_true]
        rw [ih]
        simp only [oddQuotes, List.count_cons_self]
        rcases Nat.mod_two_eq_zero_or_one (List.count '"' l) with h | h <;>
          cases p <;> simp [h, Nat.add_mod]
      · simp only [hc, if_false]
        rw [ih]
        have : List.count '"' (c :: l) = List.count '"' l := by
          rw [List.count_cons]; simp [hc]
        simp [oddQuotes, this]
  rw [h]; simp

theorem oddQuotes_append (a b : Str) : oddQuotes (a ++ b) = (oddQuotes a != oddQuotes b) := by
  rw [oddQuotes_eq_qpar, oddQuotes_eq_qpar, oddQuotes_eq_qpar, qpar_append]
  cases h : qpar false a
  · simp
  · have := qpar_not false b
    simp only [Bool.not_false] at this
    rw [this]; simp


/-! ### physical lines -/

/-- no line break character -/
def noBreak (s : Str) : Bool := s.all (fun c => c != '\n' && c != '\r')

theorem splitAux_clean (cur t rest : Str) (h : noBreak t = true) :
    splitAux cur (t ++ '\n' :: rest) = (cur ++ t ++ ['\n']) :: splitAux [] rest := by
  induction t generalizing cur with
  | nil => simp [splitAux]
  | cons c t ih =>
    simp only [noBreak, List.all_cons, Bool.and_eq_true, bne_iff_ne, ne_eq] at h
    have ht : noBreak t = true := by simpa [noBreak] using h.2
    simp only [List.cons_append, splitAux, h.1.1, h.1.2, if_false]
    rw [ih _ ht]; simp

/-- The padding loop on one logical row: `cur` is the part of the current physical line already read,
`s` the rest of the row (its line breaks all inside quotes, quotes balanced at its end), then the `\n`
that ends the row. Exactly that `\n` gets the `k` commas. -/
theorem padLines_row (k : Nat) (s : Str) : ∀ (cur : Str) (inq : Bool) (rest : Str),
    guarded (inq != oddQuotes cur) s = true →
    qpar (inq != oddQuotes cur) s = false →
    padLines k inq (splitAux cur (s ++ '\n' :: rest)) =
      cur ++ s ++ (List.replicate k ',' ++ '\n' :: padLines k false (splitAux [] rest)) := by
  induction s with
  | nil =>
    intro cur inq rest _ hq
    simp only [qpar] at hq
    have hodd : oddQuotes (cur ++ ['\n']) = oddQuotes cur := by
      rw [oddQuotes_append]; simp [oddQuotes]
    have hinq : (if oddQuotes (cur ++ ['\n']) then !inq else inq) = false := by
      rw [hodd]; cases inq <;> cases ho : oddQuotes cur <;> simp_all
    simp only [List.nil_append, splitAux, if_true, padLines, hinq]
    simp
  | cons c s ih =>
    intro cur inq rest hg hq
    by_cases hc : c = '"'
    · subst hc
      simp only [guarded, qpar, if_true] at hg hq
      have h1 : splitAux cur (('"' :: s) ++ '\n' :: rest) = splitAux (cur ++ ['"']) (s ++ '\n' :: rest) := by
        simp [splitAux]
      have hodd : oddQuotes (cur ++ ['"']) = !oddQuotes cur := by
        rw [oddQuotes_append]; simp [oddQuotes]
      have hp : (inq != oddQuotes (cur ++ ['"'])) = !(inq != oddQuotes cur) := by
        rw [hodd]; cases inq <;> cases oddQuotes cur <;> rfl
      rw [h1, ih (cur ++ ['"']) inq rest (by rw [hp]; exact hg) (by rw [hp]; exact hq)]
      simp
    · by_cases hn : c = '\n'
      · subst hn
        simp only [guarded, qpar, hc, if_false, true_or, if_true, Bool.and_eq_true] at hg hq
        have hodd : oddQuotes (cur ++ ['\n']) = oddQuotes cur := by
          rw [oddQuotes_append]; simp [oddQuotes]
        have h1 : splitAux cur (('\n' :: s) ++ '\n' :: rest) = (cur ++ ['\n']) :: splitAux [] (s ++ '\n' :: rest) := by
          simp [splitAux]
        have hinq : (if oddQuotes (cur ++ ['\n']) then !inq else inq) = true := by
          rw [hodd]; have := hg.1; cases inq <;> cases ho : oddQuotes cur <;> simp_all
        rw [h1]
        simp only [padLines, hinq, if_true]
        have hg2 := hg.2
        rw [hg.1] at hg2 hq
        rw [ih [] true rest (by simpa [oddQuotes_nil] using hg2) (by simpa [oddQuotes_nil] using hq)]
        simp
      · by_cases hr : c = '\r'
        · subst hr
          simp only [guarded, qpar, hc, if_false, or_true, if_true, Bool.and_eq_true] at hg hq
          have hodd : oddQuotes (cur ++ ['\r']) = oddQuotes cur := by
            rw [oddQuotes_append]; simp [oddQuotes]
          by_cases hh : (s ++ '\n' :: rest).head? = some '\n'
          · have h1 : splitAux cur (('\r' :: s) ++ '\n' :: rest) = splitAux (cur ++ ['\r']) (s ++ '\n' :: rest) := by
              show splitAux cur ('\r' :: (s ++ '\n' :: rest)) = _
              rw [splitAux.eq_2, if_neg hn, if_pos rfl, if_pos hh]
            rw [h1, ih (cur ++ ['\r']) inq rest (by rw [hodd]; exact hg.2) (by rw [hodd]; exact hq)]
            simp
          · have h1 : splitAux cur (('\r' :: s) ++ '\n' :: rest)
                = (cur ++ ['\r']) :: splitAux [] (s ++ '\n' :: rest) := by
              show splitAux cur ('\r' :: (s ++ '\n' :: rest)) = _
              rw [splitAux.eq_2, if_neg hn, if_pos rfl, if_neg hh]
            have hinq : (if oddQuotes (cur ++ ['\r']) then !inq else inq) = true := by
              rw [hodd]; have := hg.1; cases inq <;> cases ho : oddQuotes cur <;> simp_all
            rw [h1]
            simp only [padLines, hinq, if_true]
            have hg2 := hg.2
            rw [hg.1] at hg2 hq
            rw [ih [] true rest (by simpa [oddQuotes_nil] using hg2) (by simpa [oddQuotes_nil] using hq)]
            simp
        · simp only [guarded, qpar, hc, hn, hr, if_false, or_self] at hg hq
          have h1 : splitAux cur ((c :: s) ++ '\n' :: rest) = splitAux (cur ++ [c]) (s ++ '\n' :: rest) := by
            simp [splitAux, hn, hr]
          have hodd : oddQuotes (cur ++ [c]) = oddQuotes cur := by
            rw [oddQuotes_append]
            have : oddQuotes [c] = false := by
              simp [oddQuotes, hc]
            simp [this]
          rw [h1, ih (cur ++ [c]) inq rest (by rw [hodd]; exact hg) (by rw [hodd]; exact hq)]
          simp


/-! ### quote structure of what the writer emits -/

theorem special_of_mem_tokClean {t : Str} (h : tokClean t = true) {c : Char} (hc : c ∈ t) : special c = false := by
  simp only [tokClean, Bool.and_eq_true, List.all_eq_true, Bool.not_eq_true'] at h
  exact h.2 c hc

theorem tokClean_ne_nil {t : Str} (h : tokClean t = true) : t ≠ [] := by
  intro h0; subst h0; simp [tokClean] at h

/-- a string without special characters changes neither the parity nor the guard -/
theorem qpar_plain (p : Bool) (t : Str) (h : ∀ c ∈ t, special c = false) : qpar p t = p := by
  induction t with
  | nil => rfl
  | cons c t ih =>
    have hc := h c (by simp)
    simp only [special, Bool.or_eq_false_iff, decide_eq_false_iff_not] at hc
    simp only [qpar, hc.1.1.1.1, if_false]
    exact ih (fun c hc => h c (by simp [hc]))

theorem guarded_plain (p : Bool) (t : Str) (h : ∀ c ∈ t, special c = false) : guarded p t = true := by
  induction t with
  | nil => rfl
  | cons c t ih =>
    have hc := h c (by simp)
    simp only [special, Bool.or_eq_false_iff, decide_eq_false_iff_not] at hc
    simp only [guarded, hc.1.1.1.1, hc.1.1.2, hc.1.2, if_false, or_self]
    exact ih (fun c hc => h c (by simp [hc]))

theorem noBreak_plain (t : Str) (h : ∀ c ∈ t, special c = false) : noBreak t = true := by
  simp only [noBreak, List.all_eq_true, Bool.and_eq_true, bne_iff_ne, ne_eq]
  intro c hc
  have := h c hc
  simp only [special, Bool.or_eq_false_iff, decide_eq_false_iff_not] at this
  exact ⟨this.1.1.2, this.1.2⟩

theorem qpar_escape (s : Str) : qpar true (escape s) = true := by
  induction s with
  | nil => rfl
  | cons c s ih =>
    simp only [escape]
    split
    · simp [qpar, ih]
    · rename_i hc; simp [qpar, hc, ih]

theorem guarded_escape (s : Str) : guarded true (escape s) = true := by
  induction s with
  | nil => rfl
  | cons c s ih =>
    simp only [escape]
    split
    · simp [guarded, ih]
    · rename_i hc
      simp only [guarded, hc, if_false]
      split <;> simp [ih]

theorem qpar_cell (c : Cell) (h : cellOk c = true) : qpar false (cellBytes c) = false := by
  cases c with
  | missing => rfl
  | num t => exact qpar_plain _ _ (fun c hc => special_of_mem_tokClean h hc)
  | str s =>
    simp only [cellBytes, qpar, if_true, Bool.not_false, qpar_append, qpar_escape]
    rfl

theorem guarded_cell (c : Cell) (h : cellOk c = true) : guarded false (cellBytes c) = true := by
  cases c with
  | missing => rfl
  | num t => exact guarded_plain _ _ (fun c hc => special_of_mem_tokClean h hc)
  | str s =>
    simp only [cellBytes, guarded, if_true, Bool.not_false, guarded_append, guarded_escape, qpar_escape]
    simp

theorem row_quotes (cells : List Cell) (h : ∀ c ∈ cells, cellOk c = true) :
    guarded false (joinComma (cells.map cellBytes)) = true ∧ qpar false (joinComma (cells.map cellBytes)) = false := by
  induction cells with
  | nil => simp [joinComma, guarded, qpar]
  | cons c cs ih =>
    have hc := h c (by simp)
    have ih' := ih (fun c hc => h c (by simp [hc]))
    cases cs with
    | nil => simpa [joinComma] using ⟨guarded_cell c hc, qpar_cell c hc⟩
    | cons c' cs' =>
      simp only [List.map_cons, joinComma] at ih' ⊢
      rw [guarded_append, qpar_append, qpar_cell c hc, guarded_cell c hc]
      simpa [guarded, qpar] using ih'

theorem joinComma_replicate (a : Str) (k : Nat) :
    joinComma (a :: List.replicate k []) = a ++ List.replicate k ',' := by
  induction k generalizing a with
  | zero => simp [joinComma]
  | succ k ih =>
    simp only [List.replicate_succ, joinComma]
    rw [ih []]; simp

theorem joinComma_append_empty (l : List Str) (hne : l ≠ []) (k : Nat) :
    joinComma (l ++ List.replicate k []) = joinComma l ++ List.replicate k ',' := by
  induction l with
  | nil => exact absurd rfl hne
  | cons a r ih =>
    cases r with
    | nil => simpa [joinComma] using joinComma_replicate a k
    | cons b r' =>
      simp only [List.cons_append, joinComma] at ih ⊢
      rw [ih (by simp)]; simp

/-- adding `k` empty cells to a non-empty row = appending `k` commas -/
theorem joinComma_pad (cells : List Cell) (hne : cells ≠ []) (k : Nat) :
    joinComma ((cells ++ List.replicate k Cell.missing).map cellBytes)
      = joinComma (cells.map cellBytes) ++ List.replicate k ',' := by
  rw [List.map_append, List.map_replicate]
  exact joinComma_append_empty _ (by simpa using hne) k

/-- the padding loop over whole rows -/
theorem padLines_rows (k : Nat) (rows : List (List Cell))
    (hok : ∀ r ∈ rows, ∀ c ∈ r, cellOk c = true) (hne : ∀ r ∈ rows, r ≠ []) :
    padLines k false (splitAux [] (rows.map rowBytes).flatten)
      = ((rows.map (fun r => r ++ List.replicate k Cell.missing)).map rowBytes).flatten := by
  induction rows with
  | nil => simp [splitAux, padLines]
  | cons r rs ih =>
    have hq := row_quotes r (hok r (by simp))
    have := padLines_row k (joinComma (r.map cellBytes)) [] false (rs.map rowBytes).flatten
      (by simpa [oddQuotes_nil] using hq.1) (by simpa [oddQuotes_nil] using hq.2)
    have ih' := ih (fun r hr => hok r (by simp [hr])) (fun r hr => hne r (by simp [hr]))
    have e1 : rowBytes r ++ (rs.map rowBytes).flatten
        = joinComma (r.map cellBytes) ++ '\n' :: (rs.map rowBytes).flatten := by simp [rowBytes]
    simp only [List.map_cons, List.flatten_cons]
    rw [e1, this, ih', rowBytes, joinComma_pad r (hne r (by simp)) k]
    simp

theorem special_joinComma_keys (keys : List Str) (h : ∀ k ∈ keys, tokClean k = true) :
    noBreak (joinComma keys) = true := by
  induction keys with
  | nil => rfl
  | cons a r ih =>
    have ha := noBreak_plain a (fun c hc => special_of_mem_tokClean (h a (by simp)) hc)
    cases r with
    | nil => simpa [joinComma] using ha
    | cons b r' =>
      have ih' := ih (fun k hk => h k (by simp [hk]))
      simp only [joinComma, noBreak, List.all_append, List.all_cons, Bool.and_eq_true] at ha ih' ⊢
      exact ⟨by simpa [noBreak] using ha, by decide, ih'⟩

/-- `lines[1:]` of a file that starts with a clean header are the lines of the rest -/
theorem splitLines_header (keys : List Str) (h : ∀ k ∈ keys, tokClean k = true) (rest : Str) :
    (splitLines (headerBytes keys ++ rest)).drop 1 = splitAux [] rest := by
  simp only [splitLines, headerBytes, List.append_assoc, List.singleton_append]
  rw [splitAux_clean [] (joinComma keys) rest (special_joinComma_keys keys h)]
  rfl


/-! ### the reader on what the writer emits -/

theorem run_append (p : PS) (a b : Str) : run p (a ++ b) = run (run p a) b := by
  simp [run, List.foldl_append]

theorem run_cons (p : PS) (c : Char) (s : Str) : run p (c :: s) = run (step p c) s := rfl

theorem run_nil (p : PS) : run p [] = p := rfl

theorem run_quoted_escape (s : Str) : ∀ (q : Bool) (fld : Str) (row : List Cell) (rows : List (List Cell)),
    run ⟨.quoted, q, fld, row, rows⟩ (escape s) = ⟨.quoted, q, fld ++ s, row, rows⟩ := by
  induction s with
  | nil => intros; simp [escape, run]
  | cons c s ih =>
    intro q fld row rows
    simp only [escape]
    split
    · rename_i hc
      subst hc
      rw [run_cons, run_cons]
      simp only [step, stepCore, reduceCtorEq, if_false, if_true]
      rw [ih]; simp
    · rename_i hc
      rw [run_cons]
      simp only [step, stepCore, reduceCtorEq, if_false, hc]
      rw [ih]; simp

theorem run_inField_plain (t : Str) (h : ∀ c ∈ t, special c = false) :
    ∀ (q : Bool) (fld : Str) (row : List Cell) (rows : List (List Cell)),
    run ⟨.inField, q, fld, row, rows⟩ t = ⟨.inField, q, fld ++ t, row, rows⟩ := by
  induction t with
  | nil => intros; simp [run]
  | cons c t ih =>
    intro q fld row rows
    have hc := h c (by simp)
    simp only [special, Bool.or_eq_false_iff, decide_eq_false_iff_not] at hc
    rw [run_cons]
    simp only [step, stepCore, reduceCtorEq, if_false, hc.1.1.1.2, hc.1.1.2, hc.1.2, hc.2]
    rw [ih (fun c hc => h c (by simp [hc]))]; simp

/-- from the start of a field, a cell followed by a comma adds that cell to the record -/
theorem run_cell_comma (c : Cell) (hok : cellOk c = true) (row : List Cell) (rows : List (List Cell)) :
    run ⟨.start, false, [], row, rows⟩ (cellBytes c ++ [',']) = ⟨.start, false, [], row ++ [c], rows⟩ := by
  cases c with
  | missing =>
    simp [cellBytes, run, step, stepCore, PS.endField, mkCell]
  | num t =>
    have hne := tokClean_ne_nil hok
    have hsp : ∀ c ∈ t, special c = false := fun c hc => special_of_mem_tokClean hok hc
    cases t with
    | nil => exact absurd rfl hne
    | cons c0 t' =>
      have hc := hsp c0 (by simp)
      simp only [special, Bool.or_eq_false_iff, decide_eq_false_iff_not] at hc
      simp only [cellBytes, List.cons_append]
      rw [run_cons]
      simp only [step, stepCore, reduceCtorEq, if_false, hc.1.1.1.1, hc.1.1.1.2, hc.1.1.2, hc.1.2, hc.2]
      rw [run_append, run_inField_plain t' (fun c hc => hsp c (by simp [hc]))]
      simp [run, step, stepCore, PS.endField, mkCell]
  | str s =>
    simp only [cellBytes, List.cons_append, List.append_assoc]
    rw [run_cons]
    simp only [step, stepCore, reduceCtorEq, if_false, if_true]
    rw [run_append, run_quoted_escape]
    simp [run, step, stepCore, PS.endField, mkCell]

/-- … followed by the end of the line it completes the record (unless the whole line is blank) -/
theorem run_cell_nl (c : Cell) (hok : cellOk c = true) (row : List Cell) (rows : List (List Cell))
    (h : row ≠ [] ∨ c ≠ Cell.missing) :
    run ⟨.start, false, [], row, rows⟩ (cellBytes c ++ ['\n']) = ⟨.start, false, [], [], rows ++ [row ++ [c]]⟩ := by
  cases c with
  | missing =>
    have hr : row ≠ [] := by
      rcases h with h | h
      · exact h
      · exact absurd rfl h
    have : row.isEmpty = false := by cases row <;> simp_all
    simp [cellBytes, run, step, stepCore, PS.endField, PS.endRow, mkCell, this]
  | num t =>
    have hne := tokClean_ne_nil hok
    have hsp : ∀ c ∈ t, special c = false := fun c hc => special_of_mem_tokClean hok hc
    cases t with
    | nil => exact absurd rfl hne
    | cons c0 t' =>
      have hc := hsp c0 (by simp)
      simp only [special, Bool.or_eq_false_iff, decide_eq_false_iff_not] at hc
      simp only [cellBytes, List.cons_append]
      rw [run_cons]
      simp only [step, stepCore, reduceCtorEq, if_false, hc.1.1.1.1, hc.1.1.1.2, hc.1.1.2, hc.1.2, hc.2]
      rw [run_append, run_inField_plain t' (fun c hc => hsp c (by simp [hc]))]
      simp [run, step, stepCore, PS.endField, PS.endRow, mkCell]
  | str s =>
    simp only [cellBytes, List.cons_append, List.append_assoc]
    rw [run_cons]
    simp only [step, stepCore, reduceCtorEq, if_false, if_true]
    rw [run_append, run_quoted_escape]
    simp [run, step, stepCore, PS.endField, PS.endRow, mkCell]

/-- a whole row -/
theorem run_row_aux (cells : List Cell) : ∀ (row : List Cell) (rows : List (List Cell)),
    (∀ c ∈ cells, cellOk c = true) → cells ≠ [] → (row ≠ [] ∨ cells ≠ [Cell.missing]) →
    run ⟨.start, false, [], row, rows⟩ (joinComma (cells.map cellBytes) ++ ['\n'])
      = ⟨.start, false, [], [], rows ++ [row ++ cells]⟩ := by
  induction cells with
  | nil => intro _ _ _ h; exact absurd rfl h
  | cons c cs ih =>
    intro row rows hok _ hvis
    cases cs with
    | nil =>
      simp only [List.map_cons, List.map_nil, joinComma]
      apply run_cell_nl c (hok c (by simp))
      rcases hvis with h | h
      · exact Or.inl h
      · right; intro hc; subst hc; exact h rfl
    | cons c' cs' =>
      simp only [List.map_cons, joinComma, List.append_assoc, List.cons_append]
      have e : cellBytes c ++ ',' :: (joinComma (cellBytes c' :: List.map cellBytes cs') ++ ['\n'])
          = (cellBytes c ++ [',']) ++ (joinComma ((c' :: cs').map cellBytes) ++ ['\n']) := by simp
      rw [e, run_append, run_cell_comma c (hok c (by simp))]
      rw [ih (row ++ [c]) rows (fun c hc => hok c (by simp [hc])) (by simp) (Or.inl (by simp))]
      simp

theorem rowVisible_iff (cells : List Cell) :
    rowVisible cells = true → cells ≠ [] ∧ cells ≠ [Cell.missing] := by
  intro h
  simp only [rowVisible, Bool.or_eq_true, decide_eq_true_eq, List.any_eq_true, bne_iff_ne, ne_eq] at h
  rcases h with h | ⟨c, hc, hne⟩
  · constructor <;> (intro h0; subst h0; simp at h)
  · constructor
    · intro h0; subst h0; simp at hc
    · intro h0; subst h0; simp at hc; exact hne hc

theorem run_row (cells : List Cell) (rows : List (List Cell))
    (hok : ∀ c ∈ cells, cellOk c = true) (hvis : rowVisible cells = true) :
    run ⟨.start, false, [], [], rows⟩ (rowBytes cells) = ⟨.start, false, [], [], rows ++ [cells]⟩ := by
  have := rowVisible_iff cells hvis
  simpa [rowBytes] using run_row_aux cells [] rows hok this.1 (Or.inr this.2)

theorem run_rows (rs : List (List Cell)) : ∀ (rows : List (List Cell)),
    (∀ r ∈ rs, ∀ c ∈ r, cellOk c = true) → (∀ r ∈ rs, rowVisible r = true) →
    run ⟨.start, false, [], [], rows⟩ (rs.map rowBytes).flatten = ⟨.start, false, [], [], rows ++ rs⟩ := by
  induction rs with
  | nil => intros; simp [run]
  | cons r rs ih =>
    intro rows hok hvis
    simp only [List.map_cons, List.flatten_cons]
    rw [run_append, run_row r rows (hok r (by simp)) (hvis r (by simp))]
    rw [ih _ (fun r hr => hok r (by simp [hr])) (fun r hr => hvis r (by simp [hr]))]
    simp

/-- **one row round-trips** -/
theorem parse_rowBytes (cells : List Cell) (hok : ∀ c ∈ cells, cellOk c = true) (hvis : rowVisible cells = true) :
    parse (rowBytes cells) = some [cells] := by
  simp [parse, PS.init, run_row cells [] hok hvis, finish]

/-- header line followed by rows -/
theorem parse_table (keys : List Str) (rs : List (List Cell)) (hk : ∀ k ∈ keys, tokClean k = true) (hne : keys ≠ [])
    (hok : ∀ r ∈ rs, ∀ c ∈ r, cellOk c = true) (hvis : ∀ r ∈ rs, rowVisible r = true) :
    readCsv (headerBytes keys ++ (rs.map rowBytes).flatten) = some ⟨keys, rs⟩ := by
  have hh : headerBytes keys = rowBytes (keys.map Cell.num) := by
    simp [headerBytes, rowBytes, List.map_map, Function.comp_def, cellBytes]
  have hvh : rowVisible (keys.map Cell.num) = true := by
    cases keys with
    | nil => exact absurd rfl hne
    | cons k ks => simp [rowVisible]
  have hokh : ∀ c ∈ keys.map Cell.num, cellOk c = true := by
    intro c hc
    simp only [List.mem_map] at hc
    obtain ⟨k, hk', rfl⟩ := hc
    exact hk k hk'
  simp only [readCsv, parse, PS.init]
  rw [hh, run_append, run_row _ [] hokh hvh, run_rows rs _ hok hvis]
  simp [finish, List.map_map, Function.comp_def, Cell.text]


/-! ### the writer keeps the file a header plus one row per dump -/

/-- the rows a file with columns `keys` should hold after the dumps `ws` -/
def tableRows (keys : List Str) (ws : List (List (Str × Cell))) : List (List Cell) :=
  ws.map (fun w => keys.map (fun k => lookup k w))

theorem lookup_missing_of_not_mem (k : Str) (w : List (Str × Cell)) (h : ∀ kc ∈ w, kc.1 ≠ k) :
    lookup k w = Cell.missing := by
  induction w with
  | nil => rfl
  | cons a r ih =>
    obtain ⟨k', c⟩ := a
    have := h (k', c) (by simp)
    simp only [lookup, this, if_false]
    exact ih (fun kc hkc => h kc (by simp [hkc]))

theorem lookup_ok (k : Str) (w : List (Str × Cell)) (h : ∀ kc ∈ w, cellOk kc.2 = true) :
    cellOk (lookup k w) = true := by
  induction w with
  | nil => rfl
  | cons a r ih =>
    obtain ⟨k', c⟩ := a
    simp only [lookup]
    split
    · exact h (k', c) (by simp)
    · exact ih (fun kc hkc => h kc (by simp [hkc]))

theorem lookup_of_mem_nodup (kvs : List (Str × Cell)) (kc : Str × Cell) (hkc : kc ∈ kvs)
    (hnd : (kvs.map Prod.fst).Nodup) : lookup kc.1 kvs = kc.2 := by
  induction kvs with
  | nil => simp at hkc
  | cons a r ih =>
    simp only [List.map_cons, List.nodup_cons] at hnd
    rcases List.mem_cons.mp hkc with h' | h'
    · subst h'; simp [lookup]
    · have : a.1 ≠ kc.1 := by
        intro heq
        exact hnd.1 (heq ▸ List.mem_map.mpr ⟨kc, h', rfl⟩)
      obtain ⟨k', c'⟩ := a
      simp only [lookup, this, if_false]
      exact ih h' hnd.2

theorem rowVisible_append (a b : List Cell) (h : rowVisible a = true) : rowVisible (a ++ b) = true := by
  simp only [rowVisible, Bool.or_eq_true, decide_eq_true_eq, List.any_eq_true, bne_iff_ne, ne_eq,
    List.length_append, List.mem_append] at h ⊢
  rcases h with h | ⟨c, hc, hne⟩
  · left; omega
  · right; exact ⟨c, Or.inl hc, hne⟩

theorem writeAt_end (data s : Str) : writeAt data data.length s = data ++ s := by
  simp [writeAt]

theorem writeAt_zero_of_le (data s : Str) (h : data.length ≤ s.length) : writeAt data 0 s = s := by
  simp [writeAt, List.drop_eq_nil_of_le h]

theorem length_joinComma_le_append (a b : List Str) : (joinComma a).length ≤ (joinComma (a ++ b)).length := by
  induction a with
  | nil => simp [joinComma]
  | cons x r ih =>
    cases r with
    | nil =>
      cases b with
      | nil => simp
      | cons y b' => simp [joinComma]
    | cons y r' =>
      simp only [List.cons_append, joinComma, List.length_append, List.length_cons] at ih ⊢
      omega

theorem length_flatten_map_le {β : Type} (f g : β → Str) (l : List β) (h : ∀ x ∈ l, (f x).length ≤ (g x).length) :
    (l.map f).flatten.length ≤ (l.map g).flatten.length := by
  induction l with
  | nil => simp
  | cons a r ih =>
    have h1 := h a (by simp)
    have h2 := ih (fun x hx => h x (by simp [hx]))
    simp only [List.map_cons, List.flatten_cons, List.length_append]
    omega

theorem write_keys {f f' : File} {kvs : List (Str × Cell)} {order : List Str} (hw : f.write kvs order = some f') :
    order.Perm (extraKeys f.keys kvs) ∧ f'.keys = f.keys ++ order := by
  simp only [File.write] at hw
  split at hw
  · rename_i hperm
    refine ⟨List.isPerm_iff.mp hperm, ?_⟩
    split at hw <;> (injection hw with hw; subst hw; rfl)
  · exact absurd hw (by simp)

structure Inv (f : File) (ws : List (List (Str × Cell))) : Prop where
  clean : ∀ k ∈ f.keys, tokClean k = true
  sub : ∀ w ∈ ws, ∀ kc ∈ w, kc.1 ∈ f.keys
  cells : ∀ w ∈ ws, ∀ kc ∈ w, cellOk kc.2 = true
  vis : ∀ w ∈ ws, rowVisible (f.keys.map (fun k => lookup k w)) = true
  data : f.data = if ws = [] then [] else headerBytes f.keys ++ ((tableRows f.keys ws).map rowBytes).flatten
  keys0 : ws = [] → f.keys = []
  /-- the file object stands at the end of the file: no stale tail is ever left behind -/
  atEnd : f.pos = f.data.length

theorem Inv.empty : Inv File.empty [] :=
  ⟨by simp [File.empty], by simp, by simp, by simp, by simp [File.empty], fun _ => rfl, rfl⟩

theorem mem_extraKeys {keys : List Str} {kvs : List (Str × Cell)} {k : Str} :
    k ∈ extraKeys keys kvs ↔ (∃ kc ∈ kvs, kc.1 = k) ∧ k ∉ keys := by
  simp [extraKeys, List.mem_filter, List.mem_map]

/-- one `write` preserves the invariant -/
theorem Inv.step {f f' : File} {ws : List (List (Str × Cell))} {kvs : List (Str × Cell)} {order : List Str}
    (inv : Inv f ws) (hk : kvsOk kvs = true) (hw : f.write kvs order = some f')
    (hv : rowVisible (f'.keys.map (fun k => lookup k kvs)) = true) : Inv f' (ws ++ [kvs]) := by
  simp only [kvsOk, Bool.and_eq_true, List.all_eq_true, decide_eq_true_eq] at hk
  obtain ⟨⟨hkclean, _⟩, hkcells⟩ := hk
  obtain ⟨hperm', hkeys'⟩ := write_keys hw
  rw [hkeys'] at hv
  have hmem : ∀ k, k ∈ order ↔ k ∈ extraKeys f.keys kvs := fun k => hperm'.mem_iff
  have hord_clean : ∀ k ∈ order, tokClean k = true := by
    intro k hk
    obtain ⟨⟨kc, hkc, rfl⟩, _⟩ := mem_extraKeys.mp ((hmem k).mp hk)
    exact hkclean kc.1 (List.mem_map.mpr ⟨kc, hkc, rfl⟩)
  have hord_new : ∀ k ∈ order, k ∉ f.keys := fun k hk => (mem_extraKeys.mp ((hmem k).mp hk)).2
  -- old rows under the new column list
  have hold : tableRows (f.keys ++ order) ws
      = (tableRows f.keys ws).map (fun r => r ++ List.replicate order.length Cell.missing) := by
    simp only [tableRows, List.map_map]
    apply List.map_congr_left
    intro w hw
    simp only [Function.comp, List.map_append]
    congr 1
    rw [List.eq_replicate_iff]
    refine ⟨by simp, ?_⟩
    intro c hc
    obtain ⟨k, hk, rfl⟩ := List.mem_map.mp hc
    apply lookup_missing_of_not_mem
    intro kc hkc heq
    exact hord_new k hk (heq ▸ inv.sub w hw kc hkc)
  -- the characters and the position
  have hchars : f'.data = headerBytes (f.keys ++ order) ++ ((tableRows (f.keys ++ order) (ws ++ [kvs])).map rowBytes).flatten
      ∧ f'.pos = f'.data.length := by
    have hnew : headerBytes (f.keys ++ order) ++ ((tableRows (f.keys ++ order) (ws ++ [kvs])).map rowBytes).flatten
        = (headerBytes (f.keys ++ order) ++ ((tableRows (f.keys ++ order) ws).map rowBytes).flatten)
          ++ rowBytes ((f.keys ++ order).map (fun k => lookup k kvs)) := by
      simp [tableRows]
    rw [hnew]
    simp only [File.write, List.isPerm_iff.mpr hperm', if_true] at hw
    by_cases hex : (extraKeys f.keys kvs).isEmpty = true
    · simp only [hex, if_true, Option.some.injEq] at hw
      subst hw
      have hord : order = [] := by
        have := hperm'.length_eq
        rw [List.isEmpty_iff.mp hex] at this
        exact List.length_eq_zero_iff.mp this
      subst hord
      simp only [List.append_nil] at hv ⊢
      by_cases hws : ws = []
      · -- nothing new and nothing before: the row would be blank
        subst hws
        rw [inv.keys0 rfl] at hv
        simp [rowVisible] at hv
      · have hd : f.data = headerBytes f.keys ++ ((tableRows f.keys ws).map rowBytes).flatten := by
          simpa [hws] using inv.data
        rw [inv.atEnd, writeAt_end]
        refine ⟨by rw [hd], by simp⟩
    · simp only [hex, if_false, Bool.false_eq_true, Option.some.injEq] at hw
      subst hw
      simp only
      by_cases hws : ws = []
      · subst hws
        have hd0 : f.data = [] := by simpa using inv.data
        simp [hd0, splitLines, splitAux, padLines, tableRows, writeAt]
      · have hd : f.data = headerBytes f.keys ++ ((tableRows f.keys ws).map rowBytes).flatten := by
          simpa [hws] using inv.data
        have hrows_ok : ∀ r ∈ tableRows f.keys ws, ∀ c ∈ r, cellOk c = true := by
          intro r hr c hc
          obtain ⟨w, hw, rfl⟩ := List.mem_map.mp hr
          obtain ⟨k, _, rfl⟩ := List.mem_map.mp hc
          exact lookup_ok k w (inv.cells w hw)
        have hrows_ne : ∀ r ∈ tableRows f.keys ws, r ≠ [] := by
          intro r hr
          obtain ⟨w, hw, rfl⟩ := List.mem_map.mp hr
          exact (rowVisible_iff _ (inv.vis w hw)).1
        have hpad : padLines (extraKeys f.keys kvs).length false ((splitLines f.data).drop 1)
            = ((tableRows (f.keys ++ order) ws).map rowBytes).flatten := by
          rw [hd, splitLines_header f.keys inv.clean, padLines_rows _ _ hrows_ok hrows_ne, hold, hperm'.length_eq]
        rw [hpad]
        -- the rewritten content is at least as long as the old one: nothing stale remains
        have hlen : f.data.length ≤ (headerBytes (f.keys ++ order) ++ ((tableRows (f.keys ++ order) ws).map rowBytes).flatten
            ++ rowBytes ((f.keys ++ order).map (fun k => lookup k kvs))).length := by
          rw [hd, hold]
          have h1 : (headerBytes f.keys).length ≤ (headerBytes (f.keys ++ order)).length := by
            simp only [headerBytes, List.length_append]
            have := length_joinComma_le_append f.keys order
            omega
          have h2 : ((tableRows f.keys ws).map rowBytes).flatten.length
              ≤ (((tableRows f.keys ws).map (fun r => r ++ List.replicate order.length Cell.missing)).map rowBytes).flatten.length := by
            rw [List.map_map]
            apply length_flatten_map_le
            intro r _
            simp only [Function.comp, rowBytes, List.length_append, List.map_append]
            have := length_joinComma_le_append (r.map cellBytes) ((List.replicate order.length Cell.missing).map cellBytes)
            omega
          simp only [List.length_append] at h1 h2 ⊢
          omega
        rw [writeAt_zero_of_le _ _ hlen]
        exact ⟨rfl, rfl⟩
  refine ⟨?_, ?_, ?_, ?_, ?_, ?_, hchars.2⟩
  · intro k hk
    rw [hkeys'] at hk
    rcases List.mem_append.mp hk with h | h
    · exact inv.clean k h
    · exact hord_clean k h
  · intro w hw kc hkc
    rw [hkeys']
    rcases List.mem_append.mp hw with h | h
    · exact List.mem_append.mpr (Or.inl (inv.sub w h kc hkc))
    · simp only [List.mem_singleton] at h
      subst h
      by_cases hin : kc.1 ∈ f.keys
      · exact List.mem_append.mpr (Or.inl hin)
      · exact List.mem_append.mpr (Or.inr ((hmem _).mpr (mem_extraKeys.mpr ⟨⟨kc, hkc, rfl⟩, hin⟩)))
  · intro w hw kc hkc
    rcases List.mem_append.mp hw with h | h
    · exact inv.cells w h kc hkc
    · simp only [List.mem_singleton] at h
      subst h
      exact hkcells kc hkc
  · intro w hw
    rw [hkeys']
    rcases List.mem_append.mp hw with h | h
    · rw [List.map_append]
      exact rowVisible_append _ _ (inv.vis w h)
    · simp only [List.mem_singleton] at h
      subst h
      exact hv
  · rw [hkeys', hchars.1]
    simp
  · intro h; simp at h

theorem Inv.run (ws : List (List (Str × Cell) × List Str)) : ∀ (f0 f : File) (ws0 : List (List (Str × Cell))),
    Inv f0 ws0 → runWrites f0 ws = some f → (∀ w ∈ ws, kvsOk w.1 = true) → rowsVisible f0 ws = true →
    Inv f (ws0 ++ ws.map Prod.fst) := by
  induction ws with
  | nil =>
    intro f0 f ws0 inv hr _ _
    simp only [runWrites, Option.some.injEq] at hr
    subst hr
    simpa using inv
  | cons w ws ih =>
    intro f0 f ws0 inv hr hok hvis
    simp only [runWrites] at hr
    simp only [rowsVisible] at hvis
    cases hw : f0.write w.1 w.2 with
    | none => simp [hw] at hr
    | some f1 =>
      simp only [hw, Bool.and_eq_true] at hr hvis
      have inv1 := inv.step (hok w (by simp)) hw hvis.1
      have := ih f1 f (ws0 ++ [w.1]) inv1 hr (fun w' hw' => hok w' (by simp [hw'])) hvis.2
      simpa using this

/-- **the whole file round-trips**: after any history of writes in which no blank row was written, the reader
returns the column list and, for every dump, the cell of every column (`missing` where the dump had no value). -/
theorem readCsv_runWrites (ws : List (List (Str × Cell) × List Str)) (f : File)
    (hr : runWrites File.empty ws = some f) (hok : ∀ w ∈ ws, kvsOk w.1 = true)
    (hvis : rowsVisible File.empty ws = true) (hne : ws ≠ []) :
    readCsv f.data = some ⟨f.keys, tableRows f.keys (ws.map Prod.fst)⟩ := by
  have inv := Inv.run ws File.empty f [] Inv.empty hr hok hvis
  simp only [List.nil_append] at inv
  have hne' : ws.map Prod.fst ≠ [] := by simpa using hne
  have hd : f.data = headerBytes f.keys ++ ((tableRows f.keys (ws.map Prod.fst)).map rowBytes).flatten := by
    simpa [hne'] using inv.data
  have hkeys : f.keys ≠ [] := by
    obtain ⟨w, hw⟩ := List.exists_mem_of_ne_nil _ hne'
    have := (rowVisible_iff _ (inv.vis w hw)).1
    intro h0; rw [h0] at this; exact this rfl
  rw [hd]
  apply parse_table f.keys _ inv.clean hkeys
  · intro r hr c hc
    obtain ⟨w, hw, rfl⟩ := List.mem_map.mp hr
    obtain ⟨k, _, rfl⟩ := List.mem_map.mp hc
    exact lookup_ok k w (inv.cells w hw)
  · intro r hr
    obtain ⟨w, hw, rfl⟩ := List.mem_map.mp hr
    exact inv.vis w hw

end SB3Verif.Csv.Lemmas
