/-
Helper lemmas for C20 about the logger model (`SB3Verif/Model/Logger.lean`).
-/
import SB3Verif.Lemmas.Csv
import SB3Verif.Model.Logger
import Mathlib.Algebra.Field.Basic
import Mathlib.Algebra.CharZero.Defs
import Mathlib.Algebra.BigOperators.Group.List.Basic
import Mathlib.Tactic.FieldSimp
import Mathlib.Tactic.Ring

namespace SB3Verif.Logger.Lemmas

open SB3Verif.Logger
open SB3Verif.Csv (Str Cell)

/-! ### the pending dictionary -/

def keysOf {α} (p : Pending α) : List Str := p.map (·.key)

theorem find?_upsert_self {α} (e : Entry α) (p : Pending α) : find? e.key (upsert e p) = some e := by
  induction p with
  | nil => simp [upsert, find?]
  | cons e' es ih =>
    simp only [upsert]
    split
    · simp [find?]
    · rename_i h; simp [find?, h, ih]

theorem find?_upsert_ne {α} (e : Entry α) (p : Pending α) (k : Str) (h : e.key ≠ k) :
    find? k (upsert e p) = find? k p := by
  induction p with
  | nil => simp [upsert, find?, h]
  | cons e' es ih =>
    simp only [upsert]
    split
    · rename_i h'
      have : e'.key ≠ k := h' ▸ h
      simp [find?, h, this]
    · simp only [find?]; split <;> simp [ih]

theorem find?_eq_none_iff {α} (k : Str) (p : Pending α) : find? k p = none ↔ k ∉ keysOf p := by
  induction p with
  | nil => simp [find?, keysOf]
  | cons e es ih =>
    simp only [find?, keysOf, List.map_cons, List.mem_cons, not_or]
    split
    · rename_i h; simp [h]
    · rename_i h
      simp only [keysOf] at ih
      rw [ih]
      constructor
      · intro h'; exact ⟨fun h'' => h h''.symm, h'⟩
      · intro h'; exact h'.2

theorem find?_some_key {α} {k : Str} {p : Pending α} {e : Entry α} (h : find? k p = some e) : e.key = k ∧ e ∈ p := by
  induction p with
  | nil => simp [find?] at h
  | cons e' es ih =>
    simp only [find?] at h
    split at h
    · rename_i hk; injection h with h; subst h; exact ⟨hk, by simp⟩
    · have := ih h; exact ⟨this.1, by simp [this.2]⟩

theorem keysOf_upsert {α} (e : Entry α) (p : Pending α) :
    keysOf (upsert e p) = if e.key ∈ keysOf p then keysOf p else keysOf p ++ [e.key] := by
  induction p with
  | nil => simp [upsert, keysOf]
  | cons e' es ih =>
    simp only [upsert, keysOf, List.map_cons, List.mem_cons] at ih ⊢
    by_cases h : e'.key = e.key
    · simp [h]
    · have h' : ¬ e.key = e'.key := fun x => h x.symm
      simp only [h, if_false, List.map_cons, h', false_or]
      rw [ih]
      by_cases hm : e.key ∈ List.map (fun x => x.key) es <;> simp [hm]

theorem nodup_keysOf_upsert {α} (e : Entry α) (p : Pending α) (h : (keysOf p).Nodup) : (keysOf (upsert e p)).Nodup := by
  rw [keysOf_upsert]
  split
  · exact h
  · rename_i hn
    rw [List.nodup_append]
    refine ⟨h, by simp, ?_⟩
    intro a ha b hb
    simp only [List.mem_singleton] at hb
    subst hb
    intro hab; subst hab; exact hn ha

theorem mem_keysOf_upsert {α} (e : Entry α) (p : Pending α) (k : Str) :
    k ∈ keysOf (upsert e p) ↔ k ∈ keysOf p ∨ k = e.key := by
  rw [keysOf_upsert]
  split
  · rename_i h
    constructor
    · exact Or.inl
    · rintro (h' | h')
      · exact h'
      · exact h' ▸ h
  · simp

/-- `record`: the entry of the key afterwards -/
theorem find?_record_self {α} (k : Str) (v : Val α) (ex : List Str) (p : Pending α) :
    find? k (record k v ex p) = some { key := k, val := v, count := ((find? k p).map (·.count)).getD 0, excl := ex } := by
  simpa [record] using find?_upsert_self (α := α) { key := k, val := v, count := ((find? k p).map (·.count)).getD 0, excl := ex } p

theorem find?_record_ne {α} (k k' : Str) (v : Val α) (ex : List Str) (p : Pending α) (h : k ≠ k') :
    find? k' (record k v ex p) = find? k' p := by
  simpa [record] using find?_upsert_ne (α := α) { key := k, val := v, count := ((find? k p).map (·.count)).getD 0, excl := ex } p k' h

section arith
variable {α : Type} [Add α] [Mul α] [Div α] [NatCast α] [IntCast α]

theorem find?_recordMean_ne (k k' : Str) (x : α) (ex : List Str) (p p' : Pending α) (h : k ≠ k')
    (hr : recordMean k x ex p = some p') : find? k' p' = find? k' p := by
  simp only [recordMean] at hr
  split at hr
  · injection hr with hr; subst hr
    exact find?_upsert_ne _ p k' h
  · split at hr
    · exact absurd hr (by simp)
    · injection hr with hr; subst hr
      exact find?_upsert_ne _ p k' h

theorem keysOf_recordMean (k : Str) (x : α) (ex : List Str) (p p' : Pending α)
    (hr : recordMean k x ex p = some p') :
    keysOf p' = if k ∈ keysOf p then keysOf p else keysOf p ++ [k] := by
  simp only [recordMean] at hr
  split at hr
  · injection hr with hr; subst hr
    exact keysOf_upsert _ p
  · split at hr
    · exact absurd hr (by simp)
    · injection hr with hr; subst hr
      exact keysOf_upsert _ p

theorem keysOf_record {α} (k : Str) (v : Val α) (ex : List Str) (p : Pending α) :
    keysOf (record k v ex p) = if k ∈ keysOf p then keysOf p else keysOf p ++ [k] := by
  simpa [record] using keysOf_upsert (α := α) { key := k, val := v, count := ((find? k p).map (·.count)).getD 0, excl := ex } p

end arith

/-! ### record_mean is the arithmetic mean -/

section mean
variable {α : Type} [Field α] [CharZero α]

omit [CharZero α] in
theorem meanStep_zero (x : α) : meanStep ((0 : ℕ) : α) 0 x = x := by
  simp [meanStep]

theorem meanStep_mean (S x : α) (n : ℕ) (hn : n ≠ 0) :
    meanStep (S / (n : α)) n x = (S + x) / ((n + 1 : ℕ) : α) := by
  have h1 : (n : α) ≠ 0 := Nat.cast_ne_zero.mpr hn
  have h2 : ((n + 1 : ℕ) : α) ≠ 0 := Nat.cast_ne_zero.mpr (Nat.succ_ne_zero n)
  simp only [meanStep]
  field_simp

/-- what the pending entry of `k` looks like after the values `vs` were given to `record_mean(k, ·)` -/
def MeanState (k : Str) (vs : List α) (p : Pending α) : Prop :=
  match vs with
  | [] => find? k p = none
  | _ => ∃ e, find? k p = some e ∧ e.val = Val.flt (vs.sum / (vs.length : α)) ∧ e.count = vs.length

theorem MeanState.recordMean {k : Str} {vs : List α} {p p' : Pending α} (x : α) (ex : List Str)
    (h : MeanState k vs p) (hr : recordMean k x ex p = some p') :
    MeanState k (vs ++ [x]) p' ∧ ∃ e, find? k p' = some e ∧ e.excl = ex := by
  cases vs with
  | nil =>
    simp only [MeanState] at h
    simp only [Logger.recordMean, h] at hr
    injection hr with hr; subst hr
    have := find?_upsert_self (α := α) { key := k, val := .flt (meanStep ((0 : ℕ) : α) 0 x), count := 1, excl := ex } p
    constructor
    · simp only [List.nil_append, MeanState]
      exact ⟨_, this, by simp [meanStep], by simp⟩
    · exact ⟨_, this, rfl⟩
  | cons v vs' =>
    obtain ⟨e, he, hval, hcnt⟩ := h
    simp only [Logger.recordMean, he, hval, Val.toNum?] at hr
    injection hr with hr; subst hr
    have hk : e.key = k := (find?_some_key he).1
    have := find?_upsert_self (α := α)
      { key := k, val := .flt (meanStep ((v :: vs').sum / ((v :: vs').length : α)) e.count x), count := e.count + 1, excl := ex } p
    constructor
    · have hne : (v :: vs') ++ [x] = v :: (vs' ++ [x]) := rfl
      rw [hne]
      simp only [MeanState]
      refine ⟨_, this, ?_, ?_⟩
      · simp only [Val.flt.injEq]
        rw [hcnt, meanStep_mean _ _ _ (by simp)]
        simp [List.sum_append, add_assoc]
      · simp [hcnt]
    · exact ⟨_, this, rfl⟩

end mean


/-! ### histories -/

section hist
variable {α : Type} [Add α] [Mul α] [Div α] [NatCast α] [IntCast α]

/-- one non-dump operation on the pending set (`none`: `record_mean` on a string) -/
def applyOp (p : Pending α) : Op α → Option (Pending α)
  | .record k v ex => some (record k v ex p)
  | .recordMean _ none _ => some p
  | .recordMean k (some x) ex => recordMean k x ex p
  | .dump _ => some []

theorem snapshots_cons_nodump (p : Pending α) (op : Op α) (ops : List (Op α)) (h : op.isDump = false) :
    snapshots p (op :: ops) = (applyOp p op).bind (fun p' => snapshots p' ops) := by
  cases op with
  | record k v ex => simp [snapshots, applyOp]
  | recordMean k x ex =>
    cases x with
    | none => simp [snapshots, applyOp]
    | some x =>
      simp only [snapshots, applyOp]
      cases recordMean k x ex p <;> simp
  | dump o => simp [Op.isDump] at h

theorem find?_applyOp_of_not_touches (p p' : Pending α) (op : Op α) (k : Str)
    (hd : op.isDump = false) (ht : op.touches k = false) (ha : applyOp p op = some p') : find? k p' = find? k p := by
  cases op with
  | record k' v ex =>
    simp only [applyOp, Option.some.injEq] at ha; subst ha
    simp only [Op.touches, decide_eq_false_iff_not] at ht
    exact find?_record_ne k' k v ex p ht
  | recordMean k' x ex =>
    cases x with
    | none => simp only [applyOp, Option.some.injEq] at ha; subst ha; rfl
    | some x =>
      simp only [Op.touches, decide_eq_false_iff_not] at ht
      exact find?_recordMean_ne k' k x ex p p' ht ha
  | dump o => simp [Op.isDump] at hd

/-- operations that do not touch `k` leave its entry alone -/
theorem find?_snapshots_of_not_touches (seg : List (Op α)) : ∀ (p p' : Pending α) (l : _) (k : Str),
    (∀ op ∈ seg, op.isDump = false ∧ op.touches k = false) → snapshots p seg = some (l, p') →
    find? k p' = find? k p ∧ l = [] := by
  induction seg with
  | nil => intro p p' l k _ h; simp only [snapshots, Option.some.injEq, Prod.mk.injEq] at h; simp [h.1, h.2]
  | cons op ops ih =>
    intro p p' l k hall h
    have ⟨hd, ht⟩ := hall op (by simp)
    rw [snapshots_cons_nodump p op ops hd] at h
    cases ha : applyOp p op with
    | none => simp [ha] at h
    | some p1 =>
      simp only [ha, Option.bind_some] at h
      have := ih p1 p' l k (fun op' h' => hall op' (by simp [h'])) h
      exact ⟨this.1.trans (find?_applyOp_of_not_touches p p1 op k hd ht ha), this.2⟩

theorem snapshots_append (a : List (Op α)) : ∀ (p : Pending α) (b : List (Op α)),
    snapshots p (a ++ b) = (snapshots p a).bind (fun r => (snapshots r.2 b).map (fun r' => (r.1 ++ r'.1, r'.2))) := by
  induction a with
  | nil => intro p b; simp [snapshots]
  | cons op ops ih =>
    intro p b
    cases op with
    | record k v ex => simp only [List.cons_append, snapshots]; exact ih _ b
    | recordMean k x ex =>
      cases x with
      | none => simp only [List.cons_append, snapshots]; exact ih _ b
      | some x =>
        simp only [List.cons_append, snapshots]
        cases recordMean k x ex p with
        | none => simp
        | some p1 => exact ih _ b
    | dump o =>
      simp only [List.cons_append, snapshots]
      rw [ih [] b]
      cases snapshots [] ops with
      | none => simp
      | some r =>
        obtain ⟨l, q⟩ := r
        simp only [Option.bind_some]
        cases snapshots q b with
        | none => simp
        | some r' => simp

/-- which keys are pending after a dump-free segment -/
theorem keysOf_snapshots (seg : List (Op α)) : ∀ (p p' : Pending α) (l : _) (k : Str),
    (∀ op ∈ seg, op.isDump = false) → snapshots p seg = some (l, p') →
    (k ∈ keysOf p' ↔ k ∈ keysOf p ∨ ∃ op ∈ seg, op.touches k = true) := by
  induction seg with
  | nil => intro p p' l k _ h; simp only [snapshots, Option.some.injEq, Prod.mk.injEq] at h; simp [h.2]
  | cons op ops ih =>
    intro p p' l k hall h
    have hd := hall op (by simp)
    rw [snapshots_cons_nodump p op ops hd] at h
    cases ha : applyOp p op with
    | none => simp [ha] at h
    | some p1 =>
      simp only [ha, Option.bind_some] at h
      rw [ih p1 p' l k (fun op' h' => hall op' (by simp [h'])) h]
      have h1 : k ∈ keysOf p1 ↔ k ∈ keysOf p ∨ op.touches k = true := by
        cases op with
        | record k' v ex =>
          simp only [applyOp, Option.some.injEq] at ha; subst ha
          rw [keysOf_record]
          simp only [Op.touches, decide_eq_true_eq]
          split
          · rename_i hm
            constructor
            · exact Or.inl
            · rintro (h' | h')
              · exact h'
              · exact h' ▸ hm
          · simp [eq_comm]
        | recordMean k' x ex =>
          cases x with
          | none => simp only [applyOp, Option.some.injEq] at ha; subst ha; simp [Op.touches]
          | some x =>
            rw [keysOf_recordMean k' x ex p p1 ha]
            simp only [Op.touches, decide_eq_true_eq]
            split
            · rename_i hm
              constructor
              · exact Or.inl
              · rintro (h' | h')
                · exact h'
                · exact h' ▸ hm
            · simp [eq_comm]
        | dump o => simp [Op.isDump] at hd
      rw [h1]
      simp only [List.mem_cons, exists_eq_or_imp]
      tauto

/-- distinct keys stay distinct -/
theorem nodup_snapshots (seg : List (Op α)) : ∀ (p p' : Pending α) (l : _),
    (keysOf p).Nodup → snapshots p seg = some (l, p') →
    (keysOf p').Nodup ∧ ∀ sn ∈ l, (keysOf sn.1).Nodup := by
  induction seg with
  | nil => intro p p' l hn h; simp only [snapshots, Option.some.injEq, Prod.mk.injEq] at h; simp [← h.1, ← h.2, hn]
  | cons op ops ih =>
    intro p p' l hn h
    cases op with
    | record k v ex =>
      simp only [snapshots] at h
      exact ih _ p' l (by rw [keysOf_record]; split; exact hn; exact (by
        rename_i hm
        rw [List.nodup_append]
        refine ⟨hn, by simp, ?_⟩
        intro a ha b hb
        simp only [List.mem_singleton] at hb
        subst hb
        intro hab; subst hab; exact hm ha)) h
    | recordMean k x ex =>
      cases x with
      | none => simp only [snapshots] at h; exact ih _ p' l hn h
      | some x =>
        simp only [snapshots] at h
        cases hr : recordMean k x ex p with
        | none => simp [hr] at h
        | some p1 =>
          simp only [hr] at h
          refine ih p1 p' l ?_ h
          rw [keysOf_recordMean k x ex p p1 hr]
          split
          · exact hn
          · rename_i hm
            rw [List.nodup_append]
            refine ⟨hn, by simp, ?_⟩
            intro a ha b hb
            simp only [List.mem_singleton] at hb
            subst hb
            intro hab; subst hab; exact hm ha
    | dump o =>
      simp only [snapshots] at h
      cases hs : snapshots [] ops with
      | none => simp [hs] at h
      | some r =>
        obtain ⟨l1, q⟩ := r
        simp only [hs, Option.some.injEq, Prod.mk.injEq] at h
        have := ih [] q l1 (by simp [keysOf]) hs
        obtain ⟨hl, hq⟩ := h
        subst hl; subst hq
        refine ⟨this.1, ?_⟩
        intro sn hsn
        rcases List.mem_cons.mp hsn with h' | h'
        · subst h'; exact hn
        · exact this.2 sn h'

end hist

section meanhist
variable {α : Type} [Field α] [CharZero α]

/-- **record_mean over a dump-free segment**: interleaved with any operations on other keys, the entry of `k` holds
the mean of the values given so far -/
theorem meanState_snapshots (k : Str) (seg : List (Op α)) : ∀ (p p' : Pending α) (l : _) (vs : List α),
    (∀ op ∈ seg, op.isDump = false ∧ op.isRecordOf k = false) → MeanState k vs p →
    snapshots p seg = some (l, p') → MeanState k (vs ++ meanVals k seg) p' := by
  induction seg with
  | nil =>
    intro p p' l vs _ hm h
    simp only [snapshots, Option.some.injEq, Prod.mk.injEq] at h
    simpa [meanVals, ← h.2] using hm
  | cons op ops ih =>
    intro p p' l vs hall hm h
    have ⟨hd, hrk⟩ := hall op (by simp)
    rw [snapshots_cons_nodump p op ops hd] at h
    cases ha : applyOp p op with
    | none => simp [ha] at h
    | some p1 =>
      simp only [ha, Option.bind_some] at h
      have hrest := fun op' h' => hall op' (List.mem_cons_of_mem _ h')
      cases hv : Op.meanVal k op with
      | some x =>
        -- `op = recordMean k (some x) ex`
        cases op with
        | record k' v ex => simp [Op.meanVal] at hv
        | dump o => simp [Op.meanVal] at hv
        | recordMean k' x' ex =>
          cases x' with
          | none => simp [Op.meanVal] at hv
          | some x'' =>
            simp only [Op.meanVal] at hv
            split at hv
            · rename_i hk
              injection hv with hv; subst hv; subst hk
              simp only [applyOp] at ha
              have h1 := (hm.recordMean x'' ex ha).1
              have := ih p1 p' l (vs ++ [x'']) hrest h1 h
              simpa [meanVals, List.filterMap_cons, Op.meanVal] using this
            · exact absurd hv (by simp)
      | none =>
        -- `op` does not touch `k`
        have ht : op.touches k = false := by
          cases op with
          | record k' v ex => simpa [Op.touches, Op.isRecordOf] using hrk
          | dump o => rfl
          | recordMean k' x' ex =>
            cases x' with
            | none => rfl
            | some x'' =>
              simp only [Op.meanVal] at hv
              split at hv
              · exact absurd hv (by simp)
              · rename_i hk; simpa [Op.touches] using hk
        have hf := find?_applyOp_of_not_touches p p1 op k hd ht ha
        have h1 : MeanState k vs p1 := by
          cases vs with
          | nil => simpa [MeanState, hf] using hm
          | cons v vs' => simpa [MeanState, hf] using hm
        have := ih p1 p' l vs hrest h1 h
        simpa [meanVals, List.filterMap_cons, hv] using this

end meanhist


/-! ### number tokens are clean -/

theorem digit_mem (d : Nat) : digit d ∈ digitChars := by
  have h : ∀ i, i < 10 → digitChars.getD i '0' ∈ digitChars := by decide
  exact h (d % 10) (Nat.mod_lt _ (by decide))

theorem digitChars_not_special : ∀ c ∈ digitChars, Csv.special c = false := by decide

theorem natDigitsAux_mem (f : Nat) : ∀ (n : Nat) (acc : Str) (c : Char),
    c ∈ natDigitsAux f n acc → c ∈ digitChars ∨ c ∈ acc := by
  induction f with
  | zero => intro n acc c h; exact Or.inr h
  | succ f ih =>
    intro n acc c h
    simp only [natDigitsAux] at h
    split at h
    · rcases List.mem_cons.mp h with h | h
      · exact Or.inl (h ▸ digit_mem n)
      · exact Or.inr h
    · rcases ih _ _ c h with h | h
      · exact Or.inl h
      · rcases List.mem_cons.mp h with h | h
        · exact Or.inl (h ▸ digit_mem n)
        · exact Or.inr h

theorem natDigitsAux_ne_nil (f : Nat) : ∀ (n : Nat) (acc : Str), acc ≠ [] ∨ f ≠ 0 → natDigitsAux f n acc ≠ [] := by
  induction f with
  | zero => intro n acc h; rcases h with h | h; exact h; exact absurd rfl h
  | succ f ih =>
    intro n acc _
    simp only [natDigitsAux]
    split
    · simp
    · exact ih _ _ (Or.inl (by simp))

theorem natDigits_clean (n : Nat) : Csv.tokClean (natDigits n) = true := by
  simp only [Csv.tokClean, Bool.and_eq_true, Bool.not_eq_true', List.isEmpty_eq_false_iff, List.all_eq_true]
  refine ⟨natDigitsAux_ne_nil _ _ _ (Or.inr (by simp)), ?_⟩
  intro c hc
  rcases natDigitsAux_mem _ _ _ c hc with h | h
  · exact digitChars_not_special c h
  · simp at h

theorem intRepr_clean (i : Int) : Csv.tokClean (intRepr i) = true := by
  simp only [intRepr]
  split
  · have := natDigits_clean i.natAbs
    simp only [Csv.tokClean, Bool.and_eq_true, Bool.not_eq_true', List.all_eq_true, List.isEmpty_cons,
      List.mem_cons, forall_eq_or_imp] at this ⊢
    refine ⟨trivial, by decide, this.2⟩
  · exact natDigits_clean _

/-! ### what the CSV writer receives -/

/-- the pending set is a dictionary with clean keys -/
def PendOk {α} (p : Pending α) : Prop := (keysOf p).Nodup ∧ ∀ k ∈ keysOf p, Csv.tokClean k = true

theorem kvsOk_csvRow {α} (R : Render α) (hR : ∀ x, Csv.tokClean (R.csv x) = true) (p : Pending α) (hp : PendOk p) :
    Csv.kvsOk (csvRow R p) = true := by
  have hkeys : (csvRow R p).map Prod.fst = keysOf (p.filter (fun e => !e.excl.contains CSV)) := by
    simp [csvRow, visible, keysOf, List.map_map, Function.comp_def]
  have hsub : List.Sublist (keysOf (p.filter (fun e => !e.excl.contains CSV))) (keysOf p) :=
    List.Sublist.map _ List.filter_sublist
  simp only [Csv.kvsOk, Bool.and_eq_true, List.all_eq_true, decide_eq_true_eq]
  refine ⟨⟨?_, ?_⟩, ?_⟩
  · intro k hk
    rw [hkeys] at hk
    exact hp.2 k (hsub.subset hk)
  · rw [hkeys]; exact hp.1.sublist hsub
  · intro kc hkc
    simp only [csvRow, visible, List.map_map, List.mem_map, Function.comp] at hkc
    obtain ⟨e, _, rfl⟩ := hkc
    cases hv : e.val with
    | int i => simpa [Val.cell, hv, Csv.cellOk] using intRepr_clean i
    | flt x => simpa [Val.cell, hv, Csv.cellOk] using hR x
    | str s => simp [Val.cell, Csv.cellOk]

theorem csvRow_cons_excl {α} (R : Render α) (e : Entry α) (es : Pending α) (h : CSV ∈ e.excl) :
    csvRow R (e :: es) = csvRow R es := by
  simp [csvRow, visible, h]

theorem csvRow_cons_vis {α} (R : Render α) (e : Entry α) (es : Pending α) (h : CSV ∉ e.excl) :
    csvRow R (e :: es) = (e.key, e.val.cell R) :: csvRow R es := by
  simp [csvRow, visible, h]

theorem lookup_csvRow {α} (R : Render α) (p : Pending α) (hp : (keysOf p).Nodup) (k : Str) :
    Csv.lookup k (csvRow R p) = csvCellOf R p k := by
  induction p with
  | nil => simp [csvRow, visible, Csv.lookup, csvCellOf, find?]
  | cons e es ih =>
    simp only [keysOf, List.map_cons, List.nodup_cons] at hp
    have ih' := ih hp.2
    simp only [csvCellOf, find?] at ih' ⊢
    by_cases hk : e.key = k
    · simp only [hk, if_true]
      by_cases hex : CSV ∈ e.excl
      · have hnot : ∀ kc ∈ csvRow R es, kc.1 ≠ k := by
          intro kc hkc heq
          simp only [csvRow, visible, List.map_map, List.mem_map, Function.comp] at hkc
          obtain ⟨e', he', rfl⟩ := hkc
          have : e'.key ∈ List.map (fun x => x.key) es :=
            List.mem_map.mpr ⟨e', (List.mem_filter.mp he').1, rfl⟩
          simp only at heq
          exact hp.1 (hk ▸ heq ▸ this)
        rw [csvRow_cons_excl R e es hex]
        simp only [List.contains_eq_mem, hex, decide_true, if_true]
        exact Csv.Lemmas.lookup_missing_of_not_mem k _ hnot
      · rw [csvRow_cons_vis R e es hex]
        simp [Csv.lookup, hk, hex]
    · simp only [hk, if_false]
      rw [← ih']
      by_cases hex : CSV ∈ e.excl
      · rw [csvRow_cons_excl R e es hex]
      · rw [csvRow_cons_vis R e es hex]
        simp [Csv.lookup, hk]

/-! ### the logger with its outputs, as a function of the dumps -/

section bridge
variable {α : Type} [Add α] [Mul α] [Div α] [NatCast α] [IntCast α]

/-- a run of the whole system = the pure logger's snapshots, fed to each output format -/
theorem run_decompose (R : Render α) (cfg : Config) (ops : List (Op α)) : ∀ (s s' : Sys α),
    Sys.run R cfg s ops = .ok s' →
    ∃ snaps, snapshots s.pending ops = some (snaps, s'.pending) ∧
      (cfg.csv = true → Csv.runWrites s.csv (snaps.map (fun sn => (csvRow R sn.1, sn.2))) = some s'.csv) ∧
      (cfg.json = true → s'.json = s.json ++ (snaps.map (fun sn => jsonLine (jsonRow R sn.1))).flatten) ∧
      (cfg.human = true → ∃ ts, List.Forall₂ (fun sn t => humanWrite R cfg.maxLen sn.1 = some t) snaps ts ∧
        s'.human = s.human ++ ts.flatten) := by
  induction ops with
  | nil =>
    intro s s' h
    simp only [Sys.run, Except.ok.injEq] at h
    subst h
    exact ⟨[], by simp [snapshots], by simp [Csv.runWrites], by simp, fun _ => ⟨[], by simp, by simp⟩⟩
  | cons op ops ih =>
    intro s s' h
    simp only [Sys.run] at h
    cases hs : Sys.step R cfg s op with
    | error e => simp [hs] at h
    | ok s1 =>
      simp only [hs] at h
      obtain ⟨snaps, hsn, hcsv, hjson, hhum⟩ := ih s1 s' h
      cases op with
      | record k v ex =>
        simp only [Sys.step, Except.ok.injEq] at hs
        subst hs
        exact ⟨snaps, by simpa [snapshots] using hsn, hcsv, hjson, hhum⟩
      | recordMean k x ex =>
        cases x with
        | none =>
          simp only [Sys.step, Except.ok.injEq] at hs
          subst hs
          exact ⟨snaps, by simpa [snapshots] using hsn, hcsv, hjson, hhum⟩
        | some x =>
          simp only [Sys.step] at hs
          cases hr : recordMean k x ex s.pending with
          | none => simp [hr] at hs
          | some p1 =>
            simp only [hr, Except.ok.injEq] at hs
            subst hs
            exact ⟨snaps, by simpa [snapshots, hr] using hsn, hcsv, hjson, hhum⟩
      | dump order =>
        simp only [Sys.step, Sys.dump] at hs
        split at hs
        · exact absurd hs (by simp)
        · rename_i human hhu
          split at hs
          · exact absurd hs (by simp)
          · rename_i csv hcs
            simp only [Except.ok.injEq] at hs
            subst hs
            simp only at hsn hcsv hjson hhum
            refine ⟨(s.pending, order) :: snaps, by simp [snapshots, hsn], ?_, ?_, ?_⟩
            · intro hc
              simp only [hc, if_true] at hcs
              simp only [List.map_cons, Csv.runWrites, hcs]
              exact hcsv hc
            · intro hj
              rw [hjson hj]
              simp [hj]
            · intro hh
              simp only [hh, if_true] at hhu
              obtain ⟨ts, hts, hst⟩ := hhum hh
              cases hw : humanWrite R cfg.maxLen s.pending with
              | none => simp [hw] at hhu
              | some t =>
                simp only [hw, Option.map_some, Option.some.injEq] at hhu
                subst hhu
                exact ⟨t :: ts, List.Forall₂.cons hw hts, by simp [hst]⟩

end bridge


section keysprop
variable {α : Type} [Add α] [Mul α] [Div α] [NatCast α] [IntCast α]

/-- every pending key was named by an operation -/
theorem keys_snapshots (P : Str → Prop) (seg : List (Op α)) : ∀ (p p' : Pending α) (l : _),
    (∀ k ∈ keysOf p, P k) → (∀ op ∈ seg, ∀ k, op.key? = some k → P k) → snapshots p seg = some (l, p') →
    (∀ k ∈ keysOf p', P k) ∧ ∀ sn ∈ l, ∀ k ∈ keysOf sn.1, P k := by
  induction seg with
  | nil =>
    intro p p' l hp _ h
    simp only [snapshots, Option.some.injEq, Prod.mk.injEq] at h
    obtain ⟨h1, h2⟩ := h
    subst h1; subst h2
    exact ⟨hp, by simp⟩
  | cons op ops ih =>
    intro p p' l hp hops h
    have hrest := fun op' h' => hops op' (List.mem_cons_of_mem _ h')
    cases op with
    | record k v ex =>
      simp only [snapshots] at h
      refine ih _ p' l ?_ hrest h
      intro k' hk'
      rw [keysOf_record] at hk'
      split at hk'
      · exact hp k' hk'
      · rcases List.mem_append.mp hk' with h' | h'
        · exact hp k' h'
        · simp only [List.mem_singleton] at h'
          exact h' ▸ hops (.record k v ex) (by simp) k rfl
    | recordMean k x ex =>
      cases x with
      | none => simp only [snapshots] at h; exact ih _ p' l hp hrest h
      | some x =>
        simp only [snapshots] at h
        cases hr : recordMean k x ex p with
        | none => simp [hr] at h
        | some p1 =>
          simp only [hr] at h
          refine ih p1 p' l ?_ hrest h
          intro k' hk'
          rw [keysOf_recordMean k x ex p p1 hr] at hk'
          split at hk'
          · exact hp k' hk'
          · rcases List.mem_append.mp hk' with h' | h'
            · exact hp k' h'
            · simp only [List.mem_singleton] at h'
              exact h' ▸ hops (.recordMean k (some x) ex) (by simp) k rfl
    | dump o =>
      simp only [snapshots] at h
      cases hs : snapshots [] ops with
      | none => simp [hs] at h
      | some r =>
        obtain ⟨l1, q⟩ := r
        simp only [hs, Option.some.injEq, Prod.mk.injEq] at h
        have := ih [] q l1 (by simp [keysOf]) hrest hs
        obtain ⟨hl, hq⟩ := h
        subst hl; subst hq
        refine ⟨this.1, ?_⟩
        intro sn hsn
        rcases List.mem_cons.mp hsn with h' | h'
        · subst h'; exact hp
        · exact this.2 sn h'

end keysprop

/-- a dump with at least one value is never taken for a blank line -/
theorem rowsVisible_of_values (ws : List (List (Str × Cell) × List Str)) : ∀ (f : Csv.File),
    (∀ w ∈ ws, Csv.kvsOk w.1 = true ∧ ∃ kc ∈ w.1, kc.2 ≠ Cell.missing) → Csv.rowsVisible f ws = true := by
  induction ws with
  | nil => intro f _; rfl
  | cons w ws ih =>
    intro f h
    simp only [Csv.rowsVisible]
    cases hw : f.write w.1 w.2 with
    | none => rfl
    | some f' =>
      simp only [Bool.and_eq_true]
      refine ⟨?_, ih f' (fun w' hw' => h w' (List.mem_cons_of_mem _ hw'))⟩
      obtain ⟨hok, kc, hkc, hne⟩ := h w (by simp)
      -- the key of that value is a column, and its cell is the value
      obtain ⟨hperm', hkeys'⟩ := Csv.Lemmas.write_keys hw
      rw [hkeys']
      have hin : kc.1 ∈ f.keys ++ w.2 := by
        by_cases h1 : kc.1 ∈ f.keys
        · exact List.mem_append.mpr (Or.inl h1)
        · exact List.mem_append.mpr (Or.inr (hperm'.mem_iff.mpr (Csv.Lemmas.mem_extraKeys.mpr ⟨⟨kc, hkc, rfl⟩, h1⟩)))
      have hnd : (w.1.map Prod.fst).Nodup := by
        simp only [Csv.kvsOk, Bool.and_eq_true, decide_eq_true_eq] at hok
        exact hok.1.2
      have hlk : Csv.lookup kc.1 w.1 = kc.2 := Csv.Lemmas.lookup_of_mem_nodup w.1 kc hkc hnd
      simp only [Csv.rowVisible, Bool.or_eq_true, List.any_eq_true, bne_iff_ne, ne_eq]
      right
      exact ⟨kc.2, List.mem_map.mpr ⟨kc.1, hin, hlk⟩, hne⟩

end SB3Verif.Logger.Lemmas
