/-
Helper lemmas for C08 (model: `SB3Verif/Model/Polyak.lean`).
-/
import SB3Verif.Model.Polyak
import Mathlib.Tactic.Ring
import Mathlib.Tactic.Linarith
import Mathlib.Algebra.Order.Ring.Defs

namespace SB3Verif.Lemmas.Polyak

open SB3Verif.Polyak

/-! ### scalar algebra -/

section ring
variable {α : Type} [CommRing α]

theorem polyak1_eq (τ t o : α) : polyak1 τ t o = (1 - τ) * t + τ * o := by
  simp only [polyak1, scaleTarget]; ring

theorem polyak1_one (t o : α) : polyak1 1 t o = o := by
  simp only [polyak1, scaleTarget]; ring

theorem polyak1_zero (t o : α) : polyak1 0 t o = t := by
  simp only [polyak1, scaleTarget]; ring

theorem polyak1_fixed (τ o : α) : polyak1 τ o o = o := by
  simp only [polyak1, scaleTarget]; ring

theorem polyak1_iterate (τ t o : α) (k : ℕ) :
    (fun x => polyak1 τ x o)^[k] t = (1 - τ) ^ k * t + (1 - (1 - τ) ^ k) * o := by
  induction k generalizing t with
  | zero => simp
  | succ k ih =>
    rw [Function.iterate_succ_apply, ih, polyak1_eq]
    ring

end ring

section ordered
variable {α : Type} [CommRing α] [LinearOrder α] [IsStrictOrderedRing α]

theorem polyak1_between (τ t o : α) (h0 : 0 ≤ τ) (h1 : τ ≤ 1) :
    min t o ≤ polyak1 τ t o ∧ polyak1 τ t o ≤ max t o := by
  rw [polyak1_eq]
  have h1' : 0 ≤ 1 - τ := by linarith
  rcases le_total t o with h | h
  · rw [min_eq_left h, max_eq_right h]
    constructor
    · nlinarith [mul_nonneg h0 (sub_nonneg.mpr h)]
    · nlinarith [mul_nonneg h1' (sub_nonneg.mpr h)]
  · rw [min_eq_right h, max_eq_left h]
    constructor
    · nlinarith [mul_nonneg h1' (sub_nonneg.mpr h)]
    · nlinarith [mul_nonneg h0 (sub_nonneg.mpr h)]

end ordered

/-! ### `zip_strict` -/

theorem zipStrict_eq_some {β γ : Type} (a : List β) (b : List γ) (r : List (β × γ)) :
    zipStrict a b = some r ↔ a.length = b.length ∧ r = a.zip b := by
  induction a generalizing b r with
  | nil =>
    cases b with
    | nil => simp [zipStrict, eq_comm]
    | cons y ys => simp [zipStrict]
  | cons x xs ih =>
    cases b with
    | nil => simp [zipStrict]
    | cons y ys =>
      simp only [zipStrict]
      cases hz : zipStrict xs ys with
      | none =>
        have : ¬ xs.length = ys.length := by
          intro hl
          have := (ih ys (xs.zip ys)).mpr ⟨hl, rfl⟩
          rw [hz] at this; cases this
        simp [this]
      | some r' =>
        obtain ⟨hl, hr⟩ := (ih ys r').mp hz
        subst hr
        simp [hl, eq_comm]

theorem zipStrict_eq_none {β γ : Type} (a : List β) (b : List γ) :
    zipStrict a b = none ↔ a.length ≠ b.length := by
  constructor
  · intro h hl
    have := (zipStrict_eq_some a b (a.zip b)).mpr ⟨hl, rfl⟩
    rw [h] at this; cases this
  · intro h
    cases hz : zipStrict a b with
    | none => rfl
    | some r => exact absurd ((zipStrict_eq_some a b r).mp hz).1 h

/-! ### one tensor, a list of tensors -/

section tensor
variable {α : Type} [Add α] [Sub α] [Mul α] [One α]

theorem polyakTensor_eq_some (τ : α) (t o r : List α) :
    polyakTensor τ t o = some r ↔ t.length = o.length ∧ r = List.zipWith (polyak1 τ) t o := by
  unfold polyakTensor
  cases hz : zipStrict t o with
  | none =>
    have := (zipStrict_eq_none t o).mp hz
    simp [this]
  | some ps =>
    obtain ⟨hl, hp⟩ := (zipStrict_eq_some t o ps).mp hz
    subst hp
    simp only [hl, true_and, Option.some.injEq]
    rw [List.map_zip_eq_zipWith]
    have hc : (Function.curry fun p : α × α => polyak1 τ p.1 p.2) = polyak1 τ := rfl
    rw [hc]
    exact eq_comm

theorem polyakTensor_eq_none (τ : α) (t o : List α) :
    polyakTensor τ t o = none ↔ t.length ≠ o.length := by
  unfold polyakTensor
  cases hz : zipStrict t o with
  | none => simpa using (zipStrict_eq_none t o).mp hz
  | some ps => simpa using ((zipStrict_eq_some t o ps).mp hz).1

theorem polyakAll_spec (τ : α) (ps : List (List α × List α)) (r : List (List α))
    (h : polyakAll τ ps = some r) :
    r.length = ps.length ∧
      ∀ i (hi : i < ps.length) (hr : i < r.length),
        ps[i].2.length = ps[i].1.length ∧ r[i] = List.zipWith (polyak1 τ) ps[i].2 ps[i].1 := by
  induction ps generalizing r with
  | nil =>
    simp only [polyakAll, Option.some.injEq] at h
    subst h; simp
  | cons p rest ih =>
    obtain ⟨o, t⟩ := p
    simp only [polyakAll] at h
    cases h1 : polyakTensor τ t o with
    | none => rw [h1] at h; simp at h
    | some nt =>
      cases h2 : polyakAll τ rest with
      | none => rw [h1, h2] at h; simp at h
      | some r' =>
        rw [h1, h2] at h
        simp only [Option.some.injEq] at h
        subst h
        obtain ⟨hl, hs⟩ := ih r' h2
        obtain ⟨hlen, hnt⟩ := (polyakTensor_eq_some τ t o nt).mp h1
        refine ⟨by simp [hl], ?_⟩
        intro i hi hr
        cases i with
        | zero => exact ⟨hlen, hnt⟩
        | succ i =>
          simp only [List.length_cons, Nat.add_lt_add_iff_right] at hi hr
          simpa using hs i hi hr

end tensor

theorem zipWith_snd {β γ : Type} (a : List β) (b : List γ) (h : a.length = b.length) :
    List.zipWith (fun _ y => y) a b = b := by
  induction a generalizing b with
  | nil => cases b with
    | nil => rfl
    | cons y ys => simp at h
  | cons x xs ih => cases b with
    | nil => simp at h
    | cons y ys =>
      simp only [List.length_cons, Nat.add_right_cancel_iff] at h
      simp [ih ys h]

theorem polyakTensor_one_copies {α : Type} [CommRing α] (t o r : List α)
    (h : polyakTensor (1 : α) t o = some r) : r = o := by
  obtain ⟨hl, hr⟩ := (polyakTensor_eq_some 1 t o r).mp h
  rw [hr]
  have : (polyak1 (1 : α)) = fun _ y => y := by
    funext a b; exact polyak1_one a b
  rw [this]
  exact zipWith_snd t o hl

/-! ### named tensors -/

section store
variable {α : Type}

theorem lookup_cons_of_ne {β : Type} (m k : String) (x : β) (rest : List (String × β)) (h : m ≠ k) :
    List.lookup m ((k, x) :: rest) = List.lookup m rest := by
  have : (m == k) = false := by simpa using h
  rw [List.lookup_cons, this]

theorem lookup_cons_of_eq {β : Type} (k : String) (x : β) (rest : List (String × β)) :
    List.lookup k ((k, x) :: rest) = some x := by
  have : (k == k) = true := by simp
  rw [List.lookup_cons, this]

theorem set_cons (k : String) (x : List α) (rest : Store α) (n : String) (v : List α) :
    Store.set ((k, x) :: rest) n v = (if (k == n) = true then (k, v) else (k, x)) :: Store.set rest n v := rfl

theorem lookup_set_ne (s : Store α) (n m : String) (v : List α) (h : m ≠ n) :
    (s.set n v).lookup m = s.lookup m := by
  induction s with
  | nil => rfl
  | cons e rest ih =>
    obtain ⟨k, x⟩ := e
    rw [set_cons]
    by_cases hk : k = n
    · subst hk
      rw [if_pos (by simp), lookup_cons_of_ne m k v _ h, lookup_cons_of_ne m k x _ h, ih]
    · rw [if_neg (by simpa using hk)]
      by_cases hm : m = k
      · subst hm; rw [lookup_cons_of_eq, lookup_cons_of_eq]
      · rw [lookup_cons_of_ne m k x _ hm, lookup_cons_of_ne m k x _ hm, ih]

theorem lookup_set_eq (s : Store α) (n : String) (v x : List α) (h : s.lookup n = some x) :
    (s.set n v).lookup n = some v := by
  induction s with
  | nil => simp at h
  | cons e rest ih =>
    obtain ⟨k, y⟩ := e
    rw [set_cons]
    by_cases hk : k = n
    · subst hk
      rw [if_pos (by simp), lookup_cons_of_eq]
    · rw [if_neg (by simpa using hk)]
      have hnk : n ≠ k := Ne.symm hk
      rw [lookup_cons_of_ne n k y _ hnk] at h ⊢
      exact ih h

theorem applyWrite_cons (w : Write α) (k : String) (x : List α) (rest : Store α) :
    applyWrite w ((k, x) :: rest) =
      (if w.owned.contains k = true then
        (match w.vals.lookup k with
          | some v => (k, v)
          | none => (k, x))
      else (k, x)) :: applyWrite w rest := rfl

theorem lookup_applyWrite_not_owned (w : Write α) (s : Store α) (n : String) (h : n ∉ w.owned) :
    (applyWrite w s).lookup n = s.lookup n := by
  induction s with
  | nil => rfl
  | cons e rest ih =>
    obtain ⟨k, x⟩ := e
    rw [applyWrite_cons]
    by_cases hn : n = k
    · subst hn
      rw [if_neg (by simpa using h), lookup_cons_of_eq, lookup_cons_of_eq]
    · by_cases ho : w.owned.contains k = true
      · rw [if_pos ho]
        cases w.vals.lookup k with
        | none => simp only []; rw [lookup_cons_of_ne n k x _ hn, lookup_cons_of_ne n k x _ hn, ih]
        | some v => simp only []; rw [lookup_cons_of_ne n k v _ hn, lookup_cons_of_ne n k x _ hn, ih]
      · rw [if_neg ho, lookup_cons_of_ne n k x _ hn, lookup_cons_of_ne n k x _ hn, ih]

theorem lookup_applyWrites_not_owned (ws : List (Write α)) (s : Store α) (n : String)
    (h : ∀ w ∈ ws, n ∉ w.owned) : (applyWrites ws s).lookup n = s.lookup n := by
  induction ws generalizing s with
  | nil => rfl
  | cons w rest ih =>
    simp only [applyWrites, List.foldl_cons]
    have := ih (applyWrite w s) (fun w' hw' => h w' (List.mem_cons_of_mem _ hw'))
    simp only [applyWrites] at this
    rw [this]
    exact lookup_applyWrite_not_owned w s n (h w List.mem_cons_self)

end store

section pairs
variable {α : Type} [Add α] [Sub α] [Mul α] [One α]

/-- frame: `polyak_update` writes only the tensors named as targets -/
theorem polyakPairs_frame (τ : α) (ps : List (String × String)) (s s' : Store α)
    (h : polyakPairs τ ps s = some s') (m : String) (hm : m ∉ ps.map Prod.snd) :
    s'.lookup m = s.lookup m := by
  induction ps generalizing s with
  | nil =>
    simp only [polyakPairs, Option.some.injEq] at h
    subst h; rfl
  | cons p rest ih =>
    obtain ⟨o, t⟩ := p
    simp only [List.map_cons, List.mem_cons, not_or] at hm
    simp only [polyakPairs] at h
    cases ho : s.lookup o with
    | none => rw [ho] at h; simp at h
    | some ov =>
      cases ht : s.lookup t with
      | none => rw [ho, ht] at h; simp at h
      | some tv =>
        rw [ho, ht] at h
        simp only at h
        cases hp : polyakTensor τ tv ov with
        | none => rw [hp] at h; simp at h
        | some nv =>
          rw [hp] at h
          simp only at h
          rw [ih (s.set t nv) h hm.2]
          exact lookup_set_ne s t m nv hm.1

/-- the rule: every target named in the call ends as `polyakTensor τ (old target) (old online)` -/
theorem polyakPairs_rule (τ : α) (ps : List (String × String)) (s s' : Store α)
    (h : polyakPairs τ ps s = some s')
    (hnd : (ps.map Prod.snd).Nodup)
    (hdis : ∀ o ∈ ps.map Prod.fst, o ∉ ps.map Prod.snd)
    (o t : String) (hp : (o, t) ∈ ps) :
    ∃ ov tv nv, s.lookup o = some ov ∧ s.lookup t = some tv ∧ polyakTensor τ tv ov = some nv ∧
      s'.lookup t = some nv := by
  induction ps generalizing s with
  | nil => simp at hp
  | cons p rest ih =>
    obtain ⟨o0, t0⟩ := p
    simp only [List.map_cons, List.nodup_cons] at hnd
    simp only [polyakPairs] at h
    cases ho : s.lookup o0 with
    | none => rw [ho] at h; simp at h
    | some ov =>
      cases ht : s.lookup t0 with
      | none => rw [ho, ht] at h; simp at h
      | some tv =>
        rw [ho, ht] at h
        simp only at h
        cases hpt : polyakTensor τ tv ov with
        | none => rw [hpt] at h; simp at h
        | some nv =>
          rw [hpt] at h
          simp only at h
          rcases List.mem_cons.mp hp with heq | hin
          · cases heq
            refine ⟨ov, tv, nv, ho, ht, hpt, ?_⟩
            rw [polyakPairs_frame τ rest (s.set t nv) s' h t hnd.1]
            exact lookup_set_eq s t nv tv ht
          · have hdis' : ∀ o' ∈ rest.map Prod.fst, o' ∉ rest.map Prod.snd := by
              intro o' ho' hc
              exact hdis o' (by simp only [List.map_cons, List.mem_cons]; exact Or.inr ho')
                (by simp only [List.map_cons, List.mem_cons]; exact Or.inr hc)
            obtain ⟨ov', tv', nv', h1, h2, h3, h4⟩ := ih (s.set t0 nv) h hnd.2 hdis' hin
            have hot : o ≠ t0 := by
              intro hc
              have ho_in : o ∈ ((o0, t0) :: rest).map Prod.fst := by
                simp only [List.map_cons, List.mem_cons]
                exact Or.inr (List.mem_map_of_mem (f := Prod.fst) hin)
              exact hdis o ho_in (by simp [hc])
            have htt : t ≠ t0 := by
              intro hc
              exact hnd.1 (hc ▸ List.mem_map_of_mem (f := Prod.snd) hin)
            rw [lookup_set_ne s t0 o nv hot] at h1
            rw [lookup_set_ne s t0 t nv htt] at h2
            exact ⟨ov', tv', nv', h1, h2, h3, h4⟩

end pairs

end SB3Verif.Lemmas.Polyak
