/-
Driver for C03: runs the executable model `SB3Verif.Replay` on the operations the harness
(`/verif/harness/c03.py`) performed on the real `ReplayBuffer` / `DictReplayBuffer`.

ops (state = the current buffer, `none` before the first successful `new`)
  {"op":"new","buffer_size":B,"n_envs":n,"memopt":b,"hto":b,"dict":b}
                                   → {"cap":k}                      | {"error":"ctor-rejects"}
  {"op":"add","row":[[obs,next,act,rew,done,timeout],…]}            (one entry per env; tags are naturals)
                                   → {"pos":p,"full":b,"size":k}    | {"error":"row-length"}
  {"op":"reset"}                   → {"pos":0,"full":false,"size":0}
  {"op":"size"}                    → {"size":k}
  {"op":"table"}                   → {"rows":[[slot,env,obs,next,act,rew,done],…]} | {"error":"empty-range"}
  {"op":"table","norm":{"obs":[m,s,c]|null,"rew":[s,c]|null}}
                                   → same, obs/next/rew as rationals [num,den] after clipAffine
  {"op":"sample","draws":[[k,e],…]} → {"rows":[[obs,next,act,rew,done],…]}  | {"error":"bad-draw"}
-/
import SB3Verif.Driver.Proto
import SB3Verif.Model.Replay

open Lean SB3Verif.Proto SB3Verif.Replay

def needBuf (s : Option Buf) : Except String Buf :=
  match s with
  | some b => .ok b
  | none => .error "no-buffer"

def asTrans (j : Json) : Except String Trans := do
  let l ← asList j
  match l with
  | [o, n, a, r, d, t] =>
    return { obs := ← asNat o, next := ← asNat n, act := ← asNat a, rew := ← asNat r,
             done := ← asBool d, timeout := ← asBool t }
  | _ => throw s!"bad transition {j.compress}"

def stateJ (b : Buf) : Json := objJ [("pos", natJ b.pos), ("full", boolJ b.full), ("size", natJ b.size)]

def optTriple (j : Json) (k : String) : Except String (Option (List Rat)) :=
  match j.getObjVal? k with
  | .ok Json.null => .ok none
  | .ok v => (asListOf asRat v).map some
  | .error _ => .ok none

def stepC03 (s : Option Buf) (j : Json) : Except String (Option Buf × Json) := do
  let op ← getStr j "op"
  match op with
  | "new" =>
    let c : Cfg := { bufferSize := ← getNat j "buffer_size", nEnvs := ← getNat j "n_envs",
                     memopt := ← getBool j "memopt", hto := ← getBool j "hto", isDict := ← getBool j "dict" }
    match Buf.new? c with
    | some b => return (some b, objJ [("cap", natJ b.cfg.cap)])
    | none => return (none, errJ "ctor-rejects")
  | "add" =>
    let b ← needBuf s
    let row ← getList asTrans j "row"
    if (Op.add row).wf b.cfg.nEnvs then
      let b' := b.step (.add row)
      return (some b', stateJ b')
    else throw "row-length"
  | "reset" =>
    let b ← needBuf s
    let b' := b.step .reset
    return (some b', stateJ b')
  | "size" =>
    let b ← needBuf s
    return (s, objJ [("size", natJ b.size)])
  | "table" =>
    let b ← needBuf s
    match b.table with
    | none => throw "empty-range"
    | some rows =>
      match j.getObjVal? "norm" with
      | .ok nj =>
        let fo : Nat → Rat ← (do
          match ← optTriple nj "obs" with
          | some [m, sc, c] => pure (fun x => clipAffine m sc c (x : Rat))
          | none => pure (fun x => (x : Rat))
          | _ => throw "bad norm.obs")
        let fr : Nat → Rat ← (do
          match ← optTriple nj "rew" with
          | some [sc, c] => pure (fun x => clipAffine 0 sc c (x : Rat))
          | none => pure (fun x => (x : Rat))
          | _ => throw "bad norm.rew")
        let out := rows.map fun (p, t) =>
          let u := t.normalize fo fr
          Json.arr #[natJ p.1, natJ p.2, ratJ u.obs, ratJ u.next, natJ u.act, ratJ u.rew, intJ u.done]
        return (s, objJ [("rows", Json.arr out.toArray)])
      | .error _ =>
        let out := rows.map fun (p, t) =>
          Json.arr #[natJ p.1, natJ p.2, natJ t.obs, natJ t.next, natJ t.act, natJ t.rew, intJ t.done]
        return (s, objJ [("rows", Json.arr out.toArray)])
  | "sample" =>
    let b ← needBuf s
    let draws ← getList (fun d => do
      match ← asList d with
      | [k, e] => return ((← asNat k), (← asNat e))
      | _ => throw "bad draw") j "draws"
    match b.sample draws with
    | none => throw "bad-draw"
    | some out =>
      let rows := out.map fun t => Json.arr #[natJ t.obs, natJ t.next, natJ t.act, natJ t.rew, intJ t.done]
      return (s, objJ [("rows", Json.arr rows.toArray)])
  | _ => throw s!"bad-op {op}"

def main : IO Unit := SB3Verif.Proto.run stepC03 none
