/-
Helper lemmas for C10 (`SB3Verif/Props/C10.lean`): soundness and completeness of the taint analysis `traceOK`
of `SB3Verif/Model/Seeding.lean`, and the invariants of the library's draw-site trace `libTrace`.
-/
import SB3Verif.Model.Seeding

namespace SB3Verif.Lemmas.Seeding

open SB3Verif.Seeding

/-! ### Soundness: unwinding -/

/-- two generator states agree on everything the analysis marks as seed-determined -/
def Agree (L : Low) (a b : RngState) : Prop :=
  (∀ g, L.gens g = true → a.gens g = b.gens g) ∧
  (∀ i, L.pend i = .none → a.pending i = none ∧ b.pending i = none) ∧
  (∀ i, L.pend i = .some → a.pending i = b.pending i ∧ ∃ k, a.pending i = some k)

theorem agree_bot (a b : RngState) : Agree Low.bot a b := by
  refine ⟨?_, ?_, ?_⟩ <;> intro x h <;> simp [Low.bot] at h

theorem step_unwinding (L : Low) (a b : RngState) (op : Op) (h : Agree L a b) (ok : opOK L op = true) :
    (step a op).2 = (step b op).2 ∧ Agree (lowStep L op) (step a op).1 (step b op).1 := by
  obtain ⟨hg, hn, hs⟩ := h
  cases op with
  | seed g s =>
    by_cases hos : g = .os
    · simp [step, lowStep, hos]; exact ⟨hg, hn, hs⟩
    · simp only [step, lowStep, hos, if_false]
      refine ⟨trivial, ?_, hn, hs⟩
      intro x hx
      simp only [RngState.setGen]
      by_cases hxg : x = g
      · simp [hxg]
      · simp only [hxg, if_false] at hx ⊢
        exact hg x hx
  | reset g =>
    by_cases hos : g = .os
    · simp [step, lowStep, hos]; exact ⟨hg, hn, hs⟩
    · simp only [step, lowStep, hos, if_false]
      refine ⟨trivial, ?_, hn, hs⟩
      intro x hx
      simp only [RngState.setGen]
      by_cases hxg : x = g
      · simp [hxg]
      · simp only [hxg, if_false] at hx ⊢
        exact hg x hx
  | envSeed s n =>
    simp only [step, lowStep]
    refine ⟨trivial, hg, ?_, ?_⟩
    · intro i hi
      by_cases hin : i < n
      · simp [hin] at hi
      · simp only [hin, if_false] at hi ⊢
        exact hn i hi
    · intro i hi
      by_cases hin : i < n
      · simp [hin]
      · simp only [hin, if_false] at hi ⊢
        exact hs i hi
  | setOptions o => exact ⟨rfl, hg, hn, hs⟩
  | envReset n =>
    simp only [step, lowStep]
    refine ⟨trivial, ?_, ?_, ?_⟩
    · intro x hx
      cases x with
      | env i =>
        simp only [deliver]
        by_cases hin : i < n
        · simp only [hin, if_true] at hx ⊢
          cases hp : L.pend i with
          | unknown => simp [hp] at hx
          | none =>
            simp only [hp] at hx
            obtain ⟨h1, h2⟩ := hn i hp
            simp only [h1, h2]
            exact hg _ hx
          | some =>
            obtain ⟨h1, k, h2⟩ := hs i hp
            rw [← h1, h2]
        · simp only [hin, if_false] at hx ⊢
          exact hg _ hx
      | py => exact hg _ hx
      | np => exact hg _ hx
      | torch => exact hg _ hx
      | actSpace => exact hg _ hx
      | obsSpace => exact hg _ hx
      | os => exact hg _ hx
      | noise => exact hg _ hx
    · intro i hi
      by_cases hin : i < n
      · simp [hin]
      · simp only [hin, if_false] at hi ⊢
        exact hn i hi
    · intro i hi
      by_cases hin : i < n
      · simp [hin] at hi
      · simp only [hin, if_false] at hi ⊢
        exact hs i hi
  | draw g k =>
    simp only [opOK] at ok
    have e := hg g ok
    simp only [step, lowStep, e]
    refine ⟨trivial, ?_, hn, hs⟩
    intro x hx
    simp only [RngState.advance, RngState.setGen]
    by_cases hxg : x = g
    · simp [hxg, e]
    · simp only [hxg, if_false]
      exact hg x hx
  | discard g k =>
    simp only [step, lowStep]
    refine ⟨trivial, ?_, hn, hs⟩
    intro x hx
    simp only [RngState.advance, RngState.setGen]
    by_cases hxg : x = g
    · subst hxg
      simp [hg x hx]
    · simp only [hxg, if_false]
      exact hg x hx

theorem run_unwinding (t : List Op) : ∀ (L : Low) (a b : RngState), Agree L a b → traceOK L t = true →
    (run t a).2 = (run t b).2 ∧ Agree (lowRun L t) (run t a).1 (run t b).1 := by
  induction t with
  | nil => intro L a b h _; exact ⟨rfl, h⟩
  | cons op t ih =>
    intro L a b h ok
    simp only [traceOK, Bool.and_eq_true] at ok
    obtain ⟨e1, h1⟩ := step_unwinding L a b op h ok.1
    obtain ⟨e2, h2⟩ := ih _ _ _ h1 ok.2
    simp only [run, lowRun]
    exact ⟨by rw [e1, e2], h2⟩

/-! ### Completeness: a draw the analysis rejects really depends on the ambient state -/

/-- two ambient states that differ everywhere -/
def ambA : RngState := ⟨fun _ => ⟨.ambient 0, 0⟩, fun _ => some 0, fun _ => none⟩
def ambB : RngState := ⟨fun _ => ⟨.ambient 1, 0⟩, fun _ => some 1, fun _ => none⟩

/-- along any trace started in `ambA` / `ambB`, whatever the analysis does not mark differs -/
def Differ (L : Low) (a b : RngState) : Prop :=
  (∀ g, L.gens g = false → (a.gens g).origin ≠ (b.gens g).origin) ∧
  (∀ i, L.pend i = .unknown → ∃ x y, a.pending i = some x ∧ b.pending i = some y ∧ x ≠ y) ∧
  (∀ i, L.pend i = .none → a.pending i = none ∧ b.pending i = none)

theorem differ_bot : Differ Low.bot ambA ambB := by
  refine ⟨?_, ?_, ?_⟩
  · intro g _; simp [ambA, ambB]
  · intro i _; exact ⟨0, 1, rfl, rfl, by decide⟩
  · intro i h; simp [Low.bot] at h

theorem step_differ (L : Low) (a b : RngState) (op : Op) (h : Differ L a b) :
    Differ (lowStep L op) (step a op).1 (step b op).1 := by
  obtain ⟨hg, hp, hn⟩ := h
  cases op with
  | seed g s =>
    by_cases hos : g = .os
    · simp [step, lowStep, hos]; exact ⟨hg, hp, hn⟩
    · simp only [step, lowStep, hos, if_false]
      refine ⟨?_, hp, hn⟩
      intro x hx
      simp only [RngState.setGen]
      by_cases hxg : x = g
      · simp [hxg] at hx
      · simp only [hxg, if_false] at hx ⊢
        exact hg x hx
  | reset g =>
    by_cases hos : g = .os
    · simp [step, lowStep, hos]; exact ⟨hg, hp, hn⟩
    · simp only [step, lowStep, hos, if_false]
      refine ⟨?_, hp, hn⟩
      intro x hx
      simp only [RngState.setGen]
      by_cases hxg : x = g
      · simp [hxg] at hx
      · simp only [hxg, if_false] at hx ⊢
        exact hg x hx
  | envSeed s n =>
    simp only [step, lowStep]
    refine ⟨hg, ?_, ?_⟩
    · intro i hi
      by_cases hin : i < n
      · simp [hin] at hi
      · simp only [hin, if_false] at hi ⊢
        exact hp i hi
    · intro i hi
      by_cases hin : i < n
      · simp [hin] at hi
      · simp only [hin, if_false] at hi ⊢
        exact hn i hi
  | setOptions o => exact ⟨hg, hp, hn⟩
  | envReset n =>
    simp only [step, lowStep]
    refine ⟨?_, ?_, ?_⟩
    · intro x hx
      cases x with
      | env i =>
        simp only [deliver]
        by_cases hin : i < n
        · simp only [hin, if_true] at hx ⊢
          cases hpi : L.pend i with
          | unknown =>
            obtain ⟨x, y, h1, h2, hxy⟩ := hp i hpi
            simp only [h1, h2]
            intro hc
            exact hxy (Origin.seed.inj hc)
          | none =>
            simp only [hpi] at hx
            obtain ⟨h1, h2⟩ := hn i hpi
            simp only [h1, h2]
            exact hg _ hx
          | some => simp [hpi] at hx
        · simp only [hin, if_false] at hx ⊢
          exact hg _ hx
      | py => exact hg _ hx
      | np => exact hg _ hx
      | torch => exact hg _ hx
      | actSpace => exact hg _ hx
      | obsSpace => exact hg _ hx
      | os => exact hg _ hx
      | noise => exact hg _ hx
    · intro i hi
      by_cases hin : i < n
      · simp [hin] at hi
      · simp only [hin, if_false] at hi ⊢
        exact hp i hi
    · intro i hi
      by_cases hin : i < n
      · simp [hin]
      · simp only [hin, if_false] at hi ⊢
        exact hn i hi
  | draw g k =>
    simp only [step, lowStep]
    refine ⟨?_, hp, hn⟩
    intro x hx
    simp only [RngState.advance, RngState.setGen]
    by_cases hxg : x = g
    · subst hxg; simp; exact hg x hx
    · simp only [hxg, if_false]; exact hg x hx
  | discard g k =>
    simp only [step, lowStep]
    refine ⟨?_, hp, hn⟩
    intro x hx
    simp only [RngState.advance, RngState.setGen]
    by_cases hxg : x = g
    · subst hxg; simp; exact hg x hx
    · simp only [hxg, if_false]; exact hg x hx


theorem step_out_length (a b : RngState) (op : Op) : (step a op).2.length = (step b op).2.length := by
  cases op with
  | seed g s => by_cases h : g = .os <;> simp [step, h]
  | reset g => by_cases h : g = .os <;> simp [step, h]
  | envSeed s n => rfl
  | setOptions o => rfl
  | envReset n => rfl
  | draw g k => rfl
  | discard g k => rfl

theorem run_differ (t : List Op) : ∀ (L : Low) (a b : RngState), Differ L a b → traceOK L t = false →
    (run t a).2 ≠ (run t b).2 := by
  induction t with
  | nil => intro L a b _ h; simp [traceOK] at h
  | cons op t ih =>
    intro L a b hd hbad
    simp only [run]
    by_cases hok : opOK L op = true
    · simp only [traceOK, hok, Bool.true_and] at hbad
      have := ih _ _ _ (step_differ L a b op hd) hbad
      intro hc
      exact this (List.append_inj hc (step_out_length a b op)).2
    · cases op with
      | draw g k =>
        simp only [opOK, Bool.not_eq_true] at hok
        have := hd.1 g hok
        intro hc
        simp only [step, List.cons_append, List.nil_append, List.cons.injEq, Draw.mk.injEq] at hc
        exact this hc.1.2.1
      | seed g s => simp [opOK] at hok
      | reset g => simp [opOK] at hok
      | envSeed s n => simp [opOK] at hok
      | setOptions o => simp [opOK] at hok
      | envReset n => simp [opOK] at hok
      | discard g k => simp [opOK] at hok

/-! ### Composition -/

theorem traceOK_append (t u : List Op) : ∀ L, traceOK L (t ++ u) = (traceOK L t && traceOK (lowRun L t) u) := by
  induction t with
  | nil => intro L; simp [traceOK, lowRun]
  | cons op t ih => intro L; simp [traceOK, lowRun, ih, Bool.and_assoc]

theorem lowRun_append (t u : List Op) : ∀ L, lowRun L (t ++ u) = lowRun (lowRun L t) u := by
  induction t with
  | nil => intro L; rfl
  | cons op t ih => intro L; simp [lowRun, ih]

theorem run_append (t u : List Op) : ∀ st, run (t ++ u) st =
    ((run u (run t st).1).1, (run t st).2 ++ (run u (run t st).1).2) := by
  induction t with
  | nil => intro st; simp [run]
  | cons op t ih => intro st; simp [run, ih, List.append_assoc]

theorem deliveries_append (t u : List Op) : ∀ st, deliveries (t ++ u) st =
    deliveries t st ++ deliveries u (run t st).1 := by
  induction t with
  | nil => intro st; simp [deliveries, run]
  | cons op t ih => intro st; simp [deliveries, run, ih, List.append_assoc]

/-! ### The library's trace -/

/-- the generator families the library assigns from the seed -/
def inFamily (cfg : Cfg) : Gen → Bool
  | .py | .np | .torch | .actSpace => true
  | .env i => decide (i < cfg.nEnvs)
  | .noise => decide (cfg.noise ≠ .none)
  | _ => false

/-- a used draw on a seeded family, or a discarded draw -/
def fineOp (cfg : Cfg) : Op → Bool
  | .draw g _ => inFamily cfg g
  | .discard _ _ => true
  | _ => false

theorem envDrawOps_fine (cfg : Cfg) : ∀ (ds : List Nat) (i : Nat), (envDrawOps cfg i ds).all (fineOp cfg) = true := by
  intro ds
  induction ds with
  | nil => intro i; rfl
  | cons k ks ih =>
    intro i
    simp only [envDrawOps]
    by_cases h : i < cfg.nEnvs
    · simp only [h, if_true, List.all_append, ih, Bool.and_true, perEnv]
      cases cfg.envPy <;> cases cfg.envNp <;> simp [fineOp, inFamily, h]
    · simp [h]

theorem actionOps_fine (cfg : Cfg) (t : Nat) (b : Bool) : (actionOps cfg t b).all (fineOp cfg) = true := by
  simp only [actionOps, predictOps, noiseOps]
  cases cfg.algo <;> cases hn : cfg.noise <;> cases cfg.useSde <;> cases b <;> cases warmup cfg t <;>
    simp [Algo.onPolicy, fineOp, inFamily, hn]

theorem trainOps_fine (cfg : Cfg) (n : Nat) (s b : Bool) : (trainOps cfg n s b).all (fineOp cfg) = true := by
  simp only [trainOps]
  cases cfg.algo <;> cases b <;> cases s <;> simp [fineOp, inFamily]

theorem sdeResample_fine (cfg : Cfg) (k : Nat) : (sdeResample cfg k).all (fineOp cfg) = true := by
  simp only [sdeResample]
  split <;> simp [fineOp, inFamily]

/-- every segment of `learn` except the `envReset` itself consists of fine operations -/
def segTail (cfg : Cfg) : Ev → List Op
  | .reset ds => envDrawOps cfg 0 ds
  | .learnStart => []
  | e => segOps cfg e

theorem segTail_fine (cfg : Cfg) (e : Ev) : (segTail cfg e).all (fineOp cfg) = true := by
  cases e with
  | learnStart => rfl
  | rolloutStart => simp only [segTail, segOps]; split <;> simp [fineOp, inFamily]
  | step t k b ds =>
    simp only [segTail, segOps, List.all_append, sdeResample_fine, actionOps_fine, envDrawOps_fine, Bool.and_self]
  | rolloutEnd => rfl
  | train n s b => exact trainOps_fine cfg n s b
  | reset ds => exact envDrawOps_fine cfg ds 0
  | idle => rfl

/-- analysis state in which the whole family is seed-determined and no env seed is pending -/
def Good (cfg : Cfg) (L : Low) : Prop :=
  (∀ g, inFamily cfg g = true → L.gens g = true) ∧ (∀ i, i < cfg.nEnvs → L.pend i = .none)

/-- analysis state after `_setup_model`: globals and action space assigned, env seeds pending -/
def Pre (cfg : Cfg) (L : Low) : Prop :=
  L.gens .py = true ∧ L.gens .np = true ∧ L.gens .torch = true ∧ L.gens .actSpace = true ∧
  (∀ i, i < cfg.nEnvs → L.pend i = .some)

theorem fine_ok (cfg : Cfg) (L : Low) (hL : Good cfg L) (t : List Op) (h : t.all (fineOp cfg) = true) :
    traceOK L t = true ∧ lowRun L t = L := by
  induction t with
  | nil => exact ⟨rfl, rfl⟩
  | cons op t ih =>
    simp only [List.all_cons, Bool.and_eq_true] at h
    obtain ⟨h1, h2⟩ := h
    cases op with
    | draw g k =>
      simp only [fineOp] at h1
      simp only [traceOK, opOK, lowStep, lowRun, hL.1 g h1, Bool.true_and]
      exact ih h2
    | discard g k =>
      simp only [traceOK, opOK, lowStep, lowRun, Bool.true_and]
      exact ih h2
    | seed g s => simp [fineOp] at h1
    | reset g => simp [fineOp] at h1
    | envSeed s n => simp [fineOp] at h1
    | setOptions o => simp [fineOp] at h1
    | envReset n => simp [fineOp] at h1

theorem construct_ok (cfg : Cfg) :
    traceOK Low.bot (construct cfg) = true ∧ Pre cfg (lowRun Low.bot (construct cfg)) := by
  cases hc : cfg.cnn <;>
    simp [construct, hc, traceOK, lowRun, lowStep, opOK, Low.bot, Pre]

theorem learnStart_pre (cfg : Cfg) (L : Low) (h : Pre cfg L) :
    traceOK L (learnStartOps cfg) = true ∧ Pre cfg (lowRun L (learnStartOps cfg)) ∧
    (inFamily cfg .noise = true → (lowRun L (learnStartOps cfg)).gens .noise = true) := by
  obtain ⟨h1, h2, h3, h4, h5⟩ := h
  cases hn : cfg.noise <;>
    simp [learnStartOps, hn, lowRun, lowStep, traceOK, opOK, Pre, inFamily, h1, h2, h3, h4] <;> exact h5

theorem learnStart_good (cfg : Cfg) (L : Low) (h : Good cfg L) :
    traceOK L (learnStartOps cfg) = true ∧ Good cfg (lowRun L (learnStartOps cfg)) := by
  obtain ⟨h1, h2⟩ := h
  cases hn : cfg.noise
  · simp only [learnStartOps, hn, lowRun, traceOK]; exact ⟨trivial, h1, h2⟩
  all_goals
    simp only [learnStartOps, hn, lowRun, traceOK, opOK, lowStep, Bool.and_self]
    refine ⟨trivial, ?_, h2⟩
    intro g hg
    by_cases e : g = .noise
    · simp [e]
    · simp [e]; exact h1 g hg

theorem reset_pre (cfg : Cfg) (L : Low) (h : Pre cfg L)
    (hN : inFamily cfg .noise = true → L.gens .noise = true) : Good cfg (lowStep L (.envReset cfg.nEnvs)) := by
  obtain ⟨h1, h2, h3, h4, h5⟩ := h
  refine ⟨?_, ?_⟩
  · intro g hg
    cases g with
    | env i =>
      simp only [inFamily, decide_eq_true_eq] at hg
      simp [lowStep, hg, h5 i hg]
    | py => simpa [lowStep] using h1
    | np => simpa [lowStep] using h2
    | torch => simpa [lowStep] using h3
    | actSpace => simpa [lowStep] using h4
    | obsSpace => simp [inFamily] at hg
    | os => simp [inFamily] at hg
    | noise => simpa [lowStep] using hN hg
  · intro i hi
    simp [lowStep, hi]

theorem reset_good (cfg : Cfg) (L : Low) (h : Good cfg L) : Good cfg (lowStep L (.envReset cfg.nEnvs)) := by
  obtain ⟨h1, h2⟩ := h
  refine ⟨?_, ?_⟩
  · intro g hg
    cases g with
    | env i =>
      have hi : i < cfg.nEnvs := by simpa [inFamily] using hg
      simp only [lowStep, hi, if_true, h2 i hi]
      exact h1 _ hg
    | py => simpa [lowStep] using h1 _ hg
    | np => simpa [lowStep] using h1 _ hg
    | torch => simpa [lowStep] using h1 _ hg
    | actSpace => simpa [lowStep] using h1 _ hg
    | obsSpace => simp [inFamily] at hg
    | os => simp [inFamily] at hg
    | noise => simpa [lowStep] using h1 _ hg
  · intro i hi
    simp [lowStep, hi]

theorem segOps_eq (cfg : Cfg) (e : Ev) :
    segOps cfg e = (match e with | .reset _ => [.envReset cfg.nEnvs] | .learnStart => learnStartOps cfg | _ => []) ++
      segTail cfg e := by
  cases e <;> simp [segOps, segTail]

theorem seg_ok (cfg : Cfg) (L : Low) (hL : Good cfg L) (e : Ev) :
    traceOK L (segOps cfg e) = true ∧ Good cfg (lowRun L (segOps cfg e)) := by
  cases e with
  | learnStart => exact learnStart_good cfg L hL
  | reset ds =>
    have hg := reset_good cfg L hL
    have := fine_ok cfg _ hg _ (envDrawOps_fine cfg ds 0)
    simp only [segOps, List.cons_append, List.nil_append, traceOK, opOK, lowRun, Bool.true_and]
    exact ⟨this.1, by rw [this.2]; exact hg⟩
  | rolloutStart =>
    have := fine_ok cfg L hL _ (segTail_fine cfg .rolloutStart)
    simp only [segTail] at this
    exact ⟨this.1, by rw [this.2]; exact hL⟩
  | step t k b ds =>
    have := fine_ok cfg L hL _ (segTail_fine cfg (.step t k b ds))
    simp only [segTail] at this
    exact ⟨this.1, by rw [this.2]; exact hL⟩
  | rolloutEnd => exact ⟨rfl, hL⟩
  | train n s b =>
    have := fine_ok cfg L hL _ (segTail_fine cfg (.train n s b))
    simp only [segTail] at this
    exact ⟨this.1, by rw [this.2]; exact hL⟩
  | idle => exact ⟨rfl, hL⟩

theorem events_ok (cfg : Cfg) (evs : List Ev) : ∀ (L : Low), Good cfg L →
    traceOK L (eventsOps cfg evs) = true ∧ Good cfg (lowRun L (eventsOps cfg evs)) := by
  induction evs with
  | nil => intro L hL; exact ⟨rfl, hL⟩
  | cons e es ih =>
    intro L hL
    obtain ⟨h1, h2⟩ := seg_ok cfg L hL e
    obtain ⟨h3, h4⟩ := ih _ h2
    simp only [eventsOps, traceOK_append, lowRun_append, h1, h3, Bool.and_self]
    exact ⟨trivial, h4⟩

theorem first_reset_ok (cfg : Cfg) (L : Low) (hL : Pre cfg L) (ds : List Nat) :
    traceOK L (firstLearn cfg ds) = true ∧ Good cfg (lowRun L (firstLearn cfg ds)) := by
  obtain ⟨l1, l2, l3⟩ := learnStart_pre cfg L hL
  have hg := reset_pre cfg _ l2 l3
  have := fine_ok cfg _ hg _ (envDrawOps_fine cfg ds 0)
  simp only [firstLearn, traceOK_append, lowRun_append, l1, segOps, List.cons_append, List.nil_append, traceOK,
    opOK, lowRun, Bool.true_and]
  exact ⟨this.1, by rw [this.2]; exact hg⟩

theorem libTrace_ok (cfg : Cfg) (ds : List Nat) (evs : List Ev) :
    traceOK Low.bot (libTrace cfg ds evs) = true ∧ Good cfg (lowRun Low.bot (libTrace cfg ds evs)) := by
  obtain ⟨c1, c2⟩ := construct_ok cfg
  obtain ⟨r1, r2⟩ := first_reset_ok cfg _ c2 ds
  obtain ⟨e1, e2⟩ := events_ok cfg evs _ r2
  simp only [libTrace, traceOK_append, lowRun_append, c1, r1, e1, Bool.and_self]
  exact ⟨trivial, e2⟩


/-! ### Concrete semantics of the library's trace: every value comes from a stream named by the seed -/

/-- the stream the library assigns to a generator of the seeded family -/
def famOrigin (cfg : Cfg) : Gen → Origin
  | .env i => .seed (cfg.seed + i)
  | .noise => .const
  | _ => .seed cfg.seed

/-- the value was read from a generator of the seeded family, whose state came from the seed -/
def FromSeed (cfg : Cfg) (d : Draw) : Prop :=
  inFamily cfg d.gen = true ∧ d.origin = famOrigin cfg d.gen

def SeededInv (cfg : Cfg) (st : RngState) : Prop :=
  (∀ g, inFamily cfg g = true → (st.gens g).origin = famOrigin cfg g) ∧ (∀ i, i < cfg.nEnvs → st.pending i = none) ∧
  (∀ i, i < cfg.nEnvs → st.options i = none)

def PreInv (cfg : Cfg) (st : RngState) : Prop :=
  (st.gens .py).origin = .seed cfg.seed ∧ (st.gens .np).origin = .seed cfg.seed ∧
  (st.gens .torch).origin = .seed cfg.seed ∧ (st.gens .actSpace).origin = .seed cfg.seed ∧
  (∀ i, i < cfg.nEnvs → st.pending i = some (cfg.seed + i))

theorem advance_origin (st : RngState) (g h : Gen) (k : Nat) :
    ((st.advance g k).gens h).origin = (st.gens h).origin := by
  simp only [RngState.advance, RngState.setGen]
  by_cases e : h = g
  · subst e; simp
  · simp [e]

theorem fine_run (cfg : Cfg) (t : List Op) : ∀ (st : RngState), SeededInv cfg st → t.all (fineOp cfg) = true →
    SeededInv cfg (run t st).1 ∧ (∀ d, d ∈ (run t st).2 → FromSeed cfg d) ∧ deliveries t st = [] := by
  induction t with
  | nil => intro st h _; exact ⟨h, by simp [run], rfl⟩
  | cons op t ih =>
    intro st hst h
    simp only [List.all_cons, Bool.and_eq_true] at h
    obtain ⟨h1, h2⟩ := h
    cases op with
    | draw g k =>
      simp only [fineOp] at h1
      have hinv : SeededInv cfg (st.advance g k) :=
        ⟨fun x hx => by rw [advance_origin]; exact hst.1 x hx, hst.2⟩
      obtain ⟨i1, i2, i3⟩ := ih _ hinv h2
      refine ⟨i1, ?_, ?_⟩
      · intro d hd
        simp only [run, step, List.cons_append, List.nil_append, List.mem_cons] at hd
        rcases hd with hd | hd
        · subst hd; exact ⟨h1, hst.1 g h1⟩
        · exact i2 d hd
      · simpa [deliveries, step] using i3
    | discard g k =>
      have hinv : SeededInv cfg (st.advance g k) :=
        ⟨fun x hx => by rw [advance_origin]; exact hst.1 x hx, hst.2⟩
      obtain ⟨i1, i2, i3⟩ := ih _ hinv h2
      refine ⟨i1, ?_, ?_⟩
      · intro d hd
        simp only [run, step, List.nil_append] at hd
        exact i2 d hd
      · simpa [deliveries, step] using i3
    | seed g s => simp [fineOp] at h1
    | reset g => simp [fineOp] at h1
    | envSeed s n => simp [fineOp] at h1
    | setOptions o => simp [fineOp] at h1
    | envReset n => simp [fineOp] at h1

theorem construct_run (cfg : Cfg) (st : RngState) :
    PreInv cfg (run (construct cfg) st).1 ∧ (∀ d, d ∈ (run (construct cfg) st).2 → FromSeed cfg d) ∧
    deliveries (construct cfg) st = [] := by
  cases hc : cfg.cnn <;>
    simp [construct, hc, run, step, deliveries, PreInv, FromSeed, RngState.setGen, RngState.advance,
      inFamily, famOrigin] <;>
    (intro i h1 h2; omega)

theorem learnStart_run_nil (cfg : Cfg) (st : RngState) :
    (run (learnStartOps cfg) st).2 = [] ∧ deliveries (learnStartOps cfg) st = [] := by
  cases hn : cfg.noise <;> simp [learnStartOps, hn, run, step, deliveries]

theorem learnStart_run_pre (cfg : Cfg) (st : RngState) (h : PreInv cfg st) :
    PreInv cfg (run (learnStartOps cfg) st).1 ∧
    (inFamily cfg .noise = true → ((run (learnStartOps cfg) st).1.gens .noise).origin = .const) := by
  obtain ⟨h1, h2, h3, h4, h5⟩ := h
  cases hn : cfg.noise <;>
    simp [learnStartOps, hn, run, step, PreInv, inFamily, RngState.setGen, h1, h2, h3, h4] <;> exact h5

theorem learnStart_run_good (cfg : Cfg) (st : RngState) (h : SeededInv cfg st) :
    SeededInv cfg (run (learnStartOps cfg) st).1 := by
  obtain ⟨h1, h2⟩ := h
  cases hn : cfg.noise
  · simp only [learnStartOps, hn, run]; exact ⟨h1, h2⟩
  all_goals
    simp only [learnStartOps, hn, run, step, reduceCtorEq, if_false]
    refine ⟨?_, h2⟩
    intro g hg
    simp only [RngState.setGen]
    by_cases e : g = .noise
    · simp [e, famOrigin]
    · simp only [e, if_false]; exact h1 g hg

theorem reset_step_pre (cfg : Cfg) (st : RngState) (h : PreInv cfg st)
    (hN : inFamily cfg .noise = true → (st.gens .noise).origin = .const) :
    SeededInv cfg (step st (.envReset cfg.nEnvs)).1 := by
  obtain ⟨h1, h2, h3, h4, h5⟩ := h
  refine ⟨?_, ?_, ?_⟩
  · intro g hg
    cases g with
    | env i =>
      have hi : i < cfg.nEnvs := by simpa [inFamily] using hg
      simp [step, deliver, hi, h5 i hi, famOrigin]
    | py => simpa [step, deliver, famOrigin] using h1
    | np => simpa [step, deliver, famOrigin] using h2
    | torch => simpa [step, deliver, famOrigin] using h3
    | actSpace => simpa [step, deliver, famOrigin] using h4
    | obsSpace => simp [inFamily] at hg
    | os => simp [inFamily] at hg
    | noise => simpa [step, deliver, famOrigin] using hN hg
  · intro i hi
    simp [step, hi]
  · intro i hi
    simp [step, hi]

theorem reset_step_good (cfg : Cfg) (st : RngState) (h : SeededInv cfg st) :
    SeededInv cfg (step st (.envReset cfg.nEnvs)).1 := by
  obtain ⟨h1, h2⟩ := h
  refine ⟨?_, ?_, ?_⟩
  · intro g hg
    cases g with
    | env i =>
      have hi : i < cfg.nEnvs := by simpa [inFamily] using hg
      simp only [step, deliver, hi, if_true, h2.1 i hi]
      exact h1 _ hg
    | py => simpa [step, deliver] using h1 _ hg
    | np => simpa [step, deliver] using h1 _ hg
    | torch => simpa [step, deliver] using h1 _ hg
    | actSpace => simpa [step, deliver] using h1 _ hg
    | obsSpace => simp [inFamily] at hg
    | os => simp [inFamily] at hg
    | noise => simpa [step, deliver] using h1 _ hg
  · intro i hi
    simp [step, hi]
  · intro i hi
    simp [step, hi]

/-- number of `env.reset()` calls of later `learn()` calls among the events -/
def resetCount : List Ev → Nat
  | [] => 0
  | .reset _ :: es => resetCount es + 1
  | _ :: es => resetCount es

theorem map_pending_none (st : RngState) (n : Nat) (h : ∀ i, i < n → st.pending i = none)
    (h' : ∀ i, i < n → st.options i = none) :
    (List.range n).map (fun i => (st.pending i, st.options i)) = List.replicate n (none, none) := by
  apply List.ext_getElem
  · simp
  · intro i h1 h2
    simp only [List.getElem_map, List.getElem_range, List.getElem_replicate]
    rw [h i (by simpa using h1), h' i (by simpa using h1)]

theorem map_pending_some (st : RngState) (n s : Nat) (h : ∀ i, i < n → st.pending i = some (s + i)) :
    (List.range n).map (fun i => (st.pending i, st.options i)) =
      (List.range n).map (fun i => (some (s + i), st.options i)) := by
  apply List.map_congr_left
  intro i hi
  rw [h i (by simpa using hi)]

theorem construct_options (cfg : Cfg) (st : RngState) : (run (construct cfg) st).1.options = st.options := by
  cases hc : cfg.cnn <;> simp [construct, hc, run, step, RngState.setGen, RngState.advance]

theorem learnStart_options (cfg : Cfg) (st : RngState) : (run (learnStartOps cfg) st).1.options = st.options := by
  cases hn : cfg.noise <;> simp [learnStartOps, hn, run, step, RngState.setGen]

theorem seg_run (cfg : Cfg) (st : RngState) (hst : SeededInv cfg st) (e : Ev) :
    SeededInv cfg (run (segOps cfg e) st).1 ∧ (∀ d, d ∈ (run (segOps cfg e) st).2 → FromSeed cfg d) ∧
    deliveries (segOps cfg e) st = List.replicate (resetCount [e]) (List.replicate cfg.nEnvs (none, none)) := by
  cases e with
  | learnStart =>
    obtain ⟨n1, n2⟩ := learnStart_run_nil cfg st
    refine ⟨learnStart_run_good cfg st hst, ?_, ?_⟩
    · intro d hd
      simp only [segOps, n1] at hd
      cases hd
    · simpa [segOps, resetCount] using n2
  | reset ds =>
    have hg := reset_step_good cfg st hst
    obtain ⟨i1, i2, i3⟩ := fine_run cfg _ _ hg (envDrawOps_fine cfg ds 0)
    refine ⟨by simpa [segOps, run] using i1, ?_, ?_⟩
    · intro d hd
      simp only [segOps, List.cons_append, List.nil_append, run] at hd
      have : (step st (.envReset cfg.nEnvs)).2 = [] := rfl
      rw [this, List.nil_append] at hd
      exact i2 d hd
    · simp only [segOps, List.cons_append, List.nil_append, deliveries, i3, resetCount]
      simp [map_pending_none st cfg.nEnvs hst.2.1 hst.2.2, List.replicate]
  | rolloutStart =>
    have := fine_run cfg _ st hst (segTail_fine cfg .rolloutStart)
    simpa [segTail, resetCount] using this
  | step t k b ds =>
    have := fine_run cfg _ st hst (segTail_fine cfg (.step t k b ds))
    simpa [segTail, resetCount] using this
  | rolloutEnd =>
    have := fine_run cfg _ st hst (segTail_fine cfg .rolloutEnd)
    simpa [segTail, resetCount] using this
  | train n s b =>
    have := fine_run cfg _ st hst (segTail_fine cfg (.train n s b))
    simpa [segTail, resetCount] using this
  | idle =>
    have := fine_run cfg _ st hst (segTail_fine cfg .idle)
    simpa [segTail, resetCount] using this

theorem resetCount_cons (e : Ev) (es : List Ev) : resetCount (e :: es) = resetCount [e] + resetCount es := by
  cases e <;> simp [resetCount]; omega

theorem events_run (cfg : Cfg) (evs : List Ev) : ∀ (st : RngState), SeededInv cfg st →
    SeededInv cfg (run (eventsOps cfg evs) st).1 ∧ (∀ d, d ∈ (run (eventsOps cfg evs) st).2 → FromSeed cfg d) ∧
    deliveries (eventsOps cfg evs) st = List.replicate (resetCount evs) (List.replicate cfg.nEnvs (none, none)) := by
  induction evs with
  | nil => intro st h; exact ⟨h, by simp [eventsOps, run], rfl⟩
  | cons e es ih =>
    intro st hst
    obtain ⟨s1, s2, s3⟩ := seg_run cfg st hst e
    obtain ⟨t1, t2, t3⟩ := ih _ s1
    simp only [eventsOps, run_append, deliveries_append]
    refine ⟨t1, ?_, ?_⟩
    · intro d hd
      rcases List.mem_append.mp hd with hd | hd
      · exact s2 d hd
      · exact t2 d hd
    · rw [s3, t3, resetCount_cons e es, List.replicate_append_replicate]

theorem libTrace_run (cfg : Cfg) (ds : List Nat) (evs : List Ev) (st : RngState) :
    SeededInv cfg (run (libTrace cfg ds evs) st).1 ∧
    (∀ d, d ∈ (run (libTrace cfg ds evs) st).2 → FromSeed cfg d) ∧
    deliveries (libTrace cfg ds evs) st =
      (List.range cfg.nEnvs).map (fun i => (some (cfg.seed + i), st.options i)) ::
        List.replicate (resetCount evs) (List.replicate cfg.nEnvs (none, none)) := by
  obtain ⟨c1, c2, c3⟩ := construct_run cfg st
  obtain ⟨l1, l2⟩ := learnStart_run_pre cfg _ c1
  obtain ⟨n1, n2⟩ := learnStart_run_nil cfg (run (construct cfg) st).1
  have hg := reset_step_pre cfg _ l1 l2
  obtain ⟨r1, r2, r3⟩ := fine_run cfg _ _ hg (envDrawOps_fine cfg ds 0)
  have hres : run (firstLearn cfg ds) (run (construct cfg) st).1 =
      run (envDrawOps cfg 0 ds)
        (step (run (learnStartOps cfg) (run (construct cfg) st).1).1 (.envReset cfg.nEnvs)).1 := by
    simp [firstLearn, run_append, n1, segOps, run, step]
  have hdel : deliveries (firstLearn cfg ds) (run (construct cfg) st).1 =
      [(List.range cfg.nEnvs).map (fun i => (some (cfg.seed + i), st.options i))] := by
    simp only [firstLearn, deliveries_append, n2, List.nil_append, segOps, List.cons_append, deliveries, r3,
      List.append_nil]
    rw [map_pending_some _ cfg.nEnvs cfg.seed l1.2.2.2.2, learnStart_options, construct_options]
  have r1' := r1
  rw [← hres] at r1'
  obtain ⟨e1, e2, e3⟩ := events_run cfg evs _ r1'
  simp only [libTrace, run_append, deliveries_append]
  refine ⟨e1, ?_, ?_⟩
  · intro d hd
    rcases List.mem_append.mp hd with hd | hd
    · exact c2 d hd
    · rcases List.mem_append.mp hd with hd | hd
      · rw [hres] at hd; exact r2 d hd
      · exact e2 d hd
  · rw [c3, e3, hdel]; rfl


/-! ### Generators outside the seeded family are never marked -/

/-- operations that only assign generators of the seeded family -/
def famOp (cfg : Cfg) : Op → Bool
  | .seed g _ => inFamily cfg g
  | .reset g => inFamily cfg g
  | .envSeed _ _ => true
  | .setOptions _ => true
  | .envReset n => decide (n ≤ cfg.nEnvs)
  | .draw _ _ => true
  | .discard _ _ => true

theorem outside_stays (cfg : Cfg) (t : List Op) : ∀ (L : Low), t.all (famOp cfg) = true →
    (∀ g, inFamily cfg g = false → L.gens g = false) →
    ∀ g, inFamily cfg g = false → (lowRun L t).gens g = false := by
  induction t with
  | nil => intro L _ h; exact h
  | cons op t ih =>
    intro L hall h
    simp only [List.all_cons, Bool.and_eq_true] at hall
    obtain ⟨h1, h2⟩ := hall
    simp only [lowRun]
    apply ih _ h2
    intro g hg
    cases op with
    | seed x s =>
      simp only [famOp] at h1
      by_cases hos : x = .os
      · simp only [lowStep, hos, if_true]; exact h g hg
      · simp only [lowStep, hos, if_false]
        by_cases e : g = x
        · subst e; rw [h1] at hg; cases hg
        · simp only [e, if_false]; exact h g hg
    | reset x =>
      simp only [famOp] at h1
      by_cases hos : x = .os
      · simp only [lowStep, hos, if_true]; exact h g hg
      · simp only [lowStep, hos, if_false]
        by_cases e : g = x
        · subst e; rw [h1] at hg; cases hg
        · simp only [e, if_false]; exact h g hg
    | envSeed s n => simpa [lowStep] using h g hg
    | setOptions o => simpa [lowStep] using h g hg
    | envReset n =>
      simp only [famOp, decide_eq_true_eq] at h1
      cases g with
      | env i =>
        have hi : ¬ i < cfg.nEnvs := by simpa [inFamily] using hg
        have hin : ¬ i < n := by omega
        simp only [lowStep, hin, if_false]
        exact h _ hg
      | py => simp [inFamily] at hg
      | np => simp [inFamily] at hg
      | torch => simp [inFamily] at hg
      | actSpace => simp [inFamily] at hg
      | obsSpace => simpa [lowStep] using h _ hg
      | os => simpa [lowStep] using h _ hg
      | noise => simpa [lowStep] using h _ hg
    | draw x k => simpa [lowStep] using h g hg
    | discard x k => simpa [lowStep] using h g hg

theorem fine_famOp' (cfg cfg' : Cfg) (t : List Op) (h : t.all (fineOp cfg) = true) : t.all (famOp cfg') = true := by
  induction t with
  | nil => rfl
  | cons op t ih =>
    simp only [List.all_cons, Bool.and_eq_true] at h ⊢
    refine ⟨?_, ih h.2⟩
    cases op <;> simp_all [fineOp, famOp]

theorem fine_famOp (cfg : Cfg) (t : List Op) (h : t.all (fineOp cfg) = true) : t.all (famOp cfg) = true := by
  induction t with
  | nil => rfl
  | cons op t ih =>
    simp only [List.all_cons, Bool.and_eq_true] at h ⊢
    refine ⟨?_, ih h.2⟩
    cases op <;> simp_all [fineOp, famOp]

theorem learnStartOps_famOp (cfg : Cfg) : (learnStartOps cfg).all (famOp cfg) = true := by
  cases hn : cfg.noise <;> simp [learnStartOps, hn, famOp, inFamily]

theorem segOps_famOp (cfg : Cfg) (e : Ev) : (segOps cfg e).all (famOp cfg) = true := by
  rw [segOps_eq]
  rw [List.all_append, fine_famOp cfg _ (segTail_fine cfg e), Bool.and_true]
  cases e <;> simp [famOp, learnStartOps_famOp]

theorem eventsOps_famOp (cfg : Cfg) (evs : List Ev) : (eventsOps cfg evs).all (famOp cfg) = true := by
  induction evs with
  | nil => rfl
  | cons e es ih => simp only [eventsOps, List.all_append, segOps_famOp, ih, Bool.and_self]

theorem libTrace_famOp (cfg : Cfg) (ds : List Nat) (evs : List Ev) :
    (libTrace cfg ds evs).all (famOp cfg) = true := by
  simp only [libTrace, firstLearn, List.all_append, segOps_famOp, eventsOps_famOp, learnStartOps_famOp, Bool.and_true]
  cases hc : cfg.cnn <;> simp [construct, hc, famOp, inFamily]

theorem libTrace_outside (cfg : Cfg) (ds : List Nat) (evs : List Ev) (g : Gen) (hg : inFamily cfg g = false) :
    (lowRun Low.bot (libTrace cfg ds evs)).gens g = false :=
  outside_stays cfg _ Low.bot (libTrace_famOp cfg ds evs) (fun _ _ => rfl) g hg

/-! ### Dropping the action-noise reset of `_setup_learn` -/

theorem traceOK_snoc_draw (L : Low) (t : List Op) (g : Gen) (k : Nat) (h : (lowRun L t).gens g = false) :
    traceOK L (t ++ [.draw g k]) = false := by
  rw [traceOK_append]
  simp [traceOK, opOK, h]

/-- `__init__` and the first `env.reset()` without `action_noise.reset()`: the noise state is never assigned -/
theorem noReset_noise_unmarked (cfg : Cfg) (ds : List Nat) :
    (lowRun Low.bot (construct cfg ++ segOps cfg (.reset ds))).gens .noise = false := by
  have hall : (construct cfg ++ segOps cfg (.reset ds)).all (famOp { cfg with noise := .none }) = true := by
    simp only [List.all_append, segOps, List.cons_append, List.nil_append, List.all_cons,
      fine_famOp' cfg { cfg with noise := .none } _ (envDrawOps_fine cfg ds 0), Bool.and_true]
    cases hc : cfg.cnn <;> simp [construct, hc, famOp, inFamily]
  exact outside_stays { cfg with noise := .none } _ Low.bot hall (fun _ _ => rfl) .noise (by simp [inFamily])

end SB3Verif.Lemmas.Seeding
