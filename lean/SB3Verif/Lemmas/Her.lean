/-
Helper lemmas for C16 (`SB3Verif/Props/C16.lean`): modular arithmetic on the ring, `setRange`, and the
inductive invariant `Inv` that ties a column of the HER buffer (`SB3Verif.Her.Col`) to its ghost history,
proved for every operation sequence (`inv_runG`). Core Lean only (no Mathlib import needed).
-/
import SB3Verif.Model.Her
namespace SB3Verif.Her.Lemmas
open SB3Verif.Her

theorem mod_window_eq {a b m : Nat} (h : a % m = b % m) (h1 : a ≤ b) (h2 : b < a + m) : a = b := by
  have h3 : (b - a) % m = 0 := Nat.sub_mod_eq_zero_of_mod_eq h.symm
  have h4 : (b - a) % m = b - a := Nat.mod_eq_of_lt (by omega)
  omega

theorem mod_window_ne {a b m : Nat} (h1 : a < b) (h2 : b < a + m) : a % m ≠ b % m := by
  intro h
  have := mod_window_eq h (by omega) h2
  omega

theorem getD_set_eq {α} (l : List α) (i : Nat) (v d : α) (h : i < l.length) : (l.set i v).getD i d = v := by
  simp [List.getD_eq_getElem?_getD, h]

theorem getD_set_ne {α} (l : List α) (i j : Nat) (v d : α) (h : i ≠ j) : (l.set i v).getD j d = l.getD j d := by
  simp [List.getD_eq_getElem?_getD, List.getElem?_set_ne h]

theorem setRange_length (l : List Nat) (start cap v cnt : Nat) : (setRange l start cap v cnt).length = l.length := by
  induction cnt with
  | zero => rfl
  | succ k ih => simp [setRange, ih]

theorem setRange_miss (l : List Nat) (start cap v cnt s d : Nat)
    (h : ∀ k, k < cnt → (start + k) % cap ≠ s) : (setRange l start cap v cnt).getD s d = l.getD s d := by
  induction cnt with
  | zero => rfl
  | succ k ih =>
    simp only [setRange]
    rw [getD_set_ne _ _ _ _ _ (h k (by omega))]
    exact ih (fun k' hk' => h k' (by omega))

theorem setRange_hit (l : List Nat) (start cap v cnt d k : Nat) (hk : k < cnt)
    (hlen : (start + k) % cap < l.length) : (setRange l start cap v cnt).getD ((start + k) % cap) d = v := by
  induction cnt with
  | zero => omega
  | succ n ih =>
    simp only [setRange]
    by_cases e : (start + n) % cap = (start + k) % cap
    · rw [e]; exact getD_set_eq _ _ _ _ (by rw [setRange_length]; exact hlen)
    · rw [getD_set_ne _ _ _ _ _ e]
      have : k ≠ n := by rintro rfl; exact e rfl
      exact ih (by omega)

/-- The segment a valid slot `s` belongs to, in terms of the global add counter:
`f` is the add number stored in the first slot of the segment, `A` bounds the window of live adds. -/
def SegAt (cap : Nat) (eS eL : List Nat) (g : List Rec) (A s : Nat) : Prop :=
  ∃ f j, j < eL.getD s 0 ∧ s = (f + j) % cap ∧ f + eL.getD s 0 ≤ g.length ∧ A ≤ f + cap ∧
    ∀ k, k < eL.getD s 0 → eL.getD ((f + k) % cap) 0 = eL.getD s 0 ∧ eS.getD ((f + k) % cap) 0 = f % cap ∧
      ((g.getD (f + k) default).last = true ↔ k + 1 = eL.getD s 0)

theorem seg_invalidate (cap : Nat) (eS eL : List Nat) (g : List Rec) (hcap : 0 < cap) (hlen : eL.length = cap)
    (hseg : ∀ s, s < cap → 0 < eL.getD s 0 → SegAt cap eS eL g g.length s) :
    ∀ p eL1, p = g.length % cap →
    eL1 = (if 0 < eL.getD p 0 then setRange eL p cap 0 (eS.getD p 0 + eL.getD p 0 - p) else eL) →
    eL1.length = cap ∧ eL1.getD p 0 = 0 ∧ (∀ s, eL.getD s 0 = 0 → eL1.getD s 0 = 0) ∧
      ∀ s, s < cap → 0 < eL1.getD s 0 → SegAt cap eS eL1 g (g.length + 1) s := by
  intro p eL1 hpdef heL1def
  have hp : p < cap := by rw [hpdef]; exact Nat.mod_lt _ hcap
  by_cases h0 : 0 < eL.getD p 0
  · -- the slot belongs to a stored segment: it is its first slot, the whole segment is erased
    obtain ⟨f0, j0, hj0, hs0, hf0, hw0, hall0⟩ := hseg p hp h0
    have hA : g.length = f0 + j0 + cap := by
      have e : (f0 + j0 + cap) % cap = g.length % cap := by rw [Nat.add_mod_right, ← hpdef]; exact hs0.symm
      exact (mod_window_eq e.symm (by omega) (by omega))
    have hj00 : j0 = 0 := by omega
    subst hj00
    have hb : eS.getD p 0 = p := by
      have := (hall0 0 h0).2.1
      rw [← hs0] at this
      rw [this, hpdef, hA]; simp
    have hpf : p = f0 % cap := by rw [hs0]; simp
    have heL1 : eL1 = setRange eL p cap 0 (eL.getD p 0) := by
      rw [heL1def, if_pos h0, hb]; congr 1; omega
    have hslot : ∀ k, (p + k) % cap = (f0 + k) % cap := by
      intro k; rw [hpf]; exact Nat.mod_add_mod _ _ _
    -- a slot that is hit by the erasure is a slot of segment f0
    have hmiss_or : ∀ s, (∃ k, k < eL.getD p 0 ∧ (p + k) % cap = s) ∨ (∀ k, k < eL.getD p 0 → (p + k) % cap ≠ s) := by
      intro s
      by_cases h : ∃ k, k < eL.getD p 0 ∧ (p + k) % cap = s
      · exact Or.inl h
      · refine Or.inr (fun k hk e => h ⟨k, hk, e⟩)
    have hhit0 : ∀ k, k < eL.getD p 0 → eL1.getD ((p + k) % cap) 0 = 0 := by
      intro k hk
      rw [heL1]; exact setRange_hit _ _ _ _ _ _ _ hk (by rw [hlen]; exact Nat.mod_lt _ hcap)
    refine ⟨by rw [heL1, setRange_length, hlen], ?_, ?_, ?_⟩
    · have := hhit0 0 h0
      rwa [Nat.add_zero, Nat.mod_eq_of_lt hp] at this
    · intro s hs
      rcases hmiss_or s with ⟨k, hk, rfl⟩ | hm
      · exact hhit0 k hk
      · rw [heL1, setRange_miss _ _ _ _ _ _ _ hm]; exact hs
    · intro s hs hpos
      rcases hmiss_or s with ⟨k, hk, rfl⟩ | hm
      · rw [hhit0 k hk] at hpos; omega
      · have hsame : eL1.getD s 0 = eL.getD s 0 := by rw [heL1, setRange_miss _ _ _ _ _ _ _ hm]
        rw [hsame] at hpos
        unfold SegAt
        rw [hsame]
        obtain ⟨f, j, hj, hsj, hf, hw, hall⟩ := hseg s hs hpos
        -- segment f is not segment f0
        have hne : f ≠ f0 := by
          rintro rfl
          have hL : eL.getD s 0 = eL.getD p 0 := by
            have h2 := (hall0 0 h0).1
            have h3 := (hall 0 (by omega)).1
            omega
          exact hm j (by omega) (by rw [hslot, ← hsj])
        -- no slot of segment f is hit
        have hnohit : ∀ k', k' < eL.getD s 0 → ∀ k, k < eL.getD p 0 → (p + k) % cap ≠ (f + k') % cap := by
          intro k' hk' k hk e
          have h1 := (hall k' hk')
          have h2 := (hall0 k hk)
          rw [hslot] at e
          rw [← e] at h1
          have hff : f % cap = f0 % cap := by rw [← h1.2.1, ← h2.2.1]
          have : f0 = f := mod_window_eq hff.symm (by omega) (by omega)
          exact hne this.symm
        refine ⟨f, j, hj, hsj, hf, ?_, ?_⟩
        · rcases Nat.lt_or_ge g.length (f + cap) with h | h
          · omega
          · exfalso; exact hne (by omega)
        · intro k hk
          have := hall k hk
          refine ⟨?_, this.2.1, this.2.2⟩
          rw [heL1, setRange_miss _ _ _ _ _ _ _ (fun k0 hk0 => hnohit k hk k0 hk0)]
          exact this.1
  · -- the slot is free: nothing changes; no stored segment starts at add `A - cap`
    have heL1 : eL1 = eL := by rw [heL1def, if_neg h0]
    rw [heL1]
    refine ⟨hlen, by omega, fun s hs => hs, ?_⟩
    intro s hs hpos
    obtain ⟨f, j, hj, hsj, hf, hw, hall⟩ := hseg s hs hpos
    refine ⟨f, j, hj, hsj, hf, ?_, hall⟩
    rcases Nat.lt_or_ge g.length (f + cap) with h | h
    · omega
    · exfalso
      have hA : g.length = f + cap := by omega
      have := (hall 0 (by omega)).1
      have e : (f + 0) % cap = p := by rw [hpdef, hA]; simp
      rw [e] at this; omega


theorem getD_append_left {α} (g l : List α) (i : Nat) (d : α) (h : i < g.length) : (g ++ l).getD i d = g.getD i d := by
  simp [List.getD_eq_getElem?_getD, List.getElem?_append_left h]

theorem seg_write (cap : Nat) (eS eL : List Nat) (g : List Rec) (r : Rec) (v s : Nat)
    (h : SegAt cap eS eL g (g.length + 1) s) :
    SegAt cap (eS.set (g.length % cap) v) eL (g ++ [r]) (g.length + 1) s := by
  obtain ⟨f, j, hj, hsj, hf, hw, hall⟩ := h
  have hl : (g ++ [r]).length = g.length + 1 := by simp
  refine ⟨f, j, hj, hsj, by omega, hw, fun k hk => ?_⟩
  have h3 := hall k hk
  have hne : g.length % cap ≠ (f + k) % cap := (mod_window_ne (by omega) (by omega)).symm
  refine ⟨h3.1, ?_, ?_⟩
  · rw [getD_set_ne _ _ _ _ _ hne]; exact h3.2.1
  · rw [getD_append_left _ _ _ _ (by omega)]; exact h3.2.2

theorem seg_close (cap : Nat) (eS eL : List Nat) (g : List Rec) (C : Nat) (hcap : 0 < cap) (hlen : eL.length = cap)
    (hC1 : C ≤ g.length) (hC2 : g.length ≤ C + cap)
    (hcur : ∀ a, C ≤ a → a < g.length → eL.getD (a % cap) 0 = 0 ∧ eS.getD (a % cap) 0 = C % cap ∧
      ((g.getD a default).last = true ↔ a + 1 = g.length))
    (hseg : ∀ s, s < cap → 0 < eL.getD s 0 → SegAt cap eS eL g g.length s) :
    ∀ d eL3, d = (g.length - C) % cap → eL3 = setRange eL (C % cap) cap d d →
    eL3.length = cap ∧ ∀ s, s < cap → 0 < eL3.getD s 0 → SegAt cap eS eL3 g g.length s := by
  intro d eL3 hddef heL3
  subst heL3
  refine ⟨by rw [setRange_length, hlen], ?_⟩
  have hslot : ∀ k, (C % cap + k) % cap = (C + k) % cap := fun k => Nat.mod_add_mod _ _ _
  have hmiss_or : ∀ s, (∃ k, k < d ∧ (C % cap + k) % cap = s) ∨ (∀ k, k < d → (C % cap + k) % cap ≠ s) := by
    intro s
    by_cases h : ∃ k, k < d ∧ (C % cap + k) % cap = s
    · exact Or.inl h
    · exact Or.inr (fun k hk e => h ⟨k, hk, e⟩)
  have hd : d = 0 ∨ (d = g.length - C ∧ d < cap) := by
    rcases Nat.lt_or_ge (g.length - C) cap with h | h
    · right; rw [hddef]; exact ⟨Nat.mod_eq_of_lt h, Nat.mod_lt _ hcap⟩
    · left; have : g.length - C = cap := by omega
      rw [hddef, this]; simp
  have hhit : ∀ k, k < d → (setRange eL (C % cap) cap d d).getD ((C % cap + k) % cap) 0 = d := by
    intro k hk
    exact setRange_hit _ _ _ _ _ _ _ hk (by rw [hlen]; exact Nat.mod_lt _ hcap)
  intro s hs hpos
  rcases hmiss_or s with ⟨k, hk, rfl⟩ | hm
  · -- a slot of the episode that has just been closed
    rcases hd with h0 | ⟨hdA, hdc⟩
    · omega
    · unfold SegAt
      rw [hhit k hk]
      refine ⟨C, k, hk, hslot k, by omega, hC2, fun k' hk' => ?_⟩
      have h3 := hcur (C + k') (by omega) (by omega)
      refine ⟨?_, h3.2.1, ?_⟩
      · rw [← hslot]; exact hhit k' hk'
      · rw [h3.2.2]; omega
  · have hsame : (setRange eL (C % cap) cap d d).getD s 0 = eL.getD s 0 := setRange_miss _ _ _ _ _ _ _ hm
    rw [hsame] at hpos
    unfold SegAt
    rw [hsame]
    obtain ⟨f, j, hj, hsj, hf, hw, hall⟩ := hseg s hs hpos
    refine ⟨f, j, hj, hsj, hf, hw, fun k hk => ?_⟩
    have h3 := hall k hk
    refine ⟨?_, h3.2.1, h3.2.2⟩
    rw [show (setRange eL (C % cap) cap d d).getD ((f + k) % cap) 0 = eL.getD ((f + k) % cap) 0 from ?_]
    · exact h3.1
    · refine setRange_miss _ _ _ _ _ _ _ (fun k0 hk0 e => ?_)
      rcases hd with h0 | ⟨hdA, hdc⟩
      · omega
      · have h4 := (hcur (C + k0) (by omega) (by omega)).1
        rw [← hslot, e] at h4
        omega


theorem succ_mod (A m : Nat) (hm : 0 < m) : (A + 1) % m = if A % m + 1 = m then 0 else A % m + 1 := by
  have hr : A % m < m := Nat.mod_lt _ hm
  have e : (A + 1) % m = (A % m + 1) % m := (Nat.mod_add_mod _ _ _).symm
  rw [e]
  split
  · next h => rw [h]; simp
  · next h => exact Nat.mod_eq_of_lt (by omega)

theorem pred_mod (A m : Nat) (hm : 0 < m) (hA : 0 < A) : (A % m + m - 1) % m = (A - 1) % m := by
  have e1 : A % m + m - 1 = A % m + (m - 1) := by omega
  rw [e1, Nat.mod_add_mod]
  have e2 : A + (m - 1) = (A - 1) + m := by omega
  rw [e2, Nat.add_mod_right]

theorem closeCnt {C A m : Nat} (hm : 0 < m) (h1 : C ≤ A) (h2 : A ≤ C + m) :
    (if A % m < C % m then A % m + m else A % m) - C % m = (A - C) % m := by
  obtain ⟨d, rfl⟩ : ∃ d, A = C + d := ⟨A - C, by omega⟩
  have hd : d ≤ m := by omega
  have hr : C % m < m := Nat.mod_lt _ hm
  have e : (C + d) % m = (C % m + d) % m := by simp [Nat.add_mod]
  rw [e, Nat.add_sub_cancel_left]
  by_cases hlt : C % m + d < m
  · rw [Nat.mod_eq_of_lt hlt, Nat.mod_eq_of_lt (by omega : d < m)]
    split <;> omega
  · have e2 : (C % m + d) % m = C % m + d - m := by
      rw [Nat.mod_eq_sub_mod (by omega)]; exact Nat.mod_eq_of_lt (by omega)
    rw [e2]
    by_cases hdm : d = m
    · subst hdm; simp
    · rw [Nat.mod_eq_of_lt (by omega : d < m)]
      split <;> omega

/-- The invariant tying a column to its ghost history. -/
structure Inv (cap : Nat) (c : Col) (g : List Rec) : Prop where
  hcap : 0 < cap
  ccap : c.cap = cap
  lenS : c.epStart.length = cap
  lenL : c.epLen.length = cap
  lenD : c.slots.length = cap
  hpos : c.pos = g.length % cap
  live : ∀ a, a < g.length → g.length ≤ a + cap → c.slots.getD (a % cap) default = (g.getD a default).t
  curr : ∃ C, C ≤ g.length ∧ g.length < C + cap ∧ c.cur = C % cap ∧
      ∀ a, C ≤ a → a < g.length →
        c.epLen.getD (a % cap) 0 = 0 ∧ c.epStart.getD (a % cap) 0 = C % cap ∧ (g.getD a default).last = false
  seg : ∀ s, s < cap → 0 < c.epLen.getD s 0 → SegAt cap c.epStart c.epLen g g.length s

theorem inv_init (cap : Nat) (hcap : 0 < cap) : Inv cap (Col.init cap) [] := by
  refine ⟨hcap, rfl, by simp [Col.init], by simp [Col.init], by simp [Col.init], by simp [Col.init], ?_, ?_, ?_⟩
  · intro a h; simp at h
  · exact ⟨0, by simp, by simpa using hcap, by simp [Col.init], fun a _ h => by simp at h⟩
  · intro s hs h
    simp [Col.init, List.getD_eq_getElem?_getD, hs] at h

/-- explicit fields of `Col.add` -/
def addEpLen1 (c : Col) : List Nat :=
  if 0 < c.epLen.getD c.pos 0 then
    setRange c.epLen c.pos c.cap 0 (c.epStart.getD c.pos 0 + c.epLen.getD c.pos 0 - c.pos)
  else c.epLen

def addPos (p cap : Nat) : Nat := if p + 1 = cap then 0 else p + 1

def stored (hTT : Bool) (t : Trans) : Trans := { t with timeout := hTT && t.timeout }


@[simp] theorem invalidate_cap (c : Col) : c.invalidate.cap = c.cap := by simp only [Col.invalidate]; split <;> rfl
@[simp] theorem invalidate_pos (c : Col) : c.invalidate.pos = c.pos := by simp only [Col.invalidate]; split <;> rfl
@[simp] theorem invalidate_cur (c : Col) : c.invalidate.cur = c.cur := by simp only [Col.invalidate]; split <;> rfl
@[simp] theorem invalidate_epStart (c : Col) : c.invalidate.epStart = c.epStart := by
  simp only [Col.invalidate]; split <;> rfl
@[simp] theorem invalidate_slots (c : Col) : c.invalidate.slots = c.slots := by simp only [Col.invalidate]; split <;> rfl
@[simp] theorem invalidate_epLen (c : Col) : c.invalidate.epLen = addEpLen1 c := by
  simp only [Col.invalidate, addEpLen1]; split <;> rfl
@[simp] theorem advance_cap (c : Col) : c.advance.cap = c.cap := by unfold Col.advance; split <;> rfl
@[simp] theorem advance_pos (c : Col) : c.advance.pos = addPos c.pos c.cap := by unfold Col.advance addPos; split <;> rfl
@[simp] theorem advance_cur (c : Col) : c.advance.cur = c.cur := by unfold Col.advance; split <;> rfl
@[simp] theorem advance_epStart (c : Col) : c.advance.epStart = c.epStart := by unfold Col.advance; split <;> rfl
@[simp] theorem advance_epLen (c : Col) : c.advance.epLen = c.epLen := by unfold Col.advance; split <;> rfl
@[simp] theorem advance_slots (c : Col) : c.advance.slots = c.slots := by unfold Col.advance; split <;> rfl

/-- `_compute_episode_length`'s count for the column about to be closed at pointer `p` -/
def closeLen (cur cap p : Nat) : Nat := (if p < cur then p + cap else p) - cur

theorem add_fields (hTT : Bool) (c : Col) (t : Trans) :
    (c.add hTT t).cap = c.cap ∧ (c.add hTT t).pos = addPos c.pos c.cap ∧
    (c.add hTT t).epStart = c.epStart.set c.pos c.cur ∧
    (c.add hTT t).slots = c.slots.set c.pos (stored hTT t) ∧
    (c.add hTT t).epLen = (if t.done then
        setRange (addEpLen1 c) c.cur c.cap (closeLen c.cur c.cap (addPos c.pos c.cap))
          (closeLen c.cur c.cap (addPos c.pos c.cap)) else addEpLen1 c) ∧
    (c.add hTT t).cur = (if t.done then addPos c.pos c.cap else c.cur) := by
  cases hd : t.done <;> simp [Col.add, hd, Col.closeEpisode, closeLen, stored]


theorem getD_append_last {α} (g : List α) (x d : α) : (g ++ [x]).getD g.length d = x := by
  simp [List.getD_eq_getElem?_getD]

theorem inv_add_r (hTT : Bool) (cap : Nat) (c : Col) (g : List Rec) (t : Trans) (r : Rec)
    (hrt : r.t = stored hTT t) (hrl : r.last = t.done) (hinv : Inv cap c g) :
    Inv cap (c.add hTT t) (g ++ [r]) := by
  obtain ⟨hcap', hpos', hS', hD', hL', hcur'⟩ := add_fields hTT c t
  obtain ⟨hcap, ccap, lenS, lenL, lenD, hpos, live, ⟨C, hC1, hC2, hcurC, hrange⟩, seg⟩ := hinv
  have hgl : (g ++ [r]).length = g.length + 1 := by simp
  have hp : g.length % cap < cap := Nat.mod_lt _ hcap
  -- step 1: invalidation
  have h1 := seg_invalidate cap c.epStart c.epLen g hcap lenL seg (g.length % cap) (addEpLen1 c) rfl
    (by unfold addEpLen1; rw [hpos, ccap])
  obtain ⟨hl1, hz1, hzero1, hseg1⟩ := h1
  rw [hpos] at hS' hD'
  -- pointer
  have hposn : (c.add hTT t).pos = (g.length + 1) % cap := by
    rw [hpos', hpos, ccap, succ_mod _ _ hcap]; rfl
  -- facts about the slots of the current (open) episode, including the new one
  have hrange2 : ∀ a, C ≤ a → a < g.length + 1 →
      (addEpLen1 c).getD (a % cap) 0 = 0 ∧ (c.epStart.set (g.length % cap) c.cur).getD (a % cap) 0 = C % cap ∧
        (((g ++ [r]).getD a default).last = true ↔ (a + 1 = g.length + 1 ∧ t.done = true)) := by
    intro a ha1 ha2
    rcases Nat.lt_or_ge a g.length with hlt | hge
    · have h3 := hrange a ha1 hlt
      have hne : g.length % cap ≠ a % cap := (mod_window_ne hlt (by omega)).symm
      refine ⟨hzero1 _ h3.1, ?_, ?_⟩
      · rw [getD_set_ne _ _ _ _ _ hne]; exact h3.2.1
      · rw [getD_append_left _ _ _ _ hlt, h3.2.2]
        constructor
        · intro h; cases h
        · intro h; omega
    · have : a = g.length := by omega
      subst this
      refine ⟨hz1, ?_, ?_⟩
      · rw [getD_set_eq _ _ _ _ (by rw [lenS]; exact hp)]; exact hcurC
      · rw [getD_append_last, hrl]; simp
  have hlive2 : ∀ a, a < g.length + 1 → g.length + 1 ≤ a + cap →
      (c.slots.set (g.length % cap) (stored hTT t)).getD (a % cap) default = ((g ++ [r]).getD a default).t := by
    intro a ha1 ha2
    rcases Nat.lt_or_ge a g.length with hlt | hge
    · have hne : g.length % cap ≠ a % cap := (mod_window_ne hlt (by omega)).symm
      rw [getD_set_ne _ _ _ _ _ hne, getD_append_left _ _ _ _ hlt]
      exact live a hlt (by omega)
    · have : a = g.length := by omega
      subst this
      rw [getD_set_eq _ _ _ _ (by rw [lenD]; exact hp), getD_append_last, hrt]
  have hseg2 : ∀ s, s < cap → 0 < (addEpLen1 c).getD s 0 →
      SegAt cap (c.epStart.set (g.length % cap) c.cur) (addEpLen1 c) (g ++ [r]) (g.length + 1) s :=
    fun s hs h => seg_write cap _ _ g _ _ s (hseg1 s hs h)
  cases hd : t.done
  · -- the episode goes on
    rw [hd] at hL' hcur'
    simp only [Bool.false_eq_true, if_false] at hL' hcur'
    refine ⟨hcap, by rw [hcap', ccap], by rw [hS', List.length_set, lenS], by rw [hL', hl1],
      by rw [hD', List.length_set, lenD], by rw [hposn, hgl], ?_, ?_, ?_⟩
    · intro a ha1 ha2; rw [hgl] at ha1 ha2; rw [hD']; exact hlive2 a ha1 ha2
    · rcases Nat.lt_or_ge (g.length + 1) (C + cap) with hlt | hge
      · refine ⟨C, by omega, by omega, by rw [hcur', hcurC], ?_⟩
        intro a ha1 ha2; rw [hgl] at ha2
        have h3 := hrange2 a ha1 ha2
        rw [hL', hS']
        refine ⟨h3.1, h3.2.1, ?_⟩
        cases hl : ((g ++ [r]).getD a default).last
        · rfl
        · have := (h3.2.2.mp hl).2; rw [hd] at this; cases this
      · refine ⟨g.length + 1, by omega, by omega, ?_, ?_⟩
        · rw [hcur', hcurC]
          have : g.length + 1 = C + cap := by omega
          rw [this, Nat.add_mod_right]
        · intro a ha1 ha2; omega
    · intro s hs h
      rw [hL'] at h ⊢; rw [hS', hgl]
      exact hseg2 s hs h
  · -- the episode is closed
    rw [hd] at hL' hcur'
    simp only [if_true] at hL' hcur'
    have hcl : closeLen c.cur c.cap (addPos c.pos c.cap) = (g.length + 1 - C) % cap := by
      have e : addPos c.pos c.cap = (g.length + 1) % cap := by rw [← hposn, hpos']
      unfold closeLen
      rw [e, hcurC, ccap]
      exact closeCnt hcap (by omega) (by omega)
    have h3 := seg_close cap (c.epStart.set (g.length % cap) c.cur) (addEpLen1 c)
      (g ++ [r]) C hcap hl1 (by omega) (by omega)
      (by
        intro a ha1 ha2
        rw [hgl] at ha2 ⊢
        have h4 := hrange2 a ha1 ha2
        rw [hd] at h4
        refine ⟨h4.1, h4.2.1, ?_⟩
        rw [h4.2.2]; simp)
      (by
        intro s hs h
        rw [hgl]
        exact hseg2 s hs h)
      (closeLen c.cur c.cap (addPos c.pos c.cap)) (c.add hTT t).epLen
      (by rw [hcl, hgl])
      (by rw [hL', hcurC, ccap])
    rw [← hS'] at h3
    obtain ⟨hl3, hseg3⟩ := h3
    refine ⟨hcap, by rw [hcap', ccap], by rw [hS', List.length_set, lenS], hl3,
      by rw [hD', List.length_set, lenD], by rw [hposn, hgl], ?_, ?_, ?_⟩
    · intro a ha1 ha2; rw [hgl] at ha1 ha2; rw [hD']
      exact hlive2 a ha1 ha2
    · refine ⟨g.length + 1, by omega, by omega, ?_, ?_⟩
      · rw [hcur', ← hpos', hposn]
      · intro a ha1 ha2; omega
    · intro s hs h
      exact hseg3 s hs h


theorem seg_ghost_congr (cap : Nat) (eS eL : List Nat) (g g' : List Rec) (A s : Nat) (hl : g'.length = g.length)
    (h : SegAt cap eS eL g A s)
    (hsame : ∀ f k, k < eL.getD s 0 → f + eL.getD s 0 ≤ g.length → eL.getD ((f + k) % cap) 0 = eL.getD s 0 →
      ((g.getD (f + k) default).last = true ↔ k + 1 = eL.getD s 0) →
      ((g'.getD (f + k) default).last = true ↔ k + 1 = eL.getD s 0)) :
    SegAt cap eS eL g' A s := by
  obtain ⟨f, j, hj, hsj, hf, hw, hall⟩ := h
  refine ⟨f, j, hj, hsj, by rw [hl]; exact hf, hw, fun k hk => ?_⟩
  have h3 := hall k hk
  exact ⟨h3.1, h3.2.1, hsame f k hk hf h3.1 h3.2.2⟩

theorem inv_truncate (hTT : Bool) (cap : Nat) (c : Col) (g : List Rec) (hinv : Inv cap c g) :
    Inv cap (c.truncate hTT) (ghostStep hTT c g .truncate) := by
  obtain ⟨hcap, ccap, lenS, lenL, lenD, hpos, live, ⟨C, hC1, hC2, hcurC, hrange⟩, seg⟩ := hinv
  by_cases hcp : c.cur = c.pos
  · -- nothing to truncate: the column is at an episode boundary (or a whole number of laps into an episode)
    have hCA : C = g.length := by
      rw [hcurC, hpos] at hcp
      exact mod_window_eq hcp hC1 hC2
    have hc' : c.truncate hTT = c := by unfold Col.truncate; simp [hcp]
    have hg' : ghostStep hTT c g .truncate =
        g.set (g.length - 1) { g.getD (g.length - 1) default with last := true } := by
      unfold ghostStep; simp [hcp]
    rw [hc', hg']
    have hlen : (g.set (g.length - 1) { g.getD (g.length - 1) default with last := true }).length = g.length := by
      simp
    refine ⟨hcap, ccap, lenS, lenL, lenD, by rw [hlen]; exact hpos, ?_, ?_, ?_⟩
    · intro a ha1 ha2
      rw [hlen] at ha1 ha2
      rw [live a ha1 ha2]
      by_cases e : g.length - 1 = a
      · rw [e, getD_set_eq _ _ _ _ ha1]
      · rw [getD_set_ne _ _ _ _ _ e]
    · exact ⟨g.length, by rw [hlen]; omega, by rw [hlen]; omega, by rw [hcp, hpos],
        fun a ha1 ha2 => by rw [hlen] at ha2; omega⟩
    · intro s hs h
      rw [hlen]
      refine seg_ghost_congr cap _ _ g _ _ s hlen (seg s hs h) ?_
      intro f k hk hf _ hiff
      by_cases e : g.length - 1 = f + k
      · rw [← e, getD_set_eq _ _ _ _ (by omega)]
        exact ⟨fun _ => by omega, fun _ => rfl⟩
      · rw [getD_set_ne _ _ _ _ _ e]; exact hiff
  · -- the open episode is closed at the last add
    have hClt : C < g.length := by
      rcases Nat.lt_or_ge C g.length with h | h
      · exact h
      · exfalso; apply hcp; rw [hcurC, hpos]; congr 1; omega
    have hi : (c.pos + c.cap - 1) % c.cap = (g.length - 1) % cap := by
      rw [hpos, ccap]; exact pred_mod _ _ hcap (by omega)
    have hlast := live (g.length - 1) (by omega) (by omega)
    have hc' : c.truncate hTT =
        { c with
          slots := c.slots.set ((g.length - 1) % cap)
            { (g.getD (g.length - 1) default).t with
              done := true, timeout := hTT || (g.getD (g.length - 1) default).t.timeout },
          epLen := setRange c.epLen c.cur c.cap (closeLen c.cur c.cap c.pos) (closeLen c.cur c.cap c.pos),
          cur := c.pos } := by
      unfold Col.truncate Col.closeEpisode closeLen
      simp only [hi, hlast]
      simp [hcp]
    have hg' : ghostStep hTT c g .truncate =
        g.set (g.length - 1) { t := { (g.getD (g.length - 1) default).t with
              done := true, timeout := hTT || (g.getD (g.length - 1) default).t.timeout }, last := true } := by
      unfold ghostStep; simp [hcp]
    rw [hc', hg']
    generalize hg2 : g.set (g.length - 1) { t := { (g.getD (g.length - 1) default).t with
              done := true, timeout := hTT || (g.getD (g.length - 1) default).t.timeout }, last := true } = g2
    have hlen : g2.length = g.length := by rw [← hg2]; simp
    have hg2last : (g2.getD (g.length - 1) default) = { t := { (g.getD (g.length - 1) default).t with
              done := true, timeout := hTT || (g.getD (g.length - 1) default).t.timeout }, last := true } := by
      rw [← hg2, getD_set_eq _ _ _ _ (by omega)]
    have hg2other : ∀ a, a ≠ g.length - 1 → g2.getD a default = g.getD a default := by
      intro a ha; rw [← hg2, getD_set_ne _ _ _ _ _ (Ne.symm ha)]
    have hcl : closeLen c.cur c.cap c.pos = (g.length - C) % cap := by
      unfold closeLen
      rw [hpos, hcurC, ccap]
      exact closeCnt hcap (by omega) (by omega)
    have hz : c.epLen.getD ((g.length - 1) % cap) 0 = 0 := (hrange (g.length - 1) (by omega) (by omega)).1
    have h3 := seg_close cap c.epStart c.epLen g2 C hcap lenL (by omega) (by omega)
      (by
        intro a ha1 ha2
        rw [hlen] at ha2 ⊢
        have h4 := hrange a ha1 ha2
        refine ⟨h4.1, h4.2.1, ?_⟩
        by_cases e : a = g.length - 1
        · rw [e, hg2last]; simp; omega
        · rw [hg2other a e, h4.2.2]; simp; omega)
      (by
        intro s hs h
        rw [hlen]
        refine seg_ghost_congr cap _ _ g _ _ s hlen (seg s hs h) ?_
        intro f k hk hf hL hiff
        have e : f + k ≠ g.length - 1 := by
          intro e; rw [e, hz] at hL; omega
        rw [hg2other _ e]; exact hiff)
      (closeLen c.cur c.cap c.pos)
      (setRange c.epLen c.cur c.cap (closeLen c.cur c.cap c.pos) (closeLen c.cur c.cap c.pos))
      (by rw [hcl, hlen])
      (by rw [hcurC, ccap])
    obtain ⟨hl3, hseg3⟩ := h3
    refine ⟨hcap, ccap, lenS, hl3, by simp [lenD], by rw [hlen]; exact hpos, ?_, ?_, ?_⟩
    · intro a ha1 ha2
      rw [hlen] at ha1 ha2
      show (c.slots.set _ _).getD _ _ = _
      by_cases e : a = g.length - 1
      · rw [e, hg2last, getD_set_eq _ _ _ _ (by rw [lenD]; exact Nat.mod_lt _ hcap)]
      · have hne : (g.length - 1) % cap ≠ a % cap := (mod_window_ne (by omega) (by omega)).symm
        rw [hg2other a e, getD_set_ne _ _ _ _ _ hne]
        exact live a ha1 ha2
    · exact ⟨g.length, by rw [hlen]; omega, by rw [hlen]; omega, hpos, fun a ha1 ha2 => by rw [hlen] at ha2; omega⟩
    · intro s hs h
      exact hseg3 s hs h

theorem inv_step (hTT : Bool) (cap : Nat) (c : Col) (g : List Rec) (op : COp) (hinv : Inv cap c g) :
    Inv cap (stepG hTT (c, g) op).1 (stepG hTT (c, g) op).2 := by
  cases op with
  | add t => exact inv_add_r hTT cap c g t _ rfl rfl hinv
  | truncate => exact inv_truncate hTT cap c g hinv

theorem inv_runG (hTT : Bool) (cap : Nat) (hcap : 0 < cap) (ops : List COp) :
    Inv cap (runG hTT cap ops).1 (runG hTT cap ops).2 := by
  unfold runG
  suffices h : ∀ (cg : Col × List Rec), Inv cap cg.1 cg.2 →
      Inv cap (ops.foldl (stepG hTT) cg).1 (ops.foldl (stepG hTT) cg).2 from h _ (inv_init cap hcap)
  induction ops with
  | nil => intro cg h; exact h
  | cons op rest ih => intro cg h; exact ih _ (inv_step hTT cap cg.1 cg.2 op h)

theorem runG_fst (hTT : Bool) (cap : Nat) (ops : List COp) : (runG hTT cap ops).1 = Col.run hTT cap ops := by
  unfold runG Col.run
  suffices h : ∀ (cg : Col × List Rec), (ops.foldl (stepG hTT) cg).1 = ops.foldl (Col.step hTT) cg.1 from h _
  induction ops with
  | nil => intro cg; rfl
  | cons op rest ih => intro cg; exact ih _

theorem curIdx_eq {f j m : Nat} (hm : 0 < m) (hj : j < m) : ((f + j) % m + m - f % m) % m = j := by
  have hr : f % m < m := Nat.mod_lt _ hm
  have e : (f + j) % m = (f % m + j) % m := by simp [Nat.add_mod]
  rw [e]
  by_cases hlt : f % m + j < m
  · rw [Nat.mod_eq_of_lt hlt]
    have : f % m + j + m - f % m = j + m := by omega
    rw [this, Nat.add_mod_right, Nat.mod_eq_of_lt hj]
  · have e2 : (f % m + j) % m = f % m + j - m := by
      rw [Nat.mod_eq_sub_mod (by omega)]; exact Nat.mod_eq_of_lt (by omega)
    rw [e2]
    have : f % m + j - m + m - f % m = j := by omega
    rw [this, Nat.mod_eq_of_lt hj]

/-- Everything the invariant says about a valid slot, with the stored transitions. -/
theorem seg_full {cap : Nat} {c : Col} {g : List Rec} (hinv : Inv cap c g) (s : Nat) (hs : s < cap)
    (hv : 0 < c.epLen.getD s 0) :
    ∃ f j, j < c.epLen.getD s 0 ∧ s = (f + j) % cap ∧ c.epStart.getD s 0 = f % cap ∧ c.curIdx s = j ∧
      f + c.epLen.getD s 0 ≤ g.length ∧ g.length ≤ f + cap ∧
      ∀ k, k < c.epLen.getD s 0 →
        c.epLen.getD ((f + k) % cap) 0 = c.epLen.getD s 0 ∧ c.epStart.getD ((f + k) % cap) 0 = f % cap ∧
        c.slots.getD ((f + k) % cap) default = (g.getD (f + k) default).t ∧
        ((g.getD (f + k) default).last = true ↔ k + 1 = c.epLen.getD s 0) := by
  obtain ⟨f, j, hj, hsj, hf, hw, hall⟩ := hinv.seg s hs hv
  have hS : c.epStart.getD s 0 = f % cap := by have := (hall j hj).2.1; rwa [← hsj] at this
  refine ⟨f, j, hj, hsj, hS, ?_, hf, hw, fun k hk => ?_⟩
  · unfold Col.curIdx
    rw [hS, hinv.ccap, hsj]
    exact curIdx_eq hinv.hcap (by omega)
  · have h3 := hall k hk
    exact ⟨h3.1, h3.2.1, hinv.live (f + k) (by omega) (by omega), h3.2.2⟩

theorem goalSlot_eq {cap : Nat} {c : Col} (hc : c.cap = cap) (s idx f : Nat) (hS : c.epStart.getD s 0 = f % cap) :
    c.goalSlot s idx = (f + idx) % cap := by
  unfold Col.goalSlot
  rw [hS, hc, Nat.add_mod_mod, Nat.add_comm]

theorem last_false_of_iff {b : Bool} {p : Prop} (h : b = true ↔ p) (hp : ¬ p) : b = false := by
  cases b
  · rfl
  · exact absurd (h.mp rfl) hp

/-- The soundness of one relabelling, in terms of add numbers of the ghost history. -/
theorem relabel_core {cap : Nat} {c : Col} {g : List Rec} (hinv : Inv cap c g) (strat : Strategy) (s idx : Nat)
    (hs : s < cap) (hv : c.valid s = true)
    (hlo : (c.goalRange strat s).1 ≤ idx) (hhi : idx < (c.goalRange strat s).2) :
    ∃ a a' e, a < g.length ∧ g.length ≤ a + cap ∧ a' < g.length ∧ g.length ≤ a' + cap ∧
      s = a % cap ∧ c.goalSlot s idx = a' % cap ∧
      c.slots.getD s default = (g.getD a default).t ∧
      c.slots.getD (c.goalSlot s idx) default = (g.getD a' default).t ∧
      c.valid (c.goalSlot s idx) = true ∧
      endsAt g a e ∧ endsAt g a' e ∧
      (strat = .future → a ≤ a') ∧ (strat = .final → a' = e) := by
  have hv' : 0 < c.epLen.getD s 0 := by simpa [Col.valid] using hv
  obtain ⟨f, j, hj, hsj, hS, hci, hf, hw, hall⟩ := seg_full hinv s hs hv'
  have hidx : idx < c.epLen.getD s 0 := by
    cases strat <;> simpa [Col.goalRange] using hhi
  have hg : c.goalSlot s idx = (f + idx) % cap := goalSlot_eq hinv.ccap s idx f hS
  have hends : ∀ k, k < c.epLen.getD s 0 → endsAt g (f + k) (f + (c.epLen.getD s 0 - 1)) := by
    intro k hk
    refine ⟨by omega, by omega, ((hall (c.epLen.getD s 0 - 1) (by omega)).2.2.2).mpr (by omega), ?_⟩
    intro k' h1 h2
    obtain ⟨d, rfl⟩ : ∃ d, k' = f + d := ⟨k' - f, by omega⟩
    exact last_false_of_iff (hall d (by omega)).2.2.2 (by omega)
  refine ⟨f + j, f + idx, f + (c.epLen.getD s 0 - 1), by omega, by omega, by omega, by omega, hsj, hg, ?_, ?_, ?_,
    hends j hj, hends idx hidx, ?_, ?_⟩
  · rw [hsj]; exact (hall j hj).2.2.1
  · rw [hg]; exact (hall idx hidx).2.2.1
  · rw [hg]; simp only [Col.valid, decide_eq_true_eq]; rw [(hall idx hidx).1]; exact hv'
  · intro hst; subst hst
    have : c.curIdx s ≤ idx := by simpa [Col.goalRange] using hlo
    omega
  · intro hst; subst hst
    have h1 : c.epLen.getD s 0 - 1 ≤ idx := by simpa [Col.goalRange] using hlo
    omega


/-- A live add whose episode has not ended yet sits in a slot that cannot be sampled. -/
theorem unfinished_core {cap : Nat} {c : Col} {g : List Rec} (hinv : Inv cap c g) (a : Nat) (ha : a < g.length)
    (hl : g.length ≤ a + cap) (hopen : ∀ k, a ≤ k → k < g.length → (g.getD k default).last = false) :
    c.valid (a % cap) = false := by
  cases hv : c.valid (a % cap)
  · rfl
  · exfalso
    have hv' : 0 < c.epLen.getD (a % cap) 0 := by simpa [Col.valid] using hv
    obtain ⟨f, j, hj, hsj, -, -, hf, hw, hall⟩ := seg_full hinv (a % cap) (Nat.mod_lt _ hinv.hcap) hv'
    have hEq : a = f + j := by
      rcases Nat.le_total a (f + j) with h | h
      · exact mod_window_eq hsj h (by omega)
      · exact (mod_window_eq hsj.symm h (by omega)).symm
    have hlast := ((hall (c.epLen.getD (a % cap) 0 - 1) (by omega)).2.2.2).mpr (by omega)
    rw [hopen (f + (c.epLen.getD (a % cap) 0 - 1)) (by omega) (by omega)] at hlast
    cases hlast

/-- A valid slot holds one of the last `cap` adds, and that add's episode has ended inside the history. -/
theorem valid_core {cap : Nat} {c : Col} {g : List Rec} (hinv : Inv cap c g) (s : Nat) (hs : s < cap)
    (hv : c.valid s = true) :
    ∃ a e, a < g.length ∧ g.length ≤ a + cap ∧ s = a % cap ∧ c.slots.getD s default = (g.getD a default).t ∧
      endsAt g a e := by
  have h0 : (c.goalRange .episode s).1 ≤ 0 := by simp [Col.goalRange]
  have h1 : 0 < (c.goalRange .episode s).2 := by simpa [Col.goalRange, Col.valid] using hv
  obtain ⟨a, _, e, h⟩ := relabel_core hinv .episode s 0 hs hv h0 h1
  exact ⟨a, e, h.1, h.2.1, h.2.2.2.2.1, h.2.2.2.2.2.2.1, h.2.2.2.2.2.2.2.2.2.1⟩

/-- `truncate_last_trajectory` makes the last stored transition of an open episode sampleable. -/
theorem truncate_last_valid {cap : Nat} {c : Col} {g : List Rec} (hTT : Bool) (hinv : Inv cap c g)
    (hopen : c.cur ≠ c.pos) :
    (c.truncate hTT).valid ((c.pos + c.cap - 1) % c.cap) = true ∧ (c.truncate hTT).cur = (c.truncate hTT).pos := by
  obtain ⟨hcap, ccap, lenS, lenL, lenD, hpos, live, ⟨C, hC1, hC2, hcurC, hrange⟩, seg⟩ := hinv
  have hClt : C < g.length := by
    rcases Nat.lt_or_ge C g.length with h | h
    · exact h
    · exfalso; apply hopen; rw [hcurC, hpos]; congr 1; omega
  have hcl : closeLen c.cur c.cap c.pos = (g.length - C) % cap := by
    unfold closeLen
    rw [hpos, hcurC, ccap]
    exact closeCnt hcap (by omega) (by omega)
  have hd : (g.length - C) % cap = g.length - C := Nat.mod_eq_of_lt (by omega)
  have hi : (c.pos + c.cap - 1) % c.cap = (c.cur + (g.length - C - 1)) % c.cap := by
    rw [hpos, ccap, pred_mod _ _ hcap (by omega), hcurC, Nat.mod_add_mod]
    congr 1; omega
  have hL : (c.truncate hTT).epLen =
      setRange c.epLen c.cur c.cap (closeLen c.cur c.cap c.pos) (closeLen c.cur c.cap c.pos) := by
    unfold Col.truncate Col.closeEpisode closeLen; simp [hopen]
  have hcur : (c.truncate hTT).cur = c.pos ∧ (c.truncate hTT).pos = c.pos := by
    unfold Col.truncate Col.closeEpisode; simp [hopen]
  refine ⟨?_, by rw [hcur.1, hcur.2]⟩
  simp only [Col.valid, decide_eq_true_eq]
  rw [hL, hi, hcl, hd]
  rw [setRange_hit _ _ _ _ _ _ _ (by omega) (by rw [lenL, ccap]; exact Nat.mod_lt _ hcap)]
  omega

/-! ### The columns of the whole buffer evolve independently -/

theorem her_step_col (h : Her) (op : Op) (e : Nat) (he : e < h.cols.length) :
    (h.step op).cols.getD e default = (h.cols.getD e default).step h.hTT (op.proj e) := by
  simp [Her.step, List.getD_eq_getElem?_getD, he]

theorem her_fold_col (ops : List Op) (h : Her) (e : Nat) (he : e < h.cols.length) :
    (ops.foldl Her.step h).cols.getD e default =
      (ops.map (Op.proj e)).foldl (Col.step h.hTT) (h.cols.getD e default) ∧
    (ops.foldl Her.step h).cols.length = h.cols.length ∧ (ops.foldl Her.step h).nEnvs = h.nEnvs ∧
    (ops.foldl Her.step h).cap = h.cap := by
  induction ops generalizing h with
  | nil => simp
  | cons op rest ih =>
    have hl : (h.step op).cols.length = h.cols.length := by simp [Her.step]
    have := ih (h.step op) (by rw [hl]; exact he)
    simp only [List.foldl_cons, List.map_cons]
    rw [this.1, her_step_col h op e he]
    refine ⟨rfl, by rw [this.2.1, hl], this.2.2.1, this.2.2.2⟩

theorem her_run_col (cap n : Nat) (hTT : Bool) (ops : List Op) (e : Nat) (he : e < n) :
    (Her.run cap n hTT ops).cols.getD e default = Col.run hTT cap (ops.map (Op.proj e)) ∧
    (Her.run cap n hTT ops).nEnvs = n ∧ (Her.run cap n hTT ops).cap = cap := by
  have h := her_fold_col ops (Her.init cap n hTT) e (by simp [Her.init]; exact he)
  refine ⟨?_, h.2.2.1, h.2.2.2⟩
  unfold Her.run Col.run
  rw [h.1]
  simp [Her.init, List.getD_eq_getElem?_getD, he]

theorem mem_validFlat (h : Her) (i : Nat) (hi : h.validFlat.contains i = true) (hn : 0 < h.nEnvs) :
    i / h.nEnvs < h.cap ∧ i % h.nEnvs < h.nEnvs ∧ (h.cols.getD (i % h.nEnvs) default).valid (i / h.nEnvs) = true := by
  have hm : i ∈ h.validFlat := by simpa using hi
  unfold Her.validFlat at hm
  rw [List.mem_filter, List.mem_range] at hm
  refine ⟨?_, Nat.mod_lt _ hn, hm.2⟩
  apply Nat.div_lt_of_lt_mul
  rw [Nat.mul_comm]; exact hm.1

theorem nbVirtual_le (n B : Nat) : nbVirtual n B ≤ B := by
  unfold nbVirtual
  apply Nat.div_le_of_le_mul
  rw [Nat.add_mul]; omega

theorem endsAt_sameEpisode {g : List Rec} {a a' e : Nat} (h1 : endsAt g a e) (h2 : endsAt g a' e) :
    sameEpisode g a a' := by
  intro k hk1 hk2
  rcases Nat.le_total a a' with h | h
  · rw [Nat.min_eq_left h] at hk1; rw [Nat.max_eq_right h] at hk2
    exact h1.2.2.2 k hk1 (by have := h2.1; omega)
  · rw [Nat.min_eq_right h] at hk1; rw [Nat.max_eq_left h] at hk2
    exact h2.2.2.2 k hk1 (by have := h1.1; omega)

theorem her_col_inv (cap n : Nat) (hTT : Bool) (ops : List Op) (hcap : 0 < cap) (e : Nat) (he : e < n) :
    Inv cap ((Her.run cap n hTT ops).cols.getD e default) (ghostOf hTT cap ops e) := by
  rw [(her_run_col cap n hTT ops e he).1, ← runG_fst]
  exact inv_runG hTT cap hcap _

theorem sample_core (cr : Nat → Nat → Int) (cap n : Nat) (hTT : Bool) (ops : List Op) (hcap : 0 < cap) (hn : 0 < n)
    (strat : Strategy) (nGoal batch : Nat) (draws goals : List Nat)
    (hok : (Her.run cap n hTT ops).sampleOk strat nGoal batch draws goals = true) :
    ∃ real virt, (Her.run cap n hTT ops).sampleOut cr strat nGoal batch draws goals = real ++ virt ∧
      real.length = batch - nbVirtual nGoal batch ∧ virt.length = nbVirtual nGoal batch ∧
      (∀ x, x ∈ real → ∃ e, e < n ∧ IsStored cap (ghostOf hTT cap ops e) x) ∧
      (∀ x, x ∈ virt → ∃ e, e < n ∧ IsRelabelled cr strat cap (ghostOf hTT cap ops e) x) := by
  generalize hh : Her.run cap n hTT ops = h at hok
  have hne : h.nEnvs = n := by rw [← hh]; exact (her_run_col cap n hTT ops 0 hn).2.1
  have hce : h.cap = cap := by rw [← hh]; exact (her_run_col cap n hTT ops 0 hn).2.2
  have hinv : ∀ e, e < n → Inv cap (h.cols.getD e default) (ghostOf hTT cap ops e) := by
    intro e he; rw [← hh]; exact her_col_inv cap n hTT ops hcap e he
  unfold Her.sampleOk at hok
  simp only [Bool.and_eq_true, beq_iff_eq, List.all_eq_true] at hok
  obtain ⟨⟨⟨hlen, hglen⟩, hvalid⟩, hgoals⟩ := hok
  have hnv := nbVirtual_le nGoal batch
  refine ⟨_, _, rfl, ?_, ?_, ?_, ?_⟩
  · simp [hlen]
  · simp [hlen, hglen]; omega
  · intro x hx
    rw [List.mem_map] at hx
    obtain ⟨i, hi, rfl⟩ := hx
    have hiv := mem_validFlat h i (hvalid i (List.mem_of_mem_drop hi)) (by omega)
    rw [hne, hce] at hiv
    refine ⟨i % n, hiv.2.1, ?_⟩
    obtain ⟨a, e, h1, h2, -, h4, h5⟩ := valid_core (hinv _ hiv.2.1) (i / n) hiv.1 hiv.2.2
    refine ⟨a, e, h1, h2, h5, ?_⟩
    simp only [Her.unravel, hne, Col.real]
    rw [h4]
  · intro x hx
    rw [List.mem_map] at hx
    obtain ⟨⟨i, idx⟩, hi, rfl⟩ := hx
    have hmem := List.of_mem_zip hi
    have hiv := mem_validFlat h i (hvalid i (List.mem_of_mem_take hmem.1)) (by omega)
    rw [hne, hce] at hiv
    have hg := hgoals (i, idx) hi
    simp only [Her.unravel, hne, Bool.or_eq_true, beq_iff_eq, Bool.and_eq_true, decide_eq_true_eq] at hg
    refine ⟨i % n, hiv.2.1, ?_⟩
    have hv' : 0 < (h.cols.getD (i % n) default).epLen.getD (i / n) 0 := by simpa [Col.valid] using hiv.2.2
    -- the index in the episode actually used, and that it lies in the strategy's range
    have hrange : ((h.cols.getD (i % n) default).goalRange strat (i / n)).1 ≤
          (h.cols.getD (i % n) default).goalIdx strat (i / n) idx ∧
        (h.cols.getD (i % n) default).goalIdx strat (i / n) idx <
          ((h.cols.getD (i % n) default).goalRange strat (i / n)).2 := by
      cases strat with
      | final => simp only [Col.goalRange, Col.goalIdx]; omega
      | future => rcases hg with hg | hg
                  · cases hg
                  · exact hg
      | episode => rcases hg with hg | hg
                   · cases hg
                   · exact hg
    obtain ⟨a, a', e, h1, h2, h3, h4, -, -, h7, h8, -, h10, h11, h12, h13⟩ :=
      relabel_core (hinv _ hiv.2.1) strat (i / n) _ hiv.1 hiv.2.2 hrange.1 hrange.2
    refine ⟨a, a', e, h1, h2, h3, h4, h10, h11, h12, h13, ?_⟩
    simp only [Her.unravel, hne, Col.virt]
    rw [h7, h8]

/-- Second invariant: where the *current* (open) episode really started. `F` is the add number of its
first transition, `C` the representative of `_current_ep_start` in the window of live adds:
`C ≡ F (mod cap)`, i.e. the episode has completed `(C - F) / cap` whole laps of the ring. -/
def InvF (cap : Nat) (c : Col) (g : List Rec) : Prop :=
  ∃ C F, C ≤ g.length ∧ g.length < C + cap ∧ c.cur = C % cap ∧ F ≤ C ∧ (C - F) % cap = 0 ∧
    (F = 0 ∨ (g.getD (F - 1) default).last = true) ∧ ∀ a, F ≤ a → a < g.length → (g.getD a default).last = false

theorem invF_init (cap : Nat) (hcap : 0 < cap) : InvF cap (Col.init cap) [] :=
  ⟨0, 0, by simp, by simpa using hcap, by simp [Col.init], by omega, by simp, Or.inl rfl, fun a _ h => by simp at h⟩

theorem invF_add (hTT : Bool) (cap : Nat) (c : Col) (g : List Rec) (t : Trans) (r : Rec)
    (hrl : r.last = t.done) (hinv : Inv cap c g) (hF : InvF cap c g) : InvF cap (c.add hTT t) (g ++ [r]) := by
  obtain ⟨-, hpos', -, -, -, hcur'⟩ := add_fields hTT c t
  obtain ⟨C, F, hC1, hC2, hcurC, hFC, hmod, hF0, hflags⟩ := hF
  have hcap := hinv.hcap
  have hgl : (g ++ [r]).length = g.length + 1 := by simp
  have hposn : addPos c.pos c.cap = (g.length + 1) % cap := by
    rw [hinv.hpos, hinv.ccap, succ_mod _ _ hcap]; rfl
  cases hd : t.done
  · rw [hd] at hcur'; simp only [Bool.false_eq_true, if_false] at hcur'
    have hfl : ∀ a, F ≤ a → a < (g ++ [r]).length → ((g ++ [r]).getD a default).last = false := by
      intro a h1 h2
      rw [hgl] at h2
      rcases Nat.lt_or_ge a g.length with hlt | hge
      · rw [getD_append_left _ _ _ _ hlt]; exact hflags a h1 hlt
      · have : a = g.length := by omega
        rw [this, getD_append_last, hrl, hd]
    have hF0' : F = 0 ∨ ((g ++ [r]).getD (F - 1) default).last = true := by
      rcases hF0 with h | h
      · exact Or.inl h
      · rcases Nat.eq_zero_or_pos F with h0 | h0
        · exact Or.inl h0
        · right; rw [getD_append_left _ _ _ _ (by omega)]; exact h
    rcases Nat.lt_or_ge (g.length + 1) (C + cap) with hlt | hge
    · exact ⟨C, F, by omega, by omega, by rw [hcur', hcurC], hFC, hmod, hF0', hfl⟩
    · refine ⟨g.length + 1, F, by omega, by omega, ?_, by omega, ?_, hF0', hfl⟩
      · have : g.length + 1 = C + cap := by omega
        rw [hcur', hcurC, this, Nat.add_mod_right]
      · have : g.length + 1 - F = (C - F) + cap := by omega
        rw [this, Nat.add_mod_right]; exact hmod
  · rw [hd] at hcur'; simp only [if_true] at hcur'
    refine ⟨g.length + 1, g.length + 1, by omega, by omega, by rw [hcur', hposn], by omega, by simp, ?_, ?_⟩
    · right
      show ((g ++ [r]).getD (g.length + 1 - 1) default).last = true
      rw [Nat.add_sub_cancel, getD_append_last, hrl, hd]
    · intro a h1 h2; omega

theorem invF_truncate (hTT : Bool) (cap : Nat) (c : Col) (g : List Rec) (hinv : Inv cap c g) (hF : InvF cap c g) :
    InvF cap (c.truncate hTT) (ghostStep hTT c g .truncate) := by
  obtain ⟨C, F, hC1, hC2, hcurC, hFC, hmod, hF0, hflags⟩ := hF
  have hcap := hinv.hcap
  -- in both branches the ghost's last entry gets `last := true`, its length is unchanged, the column ends with cur = pos
  have hlen : (ghostStep hTT c g .truncate).length = g.length := by
    simp only [ghostStep]; split <;> simp
  have hlast : 0 < g.length → ((ghostStep hTT c g .truncate).getD (g.length - 1) default).last = true := by
    intro h
    simp only [ghostStep]; split <;> rw [getD_set_eq _ _ _ _ (by omega)]
  have hcur : (c.truncate hTT).cur = g.length % cap := by
    by_cases hcp : c.cur = c.pos
    · have : c.truncate hTT = c := by unfold Col.truncate; simp [hcp]
      rw [this, hcp, hinv.hpos]
    · have : (c.truncate hTT).cur = c.pos := by unfold Col.truncate Col.closeEpisode; simp [hcp]
      rw [this, hinv.hpos]
  refine ⟨g.length, g.length, by omega, by omega, hcur, by omega, by simp, ?_, fun a h1 h2 => by omega⟩
  rcases Nat.eq_zero_or_pos g.length with h0 | h0
  · exact Or.inl h0
  · exact Or.inr (hlast h0)

theorem invF_runG (hTT : Bool) (cap : Nat) (hcap : 0 < cap) (ops : List COp) :
    InvF cap (runG hTT cap ops).1 (runG hTT cap ops).2 := by
  have key : ∀ (ops : List COp) (cg : Col × List Rec), Inv cap cg.1 cg.2 → InvF cap cg.1 cg.2 →
      InvF cap (ops.foldl (stepG hTT) cg).1 (ops.foldl (stepG hTT) cg).2 := by
    intro ops
    induction ops with
    | nil => intro cg _ h; exact h
    | cons op rest ih =>
      intro cg h1 h2
      refine ih _ (inv_step hTT cap cg.1 cg.2 op h1) ?_
      cases op with
      | add t => exact invF_add hTT cap cg.1 cg.2 t _ rfl h1 h2
      | truncate => exact invF_truncate hTT cap cg.1 cg.2 h1 h2
  exact key ops _ (inv_init cap hcap) (invF_init cap hcap)

/-- `ep_length` right after an add that ends the episode, for the adds of that episode that are still stored. -/
theorem add_done_epLen (hTT : Bool) (cap : Nat) (c : Col) (g : List Rec) (t : Trans) (hdone : t.done = true)
    (hinv : Inv cap c g) (C : Nat) (hC1 : C ≤ g.length) (hC2 : g.length < C + cap) (hcurC : c.cur = C % cap) :
    (∀ a, C ≤ a → a ≤ g.length → (c.add hTT t).epLen.getD (a % cap) 0 = (g.length + 1 - C) % cap) ∧
    (∀ a, a < C → g.length + 1 ≤ a + cap → (∀ k, a ≤ k → k < g.length → (g.getD k default).last = false) →
      (c.add hTT t).epLen.getD (a % cap) 0 = 0) := by
  obtain ⟨-, hpos', -, -, hL', -⟩ := add_fields hTT c t
  have hcap := hinv.hcap
  rw [hdone] at hL'; simp only [if_true] at hL'
  obtain ⟨hl1, hz1, hzero1, -⟩ := seg_invalidate cap c.epStart c.epLen g hcap hinv.lenL hinv.seg (g.length % cap)
    (addEpLen1 c) rfl (by unfold addEpLen1; rw [hinv.hpos, hinv.ccap])
  have hposn : addPos c.pos c.cap = (g.length + 1) % cap := by
    rw [hinv.hpos, hinv.ccap, succ_mod _ _ hcap]; rfl
  have hcl : closeLen c.cur c.cap (addPos c.pos c.cap) = (g.length + 1 - C) % cap := by
    unfold closeLen
    rw [hposn, hcurC, hinv.ccap]
    exact closeCnt hcap (by omega) (by omega)
  rw [hcl, hcurC, hinv.ccap] at hL'
  -- the representative C of the invariant is the given one
  obtain ⟨C0, h01, h02, h03, hrange⟩ := hinv.curr
  have hCC : C0 = C := by
    have e : C0 % cap = C % cap := by rw [← h03, hcurC]
    rcases Nat.le_total C0 C with h | h
    · exact mod_window_eq e h (by omega)
    · exact (mod_window_eq e.symm h (by omega)).symm
  subst hCC
  have hz : ∀ a, C0 ≤ a → a ≤ g.length → (addEpLen1 c).getD (a % cap) 0 = 0 := by
    intro a h1 h2
    rcases Nat.lt_or_ge a g.length with hlt | hge
    · exact hzero1 _ (hrange a h1 hlt).1
    · have : a = g.length := by omega
      rw [this]; exact hz1
  have hd : (g.length + 1 - C0) % cap = 0 ∨ (g.length + 1 - C0) % cap = g.length + 1 - C0 := by
    rcases Nat.lt_or_ge (g.length + 1 - C0) cap with h | h
    · right; exact Nat.mod_eq_of_lt h
    · left; have : g.length + 1 - C0 = cap := by omega
      rw [this]; simp
  constructor
  · intro a h1 h2
    rw [hL']
    rcases hd with h0 | h0
    · rw [h0]; exact hz a h1 h2
    · obtain ⟨k, rfl⟩ : ∃ k, a = C0 + k := ⟨a - C0, by omega⟩
      rw [← Nat.mod_add_mod]
      exact setRange_hit _ _ _ _ _ _ _ (by omega) (by rw [hl1]; exact Nat.mod_lt _ hcap)
  · intro a h1 h2 hopen
    rw [hL']
    have hv := unfinished_core hinv a (by omega) (by omega) hopen
    have hz0 : c.epLen.getD (a % cap) 0 = 0 := by
      simp only [Col.valid, decide_eq_false_iff_not] at hv; omega
    rw [setRange_miss]
    · exact hzero1 _ hz0
    · intro k hk e
      have hk' : k < g.length + 1 - C0 := by
        rcases hd with h0 | h0
        · omega
        · omega
      rw [Nat.mod_add_mod] at e
      exact mod_window_ne (show a < C0 + k by omega) (by omega) e.symm

/-- **Tail of a long episode.** If the current episode started at add `F` and the add that ends it is add
number `A = g.length` (so the episode has `T = A + 1 - F` transitions), then afterwards, among its adds that
are still stored, exactly the last `T % cap` are sampleable. -/
theorem long_tail_core (hTT : Bool) (cap : Nat) (c : Col) (g : List Rec) (t : Trans) (hdone : t.done = true)
    (hinv : Inv cap c g) (hF : InvF cap c g) :
    ∃ F, F ≤ g.length ∧ (F = 0 ∨ (g.getD (F - 1) default).last = true) ∧
      (∀ a, F ≤ a → a < g.length → (g.getD a default).last = false) ∧
      ∀ a, F ≤ a → a ≤ g.length → g.length + 1 ≤ a + cap →
        ((c.add hTT t).valid (a % cap) = true ↔ g.length + 1 ≤ a + (g.length + 1 - F) % cap) := by
  obtain ⟨C, F, hC1, hC2, hcurC, hFC, hmod, hF0, hflags⟩ := hF
  have hcap := hinv.hcap
  obtain ⟨h1, h2⟩ := add_done_epLen hTT cap c g t hdone hinv C hC1 hC2 hcurC
  refine ⟨F, by omega, hF0, hflags, ?_⟩
  have hT : (g.length + 1 - F) % cap = (g.length + 1 - C) % cap := by
    have : g.length + 1 - F = (g.length + 1 - C) + (C - F) := by omega
    rw [this, Nat.add_mod, hmod, Nat.add_zero, Nat.mod_mod]
  have hd : (g.length + 1 - C) % cap = 0 ∨ (g.length + 1 - C) % cap = g.length + 1 - C := by
    rcases Nat.lt_or_ge (g.length + 1 - C) cap with h | h
    · right; exact Nat.mod_eq_of_lt h
    · left; have : g.length + 1 - C = cap := by omega
      rw [this]; simp
  intro a ha1 ha2 ha3
  simp only [Col.valid, decide_eq_true_eq]
  rw [hT]
  rcases Nat.lt_or_ge a C with hlt | hge
  · rw [h2 a hlt ha3 (fun k hk1 hk2 => hflags k (by omega) hk2)]
    rcases hd with h0 | h0 <;> omega
  · rw [h1 a hge ha2]
    rcases hd with h0 | h0 <;> omega

end SB3Verif.Her.Lemmas
