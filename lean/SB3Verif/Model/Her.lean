/-
Model of `HerReplayBuffer` (stable_baselines3/her/her_replay_buffer.py) on top of the ring of
`DictReplayBuffer` (stable_baselines3/common/buffers.py).

* one **column** per environment (`Col`): the arrays `ep_start[:, e]`, `ep_length[:, e]`,
  `_current_ep_start[e]`, the stored transitions of env `e`, and the write pointer `pos`
  (`self.pos` is shared by all columns; it is replicated here so that a column is a self-contained
  state machine — `Her.add` moves all of them in lockstep);
* `Col.add`      = `HerReplayBuffer.add` for one env: invalidate the episode stored at `pos`, record
                   `ep_start[pos]`, store, advance `pos`, on `done` `_compute_episode_length`;
* `Col.truncate` = `truncate_last_trajectory` for one env;
* `Her.validFlat`, `nbVirtual`, `Col.goalRange`, `Col.goalSlot`, `Col.real`, `Col.virt`,
  `Her.sampleOut`  = `sample` / `_get_real_samples` / `_get_virtual_samples` / `_sample_goals`, with
                   the random draws (`np.random.choice`, `np.random.randint`) as *arguments*;
* observations, goals, actions are opaque tags (`Nat`); `compute_reward` is a parameter `cr`.

Import-free (core only). The theorems are in `SB3Verif/Props/C16.lean`, the driver is
`SB3Verif/Driver/C16.lean`.
-/

namespace SB3Verif.Her

/-- One transition of one environment as handed to `add` (all observation parts are tags). -/
structure Trans where
  obs : Nat      -- obs["observation"]
  ach : Nat      -- obs["achieved_goal"]
  dg : Nat       -- obs["desired_goal"]
  act : Nat
  nobs : Nat     -- next_obs["observation"]
  nach : Nat     -- next_obs["achieved_goal"]
  ndg : Nat      -- next_obs["desired_goal"]
  rew : Int
  done : Bool
  timeout : Bool -- infos[e].get("TimeLimit.truncated", False)
  info : Nat     -- tag of infos[e] (only stored when copy_info_dict)
  deriving Repr, DecidableEq, Inhabited

/-- `arr[np.arange(start, start + cnt) % cap] = v` -/
def setRange (l : List Nat) (start cap v : Nat) : Nat → List Nat
  | 0 => l
  | k + 1 => (setRange l start cap v k).set ((start + k) % cap) v

/-- Column of one environment. -/
structure Col where
  cap : Nat              -- self.buffer_size  (= max(buffer_size // n_envs, 1))
  pos : Nat              -- self.pos
  full : Bool            -- self.full
  cur : Nat              -- self._current_ep_start[e]
  epStart : List Nat     -- self.ep_start[:, e]
  epLen : List Nat       -- self.ep_length[:, e]
  slots : List Trans     -- observations / next_observations / actions / rewards / dones / timeouts [:, e]
  deriving Repr, DecidableEq, Inhabited

def Col.init (cap : Nat) : Col :=
  { cap := cap, pos := 0, full := false, cur := 0,
    epStart := List.replicate cap 0, epLen := List.replicate cap 0, slots := List.replicate cap default }

/-- First loop of `add`: when the slot about to be written belongs to a stored episode, the rest of
that episode `np.arange(pos, ep_start + ep_length) % buffer_size` is made unsampleable. -/
def Col.invalidate (c : Col) : Col :=
  let b := c.epStart.getD c.pos 0
  let L := c.epLen.getD c.pos 0
  if 0 < L then { c with epLen := setRange c.epLen c.pos c.cap 0 (b + L - c.pos) } else c

/-- `_compute_episode_length(env_idx)` (uses the already advanced `pos`). -/
def Col.closeEpisode (c : Col) : Col :=
  let e := if c.pos < c.cur then c.pos + c.cap else c.pos
  { c with epLen := setRange c.epLen c.cur c.cap (e - c.cur) (e - c.cur), cur := c.pos }

/-- `pos += 1; if pos == buffer_size: full = True; pos = 0` -/
def Col.advance (c : Col) : Col :=
  if c.pos + 1 = c.cap then { c with pos := 0, full := true } else { c with pos := c.pos + 1 }

/-- `HerReplayBuffer.add` restricted to one environment. `hTT` = `handle_timeout_termination`. -/
def Col.add (hTT : Bool) (c : Col) (t : Trans) : Col :=
  let c1 := c.invalidate
  let st : Trans := { t with timeout := hTT && t.timeout }
  let c2 := { c1 with epStart := c1.epStart.set c1.pos c1.cur, slots := c1.slots.set c1.pos st }
  let c3 := c2.advance
  if t.done then c3.closeEpisode else c3

/-- `truncate_last_trajectory` restricted to one environment. -/
def Col.truncate (hTT : Bool) (c : Col) : Col :=
  if c.cur ≠ c.pos then
    let i := (c.pos + c.cap - 1) % c.cap        -- Python index `pos - 1` (−1 is the last slot)
    let t := c.slots.getD i default
    let c1 := { c with slots := c.slots.set i { t with done := true, timeout := hTT || t.timeout } }
    c1.closeEpisode
  else c

/-- Operations on one column. -/
inductive COp where
  | add (t : Trans)
  | truncate
  deriving Repr, DecidableEq

def Col.step (hTT : Bool) (c : Col) : COp → Col
  | .add t => c.add hTT t
  | .truncate => c.truncate hTT

def Col.run (hTT : Bool) (cap : Nat) (ops : List COp) : Col := ops.foldl (Col.step hTT) (Col.init cap)

/-! ### Ghost history (specification vocabulary, never executed by the driver) -/

/-- What the history knows about add number `a` of a column: the transition as it is stored now and
whether it is the final transition of its real episode (`done`, or cut by `truncate_last_trajectory`). -/
structure Rec where
  t : Trans
  last : Bool
  deriving Repr, DecidableEq, Inhabited

def ghostStep (hTT : Bool) (c : Col) (g : List Rec) : COp → List Rec
  | .add t => g ++ [{ t := { t with timeout := hTT && t.timeout }, last := t.done }]
  | .truncate =>
    let r := g.getD (g.length - 1) default
    if c.cur ≠ c.pos then
      g.set (g.length - 1) { t := { r.t with done := true, timeout := hTT || r.t.timeout }, last := true }
    else g.set (g.length - 1) { r with last := true }

/-- The column together with its ghost history. The first component is exactly `Col.step`. -/
def stepG (hTT : Bool) (cg : Col × List Rec) (op : COp) : Col × List Rec :=
  (cg.1.step hTT op, ghostStep hTT cg.1 cg.2 op)

def runG (hTT : Bool) (cap : Nat) (ops : List COp) : Col × List Rec :=
  ops.foldl (stepG hTT) (Col.init cap, [])

/-- adds `a ≤ a'` (or `a' ≤ a`) belong to one episode: no episode end strictly between them
(at `min … max-1`). -/
def sameEpisode (g : List Rec) (a a' : Nat) : Prop :=
  ∀ k, min a a' ≤ k → k < max a a' → (g.getD k default).last = false

/-- The episode containing add `a` ends at add `e` (inside the history). -/
def endsAt (g : List Rec) (a e : Nat) : Prop :=
  a ≤ e ∧ e < g.length ∧ (g.getD e default).last = true ∧ ∀ k, a ≤ k → k < e → (g.getD k default).last = false

/-! ### The whole buffer -/

structure Her where
  cap : Nat
  nEnvs : Nat
  hTT : Bool
  cols : List Col
  deriving Repr, DecidableEq

/-- `buffer_size = max(buffer_size // n_envs, 1)` -/
def ringSize (bufferSize nEnvs : Nat) : Nat := max (bufferSize / nEnvs) 1

def Her.init (cap nEnvs : Nat) (hTT : Bool) : Her :=
  { cap := cap, nEnvs := nEnvs, hTT := hTT, cols := List.replicate nEnvs (Col.init cap) }

inductive Op where
  | add (row : List Trans)       -- one transition per environment
  | truncate
  deriving Repr, DecidableEq

/-- The operation seen by column `e`. -/
def Op.proj (e : Nat) : Op → COp
  | .add row => .add (row.getD e default)
  | .truncate => .truncate

def Her.step (h : Her) (op : Op) : Her :=
  { h with cols := (List.range h.cols.length).map fun e => (h.cols.getD e default).step h.hTT (op.proj e) }

def Her.run (cap nEnvs : Nat) (hTT : Bool) (ops : List Op) : Her := ops.foldl Her.step (Her.init cap nEnvs hTT)

/-! ### Sampling -/

inductive Strategy where
  | future | final | episode
  deriving Repr, DecidableEq

def Col.valid (c : Col) (s : Nat) : Bool := decide (0 < c.epLen.getD s 0)

/-- `np.flatnonzero(self.ep_length > 0)`: flat indices `slot * n_envs + env`, ascending. -/
def Her.validFlat (h : Her) : List Nat :=
  (List.range (h.cap * h.nEnvs)).filter fun i => (h.cols.getD (i % h.nEnvs) default).valid (i / h.nEnvs)

/-- `int(her_ratio * batch_size)` with `her_ratio = 1 - 1/(n_sampled_goal + 1)`, in exact arithmetic. -/
def nbVirtual (nGoal batch : Nat) : Nat := nGoal * batch / (nGoal + 1)

/-- `(batch_indices - batch_ep_start) % buffer_size` -/
def Col.curIdx (c : Col) (s : Nat) : Nat := (s + c.cap - c.epStart.getD s 0) % c.cap

/-- Half-open range `[lo, hi)` of `transition_indices_in_episode` the strategy may produce for slot `s`
(`final`: the single value `ep_length - 1`; `future`: `np.random.randint(current, ep_length)`;
`episode`: `np.random.randint(0, ep_length)`). -/
def Col.goalRange (strat : Strategy) (c : Col) (s : Nat) : Nat × Nat :=
  let L := c.epLen.getD s 0
  match strat with
  | .final => (L - 1, L)
  | .future => (c.curIdx s, L)
  | .episode => (0, L)

/-- `(transition_indices_in_episode + batch_ep_start) % buffer_size` -/
def Col.goalSlot (c : Col) (s idx : Nat) : Nat := (idx + c.epStart.getD s 0) % c.cap

/-- One element of a sampled batch. -/
structure Sample where
  obs : Nat
  ach : Nat
  dg : Nat
  act : Nat
  nobs : Nat
  nach : Nat
  ndg : Nat
  rew : Int
  done : Bool
  deriving Repr, DecidableEq, Inhabited

/-- What `_get_real_samples` returns for a stored transition `t`: the transition itself;
`dones * (1 - timeouts)`. -/
def realOf (t : Trans) : Sample :=
  { obs := t.obs, ach := t.ach, dg := t.dg, act := t.act, nobs := t.nobs, nach := t.nach, ndg := t.ndg,
    rew := t.rew, done := t.done && !t.timeout }

/-- What `_get_virtual_samples` returns for a stored transition `t` relabelled with the goal taken from
transition `tg`: `desired_goal := tg.next_achieved_goal` in both observations, reward
`compute_reward(t.next_achieved_goal, new goal)`, everything else untouched. -/
def relabelOf (cr : Nat → Nat → Int) (t tg : Trans) : Sample :=
  { obs := t.obs, ach := t.ach, dg := tg.nach, act := t.act, nobs := t.nobs, nach := t.nach, ndg := tg.nach,
    rew := cr t.nach tg.nach, done := t.done && !t.timeout }

/-- `_get_real_samples` for one index pair. -/
def Col.real (c : Col) (s : Nat) : Sample := realOf (c.slots.getD s default)

/-- `_get_virtual_samples` for one index pair and one drawn index in the episode: the goal comes from
`next_observations["achieved_goal"][goal slot]`. -/
def Col.virt (cr : Nat → Nat → Int) (c : Col) (s idx : Nat) : Sample :=
  relabelOf cr (c.slots.getD s default) (c.slots.getD (c.goalSlot s idx) default)

/-- `np.unravel_index(i, (buffer_size, n_envs))` -/
def Her.unravel (h : Her) (i : Nat) : Nat × Nat := (i / h.nEnvs, i % h.nEnvs)

/-- Are the supplied draws possible outcomes of `np.random.choice(valid_indices, batch)` and of the
strategy's `np.random.randint`? (`draws`: the `batch` flat indices; `goals`: one index-in-episode per
virtual sample, ignored for `final`.) -/
def Her.sampleOk (h : Her) (strat : Strategy) (nGoal batch : Nat) (draws goals : List Nat) : Bool :=
  draws.length == batch && goals.length == nbVirtual nGoal batch &&
  draws.all (fun i => h.validFlat.contains i) &&
  ((draws.take (nbVirtual nGoal batch)).zip goals).all (fun (i, idx) =>
    let (s, e) := h.unravel i
    let r := (h.cols.getD e default).goalRange strat s
    strat == .final || (decide (r.1 ≤ idx) && decide (idx < r.2)))

/-- The index in the episode used for a virtual sample. -/
def Col.goalIdx (strat : Strategy) (c : Col) (s draw : Nat) : Nat :=
  match strat with
  | .final => c.epLen.getD s 0 - 1
  | _ => draw

/-- `sample`: the first `nb_virtual` drawn indices become virtual transitions, the others real ones;
the batch is `real ++ virtual`. -/
def Her.sampleOut (cr : Nat → Nat → Int) (h : Her) (strat : Strategy) (nGoal batch : Nat)
    (draws goals : List Nat) : List Sample :=
  let nv := nbVirtual nGoal batch
  let real := (draws.drop nv).map fun i =>
    let (s, e) := h.unravel i
    (h.cols.getD e default).real s
  let virt := ((draws.take nv).zip goals).map fun (i, idx) =>
    let (s, e) := h.unravel i
    let c := h.cols.getD e default
    c.virt cr s (c.goalIdx strat s idx)
  real ++ virt

/-! ### Specification predicates for sampled transitions (ghost level) -/

/-- Ghost history of column `e` of the whole buffer after `ops`. -/
def ghostOf (hTT : Bool) (cap : Nat) (ops : List Op) (e : Nat) : List Rec :=
  (runG hTT cap (ops.map (Op.proj e))).2

/-- `smp` is the stored transition of add number `a` of history `g`, `a` is among the last `cap` adds
(not overwritten) and its episode has ended (at add `e`). -/
def IsStored (cap : Nat) (g : List Rec) (smp : Sample) : Prop :=
  ∃ a e, a < g.length ∧ g.length ≤ a + cap ∧ endsAt g a e ∧ smp = realOf (g.getD a default).t

/-- `smp` is add number `a` relabelled with the next achieved goal of add number `a'`; both are among the
last `cap` adds, both belong to the episode that ended at add `e`; `future`: `a'` is at or after `a`;
`final`: `a'` is the last transition of the episode. -/
def IsRelabelled (cr : Nat → Nat → Int) (strat : Strategy) (cap : Nat) (g : List Rec) (smp : Sample) : Prop :=
  ∃ a a' e, a < g.length ∧ g.length ≤ a + cap ∧ a' < g.length ∧ g.length ≤ a' + cap ∧
    endsAt g a e ∧ endsAt g a' e ∧ (strat = .future → a ≤ a') ∧ (strat = .final → a' = e) ∧
    smp = relabelOf cr (g.getD a default).t (g.getD a' default).t

end SB3Verif.Her
