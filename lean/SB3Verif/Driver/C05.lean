/-
Driver for C05: runs the executable model `SB3Verif.Rollout` on the operations the harness
(`/verif/harness/c05.py`) performed on the real `RolloutBuffer` / `DictRolloutBuffer`.

ops
  {"op":"gae","gamma":q,"lam":q,"n":n,"rewards":[[q]],"values":[[q]],"starts":[[q]],
   "last_values":[q],"dones":[q]}           → {"adv":[[q]] (T×n), "ret":[[q]] (T×n)}
  {"op":"get","T":T,"n":n,"perm":[i],"batch":b|null}
                                            → {"batches":[[[t,e]]]}
  {"op":"flat","n":n,"rows":[[tag]]}        → {"flat":[tag]}     (swap_and_flatten)
  {"op":"buf","T":T,"n":n,"adds":k}         → {"full":bool,"pos":k} | {"error":…} (add past the end)
-/
import SB3Verif.Driver.Proto
import SB3Verif.Model.Rollout

open Lean SB3Verif.Proto SB3Verif.Rollout

def transposeCols (T : Nat) (cols : List (List Rat)) : List (List Rat) :=
  (List.range T).map fun t => cols.map fun c => c.getD t 0

def stepC05 (_ : Unit) (j : Json) : Except String (Unit × Json) := do
  let op ← getStr j "op"
  match op with
  | "gae" =>
    let γ ← getRat j "gamma"
    let lam ← getRat j "lam"
    let n ← getNat j "n"
    let rew ← getList (asListOf asRat) j "rewards"
    let val ← getList (asListOf asRat) j "values"
    let st ← getList (asListOf asRat) j "starts"
    let lv ← getList asRat j "last_values"
    let dn ← getList asRat j "dones"
    let advCols := gae γ lam n rew val st lv dn
    let T := rew.length
    let retCols := (List.range n).map fun e =>
      let steps := (List.zip (column rew e) (List.zip (column val e) (column st e))).map
        (fun x => Step.mk x.1 x.2.1 x.2.2)
      returnsCol (advCols.getD e []) steps
    let adv := transposeCols T advCols
    let ret := transposeCols T retCols
    return ((), objJ [("adv", listJ (listJ ratJ) adv), ("ret", listJ (listJ ratJ) ret)])
  | "get" =>
    let T ← getNat j "T"
    let n ← getNat j "n"
    let perm ← getList asNat j "perm"
    let b : Option Nat := match (fld j "batch") with
      | .ok v => (match v.getNat? with | .ok k => some k | .error _ => none)
      | .error _ => none
    let bs := getBatches T n perm b
    return ((), objJ [("batches", listJ (listJ (fun p => Json.arr #[natJ p.1, natJ p.2])) bs)])
  | "flat" =>
    let n ← getNat j "n"
    let rows ← getList (asListOf asInt) j "rows"
    return ((), objJ [("flat", listJ intJ (swapFlatten n rows))])
  | "buf" =>
    let T ← getNat j "T"
    let n ← getNat j "n"
    let k ← getNat j "adds"
    let rec go (fuel : Nat) (b : Buf Nat) : Option (Buf Nat) :=
      match fuel with
      | 0 => some b
      | f + 1 => match b.add (List.replicate n 0) with
        | none => none
        | some b' => go f b'
    match go k (Buf.init T n) with
    | none => throw "add-past-end"
    | some b => return ((), objJ [("full", boolJ b.full), ("pos", natJ b.rows.length)])
  | _ => throw s!"bad-op {op}"

def main : IO Unit := SB3Verif.Proto.run stepC05 ()
