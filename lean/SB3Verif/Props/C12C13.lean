/-
C12 × C13 — the two independently written models of the `learn` loop agree.

`SB3Verif.Learn` (Model/Learn.lean, C12) and `SB3Verif.Callback` (Model/Callback.lean: `LS`, `LS.next`, `runN`, C13)
were written by different people from the same source (`_setup_learn`, the two `learn` / `collect_rollouts` loops).
The theorems below show that, for every configuration expressible in both, they make the SAME callback-visible
trace: training start with its counter, rollout starts, every step with its `num_timesteps`, rollout ends, training
end — hence the same number of steps per rollout and the same place where each `learn` call ends.

Translation of the input conventions (definitions in `Lemmas/LearnCallback.lean`):
* `cbCfg cfg dones` — the `Callback` configuration of a `Learn` configuration (on/off-policy, `n_envs`, `n_steps` or
  `train_freq` in steps or episodes); every `Callback` configuration except "on-policy with episode-counted rollouts"
  (which does not exist in the code) is of this form; the update-related fields of `Learn.Cfg` have no counterpart;
* `opsOf dones g0 trace` — `Callback` receives a stop request as the handler's answer to `step` and episode ends as a
  function `dones g` of the global environment-step index; `Learn` receives both with each `env` input: the `i`-th
  `step` call with answer `ok` becomes `env (!ok) (dones (g0+i)) []`;
* `projC` / `projE` — the two projections to `trainingStart n / rolloutStart / step n / rolloutEnd / trainingEnd`
  (`update_locals` calls, progress updates and `train()` events are not callback-visible events and are dropped).
Since the stop answers are read off the `Callback` machine's own log, the agreement holds for EVERY handler `h`
(every callback tree, leaf, absent callback, …), every episode-end function and every fuel.

Side condition `0 < rolloutParam cfg` (`n_steps ≥ 1` / `train_freq ≥ 1`): for `0` the code itself asserts or crashes and the
two models do different things (`Callback` loops through empty rollouts, `Learn` makes a step).
-/
import SB3Verif.Lemmas.LearnCallback

namespace SB3Verif.C12C13

open SB3Verif.Learn SB3Verif.LearnCallback
open SB3Verif.Callback (Call Dones LS Pc)

/-- **One `learn` call.** Start the `Callback` machine where the `Learn` machine is (`prevNum = st0.num`, any idle
`st0`, `g0` environment steps made before), with any handler `h`, any callback state and any fuel. If it completes the
call, then feeding `Learn` the translated inputs gives the same callback-visible trace, `Learn` is idle again, and
both machines end with the same counter and the same target. -/
theorem learn_loop_models_agree {σ : Type} (cfg : Learn.Cfg) (dones : Dones) (hsz : 0 < rolloutParam cfg) (st0 : State)
    (h0 : st0.running = false) (T : ℕ) (r : Bool) (g0 : ℕ) (h : σ → Call → σ × Bool) (cb : σ) (fuel : ℕ) :
    let s := LS.runN (cbCfg cfg dones) h fuel (LS.setup st0.num g0 cb T r)
    let R := run cfg st0 (.learn T r :: opsOf dones g0 s.trace)
    s.pc = .done →
      projC s.trace = projE R.2 ∧ R.1.running = false ∧ R.1.num = s.num ∧ R.1.total = s.total :=
  call_agree cfg dones hsz st0 h0 T r g0 h cb fuel

/-- **Any sequence of `learn` calls** (with and without counter reset, stopped or not), each machine threading its
own state from call to call (`SeqAgree`): every completed call has coinciding callback-visible traces and final
counters. -/
theorem learn_loop_models_agree_seq {σ : Type} (cfg : Learn.Cfg) (dones : Dones) (hsz : 0 < rolloutParam cfg)
    (h : σ → Call → σ × Bool) (cs : List CallSpec) (g0 : ℕ) (cb : σ) :
    SeqAgree cfg dones h State.init 0 g0 cb cs :=
  seq_agree cfg dones hsz h cs State.init 0 g0 cb rfl rfl

/-- The same for the other model's own entry point `Callback.learn` with a callback tree (leaf, lists, event
callbacks, absent callback …) as handler. -/
theorem learn_loop_agrees_with_callback_tree (cfg : Learn.Cfg) (dones : Dones) (hsz : 0 < rolloutParam cfg) (st0 : State)
    (h0 : st0.running = false) (T : ℕ) (r : Bool) (g0 : ℕ) (tree : Callback.Run) (fuel : ℕ) :
    let s := Callback.learn (cbCfg cfg dones) fuel st0.num g0 tree T r
    let R := run cfg st0 (.learn T r :: opsOf dones g0 s.trace)
    s.pc = .done → projC s.trace = projE R.2 ∧ R.1.running = false ∧ R.1.num = s.num := by
  intro s R hd
  have := call_agree cfg dones hsz st0 h0 T r g0 (Callback.treeHandler (cbCfg cfg dones).dones)
    { tree with evs := [] } fuel hd
  exact ⟨this.1, this.2.1, this.2.2.1⟩

/-! ### concrete multi-call histories, checked by evaluation of both machines -/

/-- PPO (2 envs × 4 steps): `learn(20)` runs to 24; the callback's 15th `on_step` overall — the 3rd step of the
following `learn(5, reset_num_timesteps=False)` — answers `False`. -/
example :
    (LS.runN (cbCfg exPPO (fun _ => 0)) (stopAt [15]) 100 (LS.setup 0 0 0 20 true)).pc = .done ∧
      projC (LS.runN (cbCfg exPPO (fun _ => 0)) (stopAt [15]) 100 (LS.setup 0 0 0 20 true)).trace =
        projE (run exPPO State.init (.learn 20 true :: quiet 12)).2 ∧
      (LS.runN (cbCfg exPPO (fun _ => 0)) (stopAt [15]) 100 (LS.setup 0 0 0 20 true)).num = 24 := by
  decide +kernel

example :
    projC (LS.runN (cbCfg exPPO (fun _ => 0)) (stopAt [15]) 100 (LS.setup 24 12 12 5 false)).trace =
      [.trainingStart 24, .rolloutStart, .step 26, .step 28, .step 30, .trainingEnd] ∧
    projE (run exPPO (run exPPO State.init (.learn 20 true :: quiet 12)).1
        [.learn 5 false, .env false 0 [], .env false 0 [], .env true 0 []]).2 =
      [.trainingStart 24, .rolloutStart, .step 26, .step 28, .step 30, .trainingEnd] := by
  decide +kernel

/-- TD3 with one episode per rollout, episodes ending at every even environment step; two calls, the second with reset -/
example :
    projC (LS.runN (cbCfg exTD3 (fun g => if g % 2 = 0 then 1 else 0)) (stopAt []) 100 (LS.setup 0 0 0 3 true)).trace =
      [.trainingStart 0, .rolloutStart, .step 1, .step 2, .rolloutEnd, .rolloutStart, .step 3, .step 4, .rolloutEnd,
        .trainingEnd] ∧
    projE (run exTD3 State.init
        (.learn 3 true :: opsOf (fun g => if g % 2 = 0 then 1 else 0) 0
          (LS.runN (cbCfg exTD3 (fun g => if g % 2 = 0 then 1 else 0)) (stopAt []) 100 (LS.setup 0 0 0 3 true)).trace)).2 =
      [.trainingStart 0, .rolloutStart, .step 1, .step 2, .rolloutEnd, .rolloutStart, .step 3, .step 4, .rolloutEnd,
        .trainingEnd] := by
  decide +kernel

/-- DQN, 4 envs, `train_freq = 2`: `learn(10)` ends at 16 in both machines -/
example :
    projC (LS.runN (cbCfg exDQN (fun _ => 4)) (stopAt []) 100 (LS.setup 0 0 0 10 true)).trace =
      projE (run exDQN State.init (.learn 10 true :: List.replicate 4 (.env false 4 []))).2 ∧
    (LS.runN (cbCfg exDQN (fun _ => 4)) (stopAt []) 100 (LS.setup 0 0 0 10 true)).num = 16 := by
  decide +kernel

example : 0 < rolloutParam exPPO ∧ 0 < rolloutParam exTD3 ∧ 0 < rolloutParam exDQN := by decide

end SB3Verif.C12C13
