"""
C02 — SubprocVecEnv is observationally equivalent to DummyVecEnv under any timing.

Implementation under test: stable_baselines3.common.vec_env.{SubprocVecEnv, DummyVecEnv} (+ base VecEnv)
Model: lean/SB3Verif/Model/Subproc.lean (driver lean/SB3Verif/Driver/C02.lean)

Every case builds a DummyVecEnv and a SubprocVecEnv from the same picklable constructors and drives both in lock-step
with the same seeds / options / actions / attribute and method calls. The sub-environments of the SubprocVecEnv sleep
for scripted per-call delays so that the workers finish in chosen orders; each call writes a CLOCK_MONOTONIC stamp to a
per-environment file, from which the achieved completion order of every operation is reconstructed and histogrammed.

Two independent detectors:
  oracle          the two real objects are compared element-wise at every operation (raw arrays incl. dtype/shape of
                  observations, exact reward values, dones, infos, reset_infos, call results, the sub-environments'
                  own call logs), plus the scripted ground truth "slot i holds an observation of sub-environment i";
  correspondence  the Lean model (message-passing system under a schedule derived from the observed completion order
                  AND under a random schedule; sequential Dummy) is run on the same operations and must reproduce
                  both objects' canonicalised outputs exactly.
"""
from __future__ import annotations

import os
import shutil
import tempfile
import threading
import time
from fractions import Fraction as F

import gymnasium as gym
import numpy as np

from harness import envs as E
from harness.common import canon, guarded, ratj, unratj

RULE = (
    "cases from one SplitMix64 stream: n_envs 1..4 (widened 1..6), every observation-space kind of harness/envs.py "
    "(box rank 1/2, image HWC/CHW, discrete, multidiscrete, multibinary, dict, tuple), 4 action kinds, per-env episode "
    "scripts (length-1 episodes, terminated&truncated, truncation only, never-ending) with float32-representable "
    "rewards, 6-16 operations mixing seed(int|None) / set_options(None|dict|list, empty dicts) / reset / step / "
    "step_async + step_wait (with a sleep in between) / get_attr / set_attr (incl. the script position n_steps) / "
    "env_method (args and kwargs) / has_attr / env_is_wrapped (half of the sub-environments inside one or two plain "
    "gym.Wrapper layers, the inner one carrying its own `some_attr` that differs from the scripted environment's; 60% of "
    "the set_attr calls are followed by get_attr and by a step / env_method that makes the scripted environment itself "
    "read the attribute) / close (at the end, in the middle, while a step is outstanding, twice) with indices None | int | "
    "list / tuple / range incl. repeated, permuted and empty index lists; per-env per-call sleep patterns (identity, "
    "reversed, rotated, random, one straggler, none) that make the workers complete in chosen orders; start method "
    "fork (quick) or fork / forkserver / spawn (thorough). A small dedicated stream (kind=dtype) uses 0.1-like rewards "
    "(finding F-C02-a). Stream f32 ties the model's float32 conversion to NumPy's. "
    "non-trivial = case in which the workers of at least one operation completed in an order different from the index "
    "order (reconstructed from the time stamps) and at least one episode ended; distinct = distinct canonical case"
)
STREAMS = {
    "subproc_vs_model": "canonicalised outputs and the waiting/closed flags of the real SubprocVecEnv == Lean Sub (two "
                        "schedules), every call; pipes of the model empty (or one reply owed per worker while waiting)",
    "dummy_vs_model": "canonicalised outputs of the real DummyVecEnv == Lean Dummy, every operation",
    "f32_cast": "np.float32(x) == Lean roundF32 x, exactly",
}

ATTRS = ["some_attr", "n_steps", "episode", "env_id", "step_in_ep", "last_action"]
CALL_TIMEOUT = 120.0  # seconds; a call of the real object that does not return by then is reported as a hang
HANG_TIMEOUT_AFTER_FIRST = 20.0


# ------------------------------------------------------------------------------------------------
# the sub-environment
# ------------------------------------------------------------------------------------------------
def action_code(action) -> int:
    return int(round(float(np.asarray(action).reshape(-1)[0]) * 4))


class TimedEnv(E.ScriptedEnv):
    """ScriptedEnv + scripted sleeps, completion stamps and a few extra observable attributes."""

    def __init__(self, env_id=0, obs_kind="box1", act_kind="discrete", script=None, delays=None, unit=0.0,
                 stamp_path=None, reset_style=0):
        super().__init__(env_id=env_id, obs_kind=obs_kind, act_kind=act_kind, script=script)
        # 0: informative reset info always; 1: only when a seed / options were delivered, `{}` for an automatic reset;
        # 2: always `{}` (a non-empty reset info followed by an empty one: seeded changes C01-d, C02-h)
        self.reset_style = reset_style
        self.delays = delays or []
        self.unit = unit
        self.stamp_path = stamp_path
        self.calls = 0
        self.last_action = -1

    def _nap(self):
        if self.delays and self.unit:
            d = self.delays[self.calls % len(self.delays)] * self.unit
            if d > 0:
                time.sleep(d)
        self.calls += 1

    def _stamp(self, what):
        if self.stamp_path:
            with open(self.stamp_path, "a") as f:
                f.write(f"{self.env_id} {what} {time.monotonic_ns()}\n")

    def reset(self, *, seed=None, options=None):
        self._nap()
        out = super().reset(seed=seed, options=options)
        if self.reset_style == 2 or (self.reset_style == 1 and seed is None and not options):
            out = (out[0], {})
        self._stamp("reset")
        return out

    def step(self, action):
        self._nap()
        out = super().step(action)
        self.last_action = action_code(action)
        self._stamp("step")
        return out

    def add_to_attr(self, x, y=0):
        self._nap()
        out = super().add_to_attr(x, y)
        self._stamp("method")
        return out

    def echo(self, *args, **kwargs):
        self._nap()
        out = super().echo(*args, **kwargs)
        self._stamp("method")
        return out


class PassThrough(gym.Wrapper):
    """A plain gym.Wrapper (no attribute forwarding). It carries its OWN attribute `some_attr` whose value differs from
    the scripted environment's: `get_attr("some_attr")` must return the wrapper's, `env_method("add_to_attr")` acts on
    the scripted environment's, and `set_attr` through the vectorised environment is `setattr` on the outermost
    object, which the scripted environment underneath never sees."""

    def __init__(self, env):
        super().__init__(env)
        self.some_attr = 1000 + env.env_id


class OuterWrap(gym.Wrapper):
    """second, attribute-free wrapper layer"""


WRAPPER_CLASSES = {"PassThrough": PassThrough, "OuterWrap": OuterWrap, "TimeLimit": gym.wrappers.TimeLimit}


def case_depths(case):
    """wrapper layers per sub-environment (older cases carry booleans under "wrapped")"""
    if "depth" in case:
        return list(case["depth"])
    return [1 if w else 0 for w in (case.get("wrapped") or [False] * case["n"])]


class TimedEnvFn:
    """picklable constructor (fork, forkserver, spawn)"""

    def __init__(self, depth=0, **kw):
        self.kw = kw
        self.depth = depth

    def __call__(self):
        env = TimedEnv(**self.kw)
        if self.depth >= 1:
            env = PassThrough(env)
        if self.depth >= 2:
            env = OuterWrap(env)
        return env


# ------------------------------------------------------------------------------------------------
# generation
# ------------------------------------------------------------------------------------------------
ACT_KINDS = ["discrete", "box", "multidiscrete", "multibinary"]
BAD_REWARDS = [0.1, 0.3, -0.7, 1.1, 1e-3, 2.2]


def gen_action(rng, kind):
    if kind == "discrete":
        return rng.randint(0, 3)
    if kind == "box":
        return [rng.randint(-8, 24) / 4.0, rng.randint(2, 6) / 4.0]
    if kind == "multidiscrete":
        return [rng.randint(0, 2), rng.randint(0, 1)]
    if kind == "multibinary":
        return [rng.randint(0, 1) for _ in range(3)]
    raise ValueError(kind)


def act_array(acts, kind):
    if kind == "discrete":
        return np.array(acts, dtype=np.int64)
    if kind == "box":
        return np.array(acts, dtype=np.float32)
    if kind == "multidiscrete":
        return np.array(acts, dtype=np.int64)
    return np.array(acts, dtype=np.int8)


def gen_indices(rng, n):
    k = rng.weighted([("none", 3), ("int", 3), ("list", 5), ("tuple", 1), ("range", 1), ("empty", 1)])
    if k == "none":
        return None
    if k == "int":
        return rng.randint(0, n - 1)
    if k == "empty":
        return {"list": []}
    if k == "range":
        a = rng.randint(0, n - 1)
        return {"range": [a, rng.randint(a, n)]}
    m = rng.randint(1, n + 2)
    style = rng.choice(["rand", "perm", "rev", "dup"])
    if style == "perm":
        l = rng.perm(n)[: max(1, min(m, n))]
    elif style == "rev":
        l = list(range(n))[::-1]
    elif style == "dup":
        i = rng.randint(0, n - 1)
        l = [i, rng.randint(0, n - 1), i]
    else:
        l = [rng.randint(0, n - 1) for _ in range(m)]
    return {k: l}


def idx_py(idx):
    """case representation -> the Python argument"""
    if idx is None or isinstance(idx, int):
        return idx
    if "list" in idx:
        return list(idx["list"])
    if "tuple" in idx:
        return tuple(idx["tuple"])
    return range(idx["range"][0], idx["range"][1])


def idx_model(idx):
    if idx is None or isinstance(idx, int):
        return idx
    if "list" in idx:
        return list(idx["list"])
    if "tuple" in idx:
        return list(idx["tuple"])
    return list(range(idx["range"][0], idx["range"][1]))


def idx_targets(idx, n):
    m = idx_model(idx)
    if m is None:
        return list(range(n))
    if isinstance(m, int):
        return [m]
    return m


def gen_opts(rng):
    return rng.weighted([({}, 1), ({"a": rng.randint(0, 9)}, 3), ({"b": rng.randint(-5, 5), "a": 1}, 2)])


def gen_delays(rng, n, widen):
    """per env: list of delay units, one per call (cyclic); the pattern decides the completion order"""
    pat = rng.weighted([("rev", 3), ("rot", 2), ("rand", 4), ("straggler0", 2), ("id", 1), ("none", 1),
                        ("alternate", 2)])
    L = rng.randint(2, 5)
    if pat == "none":
        return pat, [[0] for _ in range(n)]
    if pat == "id":
        return pat, [[i] for i in range(n)]
    if pat == "rev":
        return pat, [[n - 1 - i] for i in range(n)]
    if pat == "rot":
        r = rng.randint(1, max(1, n - 1))
        return pat, [[(i + r) % n] for i in range(n)]
    if pat == "straggler0":
        return pat, [[n if i == 0 else 0] for i in range(n)]
    if pat == "alternate":
        return pat, [[i, n - 1 - i] for i in range(n)]
    out = [[0] * L for _ in range(n)]
    for k in range(L):
        p = rng.perm(n)
        for i in range(n):
            out[i][k] = p[i]
    return pat, out


def gen_main(rng, ctx, kind="main"):
    widen = ctx.widen
    n = rng.weighted([(1, 1), (2, 3), (3, 4), (4, 3)]) if not widen else rng.randint(1, 6)
    obs_kind = rng.choice(E.OBS_KINDS)
    act_kind = rng.choice(ACT_KINDS)
    if ctx.thorough:
        start = rng.weighted([("fork", 6), ("forkserver", 1), ("spawn", 1)])
    else:
        start = "fork"
    scripts = [E.gen_script(rng, length=rng.randint(1, 6)) for _ in range(n)]
    if kind == "dtype":
        for s in scripts:
            for e in s:
                if rng.chance(0.5):
                    e[0] = rng.choice(BAD_REWARDS)
        scripts[0][0][0] = rng.choice(BAD_REWARDS)
    pat, delays = gen_delays(rng, n, widen)
    nops = rng.randint(6, 16) if not widen else rng.randint(8, 24)
    if kind == "dtype":
        nops = rng.randint(3, 6)
    ops = []
    have_reset = False
    for k in range(nops):
        if not have_reset and k >= 2:
            o = "reset"
        else:
            o = rng.weighted([("step", 10 if have_reset else 0), ("reset", 2), ("seed", 1.5), ("set_options", 1.5),
                              ("get_attr", 2), ("set_attr", 1.5), ("env_method", 2.5), ("has_attr", 0.7), ("is_wrapped", 0.8)])
        if o == "reset":
            have_reset = True
            ops.append({"op": "reset"})
        elif o == "step":
            acts = [gen_action(rng, act_kind) for _ in range(n)]
            if rng.chance(0.3):
                # step_async(); sleep; step_wait()  (0 = no sleep: some workers may still be running at step_wait)
                ops.append({"op": "step_async", "acts": acts})
                ops.append({"op": "step_wait", "sleep_ms": rng.choice([0, 0, 1, 4, 12])})
            else:
                ops.append({"op": "step", "acts": acts})
        elif o == "is_wrapped":
            ops.append({"op": "is_wrapped", "cls": rng.choice(["PassThrough", "PassThrough", "OuterWrap", "TimeLimit"]),
                        "idx": gen_indices(rng, n)})
        elif o == "has_attr":
            ops.append({"op": "has_attr", "name": rng.choice(ATTRS + ["no_such_attr", "script", "nope"])})
        elif o == "seed":
            ops.append({"op": "seed", "s": rng.weighted([(None, 1), (rng.randint(0, 1000), 3), (2**31 + rng.randint(0, 9), 1)])})
        elif o == "set_options":
            a = rng.weighted([("none", 1), ("dict", 3), ("list", 3)])
            arg = None if a == "none" else gen_opts(rng) if a == "dict" else [gen_opts(rng) for _ in range(n)]
            ops.append({"op": "set_options", "arg": arg})
        elif o == "get_attr":
            ops.append({"op": "get_attr", "name": rng.choice(ATTRS), "idx": gen_indices(rng, n)})
        elif o == "set_attr":
            name = rng.choice(["some_attr", "n_steps"])
            v = rng.randint(-50, 50) if name == "some_attr" else rng.randint(0, 7)
            ops.append({"op": "set_attr", "name": name, "v": v, "idx": gen_indices(rng, n)})
            if rng.chance(0.6):
                # what the write did must show (or, through a wrapper, must NOT show) in what the scripted
                # environment itself does afterwards, not only in get_attr
                ops.append({"op": "get_attr", "name": name, "idx": None})
                if name == "some_attr":
                    ops.append({"op": "env_method", "name": "add_to_attr", "args": [rng.randint(-4, 4)], "kwargs": {},
                                "idx": None})
                elif have_reset:
                    ops.append({"op": "step", "acts": [gen_action(rng, act_kind) for _ in range(n)]})
                    ops.append({"op": "get_attr", "name": name, "idx": None})
        else:
            if rng.chance(0.6):
                kw = {"y": rng.randint(-3, 3)} if rng.chance(0.5) else {}
                ops.append({"op": "env_method", "name": "add_to_attr", "args": [rng.randint(-4, 4)], "kwargs": kw,
                            "idx": gen_indices(rng, n)})
            else:
                ops.append({"op": "env_method", "name": "echo", "args": [rng.randint(0, 9) for _ in range(rng.randint(0, 3))],
                            "kwargs": {}, "idx": gen_indices(rng, n)})
    if kind == "dtype" and not any(o["op"] in ("step", "step_wait") for o in ops):
        ops.append({"op": "step", "acts": [gen_action(rng, act_kind) for _ in range(n)]})
    # close at a random point: at the end, in the middle, or while a step is outstanding; sometimes twice
    if kind == "main" and rng.chance(0.4):
        where = rng.weighted([("end", 2), ("middle", 2), ("waiting", 3)])
        asyncs = [i for i, o in enumerate(ops) if o["op"] == "step_async"]
        if where == "waiting" and asyncs:
            ops = ops[: rng.choice(asyncs) + 1]
        elif where == "waiting" and have_reset:
            ops.append({"op": "step_async", "acts": [gen_action(rng, act_kind) for _ in range(n)]})
        elif where == "middle":
            cut = rng.randint(1, len(ops))
            while cut < len(ops) and ops[cut - 1]["op"] == "step_async":
                cut += 1
            ops = ops[:cut]
        ops.append({"op": "close", "sleep_ms": rng.choice([0, 0, 3])})
        if rng.chance(0.35):
            ops.append({"op": "close", "sleep_ms": 0})
    unit_ms = rng.choice([2, 3]) if not ctx.thorough else rng.choice([2, 3, 5])
    depth = [rng.weighted([(0, 5), (1, 3), (2, 2)]) for _ in range(n)]
    rs = rng.weighted([(0, 4), (1, 4), (2, 1)])
    reset_style = [rs] * n if rng.chance(0.6) else [rng.weighted([(0, 4), (1, 4), (2, 1)]) for _ in range(n)]
    return {"kind": kind, "n": n, "obs_kind": obs_kind, "act_kind": act_kind, "start": start, "scripts": scripts,
            "depth": depth, "reset_style": reset_style,
            "pattern": pat, "delays": delays, "unit_ms": unit_ms, "ops": ops, "npseed": rng.randint(0, 2**31 - 1),
            "sched_seed": rng.randint(0, 2**31 - 1)}


def gen_f32(rng):
    style = rng.choice(["dec", "tie", "rand", "small", "big"])
    if style == "dec":
        q = F(rng.randint(-5000, 5000), rng.choice([10, 100, 1000, 3, 7]))
    elif style == "tie":
        # exactly half-way between two float32 neighbours (ties-to-even)
        m = rng.randint(2**23, 2**24 - 1)
        e = rng.randint(-30, 20)
        q = (F(2 * m + 1, 2)) * (F(2) ** e)
    elif style == "small":
        q = F(rng.randint(1, 10**6), 10 ** rng.randint(6, 20))
    elif style == "big":
        q = F(rng.randint(1, 10**12), rng.randint(1, 1000))
    else:
        q = F(rng.random() * 2 - 1) * F(2) ** rng.randint(-20, 20)
    if q == 0:
        q = F(1, 10)
    return {"kind": "f32", "q": ratj(F(float(q)))}  # the double nearest to q (what a Python float reward is)


def gen_cases(ctx):
    rng = ctx.rng
    cases = []
    for _ in range(ctx.budget(280, 2800)):
        cases.append(gen_main(rng, ctx))
    for _ in range(ctx.budget(12, 100)):
        cases.append(gen_main(rng, ctx, kind="dtype"))
    for _ in range(ctx.budget(400, 4000)):
        cases.append(gen_f32(rng))
    return cases


def valid_ops(ops):
    """the protocol of the classes: step needs a previous reset (scripted envs), step_wait only after step_async,
    nothing but step_wait / close while a step is outstanding, nothing but close after close"""
    seen = False
    phase = "idle"
    for o in ops:
        k = o["op"]
        if phase == "closed":
            if k != "close":
                return False
            continue
        if phase == "waiting":
            if k == "step_wait":
                phase = "idle"
            elif k == "close":
                phase = "closed"
            else:
                return False
            continue
        if k == "step_wait":
            return False
        if k == "reset":
            seen = True
        if k in ("step", "step_async") and not seen:
            return False
        if k == "step_async":
            phase = "waiting"
        if k == "close":
            phase = "closed"
    return True


def shrink_candidates(case):
    if case.get("kind") not in ("main", "dtype"):
        return
    ops = case["ops"]
    # drop a tail, then single operations
    for cut in (len(ops) // 2, len(ops) - 1):
        if 0 < cut < len(ops) and valid_ops(ops[:cut]):
            c = dict(case)
            c["ops"] = ops[:cut]
            yield c
    for i in range(len(ops)):
        l = ops[:i] + ops[i + 1:]
        if l and valid_ops(l):
            c = dict(case)
            c["ops"] = l
            yield c
    if any(any(x for x in d) for d in case["delays"]):
        c = dict(case)
        c["delays"] = [[0] for _ in case["delays"]]
        c["pattern"] = "none"
        yield c


# ------------------------------------------------------------------------------------------------
# running the real objects
# ------------------------------------------------------------------------------------------------
class Hang(Exception):
    pass


_HANGS = [0]


def call_with_timeout(fn, timeout=None):
    """the first hang of a process is waited for generously (a loaded machine must never look like a dead-lock); once
    one call has hung, later ones are given up after HANG_TIMEOUT_AFTER_FIRST seconds"""
    if timeout is None:
        timeout = CALL_TIMEOUT if _HANGS[0] == 0 else HANG_TIMEOUT_AFTER_FIRST
    box = {}

    def run():
        try:
            box["r"] = fn()
        except BaseException as e:  # noqa
            # Drop the traceback at once: it forms a cycle (box -> e -> traceback -> this frame -> box) that keeps the
            # frames of Connection.send alive (a memoryview exported by a BytesIO); collecting that cycle later crashes
            # CPython 3.12 ("deallocated BytesIO object has exported buffers").
            import traceback

            try:
                e.c02_traceback = traceback.format_exc()[-1500:]
                traceback.clear_frames(e.__traceback__)
            except Exception:
                pass
            e.__traceback__ = None
            box["e"] = e

    t = threading.Thread(target=run, daemon=True)
    t.start()
    t.join(timeout)
    if t.is_alive():
        _HANGS[0] += 1
        raise Hang()
    if "e" in box:
        raise box["e"]
    return box["r"]


def deep_eq(a, b, path=""):
    """None if equal, else a short description of the first difference (arrays: dtype, shape, values)"""
    if isinstance(a, np.ndarray) or isinstance(b, np.ndarray) or isinstance(a, np.generic) or isinstance(b, np.generic):
        aa, bb = np.asarray(a), np.asarray(b)
        if aa.dtype != bb.dtype:
            return f"{path}: dtype {aa.dtype} vs {bb.dtype}"
        if aa.shape != bb.shape:
            return f"{path}: shape {aa.shape} vs {bb.shape}"
        if not np.array_equal(aa, bb):
            return f"{path}: values differ"
        return None
    if isinstance(a, dict) and isinstance(b, dict):
        if list(a.keys()) != list(b.keys()):
            if set(a.keys()) != set(b.keys()):
                return f"{path}: keys {sorted(map(str, a))} vs {sorted(map(str, b))}"
        for k in a:
            d = deep_eq(a[k], b[k], f"{path}.{k}")
            if d:
                return d
        return None
    if isinstance(a, (list, tuple)) and isinstance(b, (list, tuple)):
        if len(a) != len(b):
            return f"{path}: length {len(a)} vs {len(b)}"
        for i, (x, y) in enumerate(zip(a, b)):
            d = deep_eq(x, y, f"{path}[{i}]")
            if d:
                return d
        return None
    if type(a) is not type(b) and not (isinstance(a, (int, float)) and isinstance(b, (int, float))
                                       and not isinstance(a, bool) and not isinstance(b, bool)):
        return f"{path}: type {type(a).__name__} vs {type(b).__name__}"
    if a != b:
        return f"{path}: {a!r} vs {b!r}"
    return None


def obs_container(obs):
    return "dict" if isinstance(obs, dict) else "tuple" if isinstance(obs, tuple) else "array"


def canon_val(v, obs_kind):
    """canonical form shared with the Lean driver's valJ"""
    if v is None or isinstance(v, (bool, str)):
        return v
    if isinstance(v, (int, np.integer)) and not isinstance(v, (bool, np.bool_)):
        return int(v)
    if isinstance(v, np.bool_):
        return bool(v)
    if isinstance(v, dict):
        return {"opts": [[str(k), int(x)] for k, x in v.items()]}
    raise ValueError(f"no canonical form for {type(v).__name__}")


def canon_info(info, obs_kind):
    out = {}
    for k, v in info.items():
        if k == "terminal_observation":
            out[k] = {"obs": E.decode(v, obs_kind)}
        else:
            out[k] = canon_val(v, obs_kind)
    return out


def canon_out(kind, ret, venv, case):
    """canonical observable of one operation on one object (same shape as the driver's OUT)"""
    n, ok = case["n"], case["obs_kind"]
    o = {"obs": [], "rews": [], "dones": [], "infos": [], "results": [], "seeds": [],
         "reset_infos": [canon_info(i, ok) for i in venv.reset_infos]}
    if kind == "reset":
        o["obs"] = E.decode_batch(ret, ok, n)
    elif kind in ("step", "step_wait"):
        obs, rews, dones, infos = ret
        o["obs"] = E.decode_batch(obs, ok, n)
        o["rews"] = [ratj(F(float(r))) for r in np.asarray(rews).reshape(-1)]
        o["dones"] = [bool(d) for d in np.asarray(dones).reshape(-1)]
        o["infos"] = [canon_info(i, ok) for i in infos]
    elif kind == "seed":
        o["seeds"] = [None if s is None else int(s) for s in ret]
    elif kind in ("get_attr", "is_wrapped"):
        o["results"] = [canon_val(v, ok) for v in ret]
    elif kind == "env_method":
        o["results"] = [canon_val(v, ok) if not isinstance(v, list) else [int(v[0])] + [int(x) for x in v[1]] for v in ret]
    return o


def apply_op(venv, op, case, k):
    kind = op["op"]
    if kind == "seed":
        np.random.seed((case["npseed"] + k) % (2**32))
        return venv.seed(op["s"])
    if kind == "set_options":
        arg = op["arg"]
        return venv.set_options(None if arg is None else dict(arg) if isinstance(arg, dict) else [dict(a) for a in arg])
    if kind == "reset":
        return venv.reset()
    if kind == "step":
        if "split_ms" in op:
            venv.step_async(act_array(op["acts"], case["act_kind"]))
            if op["split_ms"]:
                time.sleep(op["split_ms"] / 1000.0)
            return venv.step_wait()
        return venv.step(act_array(op["acts"], case["act_kind"]))
    if kind == "step_async":
        return venv.step_async(act_array(op["acts"], case["act_kind"]))
    if kind == "step_wait":
        if op.get("sleep_ms"):
            time.sleep(op["sleep_ms"] / 1000.0)
        return venv.step_wait()
    if kind == "close":
        if op.get("sleep_ms"):
            time.sleep(op["sleep_ms"] / 1000.0)
        return venv.close()
    if kind == "is_wrapped":
        return venv.env_is_wrapped(WRAPPER_CLASSES[op["cls"]], indices=idx_py(op["idx"]))
    if kind == "has_attr":
        return venv.has_attr(op["name"])
    if kind == "get_attr":
        return venv.get_attr(op["name"], indices=idx_py(op["idx"]))
    if kind == "set_attr":
        return venv.set_attr(op["name"], op["v"], indices=idx_py(op["idx"]))
    if kind == "env_method":
        return venv.env_method(op["name"], *op["args"], indices=idx_py(op["idx"]), **op["kwargs"])
    raise ValueError(kind)


def kill_subproc(sub):
    try:
        for p in sub.processes:
            if p.is_alive():
                p.terminate()
        for p in sub.processes:
            p.join(2)
            if p.is_alive():
                p.kill()
        # the pipes are NOT closed here: a helper thread of call_with_timeout may still sit in recv()/send() on one of
        # them (it ends with EOFError / BrokenPipeError once every worker is gone); closing under it crashes CPython
    except Exception:
        pass


def f32_exact(x) -> bool:
    return float(np.float32(float(x))) == float(x)


def run_case(ctx, case):
    """returns dict(outs_d, outs_s, orders, viol) ; violations are reported here (oracle)"""
    from stable_baselines3.common.vec_env import DummyVecEnv, SubprocVecEnv

    rep = ctx.report
    n, ok = case["n"], case["obs_kind"]
    tmp = tempfile.mkdtemp(prefix="c02_")
    sub = dummy = None
    res = {"outs_d": [], "outs_s": [], "orders": [], "flags": [], "complete": False}

    def compare_logs():
        """the sub-environments' own logs (what each env received); False = violation reported / object unusable"""
        nonlocal sub
        try:
            ld = dummy.env_method("get_log")
            ls = call_with_timeout(lambda: sub.env_method("get_log"))
        except Hang:
            rep.violation("SubprocVecEnv call did not return (DummyVecEnv did)", case, {"kind": "hang", "op": "get_log"})
            kill_subproc(sub)
            sub = None
            return False
        d = deep_eq(ld, ls, "env_log")
        if d:
            rep.violation("the sub-environments of SubprocVecEnv received different calls than those of DummyVecEnv",
                          case, {"kind": "env_log"}, d)
            return False
        return True

    try:
        rstyle = case.get("reset_style") or [0] * n
        base = [dict(env_id=i, obs_kind=ok, act_kind=case["act_kind"], script=case["scripts"][i], reset_style=rstyle[i])
                for i in range(n)]
        stamp = [os.path.join(tmp, f"env{i}.stamps") for i in range(n)]
        depth = case_depths(case)
        dummy = DummyVecEnv([TimedEnvFn(depth=depth[i], **b) for i, b in enumerate(base)])
        sub = call_with_timeout(lambda: SubprocVecEnv(
            [TimedEnvFn(depth=depth[i], delays=case["delays"][i], unit=case["unit_ms"] / 1000.0,
                        stamp_path=stamp[i], **b)
             for i, b in enumerate(base)], start_method=case["start"]), 600.0)
        windows = []
        phase = "idle"
        t_async = None
        for k, op in enumerate(case["ops"]):
            kind = op["op"]
            if kind == "close" and phase == "idle":
                if not compare_logs():
                    return res
            rd = apply_op(dummy, op, case, k)
            t0 = time.monotonic_ns()
            if kind == "step_async":
                t_async = t0
            if kind == "step_wait" and t_async is not None:
                t0 = t_async
            try:
                rs = call_with_timeout(lambda: apply_op(sub, op, case, k))
            except Hang:
                rep.violation("SubprocVecEnv call did not return (DummyVecEnv did)", case,
                              {"kind": "hang", "op": kind}, {"op_index": k, "op": op})
                kill_subproc(sub)
                sub = None
                return res
            except Exception as e:  # noqa
                rep.violation("SubprocVecEnv raised on a call that DummyVecEnv accepted", case,
                              {"kind": "exception", "op": kind, "exception": type(e).__name__},
                              {"op_index": k, "op": op, "traceback": getattr(e, "c02_traceback", repr(e))})
                return res
            windows.append((t0, time.monotonic_ns(), kind, k))
            phase = {"step_async": "waiting", "step_wait": "idle", "close": "closed"}.get(kind, phase)
            if kind == "step_wait":
                kind = "step"
            # ---------------- oracle: the two real objects, element-wise ----------------------------------
            sig = None
            if kind == "step_async" and sub.waiting is not True:
                sig = ({"kind": "waiting_flag", "op": kind}, f"waiting={sub.waiting!r} after step_async")
            if kind in ("step", "reset") and sub.waiting is not False:
                sig = ({"kind": "waiting_flag", "op": kind}, f"waiting={sub.waiting!r} after {op['op']}")
            if kind == "close":
                alive = [i for i, pr in enumerate(sub.processes) if pr.is_alive()]
                if sub.closed is not True or alive:
                    sig = ({"kind": "close", "op": kind}, {"closed": sub.closed, "workers_alive": alive})
            if kind in ("reset", "step"):
                od = rd if kind == "reset" else rd[0]
                os_ = rs if kind == "reset" else rs[0]
                if obs_container(od) != obs_container(os_):
                    sig = ({"kind": "obs_container", "op": kind}, f"{obs_container(od)} vs {obs_container(os_)}")
                else:
                    d = deep_eq(od, os_, "obs")
                    if d:
                        sig = ({"kind": "obs", "op": kind, "obs_kind": ok}, d)
                if sig is None:
                    # scripted ground truth: slot i holds an observation produced by sub-environment i
                    for name, o in (("dummy", od), ("subproc", os_)):
                        try:
                            tags = E.decode_batch(o, ok, n)
                        except Exception as e:  # noqa
                            sig = ({"kind": "obs_inconsistent", "who": name, "obs_kind": ok}, str(e))
                            break
                        owners = [E.split_tag(t)[0] for t in tags]
                        if owners != list(range(n)):
                            sig = ({"kind": "obs_slot_owner", "who": name}, {"owners": owners})
                            break
            if sig is None and kind == "step":
                rw_d = [F(float(x)) for x in np.asarray(rd[1]).reshape(-1)]
                rw_s = [F(float(x)) for x in np.asarray(rs[1]).reshape(-1)]
                if np.asarray(rd[1]).shape != np.asarray(rs[1]).shape:
                    sig = ({"kind": "rewards_shape"}, f"{np.asarray(rd[1]).shape} vs {np.asarray(rs[1]).shape}")
                elif rw_d != rw_s:
                    bad = [i for i in range(len(rw_d)) if rw_d[i] != rw_s[i]]
                    exact = all(f32_exact(rw_s[i]) for i in bad)
                    if not exact and all(F(float(np.float32(float(rw_s[i])))) == rw_d[i] for i in bad):
                        sig = ({"kind": "reward_dtype", "reward_exact_in_float32": False,
                                "dummy_dtype": str(np.asarray(rd[1]).dtype), "subproc_dtype": str(np.asarray(rs[1]).dtype)},
                               {"env": bad[0], "dummy": float(rw_d[bad[0]]), "subproc": float(rw_s[bad[0]])})
                    else:
                        sig = ({"kind": "rewards", "reward_exact_in_float32": bool(exact)},
                               {"dummy": [float(x) for x in rw_d], "subproc": [float(x) for x in rw_s]})
                if sig is None:
                    d = deep_eq(np.asarray(rd[2]), np.asarray(rs[2]), "dones")
                    if d:
                        sig = ({"kind": "dones"}, d)
                if sig is None:
                    d = deep_eq(list(rd[3]), list(rs[3]), "infos")
                    if d:
                        sig = ({"kind": "infos"}, d)
            if sig is None and kind in ("seed", "get_attr", "env_method", "set_attr", "set_options", "has_attr",
                                        "is_wrapped", "step_async", "close"):
                d = deep_eq(rd, rs, "result")
                if d:
                    sig = ({"kind": "result", "op": kind}, d)
            if sig is None and kind == "is_wrapped":
                need = {"PassThrough": 1, "OuterWrap": 2}.get(op["cls"], 99)
                truth = [depth[i] >= need for i in idx_targets(op["idx"], n)]
                for name, r in (("dummy", rd), ("subproc", rs)):
                    if list(r) != truth:
                        sig = ({"kind": "is_wrapped", "who": name}, f"{list(r)!r}, expected {truth}")
            if sig is None and kind == "has_attr":
                truth = op["name"] in ATTRS + ["script"]
                for name, r in (("dummy", rd), ("subproc", rs)):
                    if r is not truth:
                        sig = ({"kind": "has_attr", "who": name}, f"{op['name']}: {r!r}, expected {truth}")
            if sig is None:
                d = deep_eq(list(dummy.reset_infos), list(sub.reset_infos), "reset_infos")
                if d:
                    sig = ({"kind": "reset_infos", "op": kind}, d)
            if sig is not None:
                s, detail = sig
                what = ("SubprocVecEnv and DummyVecEnv return different rewards (float64 vs float32 conversion)"
                        if s["kind"] == "reward_dtype" else
                        "SubprocVecEnv and DummyVecEnv differ on the same call sequence")
                rep.violation(what, case, s, {"op_index": k, "op": op, "diff": detail})
                res["viol"] = s["kind"]
                if s["kind"] != "reward_dtype":
                    return res
            try:
                res["outs_d"].append(canon_out(kind, rd, dummy, case))
                res["outs_s"].append(canon_out(kind, rs, sub, case))
                res["flags"].append({"waiting": bool(sub.waiting), "closed": bool(sub.closed)})
            except Exception as e:  # noqa  (undecodable output: already an oracle matter)
                rep.violation("an output of the vectorised environments cannot be decoded", case,
                              {"kind": "undecodable", "op": kind}, str(e))
                return res
        if phase == "idle":
            if not compare_logs():
                return res
        res["complete"] = True
        if phase != "closed":
            try:
                call_with_timeout(sub.close)
            except Hang:
                pass
        kill_subproc(sub)
        sub = None
        # ---------------- achieved completion orders ---------------------------------------------------------
        stamps = []
        for p in stamp:
            if os.path.exists(p):
                for line in open(p):
                    a = line.split()
                    if len(a) == 3:
                        stamps.append((int(a[2]), int(a[0]), a[1]))
        stamps.sort()
        for (t0, t1, kind, k) in windows:
            last = {}
            for (t, e, w) in stamps:
                if t0 <= t <= t1:
                    last[e] = t
            order = [e for e, _ in sorted(last.items(), key=lambda kv: kv[1])]
            res["orders"].append(order)
        return res
    finally:
        if sub is not None:
            try:
                call_with_timeout(sub.close, 5.0 if _HANGS[0] == 0 else 0.5)
            except BaseException:  # noqa
                pass
            kill_subproc(sub)  # never leave a worker process behind, whatever close() did
        if dummy is not None:
            try:
                dummy.close()
            except Exception:
                pass
        shutil.rmtree(tmp, ignore_errors=True)


# ------------------------------------------------------------------------------------------------
# model operations
# ------------------------------------------------------------------------------------------------
def n_actions(op, n):
    """number of parent actions (sends + receives) of the operation"""
    k = op["op"]
    if k == "has_attr":
        return 2 * n
    if k in ("step_async", "step_wait"):
        return n
    if k == "close":
        return 3 * n
    if k == "is_wrapped":
        return 2 * len(idx_targets(op["idx"], n))
    if k in ("reset", "step"):
        return 2 * n
    if k in ("get_attr", "set_attr", "env_method"):
        return 2 * len(idx_targets(op["idx"], n))
    return 0


def sched_observed(op, n, order):
    """all sends first, then the workers complete in the observed order, then the receives"""
    k = op["op"]
    m = 0 if k in ("step_wait", "close") else n if k == "step_async" else n_actions(op, n) // 2
    return [[] for _ in range(m)] + [list(order)]


def sched_random(rng, op, n):
    m = n_actions(op, n)
    return [[rng.randint(0, n + 1) for _ in range(rng.randint(0, 4))] for _ in range(m + rng.randint(0, 2))]


def model_ops(case, outs_s, orders, which):
    from harness.common import Rng

    n = case["n"]
    rng = Rng(case["sched_seed"])
    depth = case_depths(case)
    lines = [{"op": "new", "envs": [{"env_id": i, "script": [[ratj(F(float(e[0]))), bool(e[1]), bool(e[2])] for e in case["scripts"][i]],
                                     "some_attr": 100 + i, "depth": depth[i], "reset_style": (case.get("reset_style") or [0] * n)[i],
                                     "shadow": [["some_attr", 1000 + i]] if depth[i] >= 1 else []} for i in range(n)]}]
    for k, op in enumerate(case["ops"][: len(outs_s)]):
        sch = sched_observed(op, n, orders[k] if k < len(orders) else []) if which == "observed" else sched_random(rng, op, n)
        kind = op["op"]
        l = {"op": kind, "sched": sch}
        if kind == "seed":
            s = op["s"]
            if s is None:
                s = outs_s[k]["seeds"][0]  # the value drawn from NumPy's global generator (seeded per call)
            l["s"] = s
        elif kind == "set_options":
            a = op["arg"]
            l["arg"] = None if a is None else {"dict": [[k2, v] for k2, v in a.items()]} if isinstance(a, dict) else \
                {"list": [[[k2, v] for k2, v in d.items()] for d in a]}
        elif kind in ("step", "step_async"):
            l["acts"] = [action_code(a) for a in op["acts"]]
        elif kind == "is_wrapped":
            l.update(cls=op["cls"], idx=idx_model(op["idx"]))
        elif kind == "get_attr":
            l.update(name=op["name"], idx=idx_model(op["idx"]))
        elif kind == "has_attr":
            # same pipe traffic as get_attr on all workers; the boolean itself is checked by the oracle only
            l.update(op="get_attr", name=op["name"], idx=None)
        elif kind == "set_attr":
            l.update(name=op["name"], v=op["v"], idx=idx_model(op["idx"]))
        elif kind == "env_method":
            args = list(op["args"])
            if op["name"] == "add_to_attr":
                args = args + [op["kwargs"].get("y", 0)]
            l.update(name=op["name"], args=args, idx=idx_model(op["idx"]))
        lines.append(l)
    return lines


def check_cases(ctx, cases):
    rep = ctx.report
    ops, plan = [], []
    for case in cases:
        kind = case["kind"]
        rep.count(f"kind:{kind}")
        if kind == "f32":
            rep.case(case, None)
            plan.append((case, None, len(ops), 1, None))
            ops.append({"op": "f32", "q": case["q"]})
            continue
        r = guarded(ctx, case, lambda: run_case(ctx, case))
        n = case["n"]
        rep.count(f"n={n}")
        rep.count(f"obs:{case['obs_kind']}")
        rep.count(f"act:{case['act_kind']}")
        rep.count(f"start:{case['start']}")
        rep.count(f"delay_pattern:{case['pattern']}")
        ph = "idle"
        dps = case_depths(case)
        for dd in dps:
            rep.count(f"wrapper_layers={dd}")
        for o in case["ops"]:
            rep.count(f"op:{o['op']}")
            if o["op"] == "set_attr":
                tg = idx_targets(o["idx"], n)
                if any(dps[i] > 0 for i in tg):
                    rep.count(f"set_attr({o['name']}) reaching a wrapped env")
                if any(dps[i] == 0 for i in tg):
                    rep.count(f"set_attr({o['name']}) reaching a bare env")
            if o["op"] == "close":
                rep.count("close:" + {"idle": "no step outstanding", "waiting": "while a step is outstanding",
                                      "closed": "second close"}[ph])
                ph = "closed"
            elif o["op"] == "step_async":
                ph = "waiting"
            elif o["op"] == "step_wait":
                ph = "idle"
            if o["op"] == "step_wait":
                rep.count(f"step_wait after sleep_ms={o.get('sleep_ms', 0)}")
            if "idx" in o:
                i = o["idx"]
                rep.count("idx:" + ("none" if i is None else "int" if isinstance(i, int) else
                                    next(iter(i)) + (":empty" if not idx_targets(i, n) else
                                                     ":dup" if len(set(idx_targets(i, n))) < len(idx_targets(i, n)) else "")))
        nontrivial = False
        if r is not None:
            any_done = any(any(o["dones"]) for o in r["outs_s"])
            out_of_order = False
            for k, order in enumerate(r["orders"]):
                op = case["ops"][k]
                if op["op"] in ("step", "reset", "step_wait") and n >= 2 and len(order) == n:
                    rep.count(f"completion_order[n={n}]:" + ",".join(map(str, order)))
                    if order != sorted(order):
                        out_of_order = True
                        rep.count("ops_completed_out_of_index_order")
                    else:
                        rep.count("ops_completed_in_index_order")
            if any_done:
                rep.count("case_with_episode_end")
            nontrivial = out_of_order and any_done
        rep.case(case, case if nontrivial else None,
                 sample={k: case[k] for k in ("kind", "n", "obs_kind", "act_kind", "start", "pattern", "delays", "ops")})
        if r is None or not r["outs_s"]:
            continue
        for which in ("observed", "random"):
            lines = model_ops(case, r["outs_s"], r["orders"], which)
            plan.append((case, r, len(ops), len(lines), which))
            ops.extend(lines)
    outs = ctx.lean.run(ops)
    for case, r, i, k, which in plan:
        mo = outs[i:i + k]
        if mo and mo[0] is None:
            continue
        if case["kind"] == "f32":
            q = unratj(case["q"])  # an exact double by construction
            want = ratj(F(float(np.float32(float(q)))))
            if "error" in mo[0] or mo[0].get("f32") != want:
                rep.disagree("f32_cast", case, want, mo[0])
            else:
                rep.agree()
            continue
        if "error" in mo[0]:
            rep.disagree("subproc_vs_model", case, "new", mo[0])
            continue
        bad = False
        for j, m in enumerate(mo[1:]):
            if case["ops"][j]["op"] == "has_attr" and "error" not in m and isinstance(m.get("subproc"), dict):
                m["subproc"]["results"] = []
                m["dummy"]["results"] = []
            if "error" in m or m.get("subproc") == "deadlock":
                rep.disagree("subproc_vs_model", case, r["outs_s"][j], m, note=f"op {j} schedule={which}")
                bad = True
                break
            if m["subproc"] != canon(r["outs_s"][j]):
                rep.disagree("subproc_vs_model", case, r["outs_s"][j], m["subproc"], note=f"op {j} schedule={which}")
                bad = True
                break
            fl = r["flags"][j]
            if {"waiting": m["waiting"], "closed": m["closed"]} != fl:
                rep.disagree("subproc_vs_model", case, fl, {"waiting": m["waiting"], "closed": m["closed"]},
                             note=f"op {j}: flags of the object")
                bad = True
                break
            want_pending = case["n"] if (fl["waiting"] and not fl["closed"]) else 0
            if m["pending"] != want_pending:
                rep.disagree("subproc_vs_model", case, want_pending, m["pending"],
                             note=f"op {j}: commands/replies left in the pipes")
                bad = True
                break
            if which == "observed" and m["dummy"] != canon(r["outs_d"][j]):
                rep.disagree("dummy_vs_model", case, r["outs_d"][j], m["dummy"], note=f"op {j}")
                bad = True
                break
        if not bad:
            rep.agree()
