"""
Scripted Gymnasium environments shared by the harnesses.

Every observation is a unique *tag* (an integer encoding env id, episode number, step number)
written in the dtype/shape of the requested observation-space kind, so that provenance of any
observation that comes back from the library (returned, stored, stacked, normalised …) can be decoded
exactly. Rewards / terminated / truncated follow a script that does not depend on the actions, and
the environment logs every call it receives.

Module-level classes only (picklable by reference: SubprocVecEnv workers import `harness.envs`;
/verif is put on PYTHONPATH by /verif/check).
"""
from __future__ import annotations

import gymnasium as gym
import numpy as np
from gymnasium import spaces

OBS_KINDS = ["box1", "box2", "image_hwc", "image_chw", "discrete", "multidiscrete", "multibinary", "dict", "tuple"]
ACT_KINDS = ["box", "box_sym", "discrete", "multidiscrete", "multibinary"]

TAG_MOD = 1 << 20  # tags are < 2^20 (exact in float32)


def make_tag(env_id: int, episode: int, step: int) -> int:
    """env_id < 8, episode < 512, step < 256"""
    return ((env_id % 8) << 17) | ((episode % 512) << 8) | (step % 256)


def split_tag(tag: int):
    return (tag >> 17) & 7, (tag >> 8) & 511, tag & 255


IMG = (6, 5, 3)  # H, W, C  (uint8, bounds 0..255: an image space for SB3)


def obs_space(kind: str) -> spaces.Space:
    if kind == "box1":
        return spaces.Box(-1.0, float(TAG_MOD), (3,), np.float32)
    if kind == "box2":
        return spaces.Box(-float(TAG_MOD), float(TAG_MOD), (2, 2), np.float32)
    if kind == "image_hwc":
        return spaces.Box(0, 255, IMG, np.uint8)
    if kind == "image_chw":
        return spaces.Box(0, 255, (IMG[2], IMG[0], IMG[1]), np.uint8)
    if kind == "discrete":
        return spaces.Discrete(TAG_MOD)
    if kind == "multidiscrete":
        return spaces.MultiDiscrete([1024, 1024, 7])
    if kind == "multibinary":
        return spaces.MultiBinary(22)
    if kind == "dict":
        return spaces.Dict({"vec": obs_space("box1"), "img": obs_space("image_hwc"), "disc": obs_space("discrete")})
    if kind == "tuple":
        return spaces.Tuple((obs_space("box1"), obs_space("discrete")))
    raise ValueError(kind)


def _img_from_tag(tag: int, shape) -> np.ndarray:
    flat = np.zeros(int(np.prod(shape)), dtype=np.uint8)
    flat[0] = tag & 255
    flat[1] = (tag >> 8) & 255
    flat[2] = (tag >> 16) & 255
    # fill the rest with a tag-dependent pattern so that layout mix-ups are visible
    idx = np.arange(3, flat.size)
    flat[3:] = ((idx * 7 + tag) % 251).astype(np.uint8)
    return flat.reshape(shape)


def encode(tag: int, kind: str):
    """tag -> observation of the given kind"""
    if kind == "box1":
        return np.array([tag, tag + 0.5, -1.0], dtype=np.float32)
    if kind == "box2":
        return np.array([[tag, -tag], [tag + 0.25, 1.0]], dtype=np.float32)
    if kind == "image_hwc":
        return _img_from_tag(tag, IMG)
    if kind == "image_chw":
        return np.transpose(_img_from_tag(tag, IMG), (2, 0, 1)).copy()
    if kind == "discrete":
        return np.int64(tag)
    if kind == "multidiscrete":
        return np.array([tag & 1023, (tag >> 10) & 1023, tag % 7], dtype=np.int64)
    if kind == "multibinary":
        return np.array([(tag >> i) & 1 for i in range(22)], dtype=np.int8)
    if kind == "dict":
        return {"vec": encode(tag, "box1"), "img": encode(tag, "image_hwc"), "disc": encode(tag, "discrete")}
    if kind == "tuple":
        return (encode(tag, "box1"), encode(tag, "discrete"))
    raise ValueError(kind)


def decode(obs, kind: str) -> int:
    """observation -> tag; raises ValueError if the observation is not a consistent encoding"""
    if kind == "box1":
        o = np.asarray(obs, dtype=np.float64).reshape(-1)
        t = int(round(o[0]))
        if o[0] != t or o[1] != t + 0.5 or o[2] != -1.0:
            raise ValueError(f"inconsistent box1 obs {o}")
        return t
    if kind == "box2":
        o = np.asarray(obs, dtype=np.float64).reshape(2, 2)
        t = int(round(o[0, 0]))
        if o[0, 0] != t or o[0, 1] != -t or o[1, 0] != t + 0.25 or o[1, 1] != 1.0:
            raise ValueError(f"inconsistent box2 obs {o}")
        return t
    if kind in ("image_hwc", "image_chw"):
        o = np.asarray(obs)
        if kind == "image_chw":
            o = np.transpose(o, (1, 2, 0))
        flat = o.reshape(-1)
        t = int(flat[0]) | (int(flat[1]) << 8) | (int(flat[2]) << 16)
        if not np.array_equal(o, _img_from_tag(t, IMG)):
            raise ValueError("inconsistent image obs")
        return t
    if kind == "discrete":
        return int(np.asarray(obs).reshape(-1)[0])
    if kind == "multidiscrete":
        o = np.asarray(obs).reshape(-1)
        t = int(o[0]) | (int(o[1]) << 10)
        if t % 7 != int(o[2]):
            raise ValueError("inconsistent multidiscrete obs")
        return t
    if kind == "multibinary":
        o = np.asarray(obs).reshape(-1)
        return sum(int(o[i]) << i for i in range(22))
    if kind == "dict":
        ts = {decode(obs["vec"], "box1"), decode(obs["img"], "image_hwc"), decode(obs["disc"], "discrete")}
        if len(ts) != 1:
            raise ValueError(f"dict obs keys disagree: {ts}")
        return ts.pop()
    if kind == "tuple":
        ts = {decode(obs[0], "box1"), decode(obs[1], "discrete")}
        if len(ts) != 1:
            raise ValueError(f"tuple obs parts disagree: {ts}")
        return ts.pop()
    raise ValueError(kind)


def decode_batch(obs, kind: str, n: int):
    """batched (VecEnv) observation -> list of n tags"""
    if kind == "dict":
        return [decode({k: v[i] for k, v in obs.items()}, kind) for i in range(n)]
    if kind == "tuple":
        return [decode(tuple(o[i] for o in obs), kind) for i in range(n)]
    return [decode(obs[i], kind) for i in range(n)]


def act_space(kind: str) -> spaces.Space:
    if kind == "box":
        return spaces.Box(np.array([-2.0, 0.5], dtype=np.float32), np.array([6.0, 1.5], dtype=np.float32))
    if kind == "box_sym":
        return spaces.Box(-1.0, 1.0, (2,), np.float32)
    if kind == "discrete":
        return spaces.Discrete(4)
    if kind == "multidiscrete":
        return spaces.MultiDiscrete([3, 2])
    if kind == "multibinary":
        return spaces.MultiBinary(3)
    raise ValueError(kind)


class ScriptedEnv(gym.Env):
    """
    script: list of [reward, terminated, truncated] consumed cyclically, one entry per step() call over the
    environment's lifetime (independent of the actions). An episode ends when terminated or truncated.
    """

    metadata = {"render_modes": []}

    def __init__(self, env_id: int = 0, obs_kind: str = "box1", act_kind: str = "discrete", script=None,
                 delay: float = 0.0, check_actions: bool = True, info_mode: str = "fresh"):
        super().__init__()
        # "fresh": a new info dict per step (what ordinary envs do); "reuse": ONE dict object for the env's
        # lifetime, updated in place and returned from every step() -- legal, and keys written into it by the
        # library (terminal_observation, TimeLimit.truncated, episode) then survive into later steps
        self.info_mode = info_mode
        self._info = {}
        self.env_id = env_id
        self.obs_kind = obs_kind
        self.act_kind = act_kind
        self.observation_space = obs_space(obs_kind)
        self.action_space = act_space(act_kind)
        self.script = script or [[1.0, False, False]]
        self.delay = delay
        self.check_actions = check_actions
        self.episode = -1
        self.step_in_ep = 0
        self.n_steps = 0
        self.log = []
        self.some_attr = 100 + env_id
        self.needs_reset = True

    # -- gym API -------------------------------------------------------------------------------------
    def reset(self, *, seed=None, options=None):
        super().reset(seed=seed)
        self.episode += 1
        self.step_in_ep = 0
        self.needs_reset = False
        tag = make_tag(self.env_id, self.episode, 0)
        self.log.append(["reset", seed, options, tag])
        info = {"reset_tag": tag, "seed": seed, "options": options}
        return encode(tag, self.obs_kind), info

    def step(self, action):
        if self.delay:
            import time

            time.sleep(self.delay)
        rew, term, trunc = self.script[self.n_steps % len(self.script)]
        self.n_steps += 1
        self.step_in_ep += 1
        tag = make_tag(self.env_id, self.episode, self.step_in_ep)
        in_space = bool(self.action_space.contains(action)) if self.check_actions else None
        self.log.append(["step", np.asarray(action).tolist(), tag, float(rew), bool(term), bool(trunc), in_space,
                         str(np.asarray(action).dtype)])
        if self.info_mode == "reuse":
            self._info["tag"] = tag
            self._info["k"] = self.n_steps
            info = self._info
        else:
            info = {"tag": tag, "k": self.n_steps}
        if term or trunc:
            self.needs_reset = True
        return encode(tag, self.obs_kind), float(rew), bool(term), bool(trunc), info

    # -- helpers reachable through env_method / get_attr ---------------------------------------------
    def get_log(self):
        return list(self.log)

    def add_to_attr(self, x, y=0):
        self.some_attr += x + y
        return self.some_attr

    def echo(self, *args, **kwargs):
        return [self.env_id, list(args), dict(kwargs)]


class EnvFn:
    """picklable constructor (works with fork, forkserver and spawn)"""

    def __init__(self, **kw):
        self.kw = kw

    def __call__(self):
        return ScriptedEnv(**self.kw)


def gen_script(rng, length=None, style=None):
    """script generator with explicit weight on the interesting episode shapes"""
    style = style or rng.weighted([("mixed", 5), ("len1", 1), ("never", 1), ("both", 1), ("trunc_only", 1), ("term_only", 1)])
    length = length or rng.randint(3, 14)
    out = []
    for i in range(length):
        rew = rng.choice([0.0, 1.0, -1.0, 0.5, 2.0, -0.25, 3.0])
        if style == "never":
            term = trunc = False
        elif style == "len1":
            term, trunc = rng.choice([(True, False), (False, True), (True, True)])
        elif style == "both":
            end = rng.chance(0.4)
            term, trunc = (True, True) if end else (False, False)
        elif style == "trunc_only":
            term, trunc = False, rng.chance(0.35)
        elif style == "term_only":
            term, trunc = rng.chance(0.35), False
        else:
            term, trunc = rng.weighted([((False, False), 6), ((True, False), 2), ((False, True), 2), ((True, True), 1)])
        out.append([rew, term, trunc])
    return out
