"""
C16 — Hindsight relabelling is sound.

Implementation under test: stable_baselines3.her.her_replay_buffer.HerReplayBuffer (on DictReplayBuffer)
Model: lean/SB3Verif/Model/Her.lean (driver lean/SB3Verif/Driver/C16.lean)

Every transition handed to `add` carries unique tags in every field (observation, achieved goal, desired
goal, next observation, next achieved goal, next desired goal, action, reward, info), so every sampled
element can be decoded to the add it came from and — for relabelled ones — to the add the goal came from.
The environment's `compute_reward(achieved, desired, info)` is an injective integer code of its two goal
arguments, exact in float32, and logs its calls.
"""
from __future__ import annotations

import pickle
import warnings

import numpy as np

from harness.common import guarded

RULE = (
    "cases from one SplitMix64 stream: buffer_size 1..36 over n_envs 1..3 (ring 1..12, also not divisible), "
    "strategy future/final/episode (string or enum), n_sampled_goal 0..8, copy_info_dict, handle_timeout_termination, "
    "goal/observation shapes (1,),(2,),(3,),(2,2), with/without VecNormalize (dyadic statistics, key subsets, reward "
    "normalisation); per environment a sequence of episode lengths from the families 1, <ring, =ring, ring±1, k*ring, "
    "k*ring±1, >ring, never ending; TimeLimit.truncated flags; sample() interleaved with add() (batch 1..64); "
    "pickle/unpickle mid-episode with and without truncate_last_trajectory. non-trivial = case in which a virtual "
    "transition was sampled from an episode segment that wraps the end of the ring or is the tail of an episode longer "
    "than the ring, or a sample taken after a truncation; distinct = distinct (ring, n_envs, strategy, episode-length "
    "pattern) digest"
)
STREAMS = {
    "bookkeeping": "pos/full/_current_ep_start/ep_start/ep_length after every add and truncate == model, exactly",
    "valid": "valid_indices handed to np.random.choice == model's flatnonzero(ep_length > 0)",
    "ranges": "low/high handed to np.random.randint == model's goalRange per virtual sample",
    "batch": "every decoded sampled transition (all fields, reward code, done) == model's sampleOut for the same draws",
    "error": "sample() before any finished episode raises == model's no-valid-transition",
}

M = 2048          # compute_reward code = next_achieved_tag * M + goal_tag   (< 2^24: exact in float32)
NF = 8            # tags of transition k are NF*k + field
F_OBS, F_ACH, F_DG, F_NOBS, F_NACH, F_NDG = 0, 1, 2, 3, 4, 5
MAX_K = (M // NF) - 1
SHAPES = [(1,), (2,), (3,), (2, 2)]
KEYS = ["observation", "achieved_goal", "desired_goal"]


# ------------------------------------------------------------------------------------------------
# generation
def gen_episode_len(rng, cap, widen):
    fam = rng.weighted([("one", 3), ("short", 5), ("cap", 2), ("cap+1", 2), ("cap-1", 1), ("kcap", 2), ("kcap+1", 1),
                        ("kcap-1", 1), ("long", 1), ("never", 0.4)] if not widen else
                       [("one", 3), ("cap", 3), ("cap+1", 3), ("cap-1", 2), ("kcap", 3), ("kcap+1", 3), ("kcap-1", 3),
                        ("short", 2)])
    k = rng.randint(2, 3)
    if fam == "one":
        return 1
    if fam == "short":
        return rng.randint(1, max(1, cap - 1))
    if fam == "cap":
        return cap
    if fam == "cap+1":
        return cap + 1
    if fam == "cap-1":
        return max(1, cap - 1)
    if fam == "kcap":
        return k * cap
    if fam == "kcap+1":
        return k * cap + 1
    if fam == "kcap-1":
        return max(1, k * cap - 1)
    if fam == "long":
        return cap + rng.randint(2, 2 * cap + 2)
    return 10 ** 6


def gen_case(rng, widen, thorough):
    n = rng.weighted([(1, 4), (2, 3), (3, 2)])
    if widen:
        cap_t = rng.randint(1, 3)
    else:
        cap_t = rng.weighted([(1, 1), (2, 2), (3, 3), (4, 3), (5, 2), (rng.randint(6, 12), 3)])
    bs = cap_t * n + (rng.randint(0, n - 1) if rng.chance(0.4) else 0)
    if rng.chance(0.05):
        bs = rng.randint(1, n)  # buffer_size < n_envs: ring of 1
    cap = max(bs // n, 1)
    strategy = rng.choice(["future", "final", "episode"])
    n_goal = rng.weighted([(4, 4), (1, 2), (2, 2), (3, 1), (0, 0.5), (rng.randint(5, 8), 1)])
    vecnorm = None
    if rng.chance(0.3):
        keys = [k for k in KEYS if rng.chance(0.7)]
        vecnorm = {
            "keys": keys,
            "mean": {k: rng.randint(-40, 40) for k in KEYS},
            "log2": {k: rng.randint(-1, 2) for k in KEYS},
            "norm_reward": rng.chance(0.6),
            "ret_log2": rng.randint(-1, 2),
        }
    max_rows = min(MAX_K // n, (90 if thorough else 60))
    n_rows = min(max_rows, rng.randint(1, 3) * cap + rng.randint(0, 3 * cap + 4))
    remaining = [gen_episode_len(rng, cap, widen) for _ in range(n)]
    steps = []
    p_sample = rng.choice([0.15, 0.3, 0.5])
    p_reload = rng.choice([0.0, 0.04, 0.1])
    any_done = False
    for _ in range(n_rows):
        dones, touts = [], []
        for e in range(n):
            remaining[e] -= 1
            d = remaining[e] <= 0
            dones.append(bool(d))
            touts.append(rng.weighted([(None, 2), (False, 1), (True, 2)]) if d else rng.weighted([(None, 3), (False, 1)]))
            if d:
                remaining[e] = gen_episode_len(rng, cap, widen)
        steps.append({"op": "add", "dones": dones, "timeouts": touts})
        any_done = any_done or any(dones)
        if rng.chance(p_sample if any_done else 0.05):
            b = rng.weighted([(rng.randint(1, 8), 3), (rng.randint(9, 64), 2), (n_goal + 1, 1), (2 * (n_goal + 1) + 1, 1), (1, 1)])
            steps.append({"op": "sample", "batch": b, "npseed": rng.randint(0, 2 ** 31 - 1)})
        if rng.chance(p_reload):
            tr = rng.chance(0.6)
            steps.append({"op": "reload", "truncate": tr})
            if tr:
                remaining = [gen_episode_len(rng, cap, widen) for _ in range(n)]
                if rng.chance(0.7):
                    steps.append({"op": "sample", "batch": rng.randint(1, 24), "npseed": rng.randint(0, 2 ** 31 - 1)})
    steps.append({"op": "sample", "batch": rng.randint(8, 64), "npseed": rng.randint(0, 2 ** 31 - 1)})
    return {
        "kind": "her", "buffer_size": bs, "n_envs": n, "htt": rng.chance(0.7), "strategy": strategy,
        "strategy_enum": rng.chance(0.3), "n_goal": n_goal, "copy_info": rng.chance(0.4),
        "gshape": list(rng.choice(SHAPES)), "oshape": list(rng.choice(SHAPES)), "vecnorm": vecnorm, "steps": steps,
    }


def gen_cases(ctx):
    return [gen_case(ctx.rng, ctx.widen, ctx.thorough) for _ in range(ctx.budget(2000, 20000))]


def shrink_candidates(case):
    steps = case["steps"]
    n = case["n_envs"]
    cap = max(case["buffer_size"] // n, 1)
    last_sample = [s for s in steps if s["op"] == "sample"][-1:]
    # 1. keep only a prefix (plus the last sample)
    for cut in (len(steps) // 4, len(steps) // 2, (3 * len(steps)) // 4, len(steps) - 2, len(steps) - 1):
        if 0 < cut < len(steps):
            c = dict(case)
            c["steps"] = steps[:cut] + (last_sample if steps[cut - 1]["op"] != "sample" else [])
            if c["steps"] != steps:
                yield c
    # 2. drop a prefix
    for cut in (len(steps) // 2, len(steps) // 4, 1):
        if 0 < cut < len(steps) - 1:
            yield dict(case, steps=steps[cut:])
    # 3. fewer environments / smaller ring
    if n > 1:
        for e in range(n):
            st = []
            for s in steps:
                if s["op"] == "add":
                    s = dict(s, dones=[d for i, d in enumerate(s["dones"]) if i != e],
                             timeouts=[d for i, d in enumerate(s["timeouts"]) if i != e])
                st.append(s)
            yield dict(case, n_envs=n - 1, buffer_size=cap * (n - 1), steps=st)
    if cap > 1:
        yield dict(case, buffer_size=(cap - 1) * n)
    if case["buffer_size"] != cap * n:
        yield dict(case, buffer_size=cap * n)
    # 4. drop single steps
    for i, s in enumerate(steps):
        if i != len(steps) - 1 or s["op"] != "sample":
            yield dict(case, steps=steps[:i] + steps[i + 1:])
    # 5. smaller batches, simpler configuration
    for i, s in enumerate(steps):
        if s["op"] == "sample" and s["batch"] > 1:
            yield dict(case, steps=steps[:i] + [dict(s, batch=max(1, s["batch"] // 2))] + steps[i + 1:])
    if case.get("vecnorm"):
        yield dict(case, vecnorm=None)
    if case.get("copy_info"):
        yield dict(case, copy_info=False)
    if case.get("strategy_enum"):
        yield dict(case, strategy_enum=False)
    for f in ("gshape", "oshape"):
        if case[f] != [1]:
            yield dict(case, **{f: [1]})
    for i, s in enumerate(steps):
        if s["op"] == "add" and any(t is not None for t in s["timeouts"]):
            yield dict(case, steps=steps[:i] + [dict(s, timeouts=[None] * n)] + steps[i + 1:])


# ------------------------------------------------------------------------------------------------
# tagged data
def enc(tag, shape):
    n = int(np.prod(shape))
    return (tag + 0.125 * np.arange(n, dtype=np.float64)).astype(np.float32).reshape(shape)


def dec(arr):
    """array -> integer tag, or None when the array is not the encoding of one tag"""
    flat = np.asarray(arr, dtype=np.float64).reshape(-1)
    t = flat[0]
    if t != np.floor(t) or not np.all(flat == t + 0.125 * np.arange(flat.size)):
        return None
    return int(t)


_ENV_CLASS = None


def goal_env_class():
    global _ENV_CLASS
    if _ENV_CLASS is not None:
        return _ENV_CLASS
    import gymnasium as gym

    class GoalStub(gym.Env):
        def __init__(self, obs_space, act_space):
            self.observation_space = obs_space
            self.action_space = act_space
            self.calls = []

        def reset(self, *, seed=None, options=None):
            return {k: np.zeros(s.shape, s.dtype) for k, s in self.observation_space.spaces.items()}, {}

        def step(self, action):
            o, _ = self.reset()
            return o, 0.0, False, False, {}

        def compute_reward(self, achieved_goal, desired_goal, info):
            ag = [dec(a) for a in achieved_goal]
            dg = [dec(d) for d in desired_goal]
            self.calls.append({"ag": ag, "dg": dg, "info": [dict(i) for i in info]})
            # injective code of (achieved, desired); -1 marks an undecodable argument
            return np.array([(-1.0 if a is None or d is None else float(a * M + d)) for a, d in zip(ag, dg)],
                            dtype=np.float64)

    _ENV_CLASS = GoalStub
    return GoalStub


class Impl:
    """the real HerReplayBuffer driven step by step"""

    def __init__(self, case):
        from gymnasium import spaces
        from stable_baselines3.common.vec_env import DummyVecEnv, VecNormalize
        from stable_baselines3.her.goal_selection_strategy import KEY_TO_GOAL_STRATEGY
        from stable_baselines3.her.her_replay_buffer import HerReplayBuffer

        self.case = case
        n = case["n_envs"]
        self.gshape, self.oshape = tuple(case["gshape"]), tuple(case["oshape"])
        big = float(1 << 22)
        self.obs_space = spaces.Dict({
            "observation": spaces.Box(-big, big, self.oshape, np.float32),
            "achieved_goal": spaces.Box(-big, big, self.gshape, np.float32),
            "desired_goal": spaces.Box(-big, big, self.gshape, np.float32),
        })
        self.act_space = spaces.Box(-big, big, (2,), np.float32)
        cls = goal_env_class()
        self.venv = DummyVecEnv([(lambda: cls(self.obs_space, self.act_space)) for _ in range(n)])
        self.vn = None
        vnc = case.get("vecnorm")
        if vnc:
            self.vn = VecNormalize(self.venv, training=False, norm_obs=True, norm_reward=vnc["norm_reward"], clip_obs=1e9,
                                   clip_reward=1e9, epsilon=0.0, norm_obs_keys=list(vnc["keys"]))
            for k in KEYS:
                if k in vnc["keys"]:
                    shp = self.obs_space[k].shape
                    self.vn.obs_rms[k].mean = np.full(shp, float(vnc["mean"][k]))
                    self.vn.obs_rms[k].var = np.full(shp, 4.0 ** vnc["log2"][k])
            self.vn.ret_rms.var = np.float64(4.0 ** vnc["ret_log2"])
        self.env = self.vn if self.vn is not None else self.venv
        strat = KEY_TO_GOAL_STRATEGY[case["strategy"]] if case["strategy_enum"] else case["strategy"]
        self.buf = HerReplayBuffer(case["buffer_size"], self.obs_space, self.act_space, env=self.env, device="cpu",
                                   n_envs=n, handle_timeout_termination=case["htt"], n_sampled_goal=case["n_goal"],
                                   goal_selection_strategy=strat, copy_info_dict=case["copy_info"])
        self.n = n
        self.rows = 0

    # -- operations -------------------------------------------------------------------------------
    def add(self, step):
        n = self.n
        ks = [self.rows * n + e + 1 for e in range(n)]
        obs = {"observation": np.stack([enc(NF * k + F_OBS, self.oshape) for k in ks]),
               "achieved_goal": np.stack([enc(NF * k + F_ACH, self.gshape) for k in ks]),
               "desired_goal": np.stack([enc(NF * k + F_DG, self.gshape) for k in ks])}
        nobs = {"observation": np.stack([enc(NF * k + F_NOBS, self.oshape) for k in ks]),
                "achieved_goal": np.stack([enc(NF * k + F_NACH, self.gshape) for k in ks]),
                "desired_goal": np.stack([enc(NF * k + F_NDG, self.gshape) for k in ks])}
        action = np.stack([np.array([k, -k], dtype=np.float32) for k in ks])
        reward = np.array([-float(k) for k in ks], dtype=np.float32)
        done = np.array(step["dones"], dtype=bool)
        infos = []
        for e, k in enumerate(ks):
            info = {"tag": k}
            if step["timeouts"][e] is not None:
                info["TimeLimit.truncated"] = bool(step["timeouts"][e])
            infos.append(info)
        self.buf.add(obs, nobs, action, reward, done, infos)
        self.rows += 1
        return ks

    def state(self):
        b = self.buf
        return {"cap": int(b.buffer_size), "pos": int(b.pos), "full": bool(b.full),
                "cur": [int(x) for x in b._current_ep_start],
                "ep_start": [[int(x) for x in r] for r in b.ep_start], "ep_len": [[int(x) for x in r] for r in b.ep_length]}

    def reload(self, truncate):
        blob = pickle.dumps(self.buf)
        self.buf = pickle.loads(blob)
        self.buf.set_env(self.env)
        if truncate:
            with warnings.catch_warnings():
                warnings.simplefilter("ignore")
                self.buf.truncate_last_trajectory()

    def sample(self, step):
        """returns dict(error=...) or dict(batch=[decoded element], spy=..., calls=[...])"""
        spy = {"choice": [], "randint": []}
        o_choice, o_randint = np.random.choice, np.random.randint

        def s_choice(a, *args, **kw):
            r = o_choice(a, *args, **kw)
            spy["choice"].append((np.array(a).tolist(), np.array(r).tolist()))
            return r

        def s_randint(low, high=None, *args, **kw):
            r = o_randint(low, high, *args, **kw)
            lo_b, hi_b = np.broadcast_arrays(np.asarray(low), np.asarray(high))
            spy["randint"].append((lo_b.reshape(-1).tolist(), hi_b.reshape(-1).tolist(), np.asarray(r).reshape(-1).tolist()))
            return r

        for env in self.venv.envs:
            env.calls.clear()
        np.random.seed(step["npseed"])
        np.random.choice, np.random.randint = s_choice, s_randint
        try:
            try:
                s = self.buf.sample(step["batch"], env=self.vn)
            except RuntimeError as e:
                if "Unable to sample" in str(e):
                    return {"error": "no-valid-transition"}
                raise
        finally:
            np.random.choice, np.random.randint = o_choice, o_randint
        calls = [list(env.calls) for env in self.venv.envs]
        return {"batch": self.decode_batch(s), "spy": spy, "calls": calls, "size": int(s.actions.shape[0])}

    # -- decoding ---------------------------------------------------------------------------------
    def unnorm(self, key, arr):
        vnc = self.case.get("vecnorm")
        a = np.asarray(arr, dtype=np.float64)
        if vnc and key in vnc["keys"]:
            a = a * (2.0 ** vnc["log2"][key]) + float(vnc["mean"][key])
        return a

    def decode_batch(self, s):
        vnc = self.case.get("vecnorm")
        out = []
        B = int(s.actions.shape[0])
        rs = 1.0
        if vnc and vnc["norm_reward"]:
            rs = 2.0 ** vnc["ret_log2"]
        for i in range(B):
            el = {}
            for name, d in (("", s.observations), ("n", s.next_observations)):
                el[name + "obs"] = dec(self.unnorm("observation", d["observation"][i].numpy()))
                el[name + "ach"] = dec(self.unnorm("achieved_goal", d["achieved_goal"][i].numpy()))
                el[name + "dg"] = dec(self.unnorm("desired_goal", d["desired_goal"][i].numpy()))
            a = s.actions[i].numpy().astype(np.float64)
            el["act"] = int(a[0]) if (a[0] == np.floor(a[0]) and a[1] == -a[0]) else None
            r = float(s.rewards[i].item()) * rs
            el["rew"] = int(r) if r == np.floor(r) else None
            dn = float(s.dones[i].item())
            el["done"] = bool(dn) if dn in (0.0, 1.0) else None
            out.append(el)
        return out


# ------------------------------------------------------------------------------------------------
# ground truth kept by the harness (independent of the buffer's own book-keeping and of the Lean model)
class Truth:
    def __init__(self, n, cap):
        self.n, self.cap = n, cap
        self.rows = 0
        self.info = {}            # k -> dict(env,row,ep,idx,done,timeout)
        self.ep = [0] * n         # current episode id per env
        self.idx = [0] * n        # next index in episode per env
        self.closed = set()       # (env, episode id) of finished episodes
        self.ep_members = {}      # (env, ep) -> [k ...] in order
        self.after_truncation = False

    def add(self, ks, step, htt):
        for e, k in enumerate(ks):
            to = bool(step["timeouts"][e]) if (htt and step["timeouts"][e] is not None) else False
            self.info[k] = {"env": e, "row": self.rows, "ep": self.ep[e], "idx": self.idx[e],
                            "done": bool(step["dones"][e]), "timeout": to}
            self.ep_members.setdefault((e, self.ep[e]), []).append(k)
            self.idx[e] += 1
            if step["dones"][e]:
                self.closed.add((e, self.ep[e]))
                self.ep[e] += 1
                self.idx[e] = 0
        self.rows += 1

    def truncate(self, htt, cur, pos):
        """the trajectory of every environment is cut here; `cur`/`pos` (the buffer's own state) only decide
        whether the stored done flag of the last transition is rewritten"""
        self.after_truncation = True
        for e in range(self.n):
            if self.idx[e] > 0:
                last = self.ep_members[(e, self.ep[e])][-1]
                if cur[e] != pos:
                    self.info[last]["done"] = True
                    if htt:
                        self.info[last]["timeout"] = True
                    self.closed.add((e, self.ep[e]))
                self.ep[e] += 1
                self.idx[e] = 0

    def live(self, k):
        return self.info[k]["row"] >= self.rows - self.cap


def expected_done(t):
    return bool(t["done"] and not t["timeout"])


def check_sample(ctx, case, truth, res, step, tracker):
    """the property sentence on one decoded batch; returns True when the batch decoded cleanly"""
    rep = ctx.report
    B = step["batch"]
    n_goal = case["n_goal"]
    nv = (n_goal * B) // (n_goal + 1)
    strat = case["strategy"]
    sig0 = {"strategy": strat}

    def viol(what, field, detail):
        rep.violation(what, case, dict(sig0, field=field), detail)
        return False

    if res["size"] != B or len(res["batch"]) != B:
        return viol("sample() returned a batch of the wrong size", "size", {"got": res["size"], "want": B})
    virt_seen = []
    for i, el in enumerate(res["batch"]):
        virtual = i >= B - nv
        if el["obs"] is None or el["obs"] % NF != F_OBS or (el["obs"] // NF) not in truth.info:
            return viol("sampled observation is not a stored observation", "observation", {"i": i, "el": el})
        k = el["obs"] // NF
        t = truth.info[k]
        want = {"obs": NF * k + F_OBS, "ach": NF * k + F_ACH, "nobs": NF * k + F_NOBS, "nach": NF * k + F_NACH, "act": k}
        for f, w in want.items():
            if el[f] != w:
                return viol("fields of one sampled transition do not come from one stored transition", f,
                            {"i": i, "k": k, "virtual": virtual, "el": el})
        if el["done"] != expected_done(t):
            return viol("sampled done flag differs from the stored transition's", "done", {"i": i, "k": k, "el": el, "t": t})
        if not truth.live(k):
            return viol("sampled transition has been overwritten", "overwritten", {"i": i, "k": k})
        if (t["env"], t["ep"]) not in truth.closed:
            return viol("sampled transition belongs to an unfinished episode", "unfinished", {"i": i, "k": k, "t": t})
        if not virtual:
            if el["dg"] != NF * k + F_DG or el["ndg"] != NF * k + F_NDG:
                # is it a relabelled one in a real position?
                return viol("a transition in the real part of the batch does not carry its stored desired goal",
                            "real_goal", {"i": i, "k": k, "el": el, "nv": nv, "B": B})
            if el["rew"] != -k:
                return viol("a real transition does not carry its stored reward", "real_reward", {"i": i, "k": k, "el": el})
            continue
        # relabelled transition
        if el["dg"] != el["ndg"]:
            return viol("the new desired goal differs between observation and next observation", "goal_mismatch",
                        {"i": i, "k": k, "el": el})
        if el["dg"] is None:
            return viol("the new desired goal is not a stored next achieved goal", "goal_not_next_achieved",
                        {"i": i, "k": k, "el": el, "note": "not the encoding of any tag (e.g. a slot never written)"})
        g = el["dg"]
        if g % NF != F_NACH or (g // NF) not in truth.info:
            kind = "share" if g == NF * k + F_DG else "goal_not_next_achieved"
            return viol("the new desired goal is not a stored next achieved goal" if kind != "share" else
                        "a transition in the virtual part of the batch was not relabelled", kind,
                        {"i": i, "k": k, "el": el, "nv": nv, "B": B})
        k2 = g // NF
        t2 = truth.info[k2]
        if (t2["env"], t2["ep"]) != (t["env"], t["ep"]):
            return viol("the relabelling goal comes from another episode", "other_episode",
                        {"i": i, "k": k, "k_goal": k2, "t": t, "t_goal": t2})
        if not truth.live(k2):
            return viol("the relabelling goal comes from an overwritten transition", "goal_overwritten", {"i": i, "k": k, "k_goal": k2})
        members = truth.ep_members[(t["env"], t["ep"])]
        if strat == "future" and t2["idx"] < t["idx"]:
            return viol("'future' goal comes from before the transition", "future_order", {"i": i, "k": k, "k_goal": k2, "t": t, "t_goal": t2})
        if strat == "final" and k2 != members[-1]:
            return viol("'final' goal is not the last achieved goal of the episode", "final_last",
                        {"i": i, "k": k, "k_goal": k2, "last": members[-1]})
        if el["rew"] != (NF * k + F_NACH) * M + g:
            return viol("reward of a relabelled transition is not compute_reward(next achieved goal, new goal)", "reward",
                        {"i": i, "k": k, "k_goal": k2, "rew": el["rew"], "want": (NF * k + F_NACH) * M + g})
        virt_seen.append((k, k2))
        # what makes a case non-trivial
        first_row = truth.info[members[0]]["row"]
        last_row = truth.info[members[-1]]["row"]
        if len(members) > truth.cap:
            tracker["long_tail"] = True
        elif first_row % truth.cap > last_row % truth.cap:
            tracker["wrapped"] = True
        if truth.after_truncation:
            tracker["after_truncation"] = True
    # the environment's compute_reward was used, once, with (next achieved goal, new goal[, info]) of the virtual part
    calls = res["calls"]
    if any(len(c) for c in calls[1:]) or len(calls[0]) != 1:
        return viol("compute_reward of the first environment was not called exactly once per sample()", "compute_reward_calls",
                    {"calls": [len(c) for c in calls]})
    call = calls[0][0]
    want_ag = [NF * k + F_NACH for k, _ in virt_seen]
    want_dg = [NF * k2 + F_NACH for _, k2 in virt_seen]
    if call["ag"] != want_ag or call["dg"] != want_dg:
        return viol("compute_reward was not called with (next achieved goal, new goal) of the relabelled transitions",
                    "compute_reward_args", {"ag": call["ag"][:6], "want_ag": want_ag[:6], "dg": call["dg"][:6], "want_dg": want_dg[:6]})
    want_info = [({"tag": k} if case["copy_info"] else {}) for k, _ in virt_seen]
    got_info = [({"tag": i.get("tag")} if "tag" in i else {}) for i in call["info"]]
    if got_info != want_info:
        return viol("info dicts handed to compute_reward are not those of the relabelled transitions", "compute_reward_info",
                    {"got": got_info[:6], "want": want_info[:6]})
    return True


# ------------------------------------------------------------------------------------------------
def model_row(ks, step):
    row = []
    for e, k in enumerate(ks):
        row.append([NF * k + F_OBS, NF * k + F_ACH, NF * k + F_DG, k, NF * k + F_NOBS, NF * k + F_NACH, NF * k + F_NDG, -k,
                    bool(step["dones"][e]), bool(step["timeouts"][e]) if step["timeouts"][e] is not None else False, k])
    return row


def sample_op(case, impl_state, truth, res, step):
    """the draws that produce this batch, recovered from the decoded batch and the buffer's public state"""
    B = step["batch"]
    n = case["n_envs"]
    cap = impl_state["cap"]
    nv = (case["n_goal"] * B) // (case["n_goal"] + 1)
    flat, goals = [], []
    for i, el in enumerate(res["batch"]):
        k = el["obs"] // NF
        t = truth.info[k]
        slot = t["row"] % cap
        flat.append(slot * n + t["env"])
        if i >= B - nv:
            k2 = el["dg"] // NF
            gslot = truth.info[k2]["row"] % cap
            goals.append((gslot - impl_state["ep_start"][slot][t["env"]]) % cap)
    draws = flat[B - nv:] + flat[:B - nv]
    return {"op": "sample", "strategy": case["strategy"], "n_goal": case["n_goal"], "batch": B, "draws": draws,
            "goals": goals, "M": M}


def run_case(ctx, case):
    """drive the implementation; returns the model ops and what to compare them with"""
    rep = ctx.report
    impl = Impl(case)
    n = case["n_envs"]
    cap = int(impl.buf.buffer_size)
    truth = Truth(n, cap)
    ops = [{"op": "new", "buffer_size": case["buffer_size"], "n_envs": n, "htt": case["htt"]}]
    expect = [("state", impl.state())]
    tracker = {}
    for step in case["steps"]:
        if step["op"] == "add":
            ks = impl.add(step)
            truth.add(ks, step, case["htt"])
            ops.append({"op": "add", "row": model_row(ks, step)})
            expect.append(("state", impl.state()))
        elif step["op"] == "reload":
            before = impl.state()
            impl.reload(step["truncate"])
            rep.count("reload:" + ("truncate" if step["truncate"] else "keep"))
            if step["truncate"]:
                truth.truncate(case["htt"], before["cur"], before["pos"])
                ops.append({"op": "truncate"})
                expect.append(("state", impl.state()))
            else:
                after = impl.state()
                if after != before:
                    rep.violation("pickling the buffer changed its episode book-keeping", case, {"field": "pickle"},
                                  {"before": before, "after": after})
        else:
            st = impl.state()
            res = impl.sample(step)
            if "error" in res:
                rep.count("sample:no-valid")
                ops.append({"op": "sample", "strategy": case["strategy"], "n_goal": case["n_goal"], "batch": step["batch"],
                            "draws": [], "goals": [], "M": M})
                expect.append(("error", res))
                continue
            rep.count("sample:ok")
            ok = check_sample(ctx, case, truth, res, step, tracker)
            if ok:
                ops.append(sample_op(case, st, truth, res, step))
                expect.append(("sample", res))
    return ops, expect, tracker


def norm_model_batch(mb):
    keys = ["obs", "ach", "dg", "act", "nobs", "nach", "ndg", "rew", "done"]
    return [dict(zip(keys, el)) for el in mb]


def compare(ctx, case, ops, expect, outs):
    rep = ctx.report
    n = case["n_envs"]
    for op, (kind, impl), mo in zip(ops, expect, outs):
        if mo is None:
            continue
        if kind == "state":
            if "error" in mo:
                rep.disagree("bookkeeping", case, impl, mo)
                return
            m = {k: mo[k] for k in ("cap", "pos", "full", "cur", "ep_start", "ep_len")}
            if m != impl or any(p != mo["pos"] for p in mo["pos_all"]):
                rep.disagree("bookkeeping", case, impl, mo, note=f"after op {op['op']}")
                return
            rep.agree()
        elif kind == "error":
            if mo.get("error") != "no-valid-transition":
                rep.disagree("error", case, impl, mo)
                return
            rep.agree()
        else:
            if "error" in mo:
                rep.disagree("batch", case, {"draws": op["draws"], "goals": op["goals"]}, mo)
                return
            B = op["batch"]
            nv = mo["nv"]
            keys = ["obs", "ach", "dg", "act", "nobs", "nach", "ndg", "rew", "done"]
            ib = [{k: el[k] for k in keys} for el in impl["batch"]]
            if norm_model_batch(mo["batch"]) != ib:
                rep.disagree("batch", case, ib[:8], mo["batch"][:8])
                return
            rep.agree()
            spy = impl["spy"]
            if len(spy["choice"]) == 1:
                valid, drawn = spy["choice"][0]
                if valid != mo["valid"]:
                    rep.disagree("valid", case, valid, mo["valid"])
                    return
                if drawn != op["draws"]:
                    rep.disagree("valid", case, {"drawn": drawn}, {"recovered_draws": op["draws"]},
                                 note="indices drawn by np.random.choice differ from the ones recovered from the batch")
                    return
                rep.agree()
            else:
                rep.count("spy_choice_unavailable")
            if case["strategy"] != "final":
                if len(spy["randint"]) == 1:
                    lo, hi, r = spy["randint"][0]
                    if [list(x) for x in zip(lo, hi)] != mo["ranges"] or r != op["goals"]:
                        rep.disagree("ranges", case, {"low": lo, "high": hi, "drawn": r},
                                     {"ranges": mo["ranges"], "goals": op["goals"]})
                        return
                    rep.agree()
                else:
                    rep.count("spy_randint_unavailable")
            if case["copy_info"]:
                got = [i.get("tag") for i in impl["calls"][0][0]["info"]]
                if got != mo["vinfo"]:
                    rep.disagree("batch", case, {"info": got}, {"vinfo": mo["vinfo"]})
                    return


def pattern_key(case):
    lens = []
    n = case["n_envs"]
    cnt = [0] * n
    for s in case["steps"]:
        if s["op"] == "add":
            for e in range(n):
                cnt[e] += 1
                if s["dones"][e]:
                    lens.append((e, cnt[e]))
                    cnt[e] = 0
        elif s["op"] == "reload" and s["truncate"]:
            lens.append(("T", tuple(cnt)))
            cnt = [0] * n
    return [case["buffer_size"], n, case["strategy"], lens]


def check_cases(ctx, cases):
    rep = ctx.report
    all_ops, plan = [], []
    for case in cases:
        n = case["n_envs"]
        cap = max(case["buffer_size"] // n, 1)
        rep.count(f"n_envs={n}")
        rep.count(f"ring={cap if cap <= 5 else '6+'}")
        rep.count("strategy:" + case["strategy"])
        rep.count(f"n_goal={case['n_goal'] if case['n_goal'] <= 4 else '5+'}")
        rep.count("vecnorm" if case.get("vecnorm") else "raw")
        rep.count("copy_info" if case["copy_info"] else "no_info")
        r = guarded(ctx, case, lambda: run_case(ctx, case))
        if r is None:
            rep.case(case, None)
            continue
        ops, expect, tracker = r
        for kk in tracker:
            rep.count("reached:" + kk)
        rep.case(case, pattern_key(case) if tracker else None,
                 sample={k: case[k] for k in ("buffer_size", "n_envs", "strategy", "n_goal")} | {"steps": case["steps"][:12]})
        plan.append((case, ops, expect, len(all_ops)))
        all_ops.extend(ops)
    outs = ctx.lean.run(all_ops)
    for case, ops, expect, i in plan:
        compare(ctx, case, ops, expect, outs[i:i + len(ops)])
