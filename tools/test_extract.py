#!/usr/bin/env python3
"""
Self-test of the statement-level translator (tools/extract.py, BlockTr): small Python functions with a known meaning are
translated and the resulting Lean terms compared with the expected ones. The translator is part of the trusted base of
the extraction ties (DESIGN.md §9.9); `extract.run` executes this test first and reports `unavailable` (never an alarm)
when it fails, so a broken translator cannot silently validate a tie.

    python3 tools/test_extract.py        exit 0 / 1, one line per case
"""
import os
import sys
import tempfile

sys.path.insert(0, os.path.dirname(os.path.abspath(__file__)))
import extract  # noqa: E402

SRC = '''
class K:
    def order(self):
        self.n += 1
        if self.n % self.p == 0:
            fire(self.n)
        self.m = self.n

    def stale(self):
        a = self.x
        self.x = self.x + 1
        self.y = a

    def early(self, v):
        if v is None:
            return
        old = self.t[k]
        self.t[k] = old * 2
        self.c[k] = old

    def loop(self):
        for i in range(n):
            r = step()
            if not r:
                break
            count += 1
            update()
            train()

    def ext(self):
        obs, rew = self.env.step(a)
        t = obs
        obs, info = self.env.reset()
        keep(t)
        self.last = obs

    def dicty(self):
        d = {"r": self.acc, "t": now()}
        self.acc = 0
        out = d["r"]

    def unknown(self):
        x = tensor_magic(y)
        if weird is not None:
            z = 1
        else:
            z = 2
        w = z

    def pair(self):
        if self.box:
            return f(u), u
        return u, u

    def nested(self):
        for i in range(n):
            for k in keys:
                e[k] = info[k]
            total += 1
            write(e)

    def seeds(self, s):
        random.seed(s)
        np.random.seed(s + 1)

    def under(self, obs):
        obs_ = g(obs)
        y = f(obs)

    def clash(self):
        pos = self.pos + 1
        y = self.pos

    def rej(self):
        if bad:
            raise ValueError("no")
        return a + 1
'''

CASES = [
    ("order of statements: the test reads the incremented counter, the store after it too",
     dict(func="order", type="Nat", effects={"fire": "fire"},
          outputs=[("n", "Nat"), ("eff_fire", "Bool"), ("m", "Nat")]),
     ["(n + 1)", "(if (((n + 1) % p) == 0) then true else false)", "(n + 1)"]),
    ("stale read: a local bound before a store keeps the old value",
     dict(func="stale", type="Nat", outputs=[("x", "Nat"), ("y", "Nat")], locals=["a"]),
     ["(x + 1)", "x"]),
    ("early return: nothing after it runs on that path; reads before stores",
     dict(func="early", type="Nat", opaque={"v is None": "none"}, leaf_types={"none": "Bool"}, locals=["old", "ret"],
          outputs=[("t_k", "Nat"), ("c_k", "Nat")]),
     ["(if none then t_k else (t_k * 2))", "(if none then c_k else t_k)"]),
    ("break leaves the body; effects after it are not reached; effect order",
     dict(func="loop", block="for:0", type="Nat", strict=False, havoc=["step()"], effects={"update": "upd", "train": "train"},
          leaf_types={"r_new": "Bool"}, locals=["r"],
          outputs=[("brk", "Bool"), ("count", "Nat"), ("eff_train", "Bool"), ("effseq_train_upd", "Bool")]),
     ["(if (!r_new) then true else false)", "(if (!r_new) then count else (count + 1))",
      "(if (!r_new) then false else true)", "(if (!r_new) then false else true)"]),
    ("external calls: one fresh leaf per assignment, a value taken before the re-binding is kept",
     dict(func="ext", type="Nat", strict=False, havoc=["self.env.step(", "self.env.reset("], effects={"keep": "keep"}, effect_arg={"keep": 0},
          locals=["obs", "rew", "t", "info"], outputs=[("effarg_keep", "Nat"), ("last", "Nat")]),
     ["obs_new", "obs_new2"]),
    ("dict literal: one variable per key, read back through a subscript, before the accumulator is zeroed",
     dict(func="dicty", type="Nat", lenient=True, strict=False, outputs=[("acc", "Nat"), ("out", "Nat")]),
     ["0", "acc"]),
    ("lenient mode: an untranslatable statement makes its target unknown, an untranslatable test an anonymous Boolean",
     dict(func="unknown", type="Nat", lenient=True, strict=False, outputs=[("w", "Nat"), ("x", "Nat")]),
     ["(if cond1 then 1 else 2)", "x_new"]),
    ("tuple returns, uninterpreted calls",
     dict(func="pair", type="Nat", calls={"f": "f"}, leaf_types={"box": "Bool"}, outputs=[("ret_0", "Nat"), ("ret_1", "Nat")]),
     ["(if box then (f u) else u)", "u"]),
    ("a nested loop is not executed: what it assigns becomes unknown, the rest is executed",
     dict(func="nested", block="for:0", type="Nat", lenient=True, strict=False, effects={"write": "w"},
          outputs=[("total", "Nat"), ("eff_w", "Bool")]),
     ["(total + 1)", "true"]),
    ("callee names: the longest listed name wins (`np.random.seed` is not `random.seed`); a listed call no path reaches is "
     "false under effects_absent_false",
     dict(func="seeds", type="Nat", effects={"random.seed": "py", "np.random.seed": "np", "th.manual_seed": "torch"},
          effect_arg={"py": 0, "np": 0}, effects_absent_false=True, strict=False,
          outputs=[("eff_py", "Bool"), ("effarg_py", "Nat"), ("effarg_np", "Nat"), ("effseq_np_py", "Bool"), ("eff_torch", "Bool")]),
     ["true", "s", "(s + 1)", "true", "false"]),
    ("`obs_` and `obs` are different variables",
     dict(func="under", type="Nat", calls={"f": "f", "g": "g"}, outputs=[("y", "Nat"), ("obs_u", "Nat")]),
     ["(f obs)", "(g obs)"]),
    ("`self.pos` and a local `pos` under one Lean name: refused",
     dict(func="clash", type="Nat", outputs=[("y", "Nat")], locals=["pos"]),
     ["EXC Unsupported(\"t: distinct source names share a Lean name: [('pos', 'self.pos', 'pos')]\")"]),
    ("raise ends the path",
     dict(func="rej", type="Nat", leaf_types={"bad": "Bool"}, outputs=[("raised", "Bool"), ("ret", "Nat")], no_return="0"),
     ["(if bad then true else false)", "(if bad then 0 else (a + 1))"]),
]


def run_tests(verbose=False):
    fd, path = tempfile.mkstemp(suffix=".py")
    os.write(fd, SRC.encode())
    os.close(fd)
    failures = []
    try:
        for what, spec, want in CASES:
            item = dict(spec, kind="block", name="t", file=path)
            item["class"] = "K"
            item["outputs"] = [{"var": v, "type": t, "optional": True} for v, t in spec["outputs"]]
            try:
                _, info = extract.extract_block(item)
                body = info["lean"]
                got = [body] if len(want) == 1 else [x.strip() for x in body.strip()[1:-1].split(",\n")]
            except Exception as e:  # noqa
                got = ["EXC " + repr(e)]
            ok = got == want
            if verbose:
                print(("ok   " if ok else "FAIL ") + what + ("" if ok else f"\n     got  {got}\n     want {want}"))
            if not ok:
                failures.append(what)
    finally:
        os.remove(path)
    return failures


if __name__ == "__main__":
    f = run_tests(verbose=True)
    print(f"{len(CASES) - len(f)}/{len(CASES)} translator self-tests pass")
    sys.exit(1 if f else 0)
