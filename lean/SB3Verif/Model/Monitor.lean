/-
Model of the episode-statistics code of stable-baselines3 (property C18):

* `Monitor`       (stable_baselines3/common/monitor.py)        — `Mon`, `Mon.step`, `Mon.run`
* `VecMonitor`    (stable_baselines3/common/vec_env/vec_monitor.py) — `VecMon`, `VecMon.step`, `VecMon.run`
* `evaluate_policy` quota loop (stable_baselines3/common/evaluation.py) — `targets`, `envStep`, `rowStep`, `evalLoop`
* `ResultsWriter` / `load_results` at the level "which rows, in which order" — `MFile`, `loadResults`
* `round(x, 6)` on exact rationals                              — `round6`

The sub-environment is external: every `step` operation carries what the wrapped environment
returned (reward, terminated, truncated, the info entries that matter). The wall clock is external:
`load_results` receives the `t` values that were written.

Import-free (core only); generic over the scalar type so that the theorems (any additive monoid)
and the driver (`Rat`) run the same definitions.
-/

namespace SB3Verif.Monitor

/-! ### small dictionaries (insertion ordered, like Python `dict`) -/

abbrev KV := List (String × Int)

def kvGet (kv : KV) (k : String) : Option Int := (kv.find? (fun p => p.1 == k)).map (·.2)

/-- `d[k] = v` : replace in place when the key exists, append otherwise -/
def kvSet (kv : KV) (k : String) (v : Int) : KV :=
  if kv.any (fun p => p.1 == k) then kv.map (fun p => if p.1 == k then (k, v) else p) else kv ++ [(k, v)]

/-- `d.update(other)` -/
def kvUpdate (kv other : KV) : KV := other.foldl (fun d p => kvSet d p.1 p.2) kv

/-! ### vocabulary shared by implementation model and specification -/

variable {α : Type}

/-- Python's `sum(list)` / repeated `acc += x`: a left fold starting from `0`. -/
def pySum [Add α] [Zero α] (l : List α) : α := l.foldl (· + ·) 0

/-- What the wrapped environment receives: `reset()` or `step(·)` (with what it answered:
reward and `terminated or truncated`). -/
inductive Call (α : Type) where
  | reset : Call α
  | step (r : α) (done : Bool) : Call α
deriving DecidableEq, Repr

/-- a step that did not end the episode -/
def Call.isOpen : Call α → Bool
  | .step _ false => true
  | _ => false

def Call.rew? : Call α → Option α
  | .step r _ => some r
  | .reset => none

/-- **Specification vocabulary.** The rewards of the episode that is running at the end of a call
history: the longest suffix of the history that consists of non-final steps (it starts right after the
last `reset` or the last episode end, whichever is later). -/
def openSeg (calls : List (Call α)) : List α :=
  ((calls.reverse.takeWhile Call.isOpen).reverse).filterMap Call.rew?

/-- One `info["episode"]` dictionary / one row of the monitor file (without the clock column). -/
structure EpInfo (α : Type) where
  r : α
  l : Nat
  extra : KV
deriving DecidableEq, Repr

/-! ## `Monitor` -/

structure MonCfg where
  allowEarly : Bool
  infoKeys : List String
  resetKeys : List String

structure Mon (α : Type) where
  rewards : List α          -- self.rewards
  needsReset : Bool         -- self.needs_reset
  resetInfo : KV            -- self.current_reset_info
  returns : List α          -- self.episode_returns (unrounded)
  lengths : List Nat        -- self.episode_lengths
  rows : List (EpInfo α)    -- what was handed to ResultsWriter.write_row, in order
  totalSteps : Nat          -- self.total_steps

def Mon.init : Mon α :=
  { rewards := [], needsReset := true, resetInfo := [], returns := [], lengths := [], rows := [], totalSteps := 0 }

inductive Op (α : Type) where
  /-- `reset(**kw)` (entries whose value is `None` are left out of `kw`) -/
  | reset (kw : KV)
  /-- `step(action)`; `r te tr info` is what the wrapped env answers if the call reaches it -/
  | step (r : α) (te tr : Bool) (info : KV)

inductive Out (α : Type) where
  | resetOk
  /-- RuntimeError "Tried to reset an environment before done" — nothing changed, env not called -/
  | errEarlyReset
  /-- ValueError "Expected you to pass keyword argument" — env not called; only `current_reset_info` may have
  been updated for the keywords that precede the missing one -/
  | errMissingKw
  /-- RuntimeError "Tried to step environment that needs reset" — nothing changed, env not called -/
  | errNeedsReset
  /-- KeyError: the env did not supply an `info_keywords` entry at the end of an episode
  (env was stepped, reward recorded, episode not recorded) -/
  | errInfoKey
  | stepOk (ep : Option (EpInfo α))
deriving DecidableEq, Repr

/-- `for key in self.reset_keywords: value = kwargs.get(key); if value is None: raise; self.current_reset_info[key] = value`
Returns the (possibly partially) updated dictionary and whether all keys were found. -/
def bindResetKw : List String → KV → KV → KV × Bool
  | [], _, cur => (cur, true)
  | k :: ks, kw, cur =>
    match kvGet kw k with
    | none => (cur, false)
    | some v => bindResetKw ks kw (kvSet cur k v)

/-- `for key in self.info_keywords: ep_info[key] = info[key]` (`none` = KeyError) -/
def infoExtra : List String → KV → KV → Option KV
  | [], _, acc => some acc
  | k :: ks, info, acc =>
    match kvGet info k with
    | none => none
    | some v => infoExtra ks info (kvSet acc k v)

variable [Add α] [Zero α]

/-- One call of `Monitor.reset` / `Monitor.step`. `rnd` is `round(·, 6)`. -/
def Mon.step (cfg : MonCfg) (rnd : α → α) (m : Mon α) : Op α → Mon α × Out α
  | .reset kw =>
    if !cfg.allowEarly && !m.needsReset then (m, .errEarlyReset)
    else
      -- the keyword loop runs first (it may update `current_reset_info` partially before it raises);
      -- `rewards` / `needs_reset` are only touched once the reset is known to go through
      let (ri, ok) := bindResetKw cfg.resetKeys kw m.resetInfo
      if ok then ({ m with rewards := [], needsReset := false, resetInfo := ri }, .resetOk)
      else ({ m with resetInfo := ri }, .errMissingKw)
  | .step r te tr info =>
    if m.needsReset then (m, .errNeedsReset)
    else
      let rewards := m.rewards ++ [r]
      if te || tr then
        let epRew := pySum rewards
        let epLen := rewards.length
        match infoExtra cfg.infoKeys info [] with
        | none => ({ m with rewards := rewards, needsReset := true }, .errInfoKey)
        | some ex =>
          let ep : EpInfo α := { r := rnd epRew, l := epLen, extra := kvUpdate ex m.resetInfo }
          ({ m with rewards := rewards, needsReset := true, returns := m.returns ++ [epRew],
                    lengths := m.lengths ++ [epLen], rows := m.rows ++ [ep], totalSteps := m.totalSteps + 1 },
           .stepOk (some ep))
      else ({ m with rewards := rewards, totalSteps := m.totalSteps + 1 }, .stepOk none)

/-- A whole history of calls: final state and the answer to every call. -/
def Mon.run (cfg : MonCfg) (rnd : α → α) : Mon α → List (Op α) → Mon α × List (Out α)
  | m, [] => (m, [])
  | m, op :: ops =>
    let r1 := m.step cfg rnd op
    let r2 := Mon.run cfg rnd r1.1 ops
    (r2.1, r1.2 :: r2.2)

/-- The call the wrapped environment receives for an operation, given the monitor's answer
(`none`: the call was rejected before it reached the environment). -/
def callOf : Op α → Out α → Option (Call α)
  | .reset _, .resetOk => some .reset
  | .step r te tr _, .stepOk _ => some (.step r (te || tr))
  | .step r te tr _, .errInfoKey => some (.step r (te || tr))
  | _, _ => none

/-- The history as the wrapped environment sees it. -/
def Mon.trace (cfg : MonCfg) (rnd : α → α) (m : Mon α) (ops : List (Op α)) : List (Call α) :=
  (List.zip ops (Mon.run cfg rnd m ops).2).filterMap fun p => callOf p.1 p.2

/-- the info of an episode-ending `step` has every one of the `info_keywords` (vacuous for a `reset`) -/
def Op.infoOk (cfg : MonCfg) : Op α → Bool
  | .reset _ => true
  | .step _ te tr info => !(te || tr) || cfg.infoKeys.all fun k => (kvGet info k).isSome

def Out.ep? : Out α → Option (EpInfo α)
  | .stepOk ep => ep
  | _ => none

/-! ## `VecMonitor` -/

/-- raw output of one sub-environment in one vectorised step -/
structure Raw (α : Type) where
  rew : α
  done : Bool
  info : KV

structure VecMon (α : Type) where
  rets : List α             -- self.episode_returns
  lens : List Nat           -- self.episode_lengths
  count : Nat               -- self.episode_count
  rows : List (EpInfo α)    -- rows handed to the ResultsWriter

def VecMon.init (n : Nat) : VecMon α :=
  { rets := List.replicate n 0, lens := List.replicate n 0, count := 0, rows := [] }

inductive VOp (α : Type) where
  | reset
  | step (row : List (Raw α))

/-- what `step_wait` does for sub-environment `i`: new accumulators and the `episode` entry if any.
(An `info_keywords` entry missing from the info of a final step is a KeyError in the code; the driver
rejects such requests, the model does not represent them.) -/
def vecEnvStep (infoKeys : List String) (ret : α) (len : Nat) (o : Raw α) : α × Nat × Option (EpInfo α) :=
  let ret' := ret + o.rew
  let len' := len + 1
  if o.done then (0, 0, some { r := ret', l := len', extra := (infoExtra infoKeys o.info []).getD [] })
  else (ret', len', none)

def VecMon.step (n : Nat) (infoKeys : List String) (v : VecMon α) : VOp α → VecMon α × List (Option (EpInfo α))
  | .reset => ({ v with rets := List.replicate n 0, lens := List.replicate n 0 }, [])
  | .step row =>
    let res := (List.range n).map fun i =>
      vecEnvStep infoKeys (v.rets.getD i 0) (v.lens.getD i 0) (row.getD i ⟨0, false, []⟩)
    let eps := res.map (·.2.2)
    ({ rets := res.map (·.1), lens := res.map (·.2.1),
       count := v.count + (eps.filterMap id).length, rows := v.rows ++ eps.filterMap id }, eps)

def VecMon.run (n : Nat) (infoKeys : List String) : VecMon α → List (VOp α) → VecMon α × List (List (Option (EpInfo α)))
  | v, [] => (v, [])
  | v, op :: ops =>
    let r1 := v.step n infoKeys op
    let r2 := VecMon.run n infoKeys r1.1 ops
    (r2.1, r1.2 :: r2.2)

/-- the history of sub-environment `i` as that environment sees it (`VecEnv.reset` resets every
sub-environment; a `VecEnv` resets a sub-environment by itself after its episode ended, which is why
`openSeg` also cuts after a final step) -/
def vtrace (i : Nat) (ops : List (VOp α)) : List (Call α) :=
  ops.map fun
    | .reset => .reset
    | .step row => .step (row.getD i ⟨0, false, []⟩).rew (row.getD i ⟨0, false, []⟩).done

/-! ## `evaluate_policy` -/

/-- `episode_count_targets = [(n_eval_episodes + i) // n_envs for i in range(n_envs)]` -/
def targets (N n : Nat) : List Nat := (List.range n).map fun i => (N + i) / n

/-- what `evaluate_policy` sees of sub-environment `i` in one vectorised step:
`rewards[i]`, `dones[i]`, and `infos[i]["episode"]` (`r`, `l`) when that key is present -/
structure StepOut (α : Type) where
  rew : α
  done : Bool
  ep : Option (α × Nat)

/-- `episode_counts[i]`, `current_rewards[i]`, `current_lengths[i]` -/
structure EnvAcc (α : Type) where
  count : Nat
  curRet : α
  curLen : Nat

/-- body of `for i in range(n_envs)` (after `current_rewards += rewards; current_lengths += 1`):
new accumulators of env `i` and the `(reward, length)` appended to the result lists, if any.
`mon` is `is_monitor_wrapped`. -/
def envStep (mon : Bool) (target : Nat) (e : EnvAcc α) (o : StepOut α) : EnvAcc α × Option (α × Nat) :=
  let cr := e.curRet + o.rew
  let cl := e.curLen + 1
  if e.count < target then
    if o.done then
      if mon then
        match o.ep with
        | some p => ({ count := e.count + 1, curRet := 0, curLen := 0 }, some p)
        | none => ({ count := e.count, curRet := 0, curLen := 0 }, none)
      else ({ count := e.count + 1, curRet := 0, curLen := 0 }, some (cr, cl))
    else ({ count := e.count, curRet := cr, curLen := cl }, none)
  else ({ count := e.count, curRet := cr, curLen := cl }, none)

structure EvalSt (α : Type) where
  envs : List (EnvAcc α)
  out : List (α × Nat)     -- episode_rewards / episode_lengths (zipped)
  steps : Nat              -- number of `env.step` calls made

def EvalSt.init (n : Nat) : EvalSt α :=
  { envs := List.replicate n ⟨0, 0, 0⟩, out := [], steps := 0 }

/-- `(episode_counts < episode_count_targets).any()` -/
def active (n : Nat) (tg : List Nat) (envs : List (EnvAcc α)) : Bool :=
  (List.range n).any fun i => (envs.getD i ⟨0, 0, 0⟩).count < tg.getD i 0

/-- one iteration of the `while` loop, given the vectorised step result -/
def rowStep (mon : Bool) (n : Nat) (tg : List Nat) (s : EvalSt α) (row : List (StepOut α)) : EvalSt α :=
  let res := (List.range n).map fun i =>
    envStep mon (tg.getD i 0) (s.envs.getD i ⟨0, 0, 0⟩) (row.getD i ⟨0, false, none⟩)
  { envs := res.map (·.1), out := s.out ++ res.filterMap (·.2), steps := s.steps + 1 }

/-- the `while` loop run against a finite prefix `rows` of the environment's answers: it stops when
no env is below its target, or when the prefix is used up (the real loop would go on stepping) -/
def evalLoop (mon : Bool) (n : Nat) (tg : List Nat) : EvalSt α → List (List (StepOut α)) → EvalSt α
  | s, [] => s
  | s, row :: rest => if active n tg s.envs then evalLoop mon n tg (rowStep mon n tg s row) rest else s

def evaluate (mon : Bool) (N n : Nat) (rows : List (List (StepOut α))) : EvalSt α :=
  evalLoop mon n (targets N n) (EvalSt.init n) rows

/-- `evaluate_policy` terminated within the given prefix -/
def EvalSt.finished (n : Nat) (tg : List Nat) (s : EvalSt α) : Bool := !active n tg s.envs

/-! ### `evaluate_policy` on top of `VecMonitor` / on a `DummyVecEnv` of `Monitor`s -/

/-- rows of raw sub-environment outputs, seen through a freshly reset `VecMonitor` -/
def throughVecMon (n : Nat) : VecMon α → List (List (Raw α)) → List (List (StepOut α))
  | _, [] => []
  | v, row :: rest =>
    let r := v.step n [] (.step row)
    ((List.range n).map fun i =>
      { rew := (row.getD i ⟨0, false, []⟩).rew, done := (row.getD i ⟨0, false, []⟩).done,
        ep := (r.2.getD i none).map fun e => (e.r, e.l) : StepOut α }) :: throughVecMon n r.1 rest

/-- `DummyVecEnv.step_wait` for one `Monitor`-wrapped sub-environment: step it, and reset it at once
when its episode ended -/
def monAutoStep (cfg : MonCfg) (rnd : α → α) (m : Mon α) (o : Raw α) : Mon α × StepOut α :=
  let r := m.step cfg rnd (.step o.rew o.done false o.info)
  let m2 := if o.done then (r.1.step cfg rnd (.reset [])).1 else r.1
  (m2, { rew := o.rew, done := o.done, ep := r.2.ep?.map fun e => (e.r, e.l) })

/-- rows of raw outputs seen through `n` `Monitor`s inside a `DummyVecEnv` -/
def throughMonitors (cfg : MonCfg) (rnd : α → α) (n : Nat) : List (Mon α) → List (List (Raw α)) → List (List (StepOut α))
  | _, [] => []
  | ms, row :: rest =>
    let res := (List.range n).map fun i => monAutoStep cfg rnd (ms.getD i Mon.init) (row.getD i ⟨0, false, []⟩)
    res.map (·.2) :: throughMonitors cfg rnd n (res.map (·.1)) rest

/-- a `Monitor` after `DummyVecEnv.reset()` -/
def Mon.fresh (cfg : MonCfg) (rnd : α → α) : Mon α := ((Mon.init : Mon α).step cfg rnd (.reset [])).1

/-- raw rows as `evaluate_policy` sees them without any monitor -/
def plainRows (n : Nat) (rows : List (List (Raw α))) : List (List (StepOut α)) :=
  rows.map fun row => (List.range n).map fun i =>
    { rew := (row.getD i ⟨0, false, []⟩).rew, done := (row.getD i ⟨0, false, []⟩).done, ep := none }

/-! ### Specification of the evaluation result (closed form, no counters) -/

/-- column `i` of a table of vectorised steps, as calls seen by sub-environment `i` -/
def colCalls (i : Nat) (rows : List (List (Raw α))) : List (Call α) :=
  rows.map fun row => .step (row.getD i ⟨0, false, []⟩).rew (row.getD i ⟨0, false, []⟩).done

def Call.isDone : Call α → Bool
  | .step _ true => true
  | _ => false

/-- The `(return, length)` that step `t` of environment `i` contributes to the result of
`evaluate_policy` with per-env target `tg`: the episode ending at `t`, if one ends there and fewer than
`tg` episodes of this environment ended before. -/
def specEmit (tg : Nat) (calls : List (Call α)) (t : Nat) : Option (α × Nat) :=
  match calls[t]? with
  | some (.step r true) =>
    if ((calls.take t).countP Call.isDone) < tg then
      some (pySum (openSeg (calls.take t) ++ [r]), (openSeg (calls.take t)).length + 1)
    else none
  | _ => none

/-- all contributions, ordered by step, then by environment index -/
def evalSpec (n : Nat) (tg : List Nat) (rows : List (List (Raw α))) : List (α × Nat) :=
  (List.range rows.length).flatMap fun t =>
    (List.range n).filterMap fun i => specEmit (tg.getD i 0) (colCalls i rows) t

/-! ## `load_results` -/

/-- one `*.monitor.csv`: header `t_start` and the rows (`t` column, payload) in file order -/
structure MFile (β : Type) where
  tStart : Rat
  rows : List (Rat × β)

/-- `data_frame["t"] += header["t_start"]` for every file, `concat` -/
def absRows {β : Type} (files : List (MFile β)) : List (Rat × β) :=
  files.flatMap fun f => f.rows.map fun p => (p.1 + f.tStart, p.2)

def minStart {β : Type} : List (MFile β) → Rat
  | [] => 0
  | f :: fs => fs.foldl (fun m g => if g.tStart < m then g.tStart else m) f.tStart

/-- `load_results`: concatenate, sort by absolute time, re-base on the earliest `t_start`.
(The sort is a stable merge sort here; pandas' default is not stable — the theorems only speak
about histories with pairwise different time stamps, where the sorted order is unique.) -/
def loadResults {β : Type} (files : List (MFile β)) : List (Rat × β) :=
  ((absRows files).mergeSort fun a b => decide (a.1 ≤ b.1)).map fun p => (p.1 - minStart files, p.2)

/-! ## `round(x, 6)` on exact values -/

/-- round half to even -/
def roundHalfEven (q : Rat) : Int :=
  let f := q.floor
  let d := q - (f : Rat)
  if d < 1 / 2 then f
  else if 1 / 2 < d then f + 1
  else if f % 2 = 0 then f else f + 1

/-- Python's `round(x, 6)` evaluated on the exact value of `x` -/
def round6 (q : Rat) : Rat := (roundHalfEven (q * 1000000) : Rat) / 1000000

end SB3Verif.Monitor
