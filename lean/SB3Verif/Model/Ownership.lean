/-
C19 — ownership / heap model: who may see whose objects.

Two machines run the same programs (a program is what a *caller* of the library does: create an
object, overwrite an object it holds, call the library with some of its objects):

* the **heap machine** (`St`, `step`, `run`): objects live at addresses; the library owns cells
  (`slots`), the caller holds addresses (`held`); what a library call does with its arguments and
  results is spelled out by micro-instructions (`Instr`): copy a value into an own cell, keep the
  argument's address as a cell (stored by reference), write through the argument's address
  (mutated), return a new object, return the address of an own cell (shares internal), return the
  argument's address (shares argument), keep a dead reference;
* the **value machine** (`VSt`, `vstep`, `vrun`): no addresses at all — the library state is a list
  of values, the caller's objects are a list of values, a call maps (cell values, argument values at
  call time) to (new cell values, result values). This is the specification "nothing is shared".

The property theorems (`Props/C19.lean`) say that for programs whose calls use copy-discipline
instructions only, the heap machine *is* the value machine, and give the converse witnesses.
No Mathlib; core only.
-/
namespace SB3Verif.Ownership

abbrev Addr := Nat
abbrev Val := Int

/-! ### Modes (the vocabulary of the mode table) -/

/-- What a library call does with an argument object. -/
inductive ArgMode
  | readOnly       -- read during the call, nothing kept
  | storedByCopy   -- its value is copied into library-owned memory
  | retainedDead   -- the library keeps a reference it never reads or writes in any later call
  | storedByRef    -- the library keeps the object itself as part of its state
  | mutated        -- the library writes into the caller's object
  deriving DecidableEq, Repr, Inhabited

/-- Where a result object of a library call comes from. -/
inductive ResMode
  | fresh             -- a new object nobody else refers to
  | freshRetained     -- a new object; the library keeps a dead reference to it
  | sharesInternal    -- the library's own (live) memory
  | sharesArg (i : Nat) -- (memory of) the i-th argument object
  deriving DecidableEq, Repr, Inhabited

def ArgMode.discipline : ArgMode → Bool
  | .readOnly | .storedByCopy | .retainedDead => true
  | .storedByRef | .mutated => false

def ResMode.discipline : ResMode → Bool
  | .fresh | .freshRetained => true
  | .sharesInternal | .sharesArg _ => false

structure Sig where
  args : List ArgMode
  res : List ResMode
  deriving DecidableEq, Repr, Inhabited

def Sig.discipline (s : Sig) : Bool := s.args.all ArgMode.discipline && s.res.all ResMode.discipline

/-! ### Programs -/

/-- A value the library computes: from constants, its own cells and its arguments. -/
inductive Src
  | const (v : Val)
  | slot (k : Nat)
  | arg (i : Nat)
  | add (a b : Src)
  deriving DecidableEq, Repr, Inhabited

/-- Micro-instructions of a library call. -/
inductive Instr
  | setSlot (k : Nat) (s : Src)      -- own cell k := value            (storedByCopy when s reads an argument)
  | stash (i : Nat)                  -- keep a dead reference to argument i   (retainedDead)
  | aliasSlot (k i : Nat)            -- own cell k := *the object* of argument i (storedByRef)
  | writeArg (i : Nat) (s : Src)     -- argument i's object := value    (mutated)
  | retFresh (s : Src)               -- result: new object              (fresh)
  | retFreshStash (s : Src)          -- result: new object, dead reference kept (freshRetained)
  | retSlot (k : Nat)                -- result: own cell k itself       (sharesInternal)
  | retArg (i : Nat)                 -- result: argument i's object itself (sharesArg i)
  deriving DecidableEq, Repr, Inhabited

def Instr.discipline : Instr → Bool
  | .setSlot _ _ | .stash _ | .retFresh _ | .retFreshStash _ => true
  | .aliasSlot _ _ | .writeArg _ _ | .retSlot _ | .retArg _ => false

/-- What the caller does. Handles (`h`, `args`) index the list of objects the caller holds, in the
order it obtained them (own creations and results of calls). -/
inductive Step
  | new (v : Val)
  | write (h : Nat) (v : Val)
  | call (ins : List Instr) (args : List Nat)
  deriving DecidableEq, Repr, Inhabited

def Step.discipline : Step → Bool
  | .call ins _ => ins.all Instr.discipline
  | _ => true

/-- every library call of the program follows the copy discipline -/
def Disciplined (p : List Step) : Prop := ∀ st ∈ p, st.discipline = true

instance (p : List Step) : Decidable (Disciplined p) := by unfold Disciplined; infer_instance

/-! ### Heap machine -/

def upd (h : Addr → Val) (a : Addr) (v : Val) : Addr → Val := fun x => if x = a then v else h x

structure St where
  heap : Addr → Val
  next : Addr
  slots : List Addr          -- library cell k lives at `slots[k]`
  dead : List Addr           -- references the library keeps and never uses
  held : List Addr           -- objects the caller holds
  trace : List (List Val)    -- per call: the values of its results when it returned

def init (n : Nat) : St :=
  { heap := fun _ => 0, next := n, slots := List.range n, dead := [], held := [], trace := [] }

def evalSrc (heap : Addr → Val) (slots args : List Addr) : Src → Val
  | .const v => v
  | .slot k => match slots[k]? with
    | some a => heap a
    | none => 0
  | .arg i => match args[i]? with
    | some a => heap a
    | none => 0
  | .add a b => evalSrc heap slots args a + evalSrc heap slots args b

/-- state inside a call -/
structure Frame where
  heap : Addr → Val
  next : Addr
  slots : List Addr
  dead : List Addr
  res : List Addr

def execInstr (args : List Addr) (f : Frame) : Instr → Frame
  | .setSlot k s => match f.slots[k]? with
    | some a => { f with heap := upd f.heap a (evalSrc f.heap f.slots args s) }
    | none => f
  | .stash i => match args[i]? with
    | some a => { f with dead := f.dead ++ [a] }
    | none => f
  | .aliasSlot k i => match args[i]? with
    | some a => { f with slots := f.slots.set k a }
    | none => f
  | .writeArg i s => match args[i]? with
    | some a => { f with heap := upd f.heap a (evalSrc f.heap f.slots args s) }
    | none => f
  | .retFresh s =>
    { f with heap := upd f.heap f.next (evalSrc f.heap f.slots args s), next := f.next + 1, res := f.res ++ [f.next] }
  | .retFreshStash s =>
    { f with heap := upd f.heap f.next (evalSrc f.heap f.slots args s), next := f.next + 1, res := f.res ++ [f.next],
             dead := f.dead ++ [f.next] }
  | .retSlot k => match f.slots[k]? with
    | some a => { f with res := f.res ++ [a] }
    | none => f
  | .retArg i => match args[i]? with
    | some a => { f with res := f.res ++ [a] }
    | none => f

def argAddrs (held : List Addr) (hs : List Nat) : List Addr := hs.filterMap (fun h => held[h]?)

def step (s : St) : Step → St
  | .new v => { s with heap := upd s.heap s.next v, next := s.next + 1, held := s.held ++ [s.next] }
  | .write h v => match s.held[h]? with
    | some a => { s with heap := upd s.heap a v }
    | none => s
  | .call ins hs =>
    let f := ins.foldl (execInstr (argAddrs s.held hs)) ⟨s.heap, s.next, s.slots, s.dead, []⟩
    { heap := f.heap, next := f.next, slots := f.slots, dead := f.dead, held := s.held ++ f.res,
      trace := s.trace ++ [f.res.map f.heap] }

def run (p : List Step) (s : St) : St := p.foldl step s

def heldVals (s : St) : List Val := s.held.map s.heap
def cellVals (s : St) : List Val := s.slots.map s.heap

/-! ### Value machine (the specification: nothing is shared) -/

structure VSt where
  cells : List Val
  held : List Val
  trace : List (List Val)
  deriving DecidableEq, Repr

def vinit (n : Nat) : VSt := { cells := List.replicate n 0, held := [], trace := [] }

def vEvalSrc (cells args : List Val) : Src → Val
  | .const v => v
  | .slot k => match cells[k]? with
    | some v => v
    | none => 0
  | .arg i => match args[i]? with
    | some v => v
    | none => 0
  | .add a b => vEvalSrc cells args a + vEvalSrc cells args b

structure VFrame where
  cells : List Val
  res : List Val
  deriving DecidableEq, Repr

/-- value-level meaning of an instruction. For the four aliasing instructions this is their
*idealisation* (what a copying implementation would do): `aliasSlot` copies the value, `writeArg`
leaves the caller's object alone, `retSlot`/`retArg` return a copy. -/
def vExecInstr (args : List Val) (f : VFrame) : Instr → VFrame
  | .setSlot k s => { f with cells := f.cells.set k (vEvalSrc f.cells args s) }
  | .stash _ => f
  | .aliasSlot k i => match args[i]? with
    | some v => { f with cells := f.cells.set k v }
    | none => f
  | .writeArg _ _ => f
  | .retFresh s => { f with res := f.res ++ [vEvalSrc f.cells args s] }
  | .retFreshStash s => { f with res := f.res ++ [vEvalSrc f.cells args s] }
  | .retSlot k => match f.cells[k]? with
    | some v => { f with res := f.res ++ [v] }
    | none => f
  | .retArg i => match args[i]? with
    | some v => { f with res := f.res ++ [v] }
    | none => f

def argVals (held : List Val) (hs : List Nat) : List Val := hs.filterMap (fun h => held[h]?)

def vstep (v : VSt) : Step → VSt
  | .new x => { v with held := v.held ++ [x] }
  | .write h x => { v with held := v.held.set h x }
  | .call ins hs =>
    let f := ins.foldl (vExecInstr (argVals v.held hs)) ⟨v.cells, []⟩
    { cells := f.cells, held := v.held ++ f.res, trace := v.trace ++ [f.res] }

def vrun (p : List Step) (v : VSt) : VSt := p.foldl vstep v

/-- the value-machine state a heap-machine state stands for -/
def abs (s : St) : VSt := { cells := cellVals s, held := heldVals s, trace := s.trace }

/-! ### Caller-side bookkeeping used by the theorems and by the driver -/

/-- the value object `h` has after the caller's own writes in `p`, starting from `x` -/
def lastWrite (h : Nat) : List Step → Val → Val
  | [], x => x
  | .write h' v :: rest, x => if h' = h then lastWrite h rest v else lastWrite h rest x
  | _ :: rest, x => lastWrite h rest x

/-- is object `h` handed to the library by some call of `p` -/
def usedLater (h : Nat) : List Step → Bool
  | [] => false
  | .call _ hs :: rest => hs.contains h || usedLater h rest
  | _ :: rest => usedLater h rest

/-- remove every caller write to an object that is not handed to the library afterwards -/
def stripDeadWrites : List Step → List Step
  | [] => []
  | .write h v :: rest => if usedLater h rest then .write h v :: stripDeadWrites rest else stripDeadWrites rest
  | st :: rest => st :: stripDeadWrites rest

/-- (step index, handle) pairs: a *library call* changed the value of an object the caller already held -/
def libChanged (p : List Step) (s : St) : List (Nat × Nat) :=
  let rec go (i : Nat) (p : List Step) (s : St) (acc : List (Nat × Nat)) : List (Nat × Nat) :=
    match p with
    | [] => acc
    | st :: rest =>
      let s' := step s st
      let acc' := match st with
        | .call _ _ =>
          let before := heldVals s
          let after := (s'.held.take s.held.length).map s'.heap
          let diff := ((List.range before.length).zip (before.zip after)).filter (fun t => t.2.1 != t.2.2)
          acc ++ diff.map (fun t => (i, t.1))
        | _ => acc
      go (i + 1) rest s' acc'
  go 0 p s []

end SB3Verif.Ownership
