/-
Model of off-policy experience collection (SAC / TD3 / DDPG / DQN):
`stable_baselines3/common/off_policy_algorithm.py` (`_sample_action`, `_store_transition`,
`collect_rollouts`, `learn`), `common/policies.py` (`scale_action`, `unscale_action`),
`common/base_class.py` (`_setup_learn`: `_last_obs`, `_last_original_obs`), and the two VecEnv layers the
data passes through: the auto-resetting `DummyVecEnv.step_wait` and (optionally) `VecNormalize.step_wait`.

Externals are streams (DESIGN §2.2): per vectorised step the policy / warm-up output `u` (one unscaled
action per env), the action-noise sample (optional), the raw output of every sub-environment
(`RawStep`: observation, reward, terminated, truncated and — when the episode ended — the observation of
the reset the VecEnv performs), and, under `VecNormalize`, the statistics in force after that step's update
(`Normalizer`: per coordinate mean and `sqrt(var + eps)`, clip ranges).  The theorems quantify over all of
them.

Layers (each function mirrors the code of the same name):

* action algebra       `clip`, `scaleAction`, `unscaleAction` (clipped, fix 933445d), `sampleAction1`
* `dummyStep`          terminal observation saved in `info`, reset observation returned, `TimeLimit.truncated`
* `vnStep`             `old_obs` / `old_reward` kept raw, observation / reward / terminal observation normalised
* `postStep`           an observation wrapper outside `VecNormalize` (`VecTransposeImage`), abstractly: any map
                       applied alike to observations and terminal observations
* `storeTransition`    `_last_original_obs`, terminal-observation substitution (un-normalised), `replay_buffer.add`
* `body`               one iteration of the `collect_rollouts` loop
* `collect`, `learnLoop`, `runCall`, `run`   the loops, consuming the external stream
* `World`              the *specification side*: what each sub-environment itself saw (its current observation,
                       the action it received, what it answered) — never read by the mechanism

Observations and actions are vectors `List α`; `α` is any type with the listed operations (`Rat` in the
driver, an ordered field in the theorems).  Float32 rounding is not modelled.

Import-free (core only).
-/

namespace SB3Verif.OffPolicy

/-! ## Action algebra (`policies.py: scale_action / unscale_action`, `_sample_action`) -/

section Scalar

variable {α : Type} [Add α] [Sub α] [Mul α] [Div α] [Neg α] [One α] [LT α] [DecidableLT α]

/-- `np.clip(x, lo, hi) = np.minimum(np.maximum(x, lo), hi)` -/
def clip (x lo hi : α) : α :=
  let y := if x < lo then lo else x
  if hi < y then hi else y

/-- `2.0 * ((action - low) / (high - low)) - 1.0` -/
def scaleAction (low high a : α) : α := (1 + 1) * ((a - low) / (high - low)) - 1

/-- the affine part of `unscale_action`: `low + (0.5 * (scaled_action + 1.0) * (high - low))` -/
def unscaleRaw (low high s : α) : α := low + (1 / (1 + 1)) * (s + 1) * (high - low)

/-- `np.clip(low + (0.5 * (scaled_action + 1.0) * (high - low)), low, high)` -/
def unscaleAction (low high s : α) : α := clip (unscaleRaw low high s) low high

/-- element-wise application over three vectors of equal length -/
def map3 {β : Type} (f : α → α → α → β) : List α → List α → List α → List β
  | a :: as, b :: bs, c :: cs => f a b c :: map3 f as bs cs
  | _, _, _ => []

/-- `scaled_action + action_noise()` clipped to `[-1, 1]` -/
def addNoise (s e : α) : α := clip (s + e) (-1) 1

/-- the action space of the algorithm: a `Box` with per-dimension bounds, or anything discrete -/
inductive ActSpace (α : Type) where
  | box (low high : List α)
  | discrete

/-- `_sample_action` for one environment, given the unscaled action `u` (from `predict` or from
`action_space.sample()`) and the noise sample: returns `(action, buffer_action)`. -/
def sampleAction1 (sp : ActSpace α) (noise : Option (List α)) (u : List α) : List α × List α :=
  match sp with
  | .box low high =>
    let scaled := map3 scaleAction low high u
    let scaled' := match noise with
      | none => scaled
      | some e => List.zipWith addNoise scaled e
    (map3 unscaleAction low high scaled', scaled')
  | .discrete => (u, u)

/-- all environments (the noise, when present, has one row per environment) -/
def sampleActions (sp : ActSpace α) (noise : Option (List (List α))) (us : List (List α)) :
    List (List α × List α) :=
  match noise with
  | none => us.map (sampleAction1 sp none)
  | some es => List.zipWith (fun u e => sampleAction1 sp (some e) u) us es

/-! ## The two VecEnv layers -/

/-- what one sub-environment answers to `step(action)`; `resetObs` is the observation of the `reset()` the
VecEnv calls right after an episode end (not used otherwise) -/
structure RawStep (α : Type) where
  obs : List α
  rew : α
  term : Bool
  trunc : Bool
  resetObs : List α
  /-- what the info dict the env returns *already* holds under `"terminal_observation"` (`none`: nothing / `None`).
  An env that reuses one dict object for its whole lifetime still carries the terminal observation the VecEnv
  wrote into it at the end of the previous episode. -/
  staleTerm : Option (List α) := none

def RawStep.done (r : RawStep α) : Bool := r.term || r.trunc

/-- the two `info` entries the collection code reads -/
structure Info (α : Type) where
  /-- `info["terminal_observation"]` -/
  terminalObs : Option (List α)
  /-- `info["TimeLimit.truncated"]` -/
  timeout : Bool

structure VecOut (α : Type) where
  obs : List (List α)
  rews : List α
  dones : List Bool
  infos : List (Info α)

/-- `DummyVecEnv.step_wait`: `done = terminated or truncated`, `TimeLimit.truncated = truncated and not
terminated`, on `done` the observation goes to `info["terminal_observation"]` and the reset observation is
returned in its place; otherwise the info dict is the env's own, with whatever it already held. -/
def dummyStep (raws : List (RawStep α)) : VecOut α :=
  { obs := raws.map fun r => if r.done then r.resetObs else r.obs
    rews := raws.map (·.rew)
    dones := raws.map (·.done)
    infos := raws.map fun r => ⟨if r.done then some r.obs else r.staleTerm, r.trunc && !r.term⟩ }

/-- `VecNormalize` statistics as they are when a batch is normalised: per coordinate `(mean, sqrt(var+eps))`,
`none` for a coordinate that is not normalised (`norm_obs=False`, key outside `norm_obs_keys`);
`rewSd = none` when `norm_reward=False`. -/
structure Normalizer (α : Type) where
  stats : List (Option (α × α))
  clipObs : α
  rewSd : Option α
  clipRew : α

/-- `np.clip((obs - mean) / np.sqrt(var + eps), -clip_obs, clip_obs)` -/
def normWith (mean sd c x : α) : α := clip ((x - mean) / sd) (-c) c

/-- `(obs * np.sqrt(var + eps)) + mean` -/
def unnormWith (mean sd z : α) : α := z * sd + mean

def normCoords (c : α) : List (Option (α × α)) → List α → List α
  | some (m, s) :: st, x :: xs => normWith m s c x :: normCoords c st xs
  | none :: st, x :: xs => x :: normCoords c st xs
  | [], xs => xs
  | _ :: _, [] => []

def unnormCoords : List (Option (α × α)) → List α → List α
  | some (m, s) :: st, z :: zs => unnormWith m s z :: unnormCoords st zs
  | none :: st, z :: zs => z :: unnormCoords st zs
  | [], zs => zs
  | _ :: _, [] => []

/-- `VecNormalize.normalize_obs` on one observation -/
def Normalizer.normObs (z : Normalizer α) (o : List α) : List α := normCoords z.clipObs z.stats o

/-- `VecNormalize.unnormalize_obs` on one observation -/
def Normalizer.unnormObs (z : Normalizer α) (o : List α) : List α := unnormCoords z.stats o

/-- `VecNormalize.normalize_reward` on one reward -/
def Normalizer.normRew (z : Normalizer α) (r : α) : α :=
  match z.rewSd with
  | none => r
  | some s => clip (r / s) (-z.clipRew) z.clipRew

/-- a wrapper's loop `for idx, done in enumerate(dones): if not done: continue; infos[idx]["terminal_observation"] = f(…)`:
only the infos of finished envs are touched -/
def mapTerm (f : List α → List α) : List Bool → List (Info α) → List (Info α)
  | d :: ds, i :: is => (if d then { i with terminalObs := i.terminalObs.map f } else i) :: mapTerm f ds is
  | _, is => is

/-- what `VecNormalize.step_wait` returns, and what it keeps for `get_original_obs/reward` -/
structure VNOut (α : Type) where
  out : VecOut α
  oldObs : List (List α)
  oldRew : List α

/-- `VecNormalize.step_wait` after the statistics update: `old_obs`, `old_reward` keep the raw batch; the
returned observations, rewards and the terminal observations in the infos of finished envs are normalised. -/
def vnStep (z : Normalizer α) (vo : VecOut α) : VNOut α :=
  { out :=
      { obs := vo.obs.map z.normObs
        rews := vo.rews.map z.normRew
        dones := vo.dones
        infos := mapTerm z.normObs vo.dones vo.infos }
    oldObs := vo.obs
    oldRew := vo.rews }

/-- an observation wrapper (`VecTransposeImage.step_wait`): the observations and the terminal observations in
the infos of finished envs are transformed alike, everything else passes through -/
def postStep (f : List α → List α) (vo : VecOut α) : VecOut α :=
  { vo with obs := vo.obs.map f, infos := mapTerm f vo.dones vo.infos }

/-! ## `_store_transition` and the loop body -/

/-- one `replay_buffer.add` call: a row with one entry per environment -/
structure Row (α : Type) where
  obs : List (List α)
  nextObs : List (List α)
  action : List (List α)
  reward : List α
  done : List Bool
  timeout : List Bool

/-- what one iteration of the collection loop did -/
structure StepOut (α : Type) where
  /-- warm-up branch of `_sample_action` (uniform sample) instead of `predict` -/
  warmup : Bool
  /-- `self._last_obs` when the action was chosen: what `predict` receives -/
  policyInput : List (List α)
  /-- the actions handed to `env.step` -/
  action : List (List α)
  /-- the transition handed to `replay_buffer.add` -/
  row : Row α
  /-- the indices `action_noise.reset` was called for after the step -/
  noiseReset : List Nat

/-- the algorithm's attributes the collection uses -/
structure St (α : Type) where
  /-- `self._last_obs is not None` -/
  started : Bool
  lastObs : List (List α)
  lastOrigObs : List (List α)
  numTimesteps : Nat
  /-- everything done so far, oldest first; the replay buffer's add log is `trace.map (·.row)` -/
  trace : List (StepOut α)

def St.init : St α := ⟨false, [], [], 0, []⟩

def St.buffer (s : St α) : List (Row α) := s.trace.map (·.row)

/-- the loop over `enumerate(dones)` in `_store_transition`: `next_obs[i]` is replaced by the terminal
observation found in `infos[i]` (un-normalised when a `VecNormalize` is present) for every finished env -/
def nextObsOf (z : Option (Normalizer α)) : List (List α) → List Bool → List (Info α) → List (List α)
  | o :: os, d :: ds, i :: is =>
    (match d, i.terminalObs with
      | true, some t => (match z with
        | some z => z.unnormObs t
        | none => t)
      | _, _ => o) :: nextObsOf z os ds is
  | _, _, _ => []

/-- `_store_transition(replay_buffer, buffer_action, new_obs, reward, dones, infos)`; `vn` carries the
`VecNormalize` (statistics, `get_original_obs()`, `get_original_reward()`) when there is one. -/
def storeTransition (st : St α) (vn : Option (Normalizer α × List (List α) × List α))
    (bufAct : List (List α)) (out : VecOut α) : St α × Row α :=
  match vn with
  | some (z, origObs, origRew) =>
    let next := nextObsOf (some z) origObs out.dones out.infos
    let row : Row α := ⟨st.lastOrigObs, next, bufAct, origRew, out.dones, out.infos.map (·.timeout)⟩
    ({ st with lastObs := out.obs, lastOrigObs := origObs }, row)
  | none =>
    -- `self._last_original_obs, new_obs_, reward_ = self._last_obs, new_obs, reward`
    let lastOrig := st.lastObs
    let next := nextObsOf none out.obs out.dones out.infos
    let row : Row α := ⟨lastOrig, next, bufAct, out.rews, out.dones, out.infos.map (·.timeout)⟩
    ({ st with lastObs := out.obs, lastOrigObs := lastOrig }, row)

/-- the external inputs of one vectorised step -/
structure StepIn (α : Type) where
  /-- unscaled action per environment (`predict` output or `action_space.sample()`) -/
  u : List (List α)
  /-- `action_noise()` per environment, `none` without action noise -/
  noise : Option (List (List α))
  /-- the sub-environments' answers -/
  raws : List (RawStep α)
  /-- `VecNormalize` statistics in force after this step's update; `none` without `VecNormalize` -/
  nz : Option (Normalizer α)

structure Cfg (α : Type) where
  nEnvs : Nat
  space : ActSpace α
  learningStarts : Nat
  /-- `train_freq.frequency` -/
  freq : Nat
  /-- `train_freq.unit == EPISODE` -/
  episodic : Bool
  /-- `use_sde and use_sde_at_warmup` -/
  sdeWarmup : Bool
  /-- a `VecNormalize` wraps the training env -/
  vecNormalize : Bool
  /-- the observation wrapper *outside* `VecNormalize` (`VecTransposeImage`: a fixed re-ordering of the
  coordinates; the identity when absent): applied alike to returned and to terminal observations. The replay
  buffer's observation space is the one after this wrapper. -/
  post : List α → List α

/-- indices of the `true` entries -/
def trueIdx : Nat → List Bool → List Nat
  | _, [] => []
  | k, true :: ds => k :: trueIdx (k + 1) ds
  | k, false :: ds => trueIdx (k + 1) ds

/-- one iteration of the `while should_collect_more_steps` loop of `collect_rollouts`
(callbacks that stop training are outside the property's quantifier) -/
def body (cfg : Cfg α) (st : St α) (x : StepIn α) : St α × StepOut α :=
  let warm := decide (st.numTimesteps < cfg.learningStarts) && !cfg.sdeWarmup
  let ab := sampleActions cfg.space x.noise x.u
  let acts := ab.map (·.1)
  let bufs := ab.map (·.2)
  let vo := dummyStep x.raws
  let st1 := { st with numTimesteps := st.numTimesteps + cfg.nEnvs }
  let r := match x.nz with
    | none => storeTransition st1 none bufs (postStep cfg.post vo)
    | some z =>
      -- `get_original_obs()` is what `VecNormalize` saw: the batch *before* the outer wrapper
      let v := vnStep z vo
      storeTransition st1 (some (z, v.oldObs, v.oldRew)) bufs (postStep cfg.post v.out)
  let resets := match x.noise with
    | none => []
    | some _ => trueIdx 0 vo.dones
  let out : StepOut α := ⟨warm, st.lastObs, acts, r.2, resets⟩
  ({ r.1 with trace := r.1.trace ++ [out] }, out)

/-! ## The specification side: what the sub-environments themselves saw -/

/-- one sub-environment's own record of a `step` call: the observation it had last returned, the action it
received, and its answer -/
structure Transition (α : Type) where
  obs : List α
  action : List α
  rew : α
  next : List α
  term : Bool
  trunc : Bool

def transitions : List (List α) → List (List α) → List (RawStep α) → List (Transition α)
  | c :: cs, a :: as, r :: rs => ⟨c, a, r.rew, r.obs, r.term, r.trunc⟩ :: transitions cs as rs
  | _, _, _ => []

/-- the sub-environments: the observation each one returned last (from `reset` or `step`), and the log of
all the transitions they went through, one list (all envs) per vectorised step, oldest first -/
structure World (α : Type) where
  cur : List (List α)
  log : List (List (Transition α))

def World.init : World α := ⟨[], []⟩

def World.reset (w : World α) (obs : List (List α)) : World α := { w with cur := obs }

def World.step (w : World α) (acts : List (List α)) (raws : List (RawStep α)) : World α :=
  { cur := raws.map fun r => if r.done then r.resetObs else r.obs
    log := w.log ++ [transitions w.cur acts raws] }

/-- the transition a row *should* hold: raw observation, true successor (both as the outer observation wrapper
presents them: the buffer's observation space is the wrapped one), raw reward,
`done = terminated ∨ truncated`, `timeout = truncated ∧ ¬terminated` (the action is compared separately) -/
structure Core (α : Type) where
  obs : List (List α)
  nextObs : List (List α)
  reward : List α
  done : List Bool
  timeout : List Bool

def Row.core (r : Row α) : Core α := ⟨r.obs, r.nextObs, r.reward, r.done, r.timeout⟩

def specCore (post : List α → List α) (ts : List (Transition α)) : Core α :=
  ⟨ts.map (fun t => post t.obs), ts.map (fun t => post t.next), ts.map (·.rew), ts.map (fun t => t.term || t.trunc),
   ts.map (fun t => t.trunc && !t.term)⟩

/-- mechanism and sub-environments side by side; the mechanism never reads `w` -/
structure Sys (α : Type) where
  st : St α
  w : World α

def Sys.init : Sys α := ⟨St.init, World.init⟩

def bodyS (cfg : Cfg α) (s : Sys α) (x : StepIn α) : Sys α :=
  let r := body cfg s.st x
  ⟨r.1, s.w.step r.2.action x.raws⟩

/-! ## The loops -/

/-- `should_collect_more_steps` -/
def shouldCollect (cfg : Cfg α) (steps episodes : Nat) : Bool :=
  if cfg.episodic then decide (episodes < cfg.freq) else decide (steps < cfg.freq)

def countDones (x : StepIn α) : Nat := (x.raws.filter (·.done)).length

/-- `collect_rollouts`: runs the body while `should_collect_more_steps`, consuming the external stream;
returns the unconsumed rest (an exhausted stream ends the loop) -/
def collect (cfg : Cfg α) : Nat → Nat → Sys α → List (StepIn α) → Sys α × List (StepIn α)
  | _, _, s, [] => (s, [])
  | steps, eps, s, x :: xs =>
    if shouldCollect cfg steps eps then
      collect cfg (steps + 1) (eps + countDones x) (bodyS cfg s x) xs
    else (s, x :: xs)

/-- `while self.num_timesteps < total_timesteps: collect_rollouts(...)`; `fuel` bounds the number of
rollouts (the stream length suffices: every rollout with `freq > 0` consumes at least one step) -/
def learnLoop (cfg : Cfg α) (total : Nat) : Nat → Sys α → List (StepIn α) → Sys α × List (StepIn α)
  | 0, s, xs => (s, xs)
  | fuel + 1, s, xs =>
    if s.st.numTimesteps < total ∧ !xs.isEmpty then
      let r := collect cfg 0 0 s xs
      learnLoop cfg total fuel r.1 r.2
    else (s, xs)

/-- one `learn(total_timesteps, reset_num_timesteps)` call with the externals it consumes -/
structure Call (α : Type) where
  reset : Bool
  total : Nat
  /-- what `env.reset()` returns from the sub-environments (used only when a reset happens) -/
  resetObs : List (List α)
  /-- `VecNormalize` statistics in force after that reset's update -/
  resetNz : Option (Normalizer α)
  steps : List (StepIn α)

/-- `_setup_learn`: counters, and `self._last_obs = self.env.reset()` when the counters are reset or there
is no last observation yet; returns the new state and the target `total_timesteps` -/
def setupLearn (cfg : Cfg α) (s : Sys α) (c : Call α) : Sys α × Nat :=
  let nt := if c.reset then 0 else s.st.numTimesteps
  let total := if c.reset then c.total else c.total + s.st.numTimesteps
  if c.reset || !s.st.started then
    let st' : St α := match c.resetNz with
      | some z =>
        { s.st with numTimesteps := nt, started := true,
                    lastObs := (c.resetObs.map z.normObs).map cfg.post, lastOrigObs := c.resetObs }
      | none => { s.st with numTimesteps := nt, started := true, lastObs := c.resetObs.map cfg.post }
    (⟨st', s.w.reset c.resetObs⟩, total)
  else (⟨{ s.st with numTimesteps := nt }, s.w⟩, total)

def runCall (cfg : Cfg α) (s : Sys α) (c : Call α) : Sys α × List (StepIn α) :=
  let r := setupLearn cfg s c
  learnLoop cfg r.2 (c.steps.length + 1) r.1 c.steps

def run (cfg : Cfg α) (calls : List (Call α)) : Sys α :=
  calls.foldl (fun s c => (runCall cfg s c).1) Sys.init

/-! ## Well-formedness of the external stream (checked by the driver, assumed by the theorems) -/

def vecOk (d : Nat) (v : List α) : Bool := v.length == d

def StepIn.wf (cfg : Cfg α) (x : StepIn α) : Bool :=
  x.u.length == cfg.nEnvs && x.raws.length == cfg.nEnvs &&
  (match x.noise with
    | none => true
    | some es => es.length == cfg.nEnvs &&
      (match cfg.space with
        | .box low _ => es.all (vecOk low.length)
        | .discrete => false)) &&
  (match cfg.space with
    | .box low high => high.length == low.length && x.u.all (vecOk low.length)
    | .discrete => true) &&
  (x.nz.isSome == cfg.vecNormalize)

def Call.wf (cfg : Cfg α) (c : Call α) : Bool :=
  c.resetObs.length == cfg.nEnvs && (c.resetNz.isSome == cfg.vecNormalize) && c.steps.all (StepIn.wf cfg)

end Scalar

end SB3Verif.OffPolicy
