"""
C15 — VecNormalize statistics and transforms (RunningMeanStd, VecNormalize, sync_envs_normalization).

Implementation under test: stable_baselines3.common.running_mean_std.RunningMeanStd,
stable_baselines3.common.vec_env.vec_normalize.VecNormalize,
stable_baselines3.common.vec_env.sync_envs_normalization
Model: lean/SB3Verif/Model/RunningMeanStd.lean, lean/SB3Verif/Model/VecNormalize.lean
       (driver lean/SB3Verif/Driver/C15.lean, executed at Rat with a rational square root)

Two detectors:
  * correspondence: every reset/step/probe/sync/save-load of the real wrapper is replayed on the Lean
    model with the raw sub-environment outputs as arguments; returned observations, rewards, terminal
    observations, statistics, return accumulators and get_original_* are compared.
  * oracle (independent of the model): exact weighted power sums (fractions.Fraction) of the logged raw
    stream -> mean = S1/W, var = S2/W - mean^2 (prior pseudo-sample of weight eps0 with mean 0, var 1);
    true per-environment discounted returns; transforms from the definition; inverses; save/load/sync.
"""
from __future__ import annotations

import math
import os
import shutil
import tempfile
from copy import deepcopy
from fractions import Fraction as F

import gymnasium as gym
import numpy as np
from gymnasium import spaces

from harness.common import ratj, unratj

RULE = (
    "cases from one SplitMix64 stream: (vn) one or two VecNormalize wrappers over DummyVecEnv -- or over a plain scripted "
    "VecEnv whose infos carry no / only some terminal_observation -- of 1-4 scripted "
    "environments (Box rank 1/2, uint8 image, Dict with all-Box keys and any subset / None of normalised keys, Dict "
    "with a Discrete key), dyadic observation streams (small / large / constant / tiny families), clip, gamma, "
    "epsilon from grids, every episode-script style, 4-28 operations among reset / step / toggle training, norm_obs, "
    "norm_reward / save+load / sync_envs_normalization in either direction / normalize+unnormalize probes; "
    "(rms) one stream of 1-40 samples of shape () / (3,) / (2,2) pushed through RunningMeanStd.update with two "
    "different batch splits, plus combine() and copy(). "
    "non-trivial = vn case with n_envs >= 2, at least one done and at least one toggle, or rms case whose two splits "
    "differ; distinct = distinct canonical case"
)
STREAMS = {
    "vn_stats": "obs_rms / ret_rms (mean, var, count) and the return accumulators after every operation ~ Rat model (1e-9 rel)",
    "vn_outputs": "returned observations / rewards / terminal observations and probe results ~ Rat model (float32 cast: 2e-6 rel)",
    "vn_orig": "get_original_obs / get_original_reward == model, exactly",
    "vn_error": "AttributeError (norm_obs on without obs_rms) <-> model error",
    "rms": "RunningMeanStd after any batch split / combine ~ Rat model (1e-9 rel)",
}

MAX_REPORTS_PER_SIGNATURE = 4
EPS0 = F(1e-4)  # RunningMeanStd's default epsilon (its float64 value, exactly)

SPACE_KINDS = ["box1", "box2", "img", "dict_box", "dict_mixed"]
DICT_KEYS = {"dict_box": ["a", "b", "img"], "dict_mixed": ["a", "d"]}
NORMALISABLE = {"dict_box": ["a", "b", "img"], "dict_mixed": ["a"]}
BIG = 1.0e7


# ---------------------------------------------------------------------------------------------------
# scripted environment: observation = fixed affine images of one scripted dyadic base value per step
# ---------------------------------------------------------------------------------------------------
def sub_space(name):
    if name in ("box1",):
        return spaces.Box(-BIG, BIG, (3,), np.float32)
    if name in ("box2", "b"):
        return spaces.Box(-BIG, BIG, (2, 2), np.float32)
    if name == "a":
        return spaces.Box(-BIG, BIG, (2,), np.float32)
    if name == "img":
        return spaces.Box(0, 255, (2, 1, 1), np.uint8)
    if name == "d":
        return spaces.Discrete(5)
    raise ValueError(name)


def obs_space(kind):
    if kind in DICT_KEYS:
        return spaces.Dict({k: sub_space(k) for k in DICT_KEYS[kind]})
    return sub_space(kind)


def sub_obs(name, v):
    if name == "box1":
        return np.array([v, 2 * v + 0.5, -1.0], dtype=np.float32)
    if name in ("box2", "b"):
        return np.array([[v, -v], [v / 2 + 0.25, 3.0]], dtype=np.float32)
    if name == "a":
        return np.array([v + 1.0, -3 * v], dtype=np.float32)
    if name == "img":
        iv = int(math.floor(abs(v) * 4))
        return np.array([iv % 256, (3 * iv + 7) % 256], dtype=np.uint8).reshape(2, 1, 1)
    if name == "d":
        return np.int64(int(math.floor(abs(v) * 4)) % 5)
    raise ValueError(name)


def make_obs(kind, v):
    if kind in DICT_KEYS:
        return {k: sub_obs(k, v) for k in DICT_KEYS[kind]}
    return sub_obs(kind, v)


class StreamEnv(gym.Env):
    """script: [[v, reward, terminated, truncated]] consumed cyclically; resets: [v] per episode, cyclically"""

    metadata = {"render_modes": []}

    def __init__(self, kind, script, resets):
        super().__init__()
        self.kind = kind
        self.observation_space = obs_space(kind)
        self.action_space = spaces.Discrete(2)
        self.script = script
        self.resets = resets
        self.k = 0
        self.episode = -1

    def reset(self, *, seed=None, options=None):
        super().reset(seed=seed)
        self.episode += 1
        return make_obs(self.kind, self.resets[self.episode % len(self.resets)]), {}

    def step(self, action):
        v, rew, term, trunc = self.script[self.k % len(self.script)]
        self.k += 1
        return make_obs(self.kind, v), float(rew), bool(term), bool(trunc), {}


class EnvMaker:
    def __init__(self, kind, script, resets):
        self.a = (kind, script, resets)

    def __call__(self):
        return StreamEnv(*self.a)


def make_tap_class():
    from stable_baselines3.common.vec_env import VecEnvWrapper

    class Tap(VecEnvWrapper):
        """records (copies of) what the wrapped VecEnv returned: the raw stream VecNormalize sees"""

        def __init__(self, venv):
            super().__init__(venv)
            self.last = None

        def reset(self):
            obs = self.venv.reset()
            self.last = ("reset", deepcopy(obs))
            return obs

        def step_wait(self):
            obs, rew, dones, infos = self.venv.step_wait()
            terms = [deepcopy(i["terminal_observation"]) if "terminal_observation" in i else None for i in infos]
            self.last = ("step", deepcopy(obs), np.array(rew, copy=True), np.array(dones, copy=True), terms)
            return obs, rew, dones, infos

    return Tap


def make_base_class():
    from stable_baselines3.common.vec_env.base_vec_env import VecEnv

    class ScriptVecEnv(VecEnv):
        """A plain vectorised environment (not DummyVecEnv): steps its scripted sub-environments, auto-resets finished
        ones, and puts "terminal_observation" into the info of a finished environment only if `term_mode` says so:
        "none" = never (legal: every consumer guards for a missing key), "some" = only for even environment indices."""

        def __init__(self, envs, term_mode):
            self.envs = envs
            self.term_mode = term_mode
            self._actions = None
            super().__init__(len(envs), envs[0].observation_space, envs[0].action_space)

        def _stack(self, obs):
            if isinstance(obs[0], dict):
                return {k: np.stack([np.asarray(o[k]) for o in obs]) for k in obs[0]}
            return np.stack([np.asarray(o) for o in obs])

        def reset(self):
            return self._stack([e.reset()[0] for e in self.envs])

        def step_async(self, actions):
            self._actions = actions

        def step_wait(self):
            obs, rews, dones, infos = [], [], [], []
            for i, e in enumerate(self.envs):
                o, r, term, trunc, _ = e.step(self._actions[i])
                done = bool(term or trunc)
                info = {"TimeLimit.truncated": bool(trunc and not term)}
                if done:
                    if self.term_mode == "some" and i % 2 == 0:
                        info["terminal_observation"] = o
                    o = e.reset()[0]
                obs.append(o)
                rews.append(r)
                dones.append(done)
                infos.append(info)
            return self._stack(obs), np.array(rews, dtype=np.float32), np.array(dones, dtype=bool), infos

        def close(self):
            pass

        def get_attr(self, attr_name, indices=None):
            return [getattr(e, attr_name) for e in self.envs]

        def set_attr(self, attr_name, value, indices=None):
            for e in self.envs:
                setattr(e, attr_name, value)

        def env_method(self, method_name, *method_args, indices=None, **method_kwargs):
            return [getattr(e, method_name)(*method_args, **method_kwargs) for e in self.envs]

        def env_is_wrapped(self, wrapper_class, indices=None):
            return [False for _ in self.envs]

    return ScriptVecEnv


_BASE = None


def base_class():
    global _BASE
    if _BASE is None:
        _BASE = make_base_class()
    return _BASE


_TAP = None


def tap_class():
    global _TAP
    if _TAP is None:
        _TAP = make_tap_class()
    return _TAP


# ---------------------------------------------------------------------------------------------------
# generators
# ---------------------------------------------------------------------------------------------------
CLIPS = [10.0, 10.0, 5.0, 1.0, 0.5, 0.125, 1.0e6, 2.5]
GAMMAS = [0.99, 0.99, 0.9, 0.5, 1.0, 0.0, 0.75, 0.999]
EPSS = [1e-8, 1e-8, 1e-4, 0.5, 1.0, 1e-12, 0.0]
REWARDS = [0.0, 1.0, -1.0, 0.5, 2.0, -0.25, 3.0, 10.0, -7.5, 0.125, 100.0]


def gen_value(rng, fam):
    if fam == "small":
        return rng.randint(-32, 32) / 4.0
    if fam == "large":
        return float(rng.randint(-2000, 2000))
    if fam == "tiny":
        return rng.randint(-64, 64) / 1024.0
    if fam == "const":
        return 1.5
    if fam == "mixed":
        return gen_value(rng, rng.choice(["small", "large", "tiny"]))
    if fam.startswith("offset:"):
        # large offset, small spread: |mean| >> standard deviation (float32-exact: offset + spread * k / 4)
        _, off, sp = fam.split(":")
        return float(off) + float(sp) * rng.randint(-4, 4) / 4.0
    raise ValueError(fam)


def gen_family(rng):
    fam = rng.weighted([("small", 4), ("large", 2), ("tiny", 1), ("const", 1), ("mixed", 2), ("offset", 3)])
    if fam == "offset":
        fam = "offset:%s:%s" % (rng.choice(["1000", "-3000", "3000", "10000", "100000"]), rng.choice(["0.125", "0.5", "1"]))
    return fam


def gen_env_script(rng, fam, style):
    length = rng.randint(3, 12)
    out = []
    for _ in range(length):
        rew = rng.choice(REWARDS)
        if style == "never":
            term = trunc = False
        elif style == "len1":
            term, trunc = rng.choice([(True, False), (False, True), (True, True)])
        elif style == "trunc_only":
            term, trunc = False, rng.chance(0.35)
        elif style == "term_only":
            term, trunc = rng.chance(0.35), False
        else:
            term, trunc = rng.weighted([((False, False), 6), ((True, False), 2), ((False, True), 2), ((True, True), 1)])
        out.append([gen_value(rng, fam), rew, term, trunc])
    return out


def gen_wrapper_cfg(rng, second=False):
    return {
        "training": rng.chance(0.3 if second else 0.85),
        "norm_obs": rng.chance(0.9),
        "norm_reward": rng.chance(0.6 if second else 0.85),
        "clip_obs": rng.choice(CLIPS),
        "clip_reward": rng.choice(CLIPS),
        "gamma": rng.choice(GAMMAS),
        "epsilon": rng.choice(EPSS),
    }


def gen_venv(rng, n, fam):
    style = rng.weighted([("mixed", 5), ("len1", 1), ("never", 1), ("trunc_only", 1), ("term_only", 1)])
    return {
        "scripts": [gen_env_script(rng, fam, style) for _ in range(n)],
        "resets": [[gen_value(rng, fam) for _ in range(rng.randint(1, 3))] for _ in range(n)],
    }


def gen_vn(rng, widen):
    kind = rng.weighted([("box1", 4), ("box2", 2), ("img", 1), ("dict_box", 3), ("dict_mixed", 2)])
    n = rng.weighted([(1, 2), (2, 3), (3, 3), (4, 2)])
    fam = gen_family(rng)
    two = rng.chance(0.45)
    norm_keys = None
    if kind == "dict_box":
        if rng.chance(0.6):
            ks = [k for k in NORMALISABLE[kind] if rng.chance(0.5)]
            norm_keys = ks
    elif kind == "dict_mixed":
        norm_keys = ["a"] if rng.chance(0.8) else []
    ws = [gen_wrapper_cfg(rng)] + ([gen_wrapper_cfg(rng, True)] if two else [])
    # special family: constructed without norm_obs, switched on later (no sync towards it before)
    late_norm_obs = (not ws[0]["norm_obs"]) and rng.chance(0.5)
    case = {
        "kind": "vn", "space": kind, "n": n, "fam": fam, "norm_keys": norm_keys, "w": ws,
        "base": rng.weighted([("dummy", 5), ("noterm", 2), ("someterm", 2)]),
        "venvs": [gen_venv(rng, n, fam) for _ in ws],
    }
    n_ops = rng.randint(4, 28 if not widen else 40)
    ops = [["reset", 0]]
    started = {0}
    cur = [dict(w) for w in ws]
    synced_to = set()
    allow_obs_off = rng.chance(0.12)      # norm_obs switched off while training (statistics skip batches)
    careful_training = rng.chance(0.6)    # re-enable training only together with a reset
    while len(ops) < n_ops:
        w = 0 if not two else rng.weighted([(0, 3), (1, 2)])
        if w not in started:
            ops.append(["reset", w])
            started.add(w)
            continue
        c = cur[w]
        k = rng.weighted([("step", 14), ("reset", 1.5), ("training", 2.5), ("norm_reward", 1), ("norm_obs", 1),
                          ("saveload", 1), ("checkpoint", 1), ("sync", 1.5 if two else 0), ("probe", 2.5)])
        if k == "step":
            ops.append(["step", w])
        elif k == "reset":
            ops.append(["reset", w])
        elif k == "training":
            new = not c["training"]
            if new and not c["norm_obs"] and ws[w]["norm_obs"] and not allow_obs_off:
                # common case: observation normalisation comes back together with training
                ops.append(["set", w, "norm_obs", True])
                c["norm_obs"] = True
            ops.append(["set", w, "training", new])
            c["training"] = new
            if new and careful_training:
                ops.append(["reset", w])
        elif k == "norm_reward":
            c["norm_reward"] = not c["norm_reward"]
            ops.append(["set", w, "norm_reward", c["norm_reward"]])
        elif k == "norm_obs":
            new = not c["norm_obs"]
            if new and not ws[w]["norm_obs"]:
                # wrapper constructed without norm_obs: only the dedicated family switches it on
                if not (late_norm_obs and w == 0 and w not in synced_to):
                    continue
            if (not new) and c["training"] and not allow_obs_off:
                # keep the common case: norm_obs goes off together with training (evaluation mode)
                ops.append(["set", w, "training", False])
                c["training"] = False
            c["norm_obs"] = new
            ops.append(["set", w, "norm_obs", new])
        elif k == "saveload":
            ops.append(["saveload", w])
        elif k == "checkpoint":
            ops.append(["checkpoint", w])
        elif k == "sync":
            src = rng.choice([0, 1])
            if len(started) < 2:
                continue
            if late_norm_obs and (1 - src) == 0:
                continue
            ops.append(["sync", src])
            synced_to.add(1 - src)
        elif k == "probe":
            ops.append(["probe", w, rng.choice([1.0, 1.0, 2.0, -1.0, 0.5, 64.0]), rng.choice([0.0, 0.0, 0.5, -3.0, 100.0])])
    case["ops"] = ops
    return case


def gen_rms(rng, widen):
    shape = rng.choice([[], [3], [2, 2], [1]])
    d = int(np.prod(shape)) if shape else 1
    N = rng.randint(1, 40 if not widen else 80)
    fam = gen_family(rng)
    vals = [[gen_value(rng, fam) * (1 + (j % 3)) + j for j in range(d)] for _ in range(N)]

    def split():
        style = rng.choice(["rand", "ones", "one", "rand", "front1"])
        if style == "one":
            return [N]
        if style == "ones":
            return [1] * N
        if style == "front1" and N > 1:
            return [1, N - 1]
        out, left = [], N
        while left > 0:
            k = rng.randint(1, max(1, min(left, 9)))
            out.append(k)
            left -= k
        return out

    cut = rng.randint(0, N)
    return {"kind": "rms", "shape": shape, "values": vals, "split_a": split(), "split_b": split(), "combine_at": cut,
            "dtype": "float32" if rng.chance(0.75 if fam.startswith("offset") else 0.4) else "float64", "fam": fam,
            "eps0": rng.choice([1e-4, 1e-4, 1.0, 0.5, 1e-8]),
            "um": [gen_value(rng, fam), rng.choice([0.0, 0.25, 1.0, 9.0, 1024.0]), rng.choice([1.0, 2.5, 0.5, 7.0, 1e-4, 100.0])]}


def gen_cases(ctx):
    rng = ctx.rng
    cases = []
    for _ in range(ctx.budget(480, 4800)):
        cases.append(gen_vn(rng, ctx.widen))
    for _ in range(ctx.budget(200, 2000)):
        cases.append(gen_rms(rng, ctx.widen))
    return cases


def shrink_candidates(case):
    if case.get("kind") == "vn":
        ops = case["ops"]
        for i in reversed(range(1, len(ops))):
            c = dict(case)
            c["ops"] = ops[:i] + ops[i + 1:]
            yield c
        if len(case["w"]) == 2 and not any(o[0] == "sync" or (len(o) > 1 and o[1] == 1 and o[0] != "sync") for o in ops):
            c = dict(case)
            c["w"] = case["w"][:1]
            c["venvs"] = case["venvs"][:1]
            yield c
        if case["n"] > 1:
            c = dict(case)
            c["n"] = case["n"] - 1
            c["venvs"] = [{"scripts": v["scripts"][:-1], "resets": v["resets"][:-1]} for v in case["venvs"]]
            yield c
        if case["space"] not in ("box1",) and case["norm_keys"] is None:
            c = dict(case)
            c["space"] = "box1"
            yield c
    elif case.get("kind") == "rms":
        N = len(case["values"])
        if N > 1:
            for vals in (case["values"][: N // 2], case["values"][:-1], case["values"][1:]):
                M = len(vals)
                c = dict(case)
                c["values"] = vals
                c["split_a"] = [M]
                c["split_b"] = [1] * M
                c["combine_at"] = min(case["combine_at"], M)
                yield c
        if case["shape"]:
            c = dict(case)
            c["shape"] = []
            c["values"] = [[v[0]] for v in case["values"]]
            yield c


# ---------------------------------------------------------------------------------------------------
# helpers: arrays <-> coordinate-major exact rationals
# ---------------------------------------------------------------------------------------------------
def cols_of(arr, n):
    a = np.asarray(arr).reshape(n, -1)
    return [[F(float(x)) for x in a[:, j]] for j in range(a.shape[1])]


def batch_of(obs, n):
    """observation (array or dict) with leading batch axis n -> {key: columns}"""
    if isinstance(obs, dict):
        return {k: cols_of(obs[k], n) for k in sorted(obs)}
    return {"": cols_of(obs, n)}


def batch_j(b):
    return [[k, [[ratj(x) for x in col] for col in cols]] for k, cols in sorted(b.items())]


def unbatch_j(j):
    return {k: [[unratj(x) for x in col] for col in cols] for k, cols in j}


def norm_key_list(case):
    kind = case["space"]
    if kind in DICT_KEYS:
        return list(DICT_KEYS[kind]) if case["norm_keys"] is None else list(case["norm_keys"])
    return [""]


def key_dims(case):
    kind = case["space"]
    sp = obs_space(kind)
    out = []
    for k in norm_key_list(case):
        s = sp.spaces[k] if kind in DICT_KEYS else sp
        out.append([k, int(np.prod(s.shape)) if s.shape else 1])
    return out


def fl(q):
    return float(q)


class Sums:
    """exact weighted power sums of one coordinate"""

    __slots__ = ("w", "s1", "s2")

    def __init__(self, w, s1, s2):
        self.w, self.s1, self.s2 = w, s1, s2

    @staticmethod
    def prior(eps0=EPS0):
        return Sums(F(eps0), F(0), F(eps0))  # weight eps0, mean 0, var 1  ->  S2 = eps0 * (1 + 0)

    def add(self, xs):
        self.w += len(xs)
        self.s1 += sum(xs, F(0))
        self.s2 += sum((x * x for x in xs), F(0))

    def copy(self):
        return Sums(self.w, self.s1, self.s2)

    def mom(self):
        m = self.s1 / self.w
        return m, self.s2 / self.w - m * m, self.w


REL_MEAN32 = 1e-6   # float32 batches: np.mean / np.var of a float32 array are computed and rounded in float32
REL_VAR32 = 1e-5
REL64 = 1e-10       # return statistics are float64 throughout


def close(x, e, scale, rel=REL64):
    e = float(e)
    return abs(float(x) - e) <= rel * (abs(e) + scale) + 1e-300


_MEASURED = {"var32": 0.0, "var32_rel": 0.0, "var32_all": 0.0}   # largest observed |var error| / tolerance and / var (goes to the evidence notes)


def var_tol32(v, mg):
    """Error bound of the running variance for float32 batches of magnitude <= mg, *tight relative to var*:
    the two-pass np.var of a float32 batch is accurate to a few ulps of the variance itself (deviations from the
    float32 batch mean are exact or rounded once), the float32 rounding U of each batch mean (U <= 8 ulp/2; taken as
    REL_MEAN32 * mg) shifts every deviation (U^2) and enters the merge through 2 |delta| U w, whose weighted sum over
    all updates is <= 2 U sqrt(var) by Cauchy-Schwarz.  A one-pass E[x^2]-E[x]^2 in float32 misses this bound by orders
    of magnitude as soon as |mean| >> spread."""
    v = abs(float(v))
    U = REL_MEAN32 * mg
    return REL_VAR32 * v + 4.0 * U * math.sqrt(v) + 4.0 * U * U


def var_close32(x, v, mg):
    x, v = float(x), float(v)
    if not math.isfinite(x):
        return False
    t = var_tol32(v, mg)
    r = abs(x - v) / t
    _MEASURED["var32_all"] = max(_MEASURED["var32_all"], r)
    if r <= 1.0:
        _MEASURED["var32"] = max(_MEASURED["var32"], r)
        if v > 0:
            _MEASURED["var32_rel"] = max(_MEASURED["var32_rel"], abs(x - v) / v)
    return r <= 1.0


def mom_ok(im, iv, ic, m, v, c, mg, f32):
    """(mean, var, count) of the implementation vs exact values; f32: the batches were float32 arrays"""
    if f32:
        return close(im, m, mg, REL_MEAN32) and var_close32(iv, v, mg) and close(ic, c, 0.0)
    return close(im, m, mg) and close(iv, v, mg * mg) and close(ic, c, 0.0)


def sqrt_q(q):
    return math.sqrt(float(q)) if q > 0 else float("nan")


# ---------------------------------------------------------------------------------------------------
# the implementation side of one vn case
# ---------------------------------------------------------------------------------------------------
class Wrap:
    """one real VecNormalize + the oracle's exact book-keeping for it"""

    def __init__(self, case, wi):
        from stable_baselines3.common.vec_env import DummyVecEnv, VecNormalize

        cfg = case["w"][wi]
        ven = case["venvs"][wi]
        n = case["n"]
        self.n = n
        self.case = case
        self.cfg0 = cfg
        makers = [EnvMaker(case["space"], ven["scripts"][e], ven["resets"][e]) for e in range(n)]
        base = case.get("base", "dummy")
        if base == "dummy":
            inner = DummyVecEnv(makers)
        else:  # a base VecEnv whose infos carry no / only some "terminal_observation"
            inner = base_class()([m() for m in makers], "none" if base == "noterm" else "some")
        self.tap = tap_class()(inner)
        kw = {}
        if case["space"] in DICT_KEYS and case["norm_keys"] is not None:
            kw["norm_obs_keys"] = list(case["norm_keys"])
        self.vn = VecNormalize(self.tap, training=cfg["training"], norm_obs=cfg["norm_obs"], norm_reward=cfg["norm_reward"],
                               clip_obs=cfg["clip_obs"], clip_reward=cfg["clip_reward"], gamma=cfg["gamma"],
                               epsilon=cfg["epsilon"], **kw)
        # oracle state
        self.training = cfg["training"]
        self.norm_obs = cfg["norm_obs"]
        self.norm_reward = cfg["norm_reward"]
        self.gamma = F(cfg["gamma"])
        self.eps = F(cfg["epsilon"])
        self.clip_obs = cfg["clip_obs"]
        self.clip_reward = cfg["clip_reward"]
        self.constructed_norm_obs = cfg["norm_obs"]
        self.has_obs = cfg["norm_obs"]
        self.keys = norm_key_list(case) if cfg["norm_obs"] else []
        dims = dict((k, d) for k, d in key_dims(case))
        # strict: every batch returned in training mode; code: only while norm_obs was on as well
        self.obs_strict = {k: [Sums.prior() for _ in range(dims[k])] for k in self.keys}
        self.obs_code = {k: [Sums.prior() for _ in range(dims[k])] for k in self.keys}
        self.ret_strict = Sums.prior()
        self.ret_code = Sums.prior()
        self.R_strict = [F(0)] * n   # true discounted return of the running episode
        self.R_code = [F(0)] * n     # accumulator that only moves in training mode
        self.obs_is_strict = True    # implementation still equals the strict expectation
        self.ret_is_strict = True
        self.mag = 1.0               # largest |value| seen, probes included (tolerance scale of inverses)
        self.cmag = {k: [1.0] * dims[k] for k in self.keys}   # per coordinate: largest |raw stream value| absorbed
        self.rmag = 1.0
        self.raw_obs = None
        self.raw_rew = None
        self.n_done = 0

    # -- expectations ----------------------------------------------------------------------------
    def obs_sums(self):
        return self.obs_strict if self.obs_is_strict else self.obs_code

    def ret_sums(self):
        return self.ret_strict if self.ret_is_strict else self.ret_code

    def exp_norm_obs(self, b):
        """definition: clip((x - mean)/sqrt(var + eps)) on normalised keys, identity elsewhere; float64"""
        if not self.norm_obs:
            return {k: [[fl(x) for x in col] for col in cols] for k, cols in b.items()}
        out = {}
        sums = self.obs_sums()
        for k, cols in b.items():
            if k in sums:
                res = []
                for j, col in enumerate(cols):
                    m, v, _ = sums[k][j].mom()
                    sd = sqrt_q(v + self.eps)
                    res.append([min(max((fl(x) - fl(m)) / sd, -self.clip_obs), self.clip_obs) for x in col])
                out[k] = res
            else:
                out[k] = [[fl(x) for x in col] for col in cols]
        return out

    def ztol(self, k, j):
        """(a, b): |impl - definition| <= 2e-6 (1 + |z|) + a + b |z| -- float32 cast of the result plus the float32
        rounding of the batch statistics (mean: REL_MEAN32 * mag, var: var_tol32) pushed through the formula"""
        m, v, _ = self.obs_sums()[k][j].mom()
        ve = fl(v + self.eps)
        mg = self.cmag[k][j]
        return 2 * REL_MEAN32 * mg / math.sqrt(ve), 2 * var_tol32(v, mg) / (2 * ve)

    def rtol(self):
        _, v, _ = self.ret_sums().mom()
        return 4 * REL64 * self.rmag * self.rmag / (2 * fl(v + self.eps))

    def exp_norm_rew(self, r):
        if not self.norm_reward:
            return [fl(x) for x in r]
        _, v, _ = self.ret_sums().mom()
        sd = sqrt_q(v + self.eps)
        return [min(max(fl(x) / sd, -self.clip_reward), self.clip_reward) for x in r]

    def impl_stats(self):
        vn = self.vn
        obs = None
        if "obs_rms" in vn.__dict__:
            rms = vn.obs_rms
            if isinstance(rms, dict):
                obs = {k: (np.array(rms[k].mean, dtype=np.float64).reshape(-1), np.array(rms[k].var, dtype=np.float64).reshape(-1),
                           float(rms[k].count)) for k in rms}
            else:
                obs = {"": (np.array(rms.mean, dtype=np.float64).reshape(-1), np.array(rms.var, dtype=np.float64).reshape(-1),
                            float(rms.count))}
        ret = (float(vn.ret_rms.mean), float(vn.ret_rms.var), float(vn.ret_rms.count))
        return {"obs": obs, "ret": ret, "returns": np.array(vn.returns, dtype=np.float64).copy()}


def stats_equal(a, b):
    if (a["obs"] is None) != (b["obs"] is None):
        return False
    if a["obs"] is not None:
        if set(a["obs"]) != set(b["obs"]):
            return False
        for k in a["obs"]:
            for i in range(2):
                if not np.array_equal(a["obs"][k][i], b["obs"][k][i]):
                    return False
            if a["obs"][k][2] != b["obs"][k][2]:
                return False
    return a["ret"] == b["ret"]


class CaseRun:
    """runs one vn case on the implementation, evaluates the oracle, collects model ops + expected comparisons"""

    def __init__(self, ctx, case):
        self.ctx = ctx
        self.rep = ctx.report
        self.case = case
        self.ops = []      # model ops
        self.cmps = []     # (index into self.ops, comparer(model_answer) -> None|str)
        self.reported = set()
        self.tmp = None
        self.n_toggles = 0
        self.aborted = False

    # -- reporting -------------------------------------------------------------------------------
    def viol(self, what, sig, detail=None):
        key = (what, tuple(sorted((k, str(v)) for k, v in sig.items() if k in ("kind", "variant", "field"))))
        if key in self.reported:
            return
        self.reported.add(key)
        # the worker keeps only the first 40 violations of a chunk: never let one recurring signature use them up
        seen = self.ctx.__dict__.setdefault("_c15_sig_counts", {})
        sk = (sig.get("kind"), sig.get("variant"), sig.get("field"))
        seen[sk] = seen.get(sk, 0) + 1
        if seen[sk] > MAX_REPORTS_PER_SIGNATURE:
            self.rep.count("oracle_hit_not_listed_again:%s/%s" % (sig.get("kind"), sig.get("variant") or sig.get("field")))
            return
        self.rep.violation(what, self.case, sig, detail)

    def emit(self, op, cmp=None):
        self.ops.append(op)
        if cmp is not None:
            self.cmps.append((len(self.ops) - 1, cmp))

    # -- set-up ------------------------------------------------------------------------------------
    def start(self):
        case = self.case
        self.W = [Wrap(case, i) for i in range(len(case["w"]))]
        for i, w in enumerate(self.W):
            c = case["w"][i]
            self.emit({"op": "new", "w": i, "n": case["n"], "training": c["training"], "norm_obs": c["norm_obs"],
                       "norm_reward": c["norm_reward"], "clip_obs": ratj(F(c["clip_obs"])), "clip_reward": ratj(F(c["clip_reward"])),
                       "gamma": ratj(F(c["gamma"])), "epsilon": ratj(F(c["epsilon"])), "eps0": ratj(EPS0), "dims": key_dims(case)},
                      lambda mo: None if mo == {"ok": True} else f"new: {mo}")

    # -- oracle pieces ---------------------------------------------------------------------------
    def check_obs_out(self, w, wi, raw_b, got_b, what, field):
        """returned / probed observations are the clipped standardised values (float32 on normalised keys)"""
        exp = w.exp_norm_obs(raw_b)
        for k in raw_b:
            normalised = w.norm_obs and k in w.obs_sums()
            for j, col in enumerate(exp[k]):
                ta, tb = w.ztol(k, j) if normalised else (0.0, 0.0)
                for e, x in enumerate(col):
                    g = fl(got_b[k][j][e])
                    if normalised:
                        ok = abs(g - x) <= 2e-6 * (1.0 + abs(x)) + ta + tb * abs(x)
                    else:
                        ok = g == x
                    if not ok:
                        self.viol(what, {"kind": "transform", "field": field, "normalised_key": bool(normalised), "w": wi},
                                  {"key": k, "coord": j, "env": e, "impl": g, "definition": x, "raw": fl(raw_b[k][j][e])})
                        return False
        return True

    def check_dtype(self, w, wi, obs, field):
        def bad(a, k):
            self.viol("normalised observation is not float32", {"kind": "dtype", "field": field, "w": wi}, {"key": k, "dtype": str(a.dtype)})

        if not w.norm_obs:
            return
        if isinstance(obs, dict):
            for k in obs:
                if k in w.obs_sums() and np.asarray(obs[k]).dtype != np.float32:
                    bad(np.asarray(obs[k]), k)
        elif np.asarray(obs).dtype != np.float32:
            bad(np.asarray(obs), "")

    def check_stats(self, w, wi, st, when):
        """statistics == exact moments of the logged stream (prior of weight eps0 included)"""
        # observation statistics
        if w.has_obs != (st["obs"] is not None):
            self.viol("presence of obs_rms differs from the construction/sync history", {"kind": "obs_stats", "variant": "presence", "w": wi})
        elif st["obs"] is not None:
            if set(st["obs"]) != set(w.obs_strict):
                self.viol("obs_rms keys differ from norm_obs_keys", {"kind": "obs_stats", "variant": "keys", "w": wi},
                          {"impl": sorted(st["obs"]), "expected": sorted(w.obs_strict)})
            else:
                def match(sums):
                    for k in sums:
                        mean, var, cnt = st["obs"][k]
                        if len(mean) != len(sums[k]):
                            return (k, -1, "shape")
                        for j, s in enumerate(sums[k]):
                            m, v, c = s.mom()
                            mg = w.cmag[k][j]
                            if not close(mean[j], m, mg, REL_MEAN32):
                                return (k, j, "mean", float(mean[j]), fl(m))
                            if not (float(var[j]) >= 0.0):
                                return (k, j, "var_negative_or_nan", float(var[j]), fl(v))
                            if not var_close32(var[j], v, mg):
                                return (k, j, "var", float(var[j]), fl(v))
                            if not close(cnt, c, 0.0):
                                return (k, j, "count", cnt, fl(c))
                    return None

                if w.obs_is_strict:
                    bad = match(w.obs_strict)
                    if bad is not None:
                        if match(w.obs_code) is None:
                            w.obs_is_strict = False
                            self.viol("observation statistics are not the moments of every batch returned in training mode",
                                      {"kind": "obs_stats", "variant": "batches_skipped_while_norm_obs_off", "w_training": True},
                                      {"when": when, "first_difference": list(bad), "w": wi})
                        else:
                            self.viol("observation statistics are not the moments of every batch returned in training mode",
                                      {"kind": "obs_stats", "variant": "mismatch", "stat": bad[2], "w": wi},
                                      {"when": when, "first_difference": list(bad)})
                else:
                    bad = match(w.obs_code)
                    if bad is not None:
                        self.viol("observation statistics are not the moments of every batch returned in training mode",
                                  {"kind": "obs_stats", "variant": "mismatch", "stat": bad[2], "w": wi},
                                  {"when": when, "first_difference": list(bad)})
        # return statistics
        def rmatch(s):
            m, v, c = s.mom()
            mean, var, cnt = st["ret"]
            if not close(mean, m, w.rmag):
                return ("mean", mean, fl(m))
            if not close(var, v, w.rmag * w.rmag):
                return ("var", var, fl(v))
            if not close(cnt, c, 0.0):
                return ("count", cnt, fl(c))
            return None

        if w.ret_is_strict:
            bad = rmatch(w.ret_strict)
            if bad is not None:
                if rmatch(w.ret_code) is None:
                    w.ret_is_strict = False
                    self.viol("return statistics are not the moments of the per-step discounted returns of the running episodes",
                              {"kind": "ret_stats", "variant": "accumulator_frozen_while_not_training"},
                              {"when": when, "first_difference": list(bad), "w": wi})
                else:
                    self.viol("return statistics are not the moments of the per-step discounted returns of the running episodes",
                              {"kind": "ret_stats", "variant": "mismatch", "stat": bad[0], "w": wi},
                              {"when": when, "first_difference": list(bad)})
        else:
            bad = rmatch(w.ret_code)
            if bad is not None:
                self.viol("return statistics are not the moments of the per-step discounted returns of the running episodes",
                          {"kind": "ret_stats", "variant": "mismatch", "stat": bad[0], "w": wi},
                          {"when": when, "first_difference": list(bad)})

    def check_others_untouched(self, wi, before):
        for oi, ow in enumerate(self.W):
            if oi != wi and before[oi] is not None and not stats_equal(before[oi], ow.impl_stats()):
                self.viol("an operation on one wrapper changed the statistics of another wrapper",
                          {"kind": "aliasing", "variant": "other_wrapper_changed"}, {"op_on": wi, "changed": oi})

    # -- model comparison builders ---------------------------------------------------------------
    def cmp_stats(self, w, st):
        cmag, rmag = {k: list(v) for k, v in w.cmag.items()}, w.rmag

        def f(ms):
            if ms is None:
                return "no stats"
            if (ms["obs_rms"] is None) != (st["obs"] is None):
                return f"obs_rms presence: impl {st['obs'] is not None}"
            if st["obs"] is not None:
                mo = {k: v for k, v in ms["obs_rms"]}
                if set(mo) != set(st["obs"]):
                    return f"obs_rms keys {sorted(mo)} vs {sorted(st['obs'])}"
                for k in mo:
                    mean, var, cnt = st["obs"][k]
                    if len(mo[k]) != len(mean):
                        return f"obs_rms[{k}] size"
                    for j, (m, v, c) in enumerate(mo[k]):
                        mg = cmag[k][j]
                        if not (close(mean[j], unratj(m), mg, REL_MEAN32) and var_close32(var[j], unratj(v), mg) and close(cnt, unratj(c), 0.0)):
                            return f"obs_rms[{k}][{j}] impl {(float(mean[j]), float(var[j]), cnt)} model {(fl(unratj(m)), fl(unratj(v)), fl(unratj(c)))}"
            m, v, c = ms["ret_rms"]
            if not (close(st["ret"][0], unratj(m), rmag) and close(st["ret"][1], unratj(v), rmag * rmag) and close(st["ret"][2], unratj(c), 0.0)):
                return f"ret_rms impl {st['ret']} model {(fl(unratj(m)), fl(unratj(v)), fl(unratj(c)))}"
            if len(ms["returns"]) != len(st["returns"]):
                return "returns length"
            for e, R in enumerate(ms["returns"]):
                if not close(st["returns"][e], unratj(R), rmag):
                    return f"returns[{e}] impl {st['returns'][e]} model {fl(unratj(R))}"
            return None

        return f

    @staticmethod
    def cmp_batch(got_b, normalised_keys, exact_all=False, tol=None):
        tol = tol or {}

        def f(mb):
            mb = unbatch_j(mb)
            if set(mb) != set(got_b):
                return f"keys {sorted(mb)} vs {sorted(got_b)}"
            for k in got_b:
                if len(mb[k]) != len(got_b[k]):
                    return f"[{k}] coordinates"
                for j, col in enumerate(got_b[k]):
                    if len(mb[k][j]) != len(col):
                        return f"[{k}][{j}] length"
                    for e, g in enumerate(col):
                        x = mb[k][j][e]
                        if k in normalised_keys and not exact_all:
                            ta, tb = tol[k][j] if k in tol else (0.0, 0.0)
                            if abs(fl(g) - fl(x)) > 2e-6 * (1.0 + abs(fl(x))) + ta + tb * abs(fl(x)):
                                return f"[{k}][{j}][{e}] impl {fl(g)} model {fl(x)}"
                        elif g != x:
                            return f"[{k}][{j}][{e}] impl {fl(g)} model {fl(x)} (exact)"
            return None

        return f

    @staticmethod
    def cmp_list(got, tol_rel, exact=False):
        def f(ml):
            if len(ml) != len(got):
                return "length"
            for e, g in enumerate(got):
                x = unratj(ml[e])
                if exact:
                    if F(float(g)) != x:
                        return f"[{e}] impl {float(g)} model {fl(x)} (exact)"
                elif abs(float(g) - fl(x)) > tol_rel * (1.0 + abs(fl(x))):
                    return f"[{e}] impl {float(g)} model {fl(x)}"
            return None

        return f

    # -- operations ------------------------------------------------------------------------------
    def expect_error(self, w, wi):
        """norm_obs is on but the wrapper has no obs_rms"""
        return w.norm_obs and not w.has_obs

    def on_exception(self, w, wi, e, opname):
        if self.expect_error(w, wi) and isinstance(e, (AttributeError, TypeError)):
            self.viol("norm_obs switched on after construction with norm_obs=False: the wrapper has no observation statistics and fails",
                      {"kind": "exception", "variant": "norm_obs_enabled_on_wrapper_built_without_it", "exception": type(e).__name__},
                      {"op": opname, "message": str(e)[:200]})
        else:
            self.viol("unexpected exception from the implementation on a valid input",
                      {"kind": "exception", "variant": "unexpected", "exception": type(e).__name__},
                      {"op": opname, "message": str(e)[:300]})
        self.aborted = True

    def model_error_cmp(self, expect):
        def f(mo):
            got = isinstance(mo, dict) and mo.get("error") == "no-obs-rms"
            if got != expect:
                return f"model answered {str(mo)[:120]}, implementation {'raised' if expect else 'did not raise'}"
            return None

        return f

    def absorb_obs(self, w, b):
        if w.training:
            for k in w.obs_strict:
                for j, s in enumerate(w.obs_strict[k]):
                    s.add(b[k][j])
            if w.norm_obs:
                for k in w.obs_code:
                    for j, s in enumerate(w.obs_code[k]):
                        s.add(b[k][j])
        for k, cols in b.items():
            for j, col in enumerate(cols):
                mx = max(abs(fl(x)) for x in col)
                w.mag = max(w.mag, mx)
                if k in w.cmag:
                    w.cmag[k][j] = max(w.cmag[k][j], mx)

    def tols(self, w):
        if not w.norm_obs:
            return {}
        return {k: [w.ztol(k, j) for j in range(len(v))] for k, v in w.obs_sums().items()}

    def do_reset(self, wi):
        w = self.W[wi]
        n = w.n
        before = [o.impl_stats() for o in self.W]
        try:
            out = w.vn.reset()
        except Exception as e:  # noqa
            raw = w.tap.last
            self.emit({"op": "reset", "w": wi, "obs": batch_j(batch_of(raw[1], n))}, self.model_error_cmp(self.expect_error(w, wi)))
            self.on_exception(w, wi, e, "reset")
            return
        raw = w.tap.last
        assert raw[0] == "reset"
        raw_b = batch_of(raw[1], n)
        # oracle book-keeping: reset starts every episode afresh
        self.absorb_obs(w, raw_b)
        w.R_strict = [F(0)] * n
        w.R_code = [F(0)] * n
        w.raw_obs = raw[1]
        st = w.impl_stats()
        self.check_stats(w, wi, st, "reset")
        if not w.training and not stats_equal(before[wi], st):
            self.viol("statistics changed while not in training mode", {"kind": "frozen", "op": "reset", "w": wi})
        self.check_others_untouched(wi, before)
        got_b = batch_of(out, n)
        self.check_dtype(w, wi, out, "reset")
        self.check_obs_out(w, wi, raw_b, got_b, "observation returned by reset() is not the clipped standardised raw observation", "reset_obs")
        self.check_orig(w, wi, "reset")
        if np.any(st["returns"] != 0):
            self.viol("return accumulators not restarted by reset()", {"kind": "returns", "variant": "not_zero_after_reset", "w": wi})
        nk = set(w.obs_sums()) if w.norm_obs else set()
        i0 = len(self.ops)
        cs, cb = self.cmp_stats(w, st), self.cmp_batch(got_b, nk, tol=self.tols(w))

        def cmp(mo):
            if "error" in mo:
                return f"model error {mo['error']}"
            return cb(mo["obs"]) or cs(mo["stats"])

        self.emit({"op": "reset", "w": wi, "obs": batch_j(raw_b)}, cmp)
        self.emit_orig(w, wi)

    def check_orig(self, w, wi, when):
        """get_original_obs / get_original_reward return the raw values of the latest step, exactly"""
        o = w.vn.get_original_obs()
        raw = w.raw_obs
        same = True
        if isinstance(raw, dict):
            same = isinstance(o, dict) and set(o) == set(raw) and all(
                np.array_equal(o[k], raw[k]) and np.asarray(o[k]).dtype == np.asarray(raw[k]).dtype for k in raw)
        else:
            same = (not isinstance(o, dict)) and np.array_equal(o, raw) and np.asarray(o).dtype == np.asarray(raw).dtype
        if not same:
            self.viol("get_original_obs() is not the raw observation of the latest reset/step", {"kind": "orig", "field": "obs", "w": wi},
                      {"when": when})
        if w.raw_rew is not None:
            r = w.vn.get_original_reward()
            if not (np.array_equal(r, w.raw_rew) and r.dtype == w.raw_rew.dtype):
                self.viol("get_original_reward() is not the raw reward of the latest step", {"kind": "orig", "field": "reward", "w": wi},
                          {"when": when, "impl": np.asarray(r).tolist(), "raw": w.raw_rew.tolist()})

    def emit_orig(self, w, wi):
        o = w.vn.get_original_obs()
        got_b = batch_of(o, w.n)
        r = w.vn.get_original_reward()
        cb = self.cmp_batch(got_b, set(), exact_all=True)
        cl = self.cmp_list(list(np.asarray(r, dtype=np.float64)), 0.0, exact=True)
        self.emit({"op": "orig", "w": wi}, lambda mo: ("model error" if "error" in mo else (cb(mo["obs"]) or cl(mo["rew"]))))

    def do_step(self, wi):
        w = self.W[wi]
        n = w.n
        before = [o.impl_stats() for o in self.W]
        try:
            out = w.vn.step(np.zeros(n, dtype=np.int64))
        except Exception as e:  # noqa
            raw = w.tap.last
            if raw is not None and raw[0] == "step":
                self.emit(self.step_op(wi, raw, n), self.model_error_cmp(self.expect_error(w, wi)))
            self.on_exception(w, wi, e, "step")
            return
        obs, rew, dones, infos = out
        raw = w.tap.last
        assert raw[0] == "step"
        raw_b = batch_of(raw[1], n)
        raw_rew = [F(float(x)) for x in raw[2]]
        raw_dones = [bool(d) for d in raw[3]]
        w.n_done += sum(raw_dones)
        # ---- oracle book-keeping, straight from the property sentence ----
        self.absorb_obs(w, raw_b)
        w.R_strict = [R * w.gamma + r for R, r in zip(w.R_strict, raw_rew)]
        if w.training:
            w.R_code = [R * w.gamma + r for R, r in zip(w.R_code, raw_rew)]
            w.ret_strict.add(w.R_strict)
            w.ret_code.add(w.R_code)
        for x in list(w.R_strict) + list(w.R_code) + raw_rew:
            w.rmag = max(w.rmag, abs(fl(x)))
        st = w.impl_stats()
        self.check_stats(w, wi, st, "step")
        if not w.training and not stats_equal(before[wi], st):
            self.viol("statistics changed while not in training mode", {"kind": "frozen", "op": "step", "w": wi})
        self.check_others_untouched(wi, before)
        # returned observation / reward
        got_b = batch_of(obs, n)
        self.check_dtype(w, wi, obs, "step")
        self.check_obs_out(w, wi, raw_b, got_b, "observation returned by step() is not the clipped standardised raw observation", "step_obs")
        exp_r = w.exp_norm_rew(raw_rew)
        if np.asarray(rew).dtype != np.float32:
            self.viol("returned reward is not float32", {"kind": "dtype", "field": "reward", "w": wi}, {"dtype": str(np.asarray(rew).dtype)})
        for e in range(n):
            g = float(rew[e])
            ok = abs(g - exp_r[e]) <= (2e-6 + w.rtol()) * (1.0 + abs(exp_r[e])) if w.norm_reward else g == exp_r[e]
            if not ok:
                self.viol("reward returned by step() is not the clipped scaled raw reward",
                          {"kind": "transform", "field": "step_reward", "w": wi, "norm_reward": w.norm_reward},
                          {"env": e, "impl": g, "definition": exp_r[e], "raw": fl(raw_rew[e])})
                break
        if list(map(bool, dones)) != raw_dones:
            self.viol("dones changed by the wrapper", {"kind": "dones", "w": wi})
        # terminal observations: same transform as the returned observation
        got_terms = []
        for e in range(n):
            if raw[4][e] is None:
                got_terms.append(None)
                if "terminal_observation" in infos[e]:
                    self.viol("terminal observation appeared", {"kind": "terminal", "variant": "appeared", "w": wi})
                continue
            if "terminal_observation" not in infos[e]:
                self.viol("terminal observation removed", {"kind": "terminal", "variant": "removed", "w": wi})
                got_terms.append(None)
                continue
            t_raw = batch_of({k: np.asarray(v)[None] for k, v in raw[4][e].items()} if isinstance(raw[4][e], dict) else np.asarray(raw[4][e])[None], 1)
            t_got_arr = infos[e]["terminal_observation"]
            t_got = batch_of({k: np.asarray(v)[None] for k, v in t_got_arr.items()} if isinstance(t_got_arr, dict) else np.asarray(t_got_arr)[None], 1)
            got_terms.append(t_got)
            self.check_obs_out(w, wi, t_raw, t_got, "terminal observation did not get the same transform as the returned observation",
                               "terminal_obs")
        # accumulators restart when an episode ends
        for e in range(n):
            if raw_dones[e]:
                w.R_strict[e] = F(0)
                w.R_code[e] = F(0)
                if st["returns"][e] != 0:
                    self.viol("return accumulator not restarted at the end of an episode", {"kind": "returns", "variant": "not_zero_after_done", "w": wi},
                              {"env": e, "value": float(st["returns"][e])})
        exp_R = w.R_strict if w.ret_is_strict else w.R_code
        if w.training:
            for e in range(n):
                if not close(st["returns"][e], exp_R[e], w.rmag):
                    if w.ret_is_strict and close(st["returns"][e], w.R_code[e], w.rmag):
                        w.ret_is_strict = False
                        self.viol("return statistics are not the moments of the per-step discounted returns of the running episodes",
                                  {"kind": "ret_stats", "variant": "accumulator_frozen_while_not_training"},
                                  {"when": "step", "env": e, "accumulator": float(st["returns"][e]), "discounted_return": fl(w.R_strict[e]), "w": wi})
                    else:
                        self.viol("return accumulator is not the discounted return of the running episode",
                                  {"kind": "returns", "variant": "mismatch", "w": wi},
                                  {"env": e, "accumulator": float(st["returns"][e]), "discounted_return": fl(exp_R[e])})
                    break
        w.raw_obs = raw[1]
        w.raw_rew = raw[2]
        self.check_orig(w, wi, "step")
        # ---- model op ----
        nk = set(w.obs_sums()) if w.norm_obs else set()
        tl = self.tols(w)
        cs, cb = self.cmp_stats(w, st), self.cmp_batch(got_b, nk, tol=tl)
        cr = self.cmp_list([float(x) for x in rew], 2e-6 + (w.rtol() if w.norm_reward else 0.0), exact=not w.norm_reward)
        cts = [None if t is None else self.cmp_batch(t, nk, tol=tl) for t in got_terms]

        def cmp(mo):
            if "error" in mo:
                return f"model error {mo['error']}"
            r = cb(mo["obs"]) or cr(mo["rew"]) or cs(mo["stats"])
            if r:
                return r
            for e, ct in enumerate(cts):
                mt = mo["terms"][e]
                if (ct is None) != (mt is None):
                    return f"terminal obs presence env {e}"
                if ct is not None:
                    r = ct(mt)
                    if r:
                        return f"terminal env {e}: {r}"
            return None

        self.emit(self.step_op(wi, raw, n), cmp)
        self.emit_orig(w, wi)

    def step_op(self, wi, raw, n):
        terms = []
        for t in raw[4]:
            if t is None:
                terms.append(None)
            else:
                tb = batch_of({k: np.asarray(v)[None] for k, v in t.items()} if isinstance(t, dict) else np.asarray(t)[None], 1)
                terms.append(batch_j(tb))
        return {"op": "step", "w": wi, "obs": batch_j(batch_of(raw[1], n)), "rew": [ratj(F(float(x))) for x in raw[2]],
                "dones": [bool(d) for d in raw[3]], "terms": terms}

    def do_set(self, wi, field, value):
        w = self.W[wi]
        setattr(w.vn, field, value)
        setattr(w, field, value)
        self.n_toggles += 1
        self.emit({"op": "set", "w": wi, "field": field, "value": bool(value)}, lambda mo: None if mo == {"ok": True} else f"set: {mo}")

    def do_saveload(self, wi):
        from stable_baselines3.common.vec_env import VecNormalize

        w = self.W[wi]
        if self.tmp is None:
            self.tmp = tempfile.mkdtemp(prefix="verif_c15_")
        path = os.path.join(self.tmp, f"vn{wi}.pkl")
        before = w.impl_stats()
        old = w.vn
        try:
            old.save(path)
            new = VecNormalize.load(path, w.tap)
        except Exception as e:  # noqa
            self.on_exception(w, wi, e, "saveload")
            return
        w.vn = new
        st = w.impl_stats()
        if not stats_equal(before, st):
            self.viol("save/load changed a statistic", {"kind": "saveload", "variant": "statistics", "w": wi})
        for f in ("clip_obs", "clip_reward", "gamma", "epsilon", "training", "norm_obs", "norm_reward", "norm_obs_keys"):
            if getattr(new, f, None) != getattr(old, f, None):
                self.viol("save/load changed a setting", {"kind": "saveload", "variant": "setting", "field": f, "w": wi})
        if np.any(st["returns"] != 0) or len(st["returns"]) != w.n:
            self.viol("loaded wrapper does not start with zero return accumulators", {"kind": "saveload", "variant": "returns", "w": wi})
        w.R_strict = [F(0)] * w.n
        w.R_code = [F(0)] * w.n
        self.check_stats(w, wi, st, "saveload")
        if w.raw_obs is not None and not (w.norm_obs and not w.has_obs):
            self.check_orig(w, wi, "saveload")
        cs = self.cmp_stats(w, st)
        self.emit({"op": "saveload", "w": wi}, lambda mo: ("model error" if "error" in mo else cs(mo["stats"])))

    def do_checkpoint(self, wi):
        """`save()` / pickling / deep-copying a LIVE wrapper (a checkpoint taken in the middle of an episode) and going on
        with the same object: nothing of its state — statistics, running returns, settings — may change (no model
        operation: the model's state is unchanged). Seeded change C15-j."""
        import copy
        import pickle

        w = self.W[wi]
        if self.tmp is None:
            self.tmp = tempfile.mkdtemp(prefix="verif_c15_")
        before = w.impl_stats()
        try:
            w.vn.save(os.path.join(self.tmp, f"ckpt{wi}.pkl"))
            pickle.dumps(w.vn)
            copy.deepcopy(w.vn.obs_rms) if hasattr(w.vn, "obs_rms") else None
        except Exception as e:  # noqa
            self.on_exception(w, wi, e, "checkpoint")
            return
        st = w.impl_stats()
        if not stats_equal(before, st) or np.any(np.asarray(before["returns"]) != np.asarray(st["returns"])):
            self.viol("saving / pickling a live wrapper changed its state", {"kind": "checkpoint", "w": wi,
                      "variant": "returns" if np.any(np.asarray(before["returns"]) != np.asarray(st["returns"])) else "statistics"})

    def do_sync(self, src):
        from stable_baselines3.common.vec_env import sync_envs_normalization

        dst = 1 - src
        a, b = self.W[src], self.W[dst]
        sa = a.impl_stats()
        try:
            sync_envs_normalization(a.vn, b.vn)
        except Exception as e:  # noqa
            self.on_exception(b, dst, e, "sync")
            return
        sb = b.impl_stats()
        # oracle: every statistic of the source is now the destination's (and the source is unchanged)
        if not stats_equal(sa, a.impl_stats()):
            self.viol("synchronising changed the source statistics", {"kind": "sync", "variant": "source_changed"})
        if a.has_obs:
            if sb["obs"] is None or not stats_equal({"obs": sa["obs"], "ret": sa["ret"]}, {"obs": sb["obs"], "ret": sb["ret"]}):
                self.viol("synchronising did not copy every statistic", {"kind": "sync", "variant": "not_copied"})
            b.has_obs = True
            b.obs_strict = {k: [s.copy() for s in v] for k, v in a.obs_strict.items()}
            b.obs_code = {k: [s.copy() for s in v] for k, v in a.obs_code.items()}
            b.obs_is_strict = a.obs_is_strict
            b.cmag = {k: [max(x, b.cmag[k][j]) if k in b.cmag else x for j, x in enumerate(v)] for k, v in a.cmag.items()}
        elif sb["ret"] != sa["ret"]:
            self.viol("synchronising did not copy every statistic", {"kind": "sync", "variant": "not_copied"})
        b.ret_strict, b.ret_code = a.ret_strict.copy(), a.ret_code.copy()
        b.ret_is_strict = a.ret_is_strict
        b.mag, b.rmag = max(a.mag, b.mag), max(a.rmag, b.rmag)
        a.mag, a.rmag = b.mag, b.rmag
        self.check_stats(b, dst, sb, "sync")
        cs = self.cmp_stats(b, sb)
        self.emit({"op": "sync", "src": src, "dst": dst}, lambda mo: ("model error" if "error" in mo else cs(mo["stats"])))

    def do_probe(self, wi, k, c):
        """normalize_obs / unnormalize_obs / normalize_reward / unnormalize_reward on given values"""
        w = self.W[wi]
        if w.raw_obs is None:
            return
        n = w.n
        before = [o.impl_stats() for o in self.W]

        def tr(a):
            a = np.asarray(a)
            if a.dtype == np.float32:
                return (a * np.float32(k) + np.float32(c)).astype(np.float32)
            return a.copy()

        x = {kk: tr(v) for kk, v in w.raw_obs.items()} if isinstance(w.raw_obs, dict) else tr(w.raw_obs)
        xb = batch_of(x, n)
        for cols in xb.values():
            for col in cols:
                for v in col:
                    w.mag = max(w.mag, abs(fl(v)))
        try:
            z = w.vn.normalize_obs(x)
        except Exception as e:  # noqa
            self.emit({"op": "probe", "w": wi, "kind": "normalize_obs", "obs": batch_j(xb)}, self.model_error_cmp(self.expect_error(w, wi)))
            self.on_exception(w, wi, e, "normalize_obs")
            return
        zb = batch_of(z, n)
        self.check_obs_out(w, wi, xb, zb, "normalize_obs() is not the clipped standardised value", "normalize_obs")
        nk = set(w.obs_sums()) if w.norm_obs else set()
        cb = self.cmp_batch(zb, nk, tol=self.tols(w))
        self.emit({"op": "probe", "w": wi, "kind": "normalize_obs", "obs": batch_j(xb)},
                  lambda mo: (f"model error {mo['error']}" if "error" in mo else cb(mo["obs"])))
        # unnormalise what normalise returned
        try:
            u = w.vn.unnormalize_obs(z)
        except Exception as e:  # noqa
            self.on_exception(w, wi, e, "unnormalize_obs")
            return
        ub = batch_of(u, n)
        inside = 0
        for kk in xb:
            normalised = w.norm_obs and kk in w.obs_sums()
            for j, col in enumerate(xb[kk]):
                for e, xv in enumerate(col):
                    uv, zv = fl(ub[kk][j][e]), fl(zb[kk][j][e])
                    if normalised:
                        if abs(zv) < w.clip_obs * (1 - 1e-6):
                            inside += 1
                            if abs(uv - fl(xv)) > 4e-6 * (w.mag + 1.0):
                                self.viol("unnormalize_obs(normalize_obs(x)) != x inside the clip range",
                                          {"kind": "inverse", "field": "obs", "w": wi},
                                          {"key": kk, "coord": j, "env": e, "x": fl(xv), "normalised": zv, "back": uv})
                                break
                    elif uv != fl(xv):
                        self.viol("unnormalize_obs changed a key that is not normalised", {"kind": "inverse", "field": "obs_untouched", "w": wi},
                                  {"key": kk})
                        break
        self.rep.count("probe_elements_inside_clip", inside)
        utol = {}
        if w.norm_obs:
            for kk, ss in w.obs_sums().items():
                utol[kk] = []
                for j, sj in enumerate(ss):
                    _, v, _ = sj.mom()
                    mg = w.cmag[kk][j]
                    # u = z * sd + mean : d(sd) = d(var) / (2 sd)
                    utol[kk].append((2 * REL_MEAN32 * mg, 2 * var_tol32(v, mg) / (2 * math.sqrt(fl(v + w.eps)))))
        pmag = w.mag

        def cmp_un(mo):
            if "error" in mo:
                return f"model error {mo['error']}"
            mb = unbatch_j(mo["obs"])
            for kk in ub:
                for j, col in enumerate(ub[kk]):
                    ta, tb = utol[kk][j] if kk in utol else (0.0, 0.0)
                    for e, g in enumerate(col):
                        xm = mb[kk][j][e]
                        if abs(fl(g) - fl(xm)) > 1e-9 * (abs(fl(xm)) + pmag + 1.0) + ta + tb * abs(fl(zb[kk][j][e])):
                            return f"[{kk}][{j}][{e}] impl {fl(g)} model {fl(xm)}"
            return None

        self.emit({"op": "probe", "w": wi, "kind": "unnormalize_obs", "obs": batch_j(zb)}, cmp_un)
        # rewards
        r = (np.asarray(w.raw_rew if w.raw_rew is not None else np.ones(n, np.float32), dtype=np.float32) * np.float32(k) + np.float32(c)).astype(np.float32)
        rq = [F(float(v)) for v in r]
        try:
            zr = w.vn.normalize_reward(r)
            ur = w.vn.unnormalize_reward(zr)
        except Exception as e:  # noqa
            self.on_exception(w, wi, e, "normalize_reward")
            return
        exp_r = w.exp_norm_rew(rq)
        for e in range(n):
            g = float(zr[e])
            ok = abs(g - exp_r[e]) <= (2e-6 + w.rtol()) * (1.0 + abs(exp_r[e])) if w.norm_reward else g == exp_r[e]
            if not ok:
                self.viol("normalize_reward() is not the clipped scaled value", {"kind": "transform", "field": "normalize_reward", "w": wi},
                          {"env": e, "impl": g, "definition": exp_r[e], "raw": float(r[e])})
                break
            if (not w.norm_reward or abs(g) < w.clip_reward * (1 - 1e-6)) and abs(float(ur[e]) - float(r[e])) > 4e-6 * (abs(float(r[e])) + 1.0):
                self.viol("unnormalize_reward(normalize_reward(r)) != r inside the clip range", {"kind": "inverse", "field": "reward", "w": wi},
                          {"env": e, "r": float(r[e]), "normalised": g, "back": float(ur[e])})
                break
        cz = self.cmp_list([float(v) for v in zr], 2e-6 + (w.rtol() if w.norm_reward else 0.0), exact=not w.norm_reward)
        self.emit({"op": "probe", "w": wi, "kind": "normalize_reward", "rew": [ratj(v) for v in rq]},
                  lambda mo: ("model error" if "error" in mo else cz(mo["rew"])))
        cur = self.cmp_list([float(v) for v in ur], 1e-9 * (1 + w.rmag) + 1e-9)
        self.emit({"op": "probe", "w": wi, "kind": "unnormalize_reward", "rew": [ratj(F(float(v))) for v in zr]},
                  lambda mo: ("model error" if "error" in mo else cur(mo["rew"])))
        # probes never touch statistics or raw values
        for oi, ow in enumerate(self.W):
            if not stats_equal(before[oi], ow.impl_stats()):
                self.viol("normalize/unnormalize changed a statistic", {"kind": "frozen", "op": "probe", "w": oi})
        self.check_orig(w, wi, "probe")

    # -- driver ---------------------------------------------------------------------------------
    def run(self):
        try:
            self.start()
            for op in self.case["ops"]:
                if self.aborted:
                    break
                k = op[0]
                self.rep.count(f"op:{k}")
                if k == "reset":
                    self.do_reset(op[1])
                elif k == "step":
                    if self.W[op[1]].raw_obs is None and self.W[op[1]].tap.last is None:
                        self.do_reset(op[1])  # (shrunk cases) a step needs a started environment
                        if self.aborted:
                            break
                    self.do_step(op[1])
                elif k == "set":
                    self.do_set(op[1], op[2], op[3])
                elif k == "saveload":
                    self.do_saveload(op[1])
                elif k == "checkpoint":
                    self.do_checkpoint(op[1])
                elif k == "sync":
                    if len(self.W) == 2:
                        self.do_sync(op[1])
                elif k == "probe":
                    self.do_probe(op[1], op[2], op[3])
        finally:
            if self.tmp is not None:
                shutil.rmtree(self.tmp, ignore_errors=True)
            for w in getattr(self, "W", []):
                try:
                    w.tap.close()
                except Exception:  # noqa
                    pass


# ---------------------------------------------------------------------------------------------------
# RunningMeanStd on its own
# ---------------------------------------------------------------------------------------------------
def run_rms(ctx, case):
    from stable_baselines3.common.running_mean_std import RunningMeanStd

    rep = ctx.report
    shape = tuple(case["shape"])
    f32 = case.get("dtype", "float64") == "float32"
    vals = np.array(case["values"], dtype=np.float32 if f32 else np.float64).reshape((len(case["values"]),) + shape)
    N = len(vals)
    d = int(np.prod(shape)) if shape else 1
    eps0 = case["eps0"]
    flat = vals.reshape(N, d)
    ops, cmps = [], []
    told = {}
    mag = max(1.0, float(np.max(np.abs(vals))))
    # per coordinate magnitude (float32 batches are judged relative to their own coordinate)
    cm = [max(1.0, float(np.max(np.abs(flat[:, j])))) if f32 else mag for j in range(d)]

    def feed(split):
        r = RunningMeanStd(epsilon=eps0, shape=shape)
        i = 0
        for k in split:
            r.update(vals[i:i + k])
            i += k
        assert i == N
        return r

    def snap(r):
        return np.array(r.mean, np.float64).reshape(-1), np.array(r.var, np.float64).reshape(-1), float(r.count)

    ra, rb = feed(case["split_a"]), feed(case["split_b"])
    sa, sb = snap(ra), snap(rb)
    # oracle: two-pass exact moments with the prior pseudo-sample, independent of the batching
    sums = []
    for j in range(d):
        s = Sums.prior(F(eps0))
        s.add([F(float(x)) for x in flat[:, j]])
        sums.append(s)
    for name, s in (("split_a", sa), ("split_b", sb)):
        if not np.all(s[1] >= 0.0):
            rep.violation("RunningMeanStd variance is negative or not finite", case, {"kind": "rms", "variant": "var_negative_or_nan", "split": name},
                          {"var": [float(x) for x in s[1]]})
        for j in range(d):
            m, v, c = sums[j].mom()
            if not (mom_ok(s[0][j], s[1][j], s[2], m, v, c, cm[j], f32)):
                rep.violation("RunningMeanStd after a batch split is not the exact moments of the stream", case,
                              {"kind": "rms", "variant": "moments", "split": name},
                              {"coord": j, "impl": [float(s[0][j]), float(s[1][j]), s[2]], "exact": [fl(m), fl(v), fl(c)]})
                break
    # model: per coordinate, fold of `update` over split_a and over split_b
    for name, split, s in (("a", case["split_a"], sa), ("b", case["split_b"], sb)):
        for j in range(d):
            batches, i = [], 0
            for k in split:
                batches.append([ratj(F(float(x))) for x in flat[i:i + k, j]])
                i += k

            def cmp(mo, s=s, j=j):
                if "error" in mo:
                    return f"model error {mo['error']}"
                m, v, c = (unratj(q) for q in mo["mom"])
                if not (mom_ok(s[0][j], s[1][j], s[2], m, v, c, cm[j], f32)):
                    return f"coord {j}: impl {(float(s[0][j]), float(s[1][j]), s[2])} model {(fl(m), fl(v), fl(c))}"
                return None

            ops.append({"op": "rms", "eps0": ratj(F(eps0)), "batches": batches})
            cmps.append(cmp)
    # update_from_moments with given (possibly fractional-count) batch moments on top of split_a's statistics
    if case.get("um") is not None:
        bm, bv, bc = case["um"]
        ra.update_from_moments(np.full(shape, bm, dtype=np.float64), np.full(shape, bv, dtype=np.float64), bc)
        su = snap(ra)
        umag = max(mag, abs(bm), math.sqrt(bv))
        for j in range(d):
            s = sums[j].copy()
            s.w += F(bc)
            s.s1 += F(bm) * F(bc)
            s.s2 += (F(bv) + F(bm) * F(bm)) * F(bc)
            m, v, c = s.mom()
            if not (mom_ok(su[0][j], su[1][j], su[2], m, v, c, max(cm[j], abs(bm), math.sqrt(bv)), f32)):
                rep.violation("update_from_moments is not the merge of the weighted moments", case,
                              {"kind": "rms", "variant": "update_from_moments"},
                              {"coord": j, "impl": [float(su[0][j]), float(su[1][j]), su[2]], "exact": [fl(m), fl(v), fl(c)]}) if not told.get("um") else None
                told["um"] = True

            def cmpu(mo, j=j):
                if "error" in mo:
                    return f"model error {mo['error']}"
                mm, vv, cc = (unratj(q) for q in mo["mom"])
                if not (mom_ok(su[0][j], su[1][j], su[2], mm, vv, cc, max(cm[j], abs(bm), math.sqrt(bv)), f32)):
                    return f"update_from_moments coord {j}: impl {(float(su[0][j]), float(su[1][j]), su[2])} model {(fl(mm), fl(vv), fl(cc))}"
                return None

            ops.append({"op": "rms_moments", "mom": [ratj(F(float(sa[0][j]))), ratj(F(float(sa[1][j]))), ratj(F(sa[2]))],
                        "bm": ratj(F(bm)), "bv": ratj(F(bv)), "bc": ratj(F(bc))})
            cmps.append(cmpu)
    # combine + copy: first part and second part tracked separately, then merged
    cut = case["combine_at"]
    r1 = RunningMeanStd(epsilon=eps0, shape=shape)
    r2 = RunningMeanStd(epsilon=eps0, shape=shape)
    if cut > 0:
        r1.update(vals[:cut])
    if cut < N:
        r2.update(vals[cut:])
    r1c = r1.copy()
    s1, s2 = snap(r1), snap(r2)
    r1.combine(r2)
    sc = snap(r1)
    if not (np.array_equal(snap(r1c)[0], s1[0]) and np.array_equal(snap(r1c)[1], s1[1]) and snap(r1c)[2] == s1[2]):
        rep.violation("RunningMeanStd.copy() is not independent of / equal to the original", case, {"kind": "rms", "variant": "copy"})
    if not (np.array_equal(snap(r2)[0], s2[0]) and snap(r2)[2] == s2[2]):
        rep.violation("combine() changed its argument", case, {"kind": "rms", "variant": "combine_arg"})
    for j in range(d):
        # exact: both priors count (weight 2*eps0)
        s = Sums.prior(F(eps0))
        s.add([F(float(x)) for x in flat[:, j]])
        s.w += F(eps0)
        s.s2 += F(eps0)
        m, v, c = s.mom()
        if not (mom_ok(sc[0][j], sc[1][j], sc[2], m, v, c, cm[j], f32)):
            rep.violation("combine() of two RunningMeanStd is not the moments of both streams together", case,
                          {"kind": "rms", "variant": "combine"},
                          {"coord": j, "impl": [float(sc[0][j]), float(sc[1][j]), sc[2]], "exact": [fl(m), fl(v), fl(c)]}) if not told.get("combine") else None
            told["combine"] = True

        def cmpc(mo, j=j):
            if "error" in mo:
                return f"model error {mo['error']}"
            mm, vv, cc = (unratj(q) for q in mo["mom"])
            if not (mom_ok(sc[0][j], sc[1][j], sc[2], mm, vv, cc, cm[j], f32)):
                return f"combine coord {j}: impl {(float(sc[0][j]), float(sc[1][j]), sc[2])} model {(fl(mm), fl(vv), fl(cc))}"
            return None

        ops.append({"op": "rms_combine", "a": [ratj(F(float(s1[0][j]))), ratj(F(float(s1[1][j]))), ratj(F(s1[2]))],
                    "b": [ratj(F(float(s2[0][j]))), ratj(F(float(s2[1][j]))), ratj(F(s2[2]))]})
        cmps.append(cmpc)
    return ops, cmps


# ---------------------------------------------------------------------------------------------------
def check_cases(ctx, cases):
    rep = ctx.report
    all_ops, plan = [], []
    for case in cases:
        kind = case.get("kind")
        rep.count(f"kind:{kind}")
        if kind == "vn":
            run = CaseRun(ctx, case)
            try:
                run.run()
            except Exception as e:  # noqa  -- harness-level surprise on a valid case: report as failing input
                import traceback

                rep.violation("unexpected exception from the implementation on a valid input", case,
                              {"kind": "exception", "variant": "unexpected", "exception": type(e).__name__}, traceback.format_exc()[-1500:])
                rep.case(case, None)
                continue
            n_done = sum(w.n_done for w in run.W)
            nt = case["n"] >= 2 and n_done >= 1 and run.n_toggles >= 1
            rep.case(case, case if nt else None)
            rep.count(f"space:{case['space']}")
            rep.count(f"n_envs={case['n']}")
            rep.count(f"fam:{case['fam']}")
            rep.count(f"base:{case.get('base', 'dummy')}")
            rep.count("wrappers=%d" % len(case["w"]))
            rep.count("norm_keys:" + ("n/a" if case["space"] not in DICT_KEYS else "none" if case["norm_keys"] is None else str(len(case["norm_keys"]))))
            rep.count("dones", n_done)
            if run.aborted:
                rep.count("ended_by_exception")
            base = len(all_ops)
            all_ops.extend(run.ops)
            plan.append((case, "vn", base, run.cmps))
        elif kind == "rms":
            try:
                ops, cmps = run_rms(ctx, case)
            except Exception as e:  # noqa
                import traceback

                rep.violation("unexpected exception from the implementation on a valid input", case,
                              {"kind": "exception", "variant": "unexpected", "exception": type(e).__name__}, traceback.format_exc()[-1500:])
                rep.case(case, None)
                continue
            rep.case(case, case if case["split_a"] != case["split_b"] else None)
            rep.count("rms_shape:" + str(case["shape"]))
            rep.count("rms_dtype:" + case.get("dtype", "float64"))
            rep.count("rms_fam:" + str(case.get("fam", "?")).split(":")[0])
            base = len(all_ops)
            all_ops.extend(ops)
            plan.append((case, "rms", base, list(enumerate(cmps))))
    outs = ctx.lean.run(all_ops)
    for case, kind, base, cmps in plan:
        bad = None
        for i, cmp in cmps:
            mo = outs[base + i]
            if mo is None:
                continue
            r = cmp(mo)
            if r is not None:
                bad = (i, r, mo)
                break
            rep.agree()
        if bad is not None:
            stream = "rms" if kind == "rms" else ("vn_error" if "raise" in bad[1] else "vn_orig" if "(exact)" in bad[1] else "vn_stats" if "rms" in bad[1] or "returns" in bad[1] else "vn_outputs")
            rep.disagree(stream, case, {"op_index": bad[0], "difference": bad[1]}, {"answer": str(bad[2])[:400]})
    if len(cases) > 3:
        rep.note("float32 batches, running variance vs exact: largest accepted |error|/tolerance %.3g (|error|/var %.3g); largest "
                 "|error|/tolerance seen at all %.3g" % (_MEASURED["var32"], _MEASURED["var32_rel"], _MEASURED["var32_all"]))
