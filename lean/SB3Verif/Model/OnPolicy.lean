/-
Model of on-policy collection (stable_baselines3/common/on_policy_algorithm.py `collect_rollouts`,
base_class.py `_setup_learn`, policies.py `unscale_action`, and — for the end-to-end statements —
the episode-end handling of the vectorised environment, dummy_vec_env.py `step_wait`).

Style (DESIGN §2.2): everything the library does not control is an *input stream*:
  * a sub-environment is the stream of what it returns (`Raw`), turned by the VecEnv into what
    `collect_rollouts` sees (`VOut`, via `vecOut`);
  * the actor is the stream of what it sampled (`Sample`: action, log-probability);
  * the critic of the *current* policy is a function `V : O → α` on observations, fixed during one
    rollout (parameters only change in `train()`, between rollouts) and different from rollout to rollout.
Vectors over the `n_envs` axis are functions `Nat → _` (environment index ↦ component): every statement
holds for every index, hence for every `n_envs`; only indices `< n_envs` are ever observed.

Core only (plus the C05 model `Model/Rollout.lean` for the final hand-over to GAE); generic over the
observation type `O`, the action type `A` and the scalar type `α`, so that the theorems (any ordered field)
and the driver (`Rat`) run the same definitions.
-/
import SB3Verif.Model.Rollout

namespace SB3Verif.OnPolicy

/-! ### What the environment delivers -/

/-- One `step()` of one sub-environment (Gymnasium API), plus the observation its `reset()` returns
when the vectorised environment resets it because the episode ended (unused otherwise). -/
structure Raw (O α : Type) where
  obs : O
  reward : α
  terminated : Bool
  truncated : Bool
  resetObs : O
  /-- what the `info` dict returned by `step()` *already contains* under `"terminal_observation"` /
  `"TimeLimit.truncated"`: nothing for an environment that builds a new dict per step; the entries the vectorised
  environment wrote at an earlier episode end for an environment that returns one dict object all its life. -/
  staleTerminal : Option O
  staleTimeLimit : Bool

/-- What `collect_rollouts` receives from `env.step` for one sub-environment: `new_obs[e]`, `rewards[e]`,
`dones[e]`, `infos[e].get("terminal_observation")`, `infos[e].get("TimeLimit.truncated", False)`. -/
structure VOut (O α : Type) where
  obs : O
  reward : α
  done : Bool
  terminalObs : Option O
  timeLimit : Bool

/-- `DummyVecEnv.step_wait` for one sub-environment: `done = terminated or truncated`,
`TimeLimit.truncated = truncated and not terminated` (written at *every* step); on `done` the last observation goes
to `terminal_observation` and the observation returned is the one of the reset. When the episode goes on the
`terminal_observation` key is not touched: whatever the environment's info dict carries stays. -/
def vecOut {O α : Type} (r : Raw O α) : VOut O α :=
  let done := r.terminated || r.truncated
  { obs := if done then r.resetObs else r.obs
    reward := r.reward
    done := done
    terminalObs := if done then some r.obs else r.staleTerminal
    timeLimit := r.truncated && !r.terminated }

/-- A vectorised environment that annotates *finished episodes only* (both keys written on `done`, nothing
touched otherwise): with a reused info dict a stale `TimeLimit.truncated = True` and a stale
`terminal_observation` are then visible on later, non-terminal steps. `dones` is what tells them apart. -/
def vecOutLazy {O α : Type} (r : Raw O α) : VOut O α :=
  let done := r.terminated || r.truncated
  { obs := if done then r.resetObs else r.obs
    reward := r.reward
    done := done
    terminalObs := if done then some r.obs else r.staleTerminal
    timeLimit := if done then r.truncated && !r.terminated else r.staleTimeLimit }

/-! ### What the policy delivers -/

/-- What the actor sampled for one environment: `actions[e]`, `log_probs[e]` of `self.policy(obs_tensor)`.
(`values[e]` is `V` of the observation, see above.) -/
structure Sample (A α : Type) where
  action : A
  logp : α

/-- Externals of one iteration of the `while n_steps < n_rollout_steps` loop. -/
structure StepIn (O A α : Type) where
  sample : Nat → Sample A α
  out : Nat → VOut O α

/-! ### State carried by the algorithm: `self._last_obs`, `self._last_episode_starts` -/

structure Carry (O : Type) where
  lastObs : Nat → O
  lastStarts : Nat → Bool

/-- One slot `(step, env)` of the rollout buffer, as written by `rollout_buffer.add`. -/
structure Slot (O A α : Type) where
  obs : O
  action : A
  reward : α
  start : Bool
  value : α
  logp : α
deriving DecidableEq, Repr

/-! ### Action sent to the environment -/

/-- Which transformation `collect_rollouts` applies to the sampled action before `env.step`. -/
inductive ActKind where
  | clip      -- Box action space, policy not squashed: `np.clip(actions, low, high)`
  | unscale   -- Box action space, squashed policy: `policy.unscale_action(actions)`
  | ident     -- every other action space: the action itself
deriving DecidableEq, Repr

/-- `isinstance(self.action_space, spaces.Box)` / `self.policy.squash_output`. -/
def actKind (isBox squash : Bool) : ActKind :=
  if isBox then (if squash then .unscale else .clip) else .ident

/-- `np.clip(a, lo, hi) = minimum(maximum(a, lo), hi)` -/
def clip {α : Type} [Min α] [Max α] (a lo hi : α) : α := min (max a lo) hi

/-- `unscale_action`: `np.clip(low + (0.5 * (scaled_action + 1.0) * (high - low)), low, high)`;
`half` is the constant `0.5`. -/
def unscale {α : Type} [Min α] [Max α] [Add α] [Sub α] [Mul α] [One α] (half a lo hi : α) : α :=
  clip (lo + (half * (a + 1) * (hi - lo))) lo hi

/-- Scalar version of the action transformation. -/
def envScalar {α : Type} [Min α] [Max α] [Add α] [Sub α] [Mul α] [One α]
    (k : ActKind) (half a lo hi : α) : α :=
  match k with
  | .clip => clip a lo hi
  | .unscale => unscale half a lo hi
  | .ident => a

/-- The action handed to `env.step` for one environment; actions are vectors (`List α`), the bounds
`low`/`high` are broadcast over the environments and applied component by component. -/
def envAction {α : Type} [Min α] [Max α] [Add α] [Sub α] [Mul α] [One α]
    (k : ActKind) (half : α) (lo hi : List α) (a : List α) : List α :=
  match k with
  | .ident => a
  | _ => List.zipWith (fun x (b : α × α) => envScalar k half x b.1 b.2) a (lo.zip hi)

/-! ### One rollout -/

section
variable {O A α : Type} [Add α] [Mul α]

/-- Timeout handling (`on_policy_algorithm.py`, "Handle timeout by bootstrapping with value function"):
`if done and infos[idx].get("terminal_observation") is not None and infos[idx].get("TimeLimit.truncated", False):
 rewards[idx] += self.gamma * self.policy.predict_values(terminal_obs)`. -/
def rewardOf (γ : α) (V : O → α) (o : VOut O α) : α :=
  match o.done, o.terminalObs, o.timeLimit with
  | true, some tobs, true => o.reward + γ * V tobs
  | _, _, _ => o.reward

/-- `rollout_buffer.add(self._last_obs, actions, rewards, self._last_episode_starts, values, log_probs)`
for environment `e`: the carried observation / episode start, the *sampled* (unclipped) action,
the possibly bootstrapped reward, and value / log-prob of the forward pass on the carried observation. -/
def slotOf (γ : α) (V : O → α) (c : Carry O) (x : StepIn O A α) (e : Nat) : Slot O A α :=
  { obs := c.lastObs e
    action := (x.sample e).action
    reward := rewardOf γ V (x.out e)
    start := c.lastStarts e
    value := V (c.lastObs e)
    logp := (x.sample e).logp }

/-- `self._last_obs = new_obs; self._last_episode_starts = dones` -/
def carryOf (x : StepIn O A α) : Carry O :=
  { lastObs := fun e => (x.out e).obs, lastStarts := fun e => (x.out e).done }

/-- The `while` loop of `collect_rollouts` over the externals of its iterations: rows added to the buffer,
actions handed to `env.step` (`f` is the clip / unscale / identity map), and the state left behind. -/
def collectLoop (γ : α) (V : O → α) (f : A → A) :
    Carry O → List (StepIn O A α) → List (Nat → Slot O A α) × List (Nat → A) × Carry O
  | c, [] => ([], [], c)
  | c, x :: xs =>
    let r := collectLoop γ V f (carryOf x) xs
    (slotOf γ V c x :: r.1, (fun e => f (x.sample e).action) :: r.2.1, r.2.2)

/-- Everything observable of one `collect_rollouts` call. -/
structure Rollout (O A α : Type) where
  rows : List (Nat → Slot O A α)       -- rollout buffer, row `t` = step `t`
  envActs : List (Nat → A)             -- what `env.step` received at step `t`
  lastValues : Nat → α                 -- `last_values` passed to `compute_returns_and_advantage`
  lastDones : Nat → Bool               -- `dones` passed to `compute_returns_and_advantage`
  carry : Carry O                      -- `_last_obs`, `_last_episode_starts` afterwards

/-- `collect_rollouts`: the loop, then `values = policy.predict_values(new_obs)` and
`compute_returns_and_advantage(last_values=values, dones=dones)` with the *local* `new_obs` / `dones` of the
last iteration. (With no iteration at all the code has no such locals — `n_steps ≥ 1` is part of the
property's quantifier and the driver rejects `n_steps = 0`; the model then falls back on the carried state.) -/
def collectRollout (γ : α) (V : O → α) (f : A → A) (c : Carry O) (xs : List (StepIn O A α)) :
    Rollout O A α :=
  let r := collectLoop γ V f c xs
  let fin : Carry O := match xs.getLast? with
    | some x => carryOf x
    | none => c
  { rows := r.1
    envActs := r.2.1
    lastValues := fun e => V (fin.lastObs e)
    lastDones := fin.lastStarts
    carry := r.2.2 }

end

/-! ### Hand-over to GAE (`rollout_buffer.compute_returns_and_advantage(last_values=values, dones=dones)`) -/

section
variable {O A α : Type} [Add α] [Sub α] [Mul α] [Zero α] [One α]

/-- A flag as the float it is stored as (`episode_starts`, `dones.astype(np.float32)`). -/
def boolS (b : Bool) : α := if b then 1 else 0

/-- Column `e` of the filled buffer as `compute_returns_and_advantage` reads it (model of C05). -/
def gaeSteps (rows : List (Nat → Slot O A α)) (e : Nat) : List (SB3Verif.Rollout.Step α) :=
  rows.map fun row => { r := (row e).reward, v := (row e).value, start := boolS (row e).start }

/-- Advantages of environment `e` for a collected rollout: the C05 backward loop on the stored rewards /
values / episode starts, bootstrapped with the rollout's `lastValues` and `1 - lastDones`. -/
def advantagesOf (γ lam : α) (ro : Rollout O A α) (e : Nat) : List α :=
  SB3Verif.Rollout.gaeCol γ lam (ro.lastValues e) (1 - boolS (ro.lastDones e)) (gaeSteps ro.rows e)

/-! Specification vocabulary for the end-to-end statement (used by the theorems in `Props/C06.lean`):
the ingredients of GAE written directly on the *externals* of the rollout, not on the buffer. -/

/-- `done` of step `k` of environment `e` (`false` outside the rollout). -/
def doneAt (xs : List (StepIn O A α)) (e k : Nat) : Bool :=
  match xs[k]? with
  | some x => (x.out e).done
  | none => false

/-- TD residual of step `k` of environment `e` on the externals: (possibly time-limit bootstrapped) reward
`+ γ · V(observation returned by step k) · (1 − done of step k) − V(observation the policy saw at step k)`. -/
def tdAt (γ : α) (V : O → α) (c : Carry O) (xs : List (StepIn O A α)) (e k : Nat) : α :=
  match (c :: xs.map carryOf)[k]?, xs[k]? with
  | some p, some x =>
    rewardOf γ V (x.out e) + γ * V ((x.out e).obs) * (1 - boolS (x.out e).done) - V (p.lastObs e)
  | _, _ => 0

/-- `returns = advantages + values` -/
def returnsOf (γ lam : α) (ro : Rollout O A α) (e : Nat) : List α :=
  SB3Verif.Rollout.returnsCol (advantagesOf γ lam ro e) (gaeSteps ro.rows e)

end

section
variable {O A α : Type} [Add α] [Mul α]

/-! ### Several rollouts and `learn()` calls -/

/-- State right after an environment reset: `_last_obs = env.reset()`,
`_last_episode_starts = np.ones(n_envs, dtype=bool)`. -/
def fresh (obs : Nat → O) : Carry O := { lastObs := obs, lastStarts := fun _ => true }

/-- `_setup_learn`: the environment is reset only `if reset_num_timesteps or self._last_obs is None`. -/
def setupLearn (c : Option (Carry O)) (resetNum : Bool) (resetObs : Nat → O) : Carry O :=
  match c with
  | some c => if resetNum then fresh resetObs else c
  | none => fresh resetObs

/-- What happens to an on-policy algorithm between construction and the end of training. -/
inductive Op (O A α : Type) where
  /-- `learn(reset_num_timesteps = resetNum)` begins; `resetObs` is what `env.reset()` returns *if* it is called -/
  | learn (resetNum : Bool) (resetObs : Nat → O)
  /-- one `collect_rollouts` with the policy of that moment (`V`), followed by `train()` -/
  | rollout (V : O → α) (xs : List (StepIn O A α))

/-- All rollouts produced by a sequence of operations, starting from an initialised algorithm
(one whose `_last_obs` is set — i.e. after its first `learn` began). -/
def runOps (γ : α) (f : A → A) : Carry O → List (Op O A α) → List (Rollout O A α)
  | _, [] => []
  | c, .learn r obs :: ops => runOps γ f (setupLearn (some c) r obs) ops
  | c, .rollout V xs :: ops =>
    let ro := collectRollout γ V f c xs
    ro :: runOps γ f ro.carry ops

/-- The state after a sequence of operations. -/
def carryAfterOps (γ : α) (f : A → A) : Carry O → List (Op O A α) → Carry O
  | c, [] => c
  | c, .learn r obs :: ops => carryAfterOps γ f (setupLearn (some c) r obs) ops
  | c, .rollout V xs :: ops => carryAfterOps γ f (collectRollout γ V f c xs).carry ops

/-! Specification vocabulary (used by the theorems in `Props/C06.lean`). -/

/-- All environment steps of an operation sequence, in order, regardless of how they are cut into
rollouts and `learn()` calls. -/
def allSteps : List (Op O A α) → List (StepIn O A α)
  | [] => []
  | .learn _ _ :: ops => allSteps ops
  | .rollout _ xs :: ops => xs ++ allSteps ops

/-- All buffer rows ever written, in order. -/
def allRows (ros : List (Rollout O A α)) : List (Nat → Slot O A α) := ros.flatMap (·.rows)

/-- The (observation, episode-start) part of a buffer row, as a `Carry`. -/
def rowCarry (row : Nat → Slot O A α) : Carry O :=
  { lastObs := fun e => (row e).obs, lastStarts := fun e => (row e).start }

/-- `true` iff no operation of the list resets the environment. -/
def noReset : List (Op O A α) → Bool
  | [] => true
  | .learn r _ :: ops => !r && noReset ops
  | .rollout _ _ :: ops => noReset ops

end

end SB3Verif.OnPolicy
