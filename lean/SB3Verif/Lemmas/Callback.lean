/-
Helper lemmas for C13 (callback event protocol). Model: `SB3Verif/Model/Callback.lean`.
-/
import SB3Verif.Model.Callback

namespace SB3Verif.Callback.Lemmas

open SB3Verif.Callback

/-! ### The loop machine: the protocol monitor accepts every reachable trace -/

section Machine

variable {σ : Type}

theorem P_run_append (d g0 : Nat) (t u : List (Call × Bool)) :
    P.run d g0 (t ++ u) = u.foldl (P.next d) (P.run d g0 t) := by
  simp [P.run, List.foldl_append]

theorem P_run_snoc (d g0 : Nat) (t : List (Call × Bool)) (c : Call × Bool) :
    P.run d g0 (t ++ [c]) = (P.run d g0 t).next d c := by
  simp [P_run_append]

@[simp] theorem invoke_trace (h : σ → Call → σ × Bool) (s : LS σ) (c : Call) :
    (s.invoke h c).1.trace = s.trace ++ [(c, (h s.cb c).2)] := rfl
@[simp] theorem invoke_ok (h : σ → Call → σ × Bool) (s : LS σ) (c : Call) :
    (s.invoke h c).2 = (h s.cb c).2 := rfl
@[simp] theorem invoke_cb (h : σ → Call → σ × Bool) (s : LS σ) (c : Call) :
    (s.invoke h c).1.cb = (h s.cb c).1 := rfl
@[simp] theorem invoke_pc (h : σ → Call → σ × Bool) (s : LS σ) (c : Call) :
    (s.invoke h c).1.pc = s.pc := rfl
@[simp] theorem invoke_num (h : σ → Call → σ × Bool) (s : LS σ) (c : Call) :
    (s.invoke h c).1.num = s.num := rfl
@[simp] theorem invoke_total (h : σ → Call → σ × Bool) (s : LS σ) (c : Call) :
    (s.invoke h c).1.total = s.total := rfl
@[simp] theorem invoke_g (h : σ → Call → σ × Bool) (s : LS σ) (c : Call) :
    (s.invoke h c).1.g = s.g := rfl

/-- which monitor state belongs to which program counter -/
def pcOk : Pc → G → Prop
  | .start, g => g = .init
  | .loopHead, g => g = .between
  | .inRollout _ _, g => g = .rollout
  | .rolloutTail, g => g = .rollout
  | .finish, g => g = .between ∨ g = .stopped
  | .done, g => g = .final

/-- Invariant of `learn`: the monitor has accepted the trace so far and tracks both counters; the
timestep counter is `num0 + d * (environment steps made in this call)`. -/
structure Inv (d g0 num0 : Nat) (s : LS σ) : Prop where
  st : pcOk s.pc (P.run d g0 s.trace).st
  num : s.pc ≠ .start → (P.run d g0 s.trace).num = s.num
  g : (P.run d g0 s.trace).g = s.g
  lin : s.num = num0 + d * (s.g - g0)
  ge : g0 ≤ s.g
  steps : stepNums s.trace = arith (num0 + d) d (s.g - g0)

theorem stepNums_append (t u : List (Call × Bool)) : stepNums (t ++ u) = stepNums t ++ stepNums u := by
  induction t with
  | nil => simp [stepNums]
  | cons x t ih =>
    rcases x with ⟨x, b⟩
    cases x <;> simp [stepNums, ih]

theorem arith_succ (a d k : Nat) : arith a d (k + 1) = arith a d k ++ [a + d * k] := by
  induction k generalizing a with
  | zero => simp [arith]
  | succ k ih =>
    rw [arith, ih (a + d)]
    simp [arith, Nat.mul_succ]; omega

theorem inv_setup (d prevNum g0 : Nat) (cb : σ) (totalArg : Nat) (reset : Bool) :
    Inv d g0 (if reset then 0 else prevNum) (LS.setup prevNum g0 cb totalArg reset) := by
  constructor <;> simp [LS.setup, pcOk, P.run, stepNums, arith]

theorem inv_next (cfg : Cfg) (h : σ → Call → σ × Bool) (g0 num0 : Nat) (s : LS σ)
    (hi : Inv cfg.nEnvs g0 num0 s) : Inv cfg.nEnvs g0 num0 (s.next cfg h) := by
  obtain ⟨hst, hnum, hg, hlin, hge, hsteps⟩ := hi
  unfold LS.next
  split
  · -- start
    rename_i hpc
    simp only [hpc, pcOk] at hst
    constructor
    · simp [pcOk, P_run_snoc, P.next, hst]
    · intro _; simp [P_run_snoc, P.next, hst]
    · simp [P_run_snoc, P.next, hst, hg]
    · simpa using hlin
    · simpa using hge
    · simp [stepNums_append, stepNums, hsteps]
  · -- loopHead
    rename_i hpc
    simp only [hpc, pcOk] at hst
    have hn := hnum (by simp [hpc])
    split
    · constructor
      · simp [pcOk, P_run_snoc, P.next, hst]
      · intro _; simp [P_run_snoc, P.next, hst, hn]
      · simp [P_run_snoc, P.next, hst, hg]
      · simpa using hlin
      · simpa using hge
      · simp [stepNums_append, stepNums, hsteps]
    · constructor
      · simp [pcOk, hst]
      · intro _; simpa using hn
      · simpa using hg
      · simpa using hlin
      · simpa using hge
      · simpa using hsteps
  · -- inRollout
    rename_i collected episodes hpc
    simp only [hpc, pcOk] at hst
    have hn := hnum (by simp [hpc])
    split
    · -- one more environment step
      have hlin' : s.num + cfg.nEnvs = num0 + cfg.nEnvs * (s.g + 1 - g0) := by
        have : s.g + 1 - g0 = (s.g - g0) + 1 := by omega
        rw [this, Nat.mul_succ, hlin]; omega
      have e : P.run cfg.nEnvs g0 s.trace = { st := .rollout, num := s.num, g := s.g } := by
        cases hp : P.run cfg.nEnvs g0 s.trace with
        | mk st num g => simp [hp] at hst hn hg; simp [hst, hn, hg]
      simp only [LS.invoke]
      generalize h s.cb (Call.updateLocals (s.g + 1)) = r1
      generalize h r1.1 (Call.step (s.num + cfg.nEnvs)) = r2
      rcases r2 with ⟨cb2, ok2⟩
      cases ok2
      · constructor
        · simp [pcOk, P_run_append, P.next, e]
        · intro _; simp [P_run_append, P.next, e]
        · simp [P_run_append, P.next, e]
        · simpa using hlin'
        · simp; omega
        · have hk : s.g + 1 - g0 = (s.g - g0) + 1 := by omega
          simp only [stepNums_append, stepNums, hsteps, hk, arith_succ, List.append_assoc]
          rw [hlin]
          have : num0 + cfg.nEnvs * (s.g - g0) + cfg.nEnvs = num0 + cfg.nEnvs + cfg.nEnvs * (s.g - g0) := by omega
          rw [this]; simp
      · constructor
        · simp [pcOk, P_run_append, P.next, e]
        · intro _; simp [P_run_append, P.next, e]
        · simp [P_run_append, P.next, e]
        · simpa using hlin'
        · simp; omega
        · have hk : s.g + 1 - g0 = (s.g - g0) + 1 := by omega
          simp only [stepNums_append, stepNums, hsteps, hk, arith_succ, List.append_assoc]
          rw [hlin]
          have : num0 + cfg.nEnvs * (s.g - g0) + cfg.nEnvs = num0 + cfg.nEnvs + cfg.nEnvs * (s.g - g0) := by omega
          rw [this]; simp
    · constructor
      · simp [pcOk, hst]
      · intro _; simpa using hn
      · simpa using hg
      · simpa using hlin
      · simpa using hge
      · simpa using hsteps
  · -- rolloutTail
    rename_i hpc
    simp only [hpc, pcOk] at hst
    have hn := hnum (by simp [hpc])
    have e : P.run cfg.nEnvs g0 s.trace = { st := .rollout, num := s.num, g := s.g } := by
      cases hp : P.run cfg.nEnvs g0 s.trace with
      | mk st num g => simp [hp] at hst hn hg; simp [hst, hn, hg]
    cases hop : cfg.onPolicy
    · constructor
      · simp [pcOk, P_run_append, P.next, e]
      · intro _; simp [P_run_append, P.next, e]
      · simp [P_run_append, P.next, e]
      · simpa using hlin
      · simpa using hge
      · simp [stepNums_append, stepNums, hsteps]
    · constructor
      · simp [pcOk, P_run_append, P.next, e]
      · intro _; simp [P_run_append, P.next, e]
      · simp [P_run_append, P.next, e]
      · simpa using hlin
      · simpa using hge
      · simp [stepNums_append, stepNums, hsteps]
  · -- finish
    rename_i hpc
    simp only [hpc, pcOk] at hst
    have hn := hnum (by simp [hpc])
    constructor
    · rcases hst with hst | hst <;> simp [pcOk, P_run_snoc, P.next, hst]
    · intro _; rcases hst with hst | hst <;> simp [P_run_snoc, P.next, hst, hn]
    · rcases hst with hst | hst <;> simp [P_run_snoc, P.next, hst, hg]
    · simpa using hlin
    · simpa using hge
    · simp [stepNums_append, stepNums, hsteps]
  · -- done
    exact ⟨hst, hnum, hg, hlin, hge, hsteps⟩

theorem inv_runN (cfg : Cfg) (h : σ → Call → σ × Bool) (g0 num0 : Nat) (n : Nat) (s : LS σ)
    (hi : Inv cfg.nEnvs g0 num0 s) : Inv cfg.nEnvs g0 num0 (LS.runN cfg h n s) := by
  induction n generalizing s with
  | zero => exact hi
  | succ n ih => exact ih _ (inv_next cfg h g0 num0 s hi)

end Machine


/-! ### more about the machine -/

section Machine2
variable {σ : Type}

/-- state of the callback after a list of calls -/
def foldH (h : σ → Call → σ × Bool) (cb : σ) (cs : List Call) : σ := cs.foldl (fun c x => (h c x).1) cb

theorem foldH_append (h : σ → Call → σ × Bool) (cb : σ) (a b : List Call) :
    foldH h cb (a ++ b) = foldH h (foldH h cb a) b := by simp [foldH, List.foldl_append]

/-- the callback state is the fold of the handler over the trace -/
theorem cb_next (cfg : Cfg) (h : σ → Call → σ × Bool) (cb0 : σ) (s : LS σ)
    (hs : s.cb = foldH h cb0 (s.trace.map (·.1))) :
    (s.next cfg h).cb = foldH h cb0 ((s.next cfg h).trace.map (·.1)) := by
  unfold LS.next
  split
  · simp [LS.invoke, hs, foldH, List.foldl_append]
  · split
    · simp [LS.invoke, hs, foldH, List.foldl_append]
    · simpa using hs
  · split
    · simp [LS.invoke, hs, foldH, List.foldl_append]
    · simpa using hs
  · cases cfg.onPolicy <;> simp [LS.invoke, hs, foldH, List.foldl_append]
  · simp [LS.invoke, hs, foldH, List.foldl_append]
  · exact hs

theorem cb_runN (cfg : Cfg) (h : σ → Call → σ × Bool) (cb0 : σ) (n : Nat) (s : LS σ)
    (hs : s.cb = foldH h cb0 (s.trace.map (·.1))) :
    (LS.runN cfg h n s).cb = foldH h cb0 ((LS.runN cfg h n s).trace.map (·.1)) := by
  induction n generalizing s with
  | zero => exact hs
  | succ n ih => exact ih _ (cb_next cfg h cb0 s hs)

theorem runN_done (cfg : Cfg) (h : σ → Call → σ × Bool) (n : Nat) (s : LS σ) (hpc : s.pc = .done) :
    LS.runN cfg h n s = s := by
  induction n with
  | zero => rfl
  | succ n ih =>
    have : s.next cfg h = s := by unfold LS.next; simp [hpc]
    simp [LS.runN, this, ih]

theorem next_finish (cfg : Cfg) (h : σ → Call → σ × Bool) (s : LS σ) (hpc : s.pc = .finish) :
    s.next cfg h = { s with pc := .done, cb := (h s.cb .trainingEnd).1,
                            trace := s.trace ++ [(.trainingEnd, (h s.cb .trainingEnd).2)] } := by
  unfold LS.next; simp [hpc, LS.invoke]

end Machine2

/-! ### The callback tree -/

@[simp] theorem ext_restore (x : Ext) (b : Option (Option Rat)) : (x.setP b).setP x.pbest = x := by
  cases x; rfl

mutual
theorem call_ids (dones : Dones) (c : Call) : ∀ (t : Cb) (x : Ext),
    (∀ e ∈ (t.call dones c x).evs, e.id ∈ t.ids) ∧ (t.call dones c x).cb.ids = t.ids
  | .absent, x => by simp [Cb.call, Cb.ids]
  | .leaf id stops nc nt loc, x => by cases c <;> simp [Cb.call, Cb.ids]
  | .list id nc nt cs, x => by
    obtain ⟨h1, h2⟩ := callL_ids dones c cs x
    cases c <;> simp [Cb.call, Cb.ids, h2] <;> exact fun e he => Or.inr (h1 e he)
  | .everyN id n last nc nt ch, x => by
    have ih1 := fun y => (call_ids dones c ch y).1
    have ih2 := fun y => (call_ids dones c ch y).2
    cases c <;> simp only [Cb.call, Cb.ids] <;> (try split) <;> simp [Cb.ids, ih2] <;>
      exact fun e he => Or.inr (ih1 _ e he)
  | .eval id freq nc nt best a b, x => by
    cases c with
    | trainingStart num =>
      obtain ⟨h1, h2⟩ := call_ids dones (.trainingStart num) b x
      obtain ⟨k1, k2⟩ := call_ids dones (.trainingStart num) a (b.call dones (.trainingStart num) x).ext
      simp only [Cb.call, Cb.ids, h2, k2, List.mem_append, List.mem_cons]
      refine ⟨?_, trivial⟩
      intro e he
      rcases he with he | he
      · exact Or.inr (Or.inr (h1 e he))
      · exact Or.inr (Or.inl (k1 e he))
    | updateLocals g =>
      obtain ⟨h1, h2⟩ := call_ids dones (.updateLocals g) b x
      obtain ⟨k1, k2⟩ := call_ids dones (.updateLocals g) a (b.call dones (.updateLocals g) x).ext
      simp only [Cb.call, Cb.ids, h2, k2, List.mem_append, List.mem_cons]
      refine ⟨?_, trivial⟩
      intro e he
      rcases he with he | he
      · exact Or.inr (Or.inr (h1 e he))
      · exact Or.inr (Or.inl (k1 e he))
    | step num =>
      have iha := fun y => call_ids dones (.step num) a y
      have ihb := fun y => call_ids dones (.step num) b y
      simp only [Cb.call]
      split
      · split
        · split
          · simp [Cb.ids, (iha _).2, (ihb _).2]
            intro e he
            rcases he with he | he
            · exact Or.inr (Or.inl ((iha _).1 e he))
            · exact Or.inr (Or.inr ((ihb _).1 e he))
          · simp [Cb.ids, (iha _).2]
            intro e he; exact Or.inr (Or.inl ((iha _).1 e he))
        · simp [Cb.ids, (ihb _).2]
          intro e he; exact Or.inr (Or.inr ((ihb _).1 e he))
      · simp [Cb.ids]
    | rolloutStart => simp [Cb.call, Cb.ids]
    | rolloutEnd => simp [Cb.call, Cb.ids]
    | trainingEnd => simp [Cb.call, Cb.ids]
  | .checkpoint id freq nc nt, x => by
    cases c <;> simp [Cb.call, Cb.ids]
  | .maxEp id m nenv ne nc nt loc, x => by
    cases c <;> simp [Cb.call, Cb.ids]
  | .fn id st fc nc nt loc, x => by
    cases c <;> simp [Cb.call, Cb.ids]
  | .rewardThr id thr nc nt, x => by
    cases c <;> simp [Cb.call, Cb.ids]
  | .noImprove id mx mn lb ni nc nt, x => by
    cases c <;> simp [Cb.call, Cb.ids]
theorem callL_ids (dones : Dones) (c : Call) : ∀ (ts : List Cb) (x : Ext),
    (∀ e ∈ (Cb.callL dones c ts x).evs, e.id ∈ Cb.idsL ts) ∧ Cb.idsL (Cb.callL dones c ts x).cbs = Cb.idsL ts
  | [], x => by simp [Cb.callL, Cb.idsL]
  | t :: ts, x => by
    obtain ⟨h1, h2⟩ := call_ids dones c t x
    obtain ⟨g1, g2⟩ := callL_ids dones c ts (t.call dones c x).ext
    refine ⟨?_, ?_⟩
    · simp only [Cb.callL, Cb.idsL, List.mem_append]
      intro e he
      rcases he with he | he
      · exact Or.inl (h1 e he)
      · exact Or.inr (g1 e he)
    · simp [Cb.callL, Cb.idsL, h2, g2]
end

mutual
theorem step_ok (dones : Dones) (num : Nat) : ∀ (t : Cb) (x : Ext),
    (t.call dones (.step num) x).ok = (t.call dones (.step num) x).evs.all (·.ret)
  | .absent, x => by simp [Cb.call]
  | .leaf id stops nc nt loc, x => by simp [Cb.call]
  | .list id nc nt cs, x => by
    have h := stepL_ok dones num cs x
    simp [Cb.call, h]
  | .everyN id n last nc nt ch, x => by
    have h := fun y => step_ok dones num ch y
    simp only [Cb.call]; split <;> simp_all
  | .eval id freq nc nt best a b, x => by
    have ha := fun y => step_ok dones num a y
    have hb := fun y => step_ok dones num b y
    simp only [Cb.call]
    split
    · split
      · split
        · simp_all [List.all_append]
        · simp_all
      · simp_all
    · simp
  | .checkpoint id freq nc nt, x => by
    simp only [Cb.call]; split <;> simp
  | .maxEp id m nenv ne nc nt loc, x => by simp [Cb.call]
  | .fn id st fc nc nt loc, x => by simp [Cb.call]
  | .rewardThr id thr nc nt, x => by simp [Cb.call]
  | .noImprove id mx mn lb ni nc nt, x => by simp [Cb.call]
theorem stepL_ok (dones : Dones) (num : Nat) : ∀ (ts : List Cb) (x : Ext),
    (Cb.callL dones (.step num) ts x).ok = (Cb.callL dones (.step num) ts x).evs.all (·.ret)
  | [], x => by simp [Cb.callL]
  | t :: ts, x => by
    have h := step_ok dones num t x
    have g := stepL_ok dones num ts (t.call dones (.step num) x).ext
    simp [Cb.callL, h, g, List.all_append]
end

theorem proj_append (id : Nat) (a b : List Event) : proj id (a ++ b) = proj id a ++ proj id b := by
  simp [proj]

theorem proj_nil_of_not_mem (id : Nat) (evs : List Event) (ids : List Nat)
    (h : ∀ e ∈ evs, e.id ∈ ids) (hn : id ∉ ids) : proj id evs = [] := by
  simp only [proj, List.filter_eq_nil_iff]
  intro e he heq
  have : e.id = id := by simpa using heq
  exact hn (this ▸ h e he)

/-- a leaf's events all carry its id and do not depend on the external streams -/
theorem leaf_call (dones : Dones) (c : Call) (id : Nat) (st : List Nat) (nc nt loc : Nat) (x y : Ext) :
    proj id ((Cb.leaf id st nc nt loc).call dones c x).evs = ((Cb.leaf id st nc nt loc).call dones c y).evs ∧
    ((Cb.leaf id st nc nt loc).call dones c x).cb = ((Cb.leaf id st nc nt loc).call dones c y).cb ∧
    ((Cb.leaf id st nc nt loc).call dones c x).ext = x := by
  cases c <;> simp [Cb.call, proj]

theorem leaf_call_isLeaf (dones : Dones) (c : Call) (id : Nat) (st : List Nat) (nc nt loc : Nat) (x : Ext) :
    ∃ nc' nt' loc', ((Cb.leaf id st nc nt loc).call dones c x).cb = Cb.leaf id st nc' nt' loc' := by
  cases c <;> simp [Cb.call]

theorem ids_getElem (cs : List Cb) (i : Nat) (c : Cb) (h : cs[i]? = some c) : ∀ j ∈ c.ids, j ∈ Cb.idsL cs := by
  induction cs generalizing i with
  | nil => simp at h
  | cons t ts ih =>
    cases i with
    | zero => simp at h; subst h; intro j hj; simp [Cb.idsL, hj]
    | succ i => simp at h; intro j hj; simp [Cb.idsL, ih i h j hj]

theorem subAt_ids (p : List Nat) : ∀ (t u : Cb), subAt p t = some u → ∀ j ∈ u.ids, j ∈ t.ids := by
  induction p with
  | nil => intro t u h; simp [subAt] at h; subst h; exact fun j hj => hj
  | cons i p ih =>
    intro t u h j hj
    cases t with
    | list lid nc nt cs =>
      simp only [subAt] at h
      split at h
      · rename_i c hc
        have := ih c u h j hj
        simp [Cb.ids, ids_getElem cs i c hc j this]
      · simp at h
    | _ => simp [subAt] at h

/-- the `i`-th child of a list under one call: its new state and the projection of the list's events -/
theorem callL_at (dones : Dones) (c : Call) (id : Nat) : ∀ (cs : List Cb) (x : Ext) (i : Nat) (ci : Cb),
    cs[i]? = some ci → (Cb.idsL cs).Nodup → id ∈ ci.ids →
    ∃ xi, (Cb.callL dones c cs x).cbs[i]? = some (ci.call dones c xi).cb ∧
      proj id (Cb.callL dones c cs x).evs = proj id (ci.call dones c xi).evs := by
  intro cs
  induction cs with
  | nil => intro x i ci h; simp at h
  | cons t ts ih =>
    intro x i ci h hnd hid
    simp only [Cb.idsL] at hnd
    have hdis := List.nodup_append.mp hnd
    cases i with
    | zero =>
      simp at h; subst h
      refine ⟨x, by simp [Cb.callL], ?_⟩
      simp only [Cb.callL, proj_append]
      have hn : id ∉ Cb.idsL ts := fun hm => hdis.2.2 id hid id hm rfl
      have := proj_nil_of_not_mem id (Cb.callL dones c ts (t.call dones c x).ext).evs (Cb.idsL ts)
        (callL_ids dones c ts _).1 hn
      simp [this]
    | succ i =>
      simp at h
      obtain ⟨xi, h1, h2⟩ := ih (t.call dones c x).ext i ci h hdis.2.1 hid
      refine ⟨xi, by simpa [Cb.callL] using h1, ?_⟩
      simp only [Cb.callL, proj_append]
      have hn : id ∉ t.ids := fun hm => hdis.2.2 id hm id (ids_getElem ts i ci h id hid) rfl
      have := proj_nil_of_not_mem id (t.call dones c x).evs t.ids (call_ids dones c t x).1 hn
      simp [this, h2]


theorem nodup_getElem (cs : List Cb) (i : Nat) (c : Cb) (h : cs[i]? = some c) (hnd : (Cb.idsL cs).Nodup) : c.ids.Nodup := by
  induction cs generalizing i with
  | nil => simp at h
  | cons t ts ih =>
    simp only [Cb.idsL] at hnd
    have hdis := List.nodup_append.mp hnd
    cases i with
    | zero => simp at h; subst h; exact hdis.1
    | succ i => simp at h; exact ih i h hdis.2.1

theorem list_call (dones : Dones) (c : Call) (lid nc nt : Nat) (cs : List Cb) (x : Ext) :
    ∃ nc' nt', ((Cb.list lid nc nt cs).call dones c x).cb = .list lid nc' nt' (Cb.callL dones c cs x).cbs ∧
      ((Cb.list lid nc nt cs).call dones c x).evs = (Cb.callL dones c cs x).evs := by
  cases c <;> simp [Cb.call]

theorem leaf_evs_ext (dones : Dones) (c : Call) (id : Nat) (st : List Nat) (nc nt loc : Nat) (x y : Ext) :
    ((Cb.leaf id st nc nt loc).call dones c x).evs = ((Cb.leaf id st nc nt loc).call dones c y).evs := by
  cases c <;> simp [Cb.call]

theorem call_under_lists (dones : Dones) (c : Call) (id : Nat) (st : List Nat) :
    ∀ (p : List Nat) (t : Cb) (x : Ext) (nc nt loc : Nat),
      t.ids.Nodup → subAt p t = some (.leaf id st nc nt loc) →
      subAt p (t.call dones c x).cb = some ((Cb.leaf id st nc nt loc).call dones c x).cb ∧
        proj id (t.call dones c x).evs = ((Cb.leaf id st nc nt loc).call dones c x).evs := by
  intro p
  induction p with
  | nil =>
    intro t x nc nt loc _ h
    simp [subAt] at h; subst h
    exact ⟨by simp [subAt], (leaf_call dones c id st nc nt loc x x).1⟩
  | cons i p ih =>
    intro t x nc nt loc hnd h
    cases t with
    | list lid lnc lnt cs =>
      simp only [subAt] at h
      split at h
      · rename_i ci hci
        have hnd' : (Cb.idsL cs).Nodup := by
          simp only [Cb.ids] at hnd; exact (List.nodup_cons.mp hnd).2
        have hid : id ∈ ci.ids := subAt_ids p ci _ h id (by simp [Cb.ids])
        obtain ⟨xi, h1, h2⟩ := callL_at dones c id cs x i ci hci hnd' hid
        obtain ⟨nc', nt', e1, e2⟩ := list_call dones c lid lnc lnt cs x
        obtain ⟨g1, g2⟩ := ih ci xi nc nt loc (nodup_getElem cs i ci hci hnd') h
        have hl := leaf_call dones c id st nc nt loc xi x
        refine ⟨?_, ?_⟩
        · rw [e1]; simp only [subAt, h1]; rw [g1, hl.2.1]
        · rw [e2, h2, g2]; exact leaf_evs_ext dones c id st nc nt loc xi x
      · simp at h
    | _ => simp [subAt] at h

theorem evsOf_leaf_ext (dones : Dones) (id : Nat) (st : List Nat) : ∀ (cs : List Call) (nc nt loc : Nat) (x y : Ext),
    Cb.evsOf dones (.leaf id st nc nt loc) x cs = Cb.evsOf dones (.leaf id st nc nt loc) y cs := by
  intro cs
  induction cs with
  | nil => intros; rfl
  | cons c cs ih =>
    intro nc nt loc x y
    obtain ⟨nc', nt', loc', e⟩ := leaf_call_isLeaf dones c id st nc nt loc x
    have hl := leaf_call dones c id st nc nt loc x y
    simp only [Cb.evsOf]
    rw [leaf_evs_ext dones c id st nc nt loc x y, ← hl.2.1, e]
    rw [ih nc' nt' loc' _ ((Cb.leaf id st nc nt loc).call dones c y).ext]

theorem evsOf_under_lists (dones : Dones) (id : Nat) (st : List Nat) :
    ∀ (cs : List Call) (p : List Nat) (t : Cb) (x : Ext) (nc nt loc : Nat),
      t.ids.Nodup → subAt p t = some (.leaf id st nc nt loc) →
      proj id (Cb.evsOf dones t x cs) = Cb.evsOf dones (.leaf id st nc nt loc) x cs := by
  intro cs
  induction cs with
  | nil => intros; rfl
  | cons c cs ih =>
    intro p t x nc nt loc hnd h
    obtain ⟨h1, h2⟩ := call_under_lists dones c id st p t x nc nt loc hnd h
    obtain ⟨nc', nt', loc', e⟩ := leaf_call_isLeaf dones c id st nc nt loc x
    have hnd' : (t.call dones c x).cb.ids.Nodup := by rw [(call_ids dones c t x).2]; exact hnd
    simp only [Cb.evsOf, proj_append, h2]
    rw [e] at h1
    rw [ih p _ (t.call dones c x).ext nc' nt' loc' hnd' h1, e]
    rw [evsOf_leaf_ext dones id st cs nc' nt' loc' _ ((Cb.leaf id st nc nt loc).call dones c x).ext]

theorem feedAll_evs (dones : Dones) : ∀ (cs : List Call) (r : Run),
    (Run.feedAll dones r cs).evs = r.evs ++ Cb.evsOf dones r.cb r.ext cs := by
  intro cs
  induction cs with
  | nil => intro r; simp [Run.feedAll, Cb.evsOf]
  | cons c cs ih =>
    intro r
    have := ih (r.feed dones c).1
    simp only [Run.feedAll, List.foldl_cons] at this ⊢
    rw [this]; simp [Run.feed, Cb.evsOf]

theorem events_eq_evsOf (dones : Dones) (t : Cb) (x : Ext) (cs : List Call) :
    Cb.events dones t x cs = Cb.evsOf dones t x cs := by
  simp [Cb.events, feedAll_evs]



theorem checkpoint_evs (dones : Dones) (id f : Nat) : ∀ (cs : List Call) (nc nt : Nat) (x : Ext),
    Cb.evsOf dones (.checkpoint id f nc nt) x cs = everyKthCall id .save f nc (callNums cs) := by
  intro cs
  induction cs with
  | nil => intros; simp [Cb.evsOf, everyKthCall, callNums]
  | cons c cs ih =>
    intro nc nt x
    cases c with
    | step num =>
      simp only [Cb.evsOf, Cb.call, callNums, ih]
      simp only [everyKthCall, List.zipIdx_cons, List.filter_cons, checkpointDue]
      split <;> simp_all
    | _ => simp [Cb.evsOf, Cb.call, callNums, ih]

theorem evsOf_append (dones : Dones) : ∀ (a b : List Call) (t : Cb) (x : Ext),
    Cb.evsOf dones t x (a ++ b) =
      Cb.evsOf dones t x a ++ Cb.evsOf dones (Cb.after dones t x a).1 (Cb.after dones t x a).2 b := by
  intro a
  induction a with
  | nil => intros; simp [Cb.evsOf, Cb.after]
  | cons c a ih => intro b t x; simp [Cb.evsOf, Cb.after, ih]

theorem after_append (dones : Dones) : ∀ (a b : List Call) (t : Cb) (x : Ext),
    Cb.after dones t x (a ++ b) = Cb.after dones (Cb.after dones t x a).1 (Cb.after dones t x a).2 b := by
  intro a
  induction a with
  | nil => intros; simp [Cb.after]
  | cons c a ih => intro b t x; simp [Cb.after, ih]

theorem stepTimes_append (id : Nat) (a b : List Event) : stepTimes id (a ++ b) = stepTimes id a ++ stepTimes id b := by
  simp [stepTimes, proj]

/-- core of the EveryNTimesteps cadence: from a state that is armed at `a` (`a ≤ num < a + n`), `k` more
vectorised steps of `d` timesteps each. -/
theorem everyN_segment (dones : Dones) (id n d cid : Nat) (st : List Nat) (hn : 0 < n) :
    ∀ (k a num g0 nc nt lnc lnt lloc : Nat) (x : Ext), a ≤ num → num < a + n →
      let X := Cb.everyN id n a nc nt (.leaf cid st lnc lnt lloc)
      let T := stepTimes cid (Cb.evsOf dones X x (segmentCalls num d g0 k))
      gapsWithin n (n + d) a T ∧ T.getLastD a ≤ num + k * d ∧ num + k * d < T.getLastD a + n ∧
        ∃ nc' nt' lnc' lnt' lloc', (Cb.after dones X x (segmentCalls num d g0 k)).1 =
          Cb.everyN id n (T.getLastD a) nc' nt' (.leaf cid st lnc' lnt' lloc') := by
  intro k
  induction k with
  | zero =>
    intro a num g0 nc nt lnc lnt lloc x h1 h2
    simp [segmentCalls, Cb.evsOf, Cb.after, stepTimes, proj, gapsWithin]
    omega
  | succ k ih =>
    intro a num g0 nc nt lnc lnt lloc x h1 h2
    simp only [segmentCalls, Cb.evsOf, Cb.after, Cb.call, List.nil_append, ext_restore]
    by_cases hdue : a + n ≤ num + d
    · have hd : everyNDue n a (num + d) = true := by simp [everyNDue, hdue]
      simp only [hd, if_true]
      obtain ⟨g1, g2, g3, g4⟩ := ih (num + d) (num + d) (g0 + 1) (nc + 1) (num + d) (lnc + 1) (num + d) (g0 + 1)
        x (Nat.le_refl _) (by omega)
      simp only [stepTimes_append]
      have e : stepTimes cid [⟨cid, Kind.step, lnc + 1, num + d, g0 + 1, !st.contains (lnc + 1)⟩] = [num + d] := by
        simp [stepTimes, proj]
      simp only [e, List.singleton_append, gapsWithin, List.getLastD_cons]
      refine ⟨⟨hdue, by omega, g1⟩, ?_, ?_, g4⟩
      · have : num + d + k * d = num + (k + 1) * d := by rw [Nat.succ_mul]; omega
        omega
      · have : num + d + k * d = num + (k + 1) * d := by rw [Nat.succ_mul]; omega
        omega
    · have hd : everyNDue n a (num + d) = false := by simp [everyNDue]; omega
      simp only [hd]
      obtain ⟨g1, g2, g3, g4⟩ := ih a (num + d) (g0 + 1) (nc + 1) (num + d) lnc lnt (g0 + 1) x (by omega) (by omega)
      have : num + d + k * d = num + (k + 1) * d := by rw [Nat.succ_mul]; omega
      simp only [Bool.false_eq_true, if_false, List.nil_append]
      exact ⟨g1, by omega, by omega, g4⟩



theorem eventsOfKind_append (id : Nat) (k : Kind) (a b : List Event) :
    eventsOfKind id k (a ++ b) = eventsOfKind id k a ++ eventsOfKind id k b := by simp [eventsOfKind]

theorem eventsOfKind_nil_of_not_mem (id : Nat) (k : Kind) (evs : List Event) (ids : List Nat)
    (h : ∀ e ∈ evs, e.id ∈ ids) (hn : id ∉ ids) : eventsOfKind id k evs = [] := by
  simp only [eventsOfKind, List.filter_eq_nil_iff]
  intro e he heq
  have : e.id = id := by simp at heq; exact heq.1
  exact hn (this ▸ h e he)

def stepInc : Call → Nat
  | .step _ => 1
  | _ => 0

theorem eval_call (dones : Dones) (c : Call) (id freq nc nt : Nat) (best : Option Rat) (a b : Cb) (x : Ext)
    (ha : id ∉ a.ids) (hb : id ∉ b.ids) :
    ∃ nt' best' a' b', ((Cb.eval id freq nc nt best a b).call dones c x).cb =
        .eval id freq (nc + stepInc c) nt' best' a' b' ∧ a'.ids = a.ids ∧ b'.ids = b.ids ∧
      eventsOfKind id .evalRun ((Cb.eval id freq nc nt best a b).call dones c x).evs =
        (match c with
          | .step num => if evalDue freq (nc + 1) then [⟨id, .evalRun, nc + 1, num, 0, true⟩] else []
          | _ => []) := by
  have nil : ∀ (t : Cb) (c : Call) (y : Ext), id ∉ t.ids → eventsOfKind id .evalRun (t.call dones c y).evs = [] :=
    fun t c y h => eventsOfKind_nil_of_not_mem id _ _ t.ids (call_ids dones c t y).1 h
  cases c with
  | trainingStart num =>
    exact ⟨_, _, _, _, rfl, (call_ids dones _ a _).2, (call_ids dones _ b x).2,
      by simp [Cb.call, eventsOfKind_append, nil b _ x hb, nil a _ _ ha]⟩
  | updateLocals g =>
    exact ⟨_, _, _, _, rfl, (call_ids dones _ a _).2, (call_ids dones _ b x).2,
      by simp [Cb.call, eventsOfKind_append, nil b _ x hb, nil a _ _ ha]⟩
  | rolloutStart => exact ⟨_, _, _, _, rfl, rfl, rfl, by simp [Cb.call, eventsOfKind]⟩
  | rolloutEnd => exact ⟨_, _, _, _, rfl, rfl, rfl, by simp [Cb.call, eventsOfKind]⟩
  | trainingEnd => exact ⟨_, _, _, _, rfl, rfl, rfl, by simp [Cb.call, eventsOfKind]⟩
  | step num =>
    simp only [Cb.call, stepInc]
    split
    · split
      · split
        · refine ⟨_, _, _, _, rfl, (call_ids dones _ a _).2, (call_ids dones _ b _).2, ?_⟩
          rw [show ∀ (e : Event) (l : List Event), e :: l = [e] ++ l from fun _ _ => rfl, eventsOfKind_append,
            eventsOfKind_append, nil a _ _ ha, nil b _ _ hb]
          simp [eventsOfKind]
        · refine ⟨_, _, _, _, rfl, (call_ids dones _ a _).2, rfl, ?_⟩
          rw [show ∀ (e : Event) (l : List Event), e :: l = [e] ++ l from fun _ _ => rfl, eventsOfKind_append,
            nil a _ _ ha]
          simp [eventsOfKind]
      · refine ⟨_, _, _, _, rfl, rfl, (call_ids dones _ b _).2, ?_⟩
        rw [show ∀ (e : Event) (l : List Event), e :: l = [e] ++ l from fun _ _ => rfl, eventsOfKind_append,
          nil b _ _ hb]
        simp [eventsOfKind]
    · exact ⟨_, _, _, _, rfl, rfl, rfl, by simp [eventsOfKind]⟩

theorem eval_evs (dones : Dones) (id freq : Nat) : ∀ (cs : List Call) (nc nt : Nat) (best : Option Rat) (a b : Cb) (x : Ext),
    id ∉ a.ids → id ∉ b.ids →
    eventsOfKind id .evalRun (Cb.evsOf dones (.eval id freq nc nt best a b) x cs) =
      everyKthCall id .evalRun freq nc (callNums cs) := by
  intro cs
  induction cs with
  | nil => intros; simp [Cb.evsOf, everyKthCall, callNums, eventsOfKind]
  | cons c cs ih =>
    intro nc nt best a b x ha hb
    obtain ⟨nt', best', a', b', e1, e2, e3, e4⟩ := eval_call dones c id freq nc nt best a b x ha hb
    simp only [Cb.evsOf, eventsOfKind_append, e4, e1]
    rw [ih _ _ _ _ _ _ (e2 ▸ ha) (e3 ▸ hb)]
    cases c with
    | step num =>
      simp only [stepInc, callNums, everyKthCall, List.zipIdx_cons, List.filter_cons, evalDue]
      by_cases hf : 0 < freq
      · by_cases hm : (nc + 1) % freq = 0 <;> simp [hf, hm]
      · have : freq = 0 := by omega
        subst this
        simp
    | _ => simp [stepInc, callNums]


/-- one whole `learn` seen by an `EveryNTimesteps` node: `on_training_start(num0)` then `k` vectorised steps -/
theorem everyN_learn (dones : Dones) (id n d cid : Nat) (st : List Nat) (hn : 0 < n)
    (k last num0 g0 nc nt lnc lnt lloc : Nat) (x : Ext) (hno : num0 < min last num0 + n) :
    let X := Cb.everyN id n last nc nt (.leaf cid st lnc lnt lloc)
    let calls := Call.trainingStart num0 :: segmentCalls num0 d g0 k
    let T := stepTimes cid (Cb.evsOf dones X x calls)
    let a := min last num0
    gapsWithin n (n + d) a T ∧ T.getLastD a ≤ num0 + k * d ∧ num0 + k * d < T.getLastD a + n ∧
      ∃ nc' nt' lnc' lnt' lloc', (Cb.after dones X x calls).1 =
        Cb.everyN id n (T.getLastD a) nc' nt' (.leaf cid st lnc' lnt' lloc') := by
  have h := everyN_segment dones id n d cid st hn k (min last num0) num0 g0 nc num0 lnc num0 0 x
    (Nat.min_le_right _ _) hno
  simp only [Cb.evsOf, Cb.after, Cb.call, stepTimes_append]
  have e : stepTimes cid [⟨cid, Kind.trainingStart, lnc, num0, 0, true⟩] = [] := by simp [stepTimes, proj]
  simp only [e, List.nil_append]
  exact h

theorem foldH_tree (dones : Dones) (r : Run) (cs : List Call) :
    foldH (treeHandler dones) r cs = Run.feedAll dones r cs := by
  simp [foldH, Run.feedAll, treeHandler]

/-- the events a tree emitted during a `learn` are its events for the calls of the trace -/
theorem learn_evs (cfg : Cfg) (fuel prevNum g0 : Nat) (r : Run) (totalArg : Nat) (reset : Bool) :
    (learn cfg fuel prevNum g0 r totalArg reset).cb.evs =
      Cb.evsOf cfg.dones r.cb r.ext ((learn cfg fuel prevNum g0 r totalArg reset).trace.map (·.1)) := by
  have h := cb_runN cfg (treeHandler cfg.dones) { r with evs := [] } fuel
    (LS.setup prevNum g0 { r with evs := [] } totalArg reset) (by simp [LS.setup, foldH])
  unfold learn
  rw [h, foldH_tree, feedAll_evs]
  simp

/-! ### termination of `learn` with step-counted rollouts -/

section Term
variable {σ : Type}

/-- potential: an upper bound on the number of control-flow steps still to be made -/
def phi (k d : Nat) (s : LS σ) : Nat :=
  match s.pc with
  | .done => 0
  | .finish => 1
  | .loopHead => 2 + (k + 3) * (s.total - s.num)
  | .start => 3 + (k + 3) * (s.total - s.num)
  | .rolloutTail => 3 + (k + 3) * (s.total - s.num)
  | .inRollout c _ => 4 + (k - c) + (k + 3) * (s.total - (s.num + (k - c) * d))

theorem phi_next (cfg : Cfg) (h : σ → Call → σ × Bool) (k : Nat) (hk : 0 < k) (hd : 0 < cfg.nEnvs)
    (hkind : cfg.kind = .steps k) (s : LS σ) (hpc : s.pc ≠ .done) :
    phi k cfg.nEnvs (s.next cfg h) < phi k cfg.nEnvs s := by
  unfold LS.next
  split
  · rename_i hp; simp [phi, hp]
  · rename_i hp
    split
    · rename_i hlt
      simp only [phi, hp, invoke_num, invoke_total, Nat.sub_zero]
      have hK : 0 < k * cfg.nEnvs := Nat.mul_pos hk hd
      generalize k * cfg.nEnvs = K at hK
      have h1 : s.total - (s.num + K) + 1 ≤ s.total - s.num := by omega
      have h2 := Nat.mul_le_mul_left (k + 3) h1
      rw [Nat.mul_succ] at h2
      omega
    · simp [phi, hp]; omega
  · rename_i c e hp
    split
    · rename_i hm
      have hc : c < k := by simpa [hkind, RolloutKind.more] using hm
      simp only [LS.invoke]
      generalize h s.cb (Call.updateLocals (s.g + 1)) = r1
      generalize h r1.1 (Call.step (s.num + cfg.nEnvs)) = r2
      rcases r2 with ⟨cb2, ok2⟩
      cases ok2
      · simp [phi, hp]; omega
      · simp only [phi, hp, cond_true]
        have e : (k - c) * cfg.nEnvs = cfg.nEnvs + (k - (c + 1)) * cfg.nEnvs := by
          have : k - c = (k - (c + 1)) + 1 := by omega
          rw [this, Nat.succ_mul]; omega
        rw [e]
        have : s.num + cfg.nEnvs + (k - (c + 1)) * cfg.nEnvs = s.num + (cfg.nEnvs + (k - (c + 1)) * cfg.nEnvs) := by omega
        rw [this]
        omega
    · rename_i hm
      have hc : k ≤ c := by
        have : ¬ c < k := by simpa [hkind, RolloutKind.more] using hm
        omega
      have : k - c = 0 := by omega
      simp [phi, hp, this]
  · rename_i hp
    cases cfg.onPolicy <;> simp [phi, hp]
  · rename_i hp; simp [phi, hp]
  · rename_i hp; exact absurd hp hpc

theorem runN_terminates (cfg : Cfg) (h : σ → Call → σ × Bool) (k : Nat) (hk : 0 < k) (hd : 0 < cfg.nEnvs)
    (hkind : cfg.kind = .steps k) : ∀ (n : Nat) (s : LS σ), phi k cfg.nEnvs s ≤ n → (LS.runN cfg h n s).pc = .done := by
  intro n
  induction n with
  | zero =>
    intro s hs
    cases hp : s.pc <;> simp [phi, hp] at hs
    simpa [LS.runN] using hp
  | succ n ih =>
    intro s hs
    by_cases hp : s.pc = .done
    · rw [runN_done cfg h _ s hp]; exact hp
    · have := phi_next cfg h k hk hd hkind s hp
      exact ih _ (by omega)

end Term

/-! ### function callbacks, reward threshold, no-improvement, max-episodes -/

theorem fn_is_leaf (dones : Dones) (id : Nat) (st : List Nat) : ∀ (cs : List Call) (n nt loc : Nat) (x : Ext),
    Cb.evsOf dones (.fn id st n n nt loc) x cs =
      (Cb.evsOf dones (.leaf id st n nt loc) x cs).filter (fun e => e.kind == .step) := by
  intro cs
  induction cs with
  | nil => intros; simp [Cb.evsOf]
  | cons c cs ih =>
    intro n nt loc x
    cases c <;> simp [Cb.evsOf, Cb.call, ih]

theorem noImp_feed (dones : Dones) (id maxNo minEvals : Nat) :
    ∀ (bs : List (Option Rat)) (h : List Bool) (last : Option Rat) (noImp nc nt : Nat) (x : Ext),
      noImp = streak h → (nc < minEvals → noImp = 0) →
      feedBests dones (.noImprove id maxNo minEvals last noImp nc nt) x bs = noImpSpec maxNo minEvals h nc last bs := by
  intro bs
  induction bs with
  | nil => intros; simp [feedBests, noImpSpec]
  | cons b bs ih =>
    intro h last noImp nc nt x h1 h2
    simp only [feedBests, noImpSpec]
    by_cases hc : minEvals < nc + 1
    · by_cases hi : gtBest b last = true
      · congr 1
        · simp [Cb.call, Ext.setP, hc, hi, streak]
        · simp only [Cb.call, Ext.setP, Option.getD_some, hc, hi, decide_true, if_true]
          exact ih _ b 0 (nc + 1) 0 _ (by simp [streak]) (by omega)
      · have hi' : gtBest b last = false := by simpa using hi
        congr 1
        · simp [Cb.call, Ext.setP, hc, hi', streak, h1]
        · simp only [Cb.call, Ext.setP, Option.getD_some, hc, hi', decide_true, if_true, Bool.false_eq_true, if_false]
          exact ih _ b (noImp + 1) (nc + 1) 0 _ (by simp [streak, h1]) (by omega)
    · have hz : noImp = 0 := h2 (by omega)
      congr 1
      · simp [Cb.call, Ext.setP, hc, streak]
      · simp only [Cb.call, Ext.setP, Option.getD_some, hc, decide_false, Bool.false_eq_true, if_false]
        exact ih _ b noImp (nc + 1) 0 _ (by simp [streak, hz]) (fun _ => hz)

theorem maxEp_segment (dones : Dones) (id M n d : Nat) : ∀ (k num g0 nEp nc nt loc : Nat) (x : Ext),
    Cb.evsOf dones (.maxEp id M n nEp nc nt loc) x (segmentCalls num d g0 k) =
      (List.range k).map (fun i => (⟨id, .step, nc + i + 1, num + (i + 1) * d, g0 + i + 1,
        decide (nEp + cumDones dones g0 (i + 1) < M * n)⟩ : Event)) := by
  intro k
  induction k with
  | zero => intros; simp [segmentCalls, Cb.evsOf]
  | succ k ih =>
    intro num g0 nEp nc nt loc x
    simp only [segmentCalls, Cb.evsOf, Cb.call, List.nil_append, ih, List.range_succ_eq_map, List.map_cons,
      List.map_map, List.singleton_append]
    congr 1
    · simp only [cumDones, Nat.add_zero, Nat.zero_add, Nat.one_mul, Event.mk.injEq, true_and]
      exact decide_eq_decide.mpr Iff.rfl
    · apply List.map_congr_left
      intro i _
      simp only [Function.comp, Event.mk.injEq, true_and]
      refine ⟨by omega, ?_, by omega, ?_⟩
      · rw [Nat.succ_mul (i + 1)]; omega
      · apply decide_eq_decide.mpr
        rw [show cumDones dones g0 (i.succ + 1) = dones (g0 + 1) + cumDones dones (g0 + 1) (i + 1) from rfl]
        omega


/-- how many events the cadence specification contains: the multiples of `f` in `(nc, nc + number of calls]` -/
theorem everyKthCall_length (id : Nat) (kind : Kind) (f nc : Nat) (nums : List Nat) :
    (everyKthCall id kind f nc nums).length = (nc + nums.length) / f - nc / f := by
  induction nums generalizing nc with
  | nil => simp [everyKthCall]
  | cons a t ih =>
    have ih' := ih (nc + 1)
    simp only [everyKthCall, List.length_map] at ih' ⊢
    rw [List.zipIdx_cons, List.filter_cons]
    have hs : (nc + 1) / f = nc / f + (if f ∣ nc + 1 then 1 else 0) := Nat.succ_div
    have hmono : (nc + 1) / f ≤ (nc + 1 + t.length) / f := Nat.div_le_div_right (by omega)
    have e : nc + (a :: t).length = nc + 1 + t.length := by simp [List.length_cons]; omega
    rw [e]
    by_cases hd : f ∣ nc + 1
    · have hm : (nc + 1) % f = 0 := Nat.mod_eq_zero_of_dvd hd
      simp only [hm, beq_self_eq_true, if_true, List.length_cons, ih']
      simp only [hd, if_true] at hs
      omega
    · have hm : ((nc + 1) % f == 0) = false := by
        simp only [beq_eq_false_iff_ne, ne_eq]; exact fun h => hd (Nat.dvd_of_mod_eq_zero h)
      simp only [hm, Bool.false_eq_true, if_false, ih']
      simp only [hd, if_false] at hs
      omega

end SB3Verif.Callback.Lemmas
