/-
C15 — VecNormalize statistics and transforms.

Property theorems only (helper lemmas: `SB3Verif/Lemmas/RunningMeanStd.lean`, `SB3Verif/Lemmas/VecNormalize.lean`).
All statements are about the executable models `SB3Verif/Model/RunningMeanStd.lean` and
`SB3Verif/Model/VecNormalize.lean`, whose definitions the driver `SB3Verif/Driver/C15.lean` runs against the
real `RunningMeanStd` / `VecNormalize` / `sync_envs_normalization`.

Scalars: any linearly ordered field `α`; the square root is an arbitrary function (`HasSqrt α`), the only
thing ever needed about it is `sqrt (var + eps) ≠ 0`, which is shown for `Real.sqrt` and for the executed
`ratSqrt` at the end.

Three places where the code does not satisfy the property sentence as written are stated at full strength,
refuted by a concrete witness (`…_counterexample`, replayed on the implementation by the harness) and proved
under the missing hypothesis (`…_partial`):
  * observation statistics skip the batches returned while `norm_obs` is off, even in training mode;
  * the return accumulator stands still while `training` is off, so after training is switched back on
    inside an episode it is not the discounted return of that episode;
  * a wrapper built with `norm_obs=False` has no `obs_rms`: switching `norm_obs` on later fails.
-/
import SB3Verif.Lemmas.VecNormalize

set_option linter.unusedSectionVars false

namespace SB3Verif.C15

open SB3Verif.RMS SB3Verif.VecNorm

variable {α : Type} [Field α] [LinearOrder α] [IsStrictOrderedRing α]

/-! ## 1. `RunningMeanStd`: the statistics are the moments of the stream, however it was batched -/

/-- **Parallel-variance merge is exact**: merging the moments of a non-empty sample `A` with the batch
moments of `B` gives exactly the moments (mean, population variance, size) of `A ++ B`. -/
theorem merge_exact (A B : List α) (hA : A ≠ []) :
    updateFromMoments (momentsOf A) (batchMean B) (batchVar B) (B.length : α) = momentsOf (A ++ B) :=
  Lemmas.RMS.merge_momentsOf A B hA

/-- The merge adds weighted power sums `(count, count·mean, count·(var + mean²))` — for any statistics, any
batch moments and any (possibly fractional) batch count with non-zero total. -/
theorem merge_adds_power_sums (s : Mom α) (bm bv bc : α) (h : s.count + bc ≠ 0) :
    (updateFromMoments s bm bv bc).toSums = s.toSums.add ⟨bc, bm * bc, (bv + bm * bm) * bc⟩ :=
  Lemmas.RMS.toSums_updateFromMoments s bm bv bc h

/-- `combine(other)` adds the power sums of two running statistics (each with its own prior weight). -/
theorem combine_adds_power_sums (a b : Mom α) (ha : 0 < a.count) (hb : 0 < b.count) :
    (combine a b).toSums = a.toSums.add b.toSums := by
  unfold combine
  rw [Lemmas.RMS.toSums_updateFromMoments _ _ _ _ (ne_of_gt (by linarith))]
  rfl

/-- **However the stream was batched**: folding `update` over any list of batches equals one `update` with
the concatenated stream (prior of positive weight; empty batches allowed). -/
theorem update_fold_eq_concat (p : Mom α) (bs : List (List α)) (hp : 0 < p.count) :
    updateAll p bs = update p bs.flatten :=
  Lemmas.RMS.updateAll_eq_update_flatten p bs hp

/-- Two batch splits of the same stream give the same statistics. -/
theorem batch_split_irrelevant (p : Mom α) (bs bs' : List (List α)) (hp : 0 < p.count)
    (h : bs.flatten = bs'.flatten) : updateAll p bs = updateAll p bs' := by
  rw [update_fold_eq_concat p bs hp, update_fold_eq_concat p bs' hp, h]

/-- **Closed form** after any sequence of batches with concatenation `xs`, `N = |xs|`, prior `(m₀, v₀, c₀)`:
`count = c₀ + N`, `mean = (c₀ m₀ + Σx)/(c₀ + N)`, `var = (c₀ (v₀ + m₀²) + Σx²)/(c₀ + N) − mean²`. -/
theorem stats_closed_form (p : Mom α) (bs : List (List α)) (hp : 0 < p.count) :
    (updateAll p bs).count = p.count + (bs.flatten.length : α) ∧
    (updateAll p bs).mean = (p.mean * p.count + lsum bs.flatten) / (p.count + (bs.flatten.length : α)) ∧
    (updateAll p bs).var =
      ((p.var + p.mean * p.mean) * p.count + lsum (bs.flatten.map fun x => x * x)) /
          (p.count + (bs.flatten.length : α)) -
        (updateAll p bs).mean * (updateAll p bs).mean := by
  have h := Lemmas.RMS.updateAll_eq_toMom p bs hp
  refine ⟨?_, ?_, ?_⟩
  · rw [h]; rfl
  · rw [h]; rfl
  · conv_lhs => rw [h]
    conv_rhs => rw [h]
    rfl

/-- **Two-pass form**: with `μ` the running mean, `count · var = c₀ (v₀ + (m₀ − μ)²) + Σ (x − μ)²` — the
variance is the weighted mean squared deviation of the prior pseudo-sample and of every value of the stream. -/
theorem stats_two_pass (p : Mom α) (bs : List (List α)) (hp : 0 < p.count) :
    (updateAll p bs).var * (updateAll p bs).count =
      p.count * (p.var + (p.mean - (updateAll p bs).mean) * (p.mean - (updateAll p bs).mean)) +
        lsum (bs.flatten.map fun x => (x - (updateAll p bs).mean) * (x - (updateAll p bs).mean)) := by
  obtain ⟨hc, hm, hv⟩ := stats_closed_form p bs hp
  have hN : (0 : α) ≤ (bs.flatten.length : α) := Nat.cast_nonneg _
  have hW : p.count + (bs.flatten.length : α) ≠ 0 := ne_of_gt (by linarith)
  have hS1 : lsum bs.flatten = (updateAll p bs).mean * (p.count + (bs.flatten.length : α)) - p.mean * p.count := by
    rw [hm]; field_simp; ring
  rw [Lemmas.RMS.lsum_sq_dev, hv, hc, hS1]
  field_simp
  ring

/-- Default prior of the code (`mean 0, var 1, count ε₀`): `mean = Σx/(ε₀+N)`, `var = (ε₀ + Σx²)/(ε₀+N) − mean²`. -/
theorem stats_default_prior (eps0 : α) (bs : List (List α)) (h0 : 0 < eps0) :
    (updateAll (Mom.prior eps0) bs).count = eps0 + (bs.flatten.length : α) ∧
    (updateAll (Mom.prior eps0) bs).mean = lsum bs.flatten / (eps0 + (bs.flatten.length : α)) ∧
    (updateAll (Mom.prior eps0) bs).var =
      (eps0 + lsum (bs.flatten.map fun x => x * x)) / (eps0 + (bs.flatten.length : α)) -
        (updateAll (Mom.prior eps0) bs).mean * (updateAll (Mom.prior eps0) bs).mean := by
  obtain ⟨hc, hm, hv⟩ := stats_closed_form (Mom.prior eps0) bs h0
  refine ⟨hc, ?_, ?_⟩
  · rw [hm]; simp [Mom.prior]
  · rw [hv]; simp [Mom.prior]

/-- The running variance never becomes negative (so `var + eps > 0` whenever `eps > 0`). -/
theorem var_nonneg (p : Mom α) (bs : List (List α)) (hv : 0 ≤ p.var) (hp : 0 < p.count) :
    0 ≤ (updateAll p bs).var :=
  Lemmas.RMS.var_updateAll_nonneg p bs hv hp

/-- The count stays positive. -/
theorem count_pos (p : Mom α) (bs : List (List α)) (hp : 0 < p.count) : 0 < (updateAll p bs).count :=
  Lemmas.RMS.count_updateAll_pos p bs hp

/-! ## 2. `VecNormalize`: which batches reach the statistics -/

variable [HasSqrt α]

/-- **Observation statistics along any history** (every sequence of reset / step / toggles / save-load, every
space, every `n_envs`): `obs_rms` is the fold of the per-key, per-coordinate `update` over exactly the
observation batches returned by `reset`/`step` while `training` and `norm_obs` were both on. Terminal
observations are never absorbed. -/
theorem obs_stats_track_absorbed (s : VN α) (evs : List (Ev α)) :
    (s.run evs).obsRms = (absorbedObs s.training s.normObs evs).foldl updateObsRms s.obsRms :=
  Lemmas.VecNorm.run_obsRms s evs

/-- **Partial (hypothesis: `norm_obs` is on and is never switched off)**: for every normalised key `k` and
coordinate `j`, the statistic equals one `update` of the initial value with the concatenation of column
`(k, j)` of *every* observation batch returned by `reset`/`step` in training mode — hence (by
`stats_closed_form`) the exact moments of that stream, whatever `n_envs` and however it was batched. -/
theorem obs_stats_track_stream_partial (s : VN α) (evs : List (Ev α)) (k : String) (ms : List (Mom α)) (j : ℕ)
    (hno : s.normObs = true) (hnever : ∀ e ∈ evs, e ≠ Ev.setNormObs false)
    (hk : s.obsRms.lookup k = some ms) (hj : j < ms.length) (hc : 0 < (ms[j]).count)
    (hshape : ∀ b ∈ trainingObs s.training evs, ∃ a, b.lookup k = some a ∧ a.length = ms.length) :
    ∃ ms', (s.run evs).obsRms.lookup k = some ms' ∧
      ms'[j]? = some (update (ms[j]) ((trainingObs s.training evs).map (column k j)).flatten) := by
  refine ⟨(trainingObs s.training evs).foldl (Lemmas.VecNorm.keyStep k) ms, ?_, ?_⟩
  · rw [Lemmas.VecNorm.run_obsRms, hno, Lemmas.VecNorm.absorbedObs_eq_trainingObs _ _ hnever,
      Lemmas.VecNorm.foldl_updateObsRms_lookup, hk]
    rfl
  · rw [Lemmas.VecNorm.foldl_keyStep_getElem? k ms _ hshape j hj, Lemmas.RMS.updateAll_eq_update_flatten _ _ hc]

/-- **Full-strength statement fails**: "in training mode the statistics are the moments of every batch
returned so far" — with `norm_obs` switched off the wrapper stays in training mode, returns a batch, and the
statistics do not move. Witness: one environment, one coordinate, `norm_obs := False; reset() → 3`. -/
theorem obs_stats_track_stream_counterexample :
    ∃ (s : VN ℚ) (evs : List (Ev ℚ)), s.training = true ∧ s.hasObsRms = true ∧
      (s.run evs).obsRms ≠ (trainingObs s.training evs).foldl updateObsRms s.obsRms :=
  ⟨VN.init ⟨10, 10, 1, 0⟩ 1 true true true 1 [("", 1)],
   [Ev.setNormObs false, Ev.reset [("", [[3]])]], rfl, rfl, by decide +kernel⟩

/-- Keys outside `norm_obs_keys` have no statistics, before and after. -/
theorem stats_keys_fixed (s : VN α) (evs : List (Ev α)) :
    (s.run evs).obsRms.map Prod.fst = s.obsRms.map Prod.fst := by
  rw [Lemmas.VecNorm.run_obsRms]
  generalize absorbedObs s.training s.normObs evs = bs
  generalize s.obsRms = rms
  induction bs generalizing rms with
  | nil => rfl
  | cons b bs ih => rw [List.foldl_cons, ih, Lemmas.VecNorm.updateObsRms_keys]

/-- **Return statistics along any history** started from zero accumulators: the accumulator of every
environment is `discRet γ` (= `Σ γ^(n-1-i) rᵢ`) of the rewards `retTrace` lists for it — appended by every
training-mode step, emptied when the environment finishes an episode, by `reset` and by loading — and
`ret_rms` is the fold of `update` over the vectors of these discounted returns, one per training-mode step. -/
theorem ret_stats_track_returns (s : VN α) (evs : List (Ev α)) (h0 : s.returns = List.replicate s.nEnvs 0) :
    (s.run evs).returns =
        (retTrace s.cfg.gamma s.nEnvs s.training (List.replicate s.nEnvs []) evs).1.map (discRet s.cfg.gamma) ∧
      (s.run evs).retRms =
        updateAll s.retRms (retTrace s.cfg.gamma s.nEnvs s.training (List.replicate s.nEnvs []) evs).2 := by
  have h := Lemmas.VecNorm.run_ret s (List.replicate s.nEnvs []) evs (by
    rw [h0, List.map_replicate, Lemmas.VecNorm.discRet_nil])
  exact ⟨h.1, h.2.1⟩

/-- The accumulator recursion `R ← R·γ + r` from `0` is the discounted sum `Σ_i γ^(n-1-i) · rᵢ`. -/
theorem discounted_return_closed_form (γ : α) (rs : List α) :
    discRet γ rs = ∑ i ∈ Finset.range rs.length, γ ^ (rs.length - 1 - i) * rs.getD i 0 :=
  Lemmas.VecNorm.discRet_closed γ rs

/-- **Partial (hypothesis: training is on and never switched off)**: the accumulators are the discounted
returns of the rewards of the *running episodes* (every reward since the episode began). -/
theorem ret_stats_track_returns_partial (s : VN α) (evs : List (Ev α)) (h0 : s.returns = List.replicate s.nEnvs 0)
    (htr : s.training = true) (hnever : ∀ e ∈ evs, e ≠ Ev.setTraining false) :
    (s.run evs).returns =
      (episodeRewards s.nEnvs (List.replicate s.nEnvs []) evs).map (discRet s.cfg.gamma) := by
  rw [(ret_stats_track_returns s evs h0).1, htr, Lemmas.VecNorm.retTrace_eq_episodeRewards _ _ _ _ hnever]

/-- **Full-strength statement fails**: with `training` switched off for one step and on again inside an
episode the accumulator misses that step's reward: it holds `1`, the episode's discounted return is `2`
(`γ = 1`, rewards `1, 1`, no episode end). -/
theorem ret_stats_track_returns_counterexample :
    ∃ (s : VN ℚ) (evs : List (Ev ℚ)), s.returns = List.replicate s.nEnvs 0 ∧
      (s.run evs).returns ≠ (episodeRewards s.nEnvs (List.replicate s.nEnvs []) evs).map (discRet s.cfg.gamma) :=
  ⟨VN.init ⟨10, 10, 1, 0⟩ 1 true false true 1 [],
   [Ev.reset [("", [[0]])], Ev.setTraining false, Ev.step [("", [[0]])] [1] [false] [none],
    Ev.setTraining true, Ev.step [("", [[0]])] [1] [false] [none]], rfl, by decide +kernel⟩

/-- **Accumulators restart when an episode ends**: after `step_wait` the accumulator of every finished
environment is `0` … -/
theorem returns_restart_on_done (s : VN α) (o : Batch α) (r : List α) (d : List Bool) (t : List (Option (Batch α)))
    (e : ℕ) (hd : d[e]? = some true) (x : α) (hx : (s.stepWait o r d t).1.returns[e]? = some x) : x = 0 := by
  rw [Lemmas.VecNorm.stepWait_returns, List.getElem?_zipWith, hd] at hx
  cases h : (if s.training = true then List.zipWith (fun R x => R * s.cfg.gamma + x) s.returns r else s.returns)[e]? with
  | none => simp [h] at hx
  | some y => simp [h] at hx; exact hx.symm

/-- **The restart does not look at the infos**: whatever `terminal_observation`s the inner VecEnv supplies (none,
some, all), `step_wait` leaves the same state — statistics, accumulators, raw values. In particular an inner
VecEnv that auto-resets without reporting terminal observations still restarts the accumulators on `done`. -/
theorem returns_restart_independent_of_info (s : VN α) (o : Batch α) (r : List α) (d : List Bool)
    (t t' : List (Option (Batch α))) : (s.stepWait o r d t).1 = (s.stepWait o r d t').1 := rfl

/-- … an environment that goes on, in training mode, has `R·γ + r` … -/
theorem returns_step_recursion (s : VN α) (o : Batch α) (r : List α) (d : List Bool) (t : List (Option (Batch α)))
    (e : ℕ) (htr : s.training = true) (hd : d[e]? = some false) (R x : α) (hR : s.returns[e]? = some R)
    (hx : r[e]? = some x) : (s.stepWait o r d t).1.returns[e]? = some (R * s.cfg.gamma + x) := by
  rw [Lemmas.VecNorm.stepWait_returns, htr, if_pos rfl, List.getElem?_zipWith, hd, List.getElem?_zipWith, hR, hx]
  rfl

/-- … and `reset()` zeroes them all. -/
theorem returns_restart_on_reset (s : VN α) (o : Batch α) : (s.reset o).1.returns = List.replicate s.nEnvs 0 :=
  (Lemmas.VecNorm.reset_ret s o).2

/-- **Frozen when not training**: whatever happens while `training` is off (resets, steps with any data,
`norm_obs`/`norm_reward` toggles, save-load) leaves every statistic as it was. -/
theorem frozen_when_not_training (s : VN α) (evs : List (Ev α)) (h : s.training = false)
    (he : ∀ e ∈ evs, e ≠ Ev.setTraining true) :
    (s.run evs).obsRms = s.obsRms ∧ (s.run evs).retRms = s.retRms :=
  Lemmas.VecNorm.run_frozen s evs h he

/-! ## 3. Transforms -/

/-- **Returned observations are the clipped standardised values**: for a normalised key `k` with statistics
`ms`, element `(j, e)` of the result is `clip((x − mean_j)/sqrt(var_j + ε), −c, c)`. -/
theorem normalize_formula (s : VN α) (b : Batch α) (k : String) (a : Arr α) (ms : List (Mom α))
    (hno : s.normObs = true) (hb : b.lookup k = some a) (hk : s.obsRms.lookup k = some ms) :
    (s.normalizeObs b).lookup k =
      some (List.zipWith (fun m col => col.map fun x =>
        clip ((x - m.mean) / HasSqrt.sqrt (m.var + s.cfg.eps)) (-s.cfg.clipObs) s.cfg.clipObs) ms a) := by
  unfold VN.normalizeObs
  rw [if_pos hno, Lemmas.VecNorm.mapKeys_lookup, hb, hk]
  rfl

/-- Rewards: `clip(r / sqrt(var_ret + ε), −c, c)` (scaled by the deviation of the returns, not centred). -/
theorem normalize_reward_formula (s : VN α) (r : List α) (hnr : s.normRew = true) :
    s.normalizeReward r =
      r.map fun x => clip (x / HasSqrt.sqrt (s.retRms.var + s.cfg.eps)) (-s.cfg.clipRew) s.cfg.clipRew := by
  unfold VN.normalizeReward
  rw [if_pos hnr]
  rfl

/-- `step_wait` returns the raw observation / reward normalised with the statistics *as updated by this very
step* (the resulting state), and `reset` likewise. -/
theorem returned_values_are_normalized (s : VN α) (o : Batch α) (r : List α) (d : List Bool)
    (t : List (Option (Batch α))) :
    (s.stepWait o r d t).2.obs = (s.stepWait o r d t).1.normalizeObs o ∧
      (s.stepWait o r d t).2.rew = (s.stepWait o r d t).1.normalizeReward r ∧
      (s.reset o).2 = (s.reset o).1.normalizeObs o :=
  ⟨Lemmas.VecNorm.stepWait_obs_out s o r d t, Lemmas.VecNorm.stepWait_rew_out s o r d t, rfl⟩

/-- **Terminal observations get the same transform**: the terminal observation of every finished environment
is passed through exactly the function applied to the returned observation; others are left alone. -/
theorem terminal_same_transform (s : VN α) (o : Batch α) (r : List α) (d : List Bool)
    (t : List (Option (Batch α))) :
    (s.stepWait o r d t).2.terms =
      List.zipWith (fun dn tb => if dn then tb.map ((s.stepWait o r d t).1.normalizeObs) else tb) d t :=
  Lemmas.VecNorm.stepWait_terms_out s o r d t

/-- **Keys that are not normalised pass through untouched**, in both directions; the key set is kept. -/
theorem untouched_keys (s : VN α) (b : Batch α) (k : String) (h : s.obsRms.lookup k = none) :
    (s.normalizeObs b).lookup k = b.lookup k ∧ (s.unnormalizeObs b).lookup k = b.lookup k ∧
      (s.normalizeObs b).map Prod.fst = b.map Prod.fst := by
  unfold VN.normalizeObs VN.unnormalizeObs
  refine ⟨?_, ?_, ?_⟩
  · split
    · exact Lemmas.VecNorm.mapKeys_lookup_untouched _ _ _ _ h
    · rfl
  · split
    · exact Lemmas.VecNorm.mapKeys_lookup_untouched _ _ _ _ h
    · rfl
  · split
    · exact Lemmas.VecNorm.mapKeys_keys _ _ _
    · rfl

/-- With `norm_obs` / `norm_reward` off the values come back raw. -/
theorem norm_off_identity (s : VN α) (b : Batch α) (r : List α) :
    (s.normObs = false → s.normalizeObs b = b ∧ s.unnormalizeObs b = b) ∧
      (s.normRew = false → s.normalizeReward r = r ∧ s.unnormalizeReward r = r) := by
  constructor
  · intro h; simp [VN.normalizeObs, VN.unnormalizeObs, h]
  · intro h; simp [VN.normalizeReward, VN.unnormalizeReward, h]

/-- **Normalised values lie in the clip range.** -/
theorem normalize_clipped (m : Mom α) (eps c x : α) (hc : 0 ≤ c) :
    |normScalar m eps c x| ≤ c ∧ |normRewScalar m eps c x| ≤ c :=
  ⟨Lemmas.VecNorm.abs_clip_le _ c hc, Lemmas.VecNorm.abs_clip_le _ c hc⟩

/-- Outside the range the result is the nearer bound. -/
theorem normalize_saturates (m : Mom α) (eps c x : α) (hc : 0 ≤ c) :
    (c < (x - m.mean) / sd m eps → normScalar m eps c x = c) ∧
      ((x - m.mean) / sd m eps < -c → normScalar m eps c x = -c) :=
  ⟨fun h => Lemmas.VecNorm.clip_eq_hi _ c hc h, fun h => Lemmas.VecNorm.clip_eq_lo _ c hc h⟩

/-- **Unnormalising inverts normalising inside the clip range** (one value; only `sqrt(var+ε) ≠ 0` is used). -/
theorem unnormalize_normalize (m : Mom α) (eps c x : α) (hs : sd m eps ≠ 0)
    (h : |(x - m.mean) / sd m eps| ≤ c) : unnormScalar m eps (normScalar m eps c x) = x :=
  Lemmas.VecNorm.unnorm_norm_scalar m eps c x hs h

theorem unnormalize_normalize_reward (m : Mom α) (eps c r : α) (hs : sd m eps ≠ 0)
    (h : |r / sd m eps| ≤ c) : unnormRewScalar m eps (normRewScalar m eps c r) = r :=
  Lemmas.VecNorm.unnorm_norm_rew_scalar m eps c r hs h

/-- … for whole observations (Box or Dict, any subset of normalised keys): if on every normalised key each
coordinate's deviation is non-zero and each value is inside the clip range, `unnormalize_obs ∘ normalize_obs`
is the identity. -/
theorem unnormalize_normalize_obs (s : VN α) (b : Batch α)
    (h : ∀ ka ∈ b, ∀ ms, s.obsRms.lookup ka.1 = some ms →
      List.Forall₂ (fun m col => sd m s.cfg.eps ≠ 0 ∧ ∀ x ∈ col, |(x - m.mean) / sd m s.cfg.eps| ≤ s.cfg.clipObs) ms ka.2) :
    s.unnormalizeObs (s.normalizeObs b) = b := by
  unfold VN.unnormalizeObs VN.normalizeObs
  split
  · rw [Lemmas.VecNorm.mapKeys_mapKeys]
    apply Lemmas.VecNorm.mapKeys_id_of
    intro ka hka ms hms
    exact Lemmas.VecNorm.unnormArr_normArr ms _ _ ka.2 (h ka hka ms hms)
  · rfl

/-- **`get_original_obs` / `get_original_reward` are the raw values of the latest step**, after any history. -/
theorem get_original_is_raw_latest (s : VN α) (evs : List (Ev α)) (o : Batch α) (r : List α) (d : List Bool)
    (t : List (Option (Batch α))) :
    (s.run (evs ++ [Ev.step o r d t])).getOriginalObs = o ∧
      (s.run (evs ++ [Ev.step o r d t])).getOriginalReward = r := by
  rw [Lemmas.VecNorm.run_append]
  exact Lemmas.VecNorm.stepWait_old (s.run evs) o r d t

/-- After `reset` the raw observation is the reset observation; the raw reward is still the latest step's. -/
theorem get_original_after_reset (s : VN α) (evs : List (Ev α)) (o : Batch α) :
    (s.run (evs ++ [Ev.reset o])).getOriginalObs = o ∧
      (s.run (evs ++ [Ev.reset o])).getOriginalReward = (s.run evs).getOriginalReward := by
  rw [Lemmas.VecNorm.run_append]
  exact Lemmas.VecNorm.reset_old (s.run evs) o

/-- Toggles and save-load keep them. -/
theorem get_original_kept (s : VN α) (e : Ev α) (h : (∀ o, e ≠ Ev.reset o) ∧ ∀ o r d t, e ≠ Ev.step o r d t) :
    (s.apply e).getOriginalObs = s.getOriginalObs ∧ (s.apply e).getOriginalReward = s.getOriginalReward := by
  cases e with
  | reset o => exact absurd rfl (h.1 o)
  | step o r d t => exact absurd rfl (h.2 o r d t)
  | setTraining b => exact ⟨rfl, rfl⟩
  | setNormObs b => exact ⟨rfl, rfl⟩
  | setNormRew b => exact ⟨rfl, rfl⟩
  | saveLoad => exact ⟨rfl, rfl⟩

/-! ## 4. Saving / loading / synchronising -/

/-- **Save + load preserves every statistic and setting**; the return accumulators start from zero. -/
theorem save_load_preserves (s : VN α) (n : ℕ) :
    (s.saveLoad n).obsRms = s.obsRms ∧ (s.saveLoad n).retRms = s.retRms ∧ (s.saveLoad n).cfg = s.cfg ∧
      (s.saveLoad n).training = s.training ∧ (s.saveLoad n).normObs = s.normObs ∧ (s.saveLoad n).normRew = s.normRew ∧
      (s.saveLoad n).hasObsRms = s.hasObsRms ∧ (s.saveLoad n).oldObs = s.oldObs ∧ (s.saveLoad n).oldRew = s.oldRew ∧
      (s.saveLoad n).returns = List.replicate n 0 :=
  ⟨rfl, rfl, rfl, rfl, rfl, rfl, rfl, rfl, rfl, rfl⟩

/-- **Synchronising copies every statistic** of the source into the destination and nothing else. -/
theorem sync_preserves (dst src : VN α) (h : src.hasObsRms = true) :
    (dst.syncFrom src).obsRms = src.obsRms ∧ (dst.syncFrom src).retRms = src.retRms ∧
      (dst.syncFrom src).hasObsRms = true ∧ (dst.syncFrom src).cfg = dst.cfg ∧
      (dst.syncFrom src).training = dst.training ∧ (dst.syncFrom src).normObs = dst.normObs ∧
      (dst.syncFrom src).normRew = dst.normRew ∧ (dst.syncFrom src).returns = dst.returns := by
  simp [VN.syncFrom, h]

/-- A source without observation statistics leaves the destination's alone (return statistics still copied). -/
theorem sync_without_obs_rms (dst src : VN α) (h : src.hasObsRms = false) :
    (dst.syncFrom src).obsRms = dst.obsRms ∧ (dst.syncFrom src).retRms = src.retRms ∧
      (dst.syncFrom src).hasObsRms = dst.hasObsRms := by
  simp [VN.syncFrom, h]

/-- After synchronising, two wrappers with the same settings transform every observation and reward alike. -/
theorem sync_transforms_alike (dst src : VN α) (h : src.hasObsRms = true) (hc : dst.cfg = src.cfg)
    (hn : dst.normObs = src.normObs) (hr : dst.normRew = src.normRew) (b : Batch α) (r : List α) :
    (dst.syncFrom src).normalizeObs b = src.normalizeObs b ∧ (dst.syncFrom src).normalizeReward r = src.normalizeReward r := by
  obtain ⟨h1, h2, _, h4, _, h6, h7, _⟩ := sync_preserves dst src h
  exact ⟨Lemmas.VecNorm.normalizeObs_congr _ _ (h6.trans hn) h1 (h4.trans hc) b,
    Lemmas.VecNorm.normalizeReward_congr _ _ (h7.trans hr) h2 (h4.trans hc) r⟩

/-! ## 5. `norm_obs` switched on after construction without it -/

/-- A wrapper that has its `obs_rms` (constructed with `norm_obs=True`, or synchronised from one that was)
never fails, whatever is toggled. -/
theorem toggling_never_fails_partial (s : VN α) (evs : List (Ev α)) (h : s.hasObsRms = true) :
    s.run? evs = some (s.run evs) :=
  Lemmas.VecNorm.run?_eq_run s evs h

/-- **"norm_obs toggled at any time" fails** for a wrapper constructed with `norm_obs=False`: it has no
`obs_rms`, the first `reset`/`step` after switching `norm_obs` on raises. -/
theorem toggling_never_fails_counterexample :
    ∃ (s : VN ℚ) (evs : List (Ev ℚ)), s.run? evs = none :=
  ⟨VN.init ⟨10, 10, 1, 0⟩ 1 true false true 1 [("", 1)], [Ev.setNormObs true, Ev.reset [("", [[3]])]], by decide⟩

/-! ## 6. The square roots: `sqrt(var + ε) > 0` along every stream -/

/-- `var + ε > 0` after any stream when `ε > 0` (prior with `var ≥ 0`, `count > 0`). -/
theorem var_add_eps_pos (p : Mom α) (bs : List (List α)) (eps : α) (hv : 0 ≤ p.var) (hp : 0 < p.count)
    (he : 0 < eps) : 0 < (updateAll p bs).var + eps := by
  have := var_nonneg p bs hv hp
  linarith

/-- Over the reals (`Real.sqrt`) the deviation used by normalise/unnormalise is positive along every stream. -/
theorem sd_pos_real (p : Mom ℝ) (bs : List (List ℝ)) (eps : ℝ) (hv : 0 ≤ p.var) (hp : 0 < p.count) (he : 0 < eps) :
    0 < sd (updateAll p bs) eps :=
  Lemmas.VecNorm.sd_pos_real _ _ (var_add_eps_pos p bs eps hv hp he)

/-- The same for the executed rational square root. -/
theorem sd_pos_rat (p : Mom ℚ) (bs : List (List ℚ)) (eps : ℚ) (hv : 0 ≤ p.var) (hp : 0 < p.count) (he : 0 < eps) :
    0 < sd (updateAll p bs) eps :=
  Lemmas.VecNorm.sd_pos_rat _ _ (var_add_eps_pos p bs eps hv hp he)

/-- Accuracy of the executed square root: `ratSqrt q ≤ √q < ratSqrt q + 1/(den q · 2⁶⁴)`. -/
theorem ratSqrt_accuracy (q : ℚ) (h : 0 < q) :
    ratSqrt q * ratSqrt q ≤ q ∧
      q < (ratSqrt q + 1 / ((q.den : ℚ) * 2 ^ 64)) * (ratSqrt q + 1 / ((q.den : ℚ) * 2 ^ 64)) :=
  ⟨Lemmas.VecNorm.ratSqrt_sq_le q h, Lemmas.VecNorm.lt_ratSqrt_succ_sq q h⟩

/-! ## Non-vacuity: the hypotheses above are met by concrete non-trivial data -/

/-- two batch splits of the stream 1, 2, 3, 6 from the prior (0, 1, 1/2) -/
example : updateAll (Mom.prior (1 / 2 : ℚ)) [[1, 2], [3, 6]] = updateAll (Mom.prior (1 / 2 : ℚ)) [[1], [2, 3, 6]] := by
  decide +kernel

example : updateAll (Mom.prior (1 / 2 : ℚ)) [[1, 2], [3, 6]] = ⟨8 / 3, 37 / 9, 9 / 2⟩ := by decide +kernel

example : (0 : ℚ) < (Mom.prior (1 / 2 : ℚ)).count := by decide +kernel

example : momentsOf ([1, 3] : List ℚ) = ⟨2, 1, 2⟩ := by decide +kernel

/-- a 2-environment Box wrapper, training with `norm_obs` on: hypotheses of `obs_stats_track_stream_partial` -/
example : (VN.init (⟨10, 10, 1 / 2, 1⟩ : Cfg ℚ) 2 true true true 1 [("", 1)]).obsRms.lookup "" = some [Mom.prior 1] := by
  decide +kernel

example : trainingObs true ([Ev.reset [("", [[1, 2]])], Ev.setTraining false, Ev.reset [("", [[5, 5]])],
    Ev.setTraining true, Ev.step [("", [[3, 6]])] [1, 1] [false, true] [none, none]] : List (Ev ℚ)) =
    [[("", [[1, 2]])], [("", [[3, 6]])]] := by decide +kernel

/-- all hypotheses of `obs_stats_track_stream_partial` hold for this history (a freeze in the middle, one
episode end): coordinate 0 of the statistics is one update with the training-mode stream 1, 2, 3, 6 -/
example : ∃ ms', ((VN.init (⟨10, 10, 1 / 2, 1⟩ : Cfg ℚ) 2 true true true 1 [("", 1)]).run
      [Ev.reset [("", [[1, 2]])], Ev.setTraining false, Ev.reset [("", [[5, 5]])], Ev.setTraining true,
       Ev.step [("", [[3, 6]])] [1, 1] [false, true] [none, none]]).obsRms.lookup "" = some ms' ∧
    ms'[0]? = some (update (Mom.prior 1) [1, 2, 3, 6]) :=
  obs_stats_track_stream_partial _ _ "" [Mom.prior 1] 0 rfl (by simp) (by decide +kernel) (by decide)
    (by decide +kernel) (by decide +kernel)

/-- `frozen_when_not_training`: a frozen wrapper fed with data, toggles and a save-load -/
example : ((VN.init (⟨10, 10, 1 / 2, 1⟩ : Cfg ℚ) 2 false true true 1 [("", 1)]).run
      [Ev.reset [("", [[1, 2]])], Ev.step [("", [[3, 6]])] [1, 1] [false, true] [none, none], Ev.setNormRew false,
       Ev.saveLoad]).obsRms = [("", [Mom.prior 1])] :=
  (frozen_when_not_training _ _ rfl (by simp)).1

/-- `ret_stats_track_returns_partial`: training throughout, one episode end in environment 1 -/
example : ((VN.init (⟨10, 10, 1 / 2, 1⟩ : Cfg ℚ) 2 true true true 1 [("", 1)]).run
      [Ev.reset [("", [[1, 2]])], Ev.step [("", [[3, 6]])] [1, 1] [false, true] [none, none],
       Ev.step [("", [[0, 0]])] [2, 4] [false, false] [none, none]]).returns =
    [discRet (1 / 2) [1, 2], discRet (1 / 2) [4]] :=
  ret_stats_track_returns_partial _ _ rfl rfl (by simp)

/-- `unnormalize_normalize_obs`: a Dict observation, key "a" normalised and inside the range, key "d" not normalised -/
example : (⟨⟨10, 10, 1, 1⟩, 1, true, true, true, true, [("a", [⟨1, 3, 5⟩])], ⟨0, 1, 1⟩, [0], [], []⟩ : VN ℚ).unnormalizeObs
    ((⟨⟨10, 10, 1, 1⟩, 1, true, true, true, true, [("a", [⟨1, 3, 5⟩])], ⟨0, 1, 1⟩, [0], [], []⟩ : VN ℚ).normalizeObs
      [("a", [[4]]), ("d", [[7]])]) = [("a", [[4]]), ("d", [[7]])] := by decide +kernel

/-- a history with a freeze and an episode end; statistics and accumulators computed by the model -/
example : ((VN.init (⟨10, 10, 1 / 2, 1⟩ : Cfg ℚ) 2 true true true 1 [("", 1)]).run
    [Ev.reset [("", [[1, 2]])], Ev.step [("", [[3, 6]])] [1, 1] [false, true] [none, none],
     Ev.step [("", [[0, 0]])] [2, 4] [false, false] [none, none]]).returns = [5 / 2, 4] := by decide +kernel

/-- inside the clip range and with a non-zero deviation (`sqrt` of `3 + 1 = 4` is `2` for `ratSqrt`) -/
example : sd (⟨1, 3, 5⟩ : Mom ℚ) 1 = 2 := by decide +kernel
example : |((4 : ℚ) - 1) / 2| ≤ 10 := by norm_num
example : unnormScalar (⟨1, 3, 5⟩ : Mom ℚ) 1 (normScalar ⟨1, 3, 5⟩ 1 10 4) = 4 := by decide +kernel
/-- outside the clip range the inverse does not return the input -/
example : unnormScalar (⟨1, 3, 5⟩ : Mom ℚ) 1 (normScalar ⟨1, 3, 5⟩ 1 1 4) = 3 := by decide +kernel

end SB3Verif.C15
