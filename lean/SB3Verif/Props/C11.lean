/-
C11 — predict() returns a valid action of the right shape for every supported space.

Property theorems only (helper lemmas are in `SB3Verif/Lemmas/Predict.lean`). All statements are about the
executable model `SB3Verif/Model/Predict.lean`, whose definitions the driver `SB3Verif/Driver/C11.lean` runs
against the real `predict()` (`harness/c11.py`).

Reading guide
  shapes       `single_obs_not_vectorized` … `dict_mixed_batch1_accepted`
  actions      `clip_in_bounds` … `predict_action_valid`
  encodings    `onehot_index` … `image_layout_irrelevant`
-/
import SB3Verif.Lemmas.Predict

namespace SB3Verif.C11

open SB3Verif.Predict

/-! ## Shapes: a leading batch dimension exactly when the input had one -/

/-- One observation of the space (its own shape) is classified "not vectorized" — every space kind, every
rank, every size. -/
theorem single_obs_not_vectorized (l : Leaf) : isVectorized l l.shape = .ok false :=
  Lemmas.Predict.isVectorized_single l

/-- A batch of `n` observations (`n` may be 1) is classified "vectorized" — every space kind, rank, size. -/
theorem batch_obs_vectorized (l : Leaf) (n : Nat) : isVectorized l (n :: l.shape) = .ok true :=
  Lemmas.Predict.isVectorized_batch l n

/-- Converse: "not vectorized" is answered only for the space's own shape … -/
theorem not_vectorized_only_single (l : Leaf) (obs : Shape) (h : isVectorized l obs = .ok false) :
    obs = l.shape :=
  Lemmas.Predict.isVectorized_false_shape l obs h

/-- … and "vectorized" only for that shape with one extra leading dimension; every other shape is rejected
(the two accepted patterns differ in rank, so they are disjoint). -/
theorem vectorized_only_batch (l : Leaf) (obs : Shape) (h : isVectorized l obs = .ok true) :
    ∃ n, obs = n :: l.shape :=
  Lemmas.Predict.isVectorized_true_shape l obs h

/-- A channel-last image `(h, w, c)` handed to a policy whose space is channel-first `(c, h, w)` is re-ordered
and counted as one observation; a batch `(n, h, w, c)` is re-ordered and counted as a batch of `n`.
(For `h = w = c` the two layouts have the same shape and cannot be told apart: hypothesis `hne`.) -/
theorem image_hwc_transposed (n c h w : Nat) (hc : 0 < c) (hh : 0 < h) (hw : 0 < w)
    (hne : [h, w, c] ≠ [c, h, w]) :
    leafToTensor (.box [c, h, w] true) [h, w, c] = .ok ⟨1, false, true⟩ ∧
    leafToTensor (.box [c, h, w] true) [n, h, w, c] = .ok ⟨n, true, true⟩ :=
  ⟨Lemmas.Predict.leafToTensor_hwc_single c h w hc hh hw hne,
   Lemmas.Predict.leafToTensor_hwc_batch n c h w hc hh hw hne⟩

/-- An image already in the space's layout is left alone. -/
theorem image_chw_kept (n c h w : Nat) (hc : 0 < c) (hh : 0 < h) (hw : 0 < w) :
    leafToTensor (.box [c, h, w] true) [c, h, w] = .ok ⟨1, false, false⟩ ∧
    leafToTensor (.box [c, h, w] true) [n, c, h, w] = .ok ⟨n, true, false⟩ := by
  have hv : (Leaf.box [c, h, w] true).valid = true := by
    simp [Leaf.valid, posShape, hc, hh, hw]
  exact ⟨Lemmas.Predict.leafToTensor_single _ hv, Lemmas.Predict.leafToTensor_batch _ n hv⟩

/-- **Shape of the result** (partial: needs `flattenable`, i.e. no rank-0 `Box` observation space — see
`predict_shape_counterexample`). For every valid observation space (any leaf kind and rank, or a one-level
Dict of them), every valid action space: one observation gives an action of the action space's shape, a batch
of `n` observations (any `n`, including 1) gives `n ::` that shape. -/
theorem predict_shape_partial (os : ObsSpace) (as : ActSpace) (n : Nat)
    (hv : os.valid = true) (hfl : os.flattenable = true) (ha : as.valid = true) :
    predict os as os.single = .ok as.shape ∧ predict os as (os.batched n) = .ok (n :: as.shape) :=
  ⟨Lemmas.Predict.predict_single os as hv hfl ha, Lemmas.Predict.predict_batched os as n hv hfl ha⟩

/-- The statement without the `flattenable` hypothesis is false: for the rank-0 space `Box(shape=())` the
flatten extractor raises (`nn.Flatten` on a rank-1 tensor) — recorded finding K-C11-b. -/
theorem predict_shape_counterexample :
    ¬ (∀ (os : ObsSpace) (as : ActSpace), os.valid = true → as.valid = true →
        predict os as os.single = .ok as.shape) := by
  intro h
  have := h (.leaf (.box [] false)) (.discrete 2) (by decide) (by decide)
  exact absurd this (by decide)

/-- what the model answers on the witness -/
theorem predict_rank0_box_raises (as : ActSpace) :
    predict (.leaf (.box [] false)) as (.arr []) = .error .flatten ∧
    predict (.leaf (.box [] false)) as (.arr [3]) = .error .flatten := by
  constructor <;> rfl

/-- The `vectorized_env` flag `obs_to_tensor` returns: false for one observation, true for a batch. -/
theorem vectorized_flag (os : ObsSpace) (n : Nat) (hv : os.valid = true) :
    vectorizedFlag os os.single = .ok false ∧ vectorizedFlag os (os.batched n) = .ok true := by
  constructor
  · rw [Lemmas.Predict.single_eq_shaped]
    exact Lemmas.Predict.vectorizedFlag_uniform os hv Leaf.shape ⟨1, false, false⟩
      Lemmas.Predict.leafToTensor_single
  · rw [Lemmas.Predict.batched_eq_shaped]
    exact Lemmas.Predict.vectorizedFlag_uniform os hv (fun l => n :: l.shape) ⟨n, true, false⟩
      (fun l hl => Lemmas.Predict.leafToTensor_batch l n hl)

/-- **DQN's epsilon-greedy branch keeps the batch semantics**: the random-action branch returns an array of
the same shape as the greedy branch, for one observation and for a batch of any size, array or Dict. -/
theorem dqn_explore_shape (os : ObsSpace) (as : ActSpace) (n : Nat)
    (hv : os.valid = true) (hfl : os.flattenable = true) (ha : as.valid = true) :
    dqnExplore os as os.single = predict os as os.single ∧
    dqnExplore os as (os.batched n) = predict os as (os.batched n) := by
  rw [Lemmas.Predict.predict_single os as hv hfl ha, Lemmas.Predict.predict_batched os as n hv hfl ha]
  exact ⟨Lemmas.Predict.dqnExplore_single os as hv, Lemmas.Predict.dqnExplore_batched os as n hv⟩

/-- A Dict observation mixing a batch of `n ≥ 2` under one key with a single array under another is
rejected (the forward pass cannot concatenate the features). -/
theorem dict_mixed_rejected (k1 k2 : String) (l1 l2 : Leaf) (as : ActSpace) (n : Nat) (hk : k1 ≠ k2)
    (h1 : l1.valid = true) (h2 : l2.valid = true) (f1 : l1.flattenable = true) (f2 : l2.flattenable = true)
    (ha : as.valid = true) (hn : n ≠ 1) :
    predict (.dict [(k1, l1), (k2, l2)]) as (.dict [(k1, n :: l1.shape), (k2, l2.shape)]) =
      .error .mixedBatch := by
  rw [Lemmas.Predict.predict_two_keys k1 k2 l1 l2 as n hk h1 h2 f1 f2 ha, if_neg hn]

/-- … whereas a batch of exactly one mixed with a single array is accepted as a batch of one (the flag is the
OR over the keys): this is what the code does; it is outside the property's quantifier. -/
theorem dict_mixed_batch1_accepted (k1 k2 : String) (l1 l2 : Leaf) (as : ActSpace) (hk : k1 ≠ k2)
    (h1 : l1.valid = true) (h2 : l2.valid = true) (f1 : l1.flattenable = true) (f2 : l2.flattenable = true)
    (ha : as.valid = true) :
    predict (.dict [(k1, l1), (k2, l2)]) as (.dict [(k1, 1 :: l1.shape), (k2, l2.shape)]) =
      .ok (1 :: as.shape) := by
  rw [Lemmas.Predict.predict_two_keys k1 k2 l1 l2 as 1 hk h1 h2 f1 f2 ha, if_pos rfl]

/-- What the code does outside the property's quantifier (recorded so that the model is not mistaken for a
validator): in a Dict observation the shape of a key is checked only until one key was found vectorized
(`vectorized_env or is_vectorized_observation(…)` short-circuits), so a later key of the wrong shape is
reshaped silently — here a flat 4-vector is taken for two observations of a `Box(2)`. -/
theorem dict_later_key_not_validated :
    predict (.dict [("a", .box [2] false), ("b", .box [2] false)]) (.discrete 2)
      (.dict [("a", [2, 2]), ("b", [4])]) = .ok [2] ∧
    predict (.dict [("a", .box [2] false), ("b", .box [2] false)]) (.discrete 2)
      (.dict [("b", [4]), ("a", [2, 2])]) = .error .shape := by
  decide

/-! ## Actions are inside the action space, whatever the network emits -/

section Order
variable {α : Type} [LinearOrder α]

/-- `np.clip` puts any value between the bounds (any linear order: reals, rationals, or the floats that are
not NaN). -/
theorem clip_in_bounds (x lo hi : α) (h : lo ≤ hi) : lo ≤ clip x lo hi ∧ clip x lo hi ≤ hi :=
  ⟨Lemmas.Predict.le_clip x lo hi h, Lemmas.Predict.clip_le x lo hi h⟩

/-- `argmax` of a non-empty row of Q-values / logits is a valid class index … -/
theorem argmax_lt_n (l : List α) (h : l ≠ []) : argmax l < l.length :=
  Lemmas.Predict.argmax_lt l h

/-- … and it points at a maximal entry. -/
theorem argmax_is_max (l : List α) (h : l ≠ []) : ∃ v, l[argmax l]? = some v ∧ ∀ y ∈ l, y ≤ v :=
  Lemmas.Predict.argmax_spec l h

/-- every component of the MultiDiscrete mode is below its number of classes (any logits) -/
theorem multidiscrete_component_lt (nvec : List Nat) (logits : List α) (hpos : ∀ n ∈ nvec, 0 < n)
    (hlen : logits.length = nvec.sum) : inMulti nvec (mdMode nvec logits) = true :=
  Lemmas.Predict.mdMode_inMulti nvec logits hpos hlen

/-- the Bernoulli mode is 0 or 1 (any logit) -/
theorem bernoulli_01 [Zero α] (x : α) : bernMode x = 0 ∨ bernMode x = 1 := by
  have := Lemmas.Predict.bernMode_lt x
  omega

end Order

section AnyArithmetic
variable {α : Type} [LinearOrder α] [Add α] [Sub α] [Mul α] [Div α] [OfNat α 1] [OfNat α 2]

/-- **`unscale_action` never leaves the bounds** — for every scaled action (not only those in `[-1, 1]`) and
for *any* arithmetic (`+ - * /` are uninterpreted: exact or rounded), because the affine map is followed by
`np.clip` (fix 933445d). Without the clip this needs exact arithmetic (`unscale_exact`) and fails in float32. -/
theorem unscale_in_bounds (lo hi s : α) (h : lo ≤ hi) : lo ≤ unscale lo hi s ∧ unscale lo hi s ≤ hi :=
  Lemmas.Predict.unscale_mem lo hi s h

/-- The Box branch of `predict` (squashed policies unscale, the others clip): every component of the returned
action is within its bounds — for every raw network output, however far outside. -/
theorem box_action_in_bounds (squash : Bool) (lo hi raw : List α) (hb : List.Forall₂ (· ≤ ·) lo hi)
    (hlen : raw.length = lo.length) :
    (ActSpaceV.box lo hi).contains (.real (postBox squash lo hi raw)) = true :=
  Lemmas.Predict.postBox_inBox squash lo hi raw hb hlen

/-- **The deterministic action is a member of the action space** for every kind of action space and every
network output (arbitrary weights): Box by clipping/unscaling, Discrete by `argmax`, MultiDiscrete by one
`argmax` per block, MultiBinary by thresholding. -/
theorem predict_action_valid [Zero α] (as : ActSpaceV α) (squash : Bool) (out : List α)
    (hwf : Lemmas.Predict.ActSpaceV.wf as) (hlen : out.length = Lemmas.Predict.ActSpaceV.outDim as) :
    as.contains (modeAction as squash out) = true :=
  Lemmas.Predict.modeAction_contains as squash out hwf hlen

end AnyArithmetic

section ExactArithmetic
variable {α : Type} [Field α] [LinearOrder α] [IsStrictOrderedRing α]

/-- In exact arithmetic the clip of `unscale_action` is the identity on `[-1, 1]`: the result is the affine
image `low + (s + 1)/2 · (high − low)`. -/
theorem unscale_exact (lo hi s : α) (h : lo ≤ hi) (h1 : -1 ≤ s) (h2 : s ≤ 1) :
    unscale lo hi s = lo + (s + 1) / 2 * (hi - lo) :=
  Lemmas.Predict.unscale_eq_affine lo hi s h h1 h2

/-- A saturated network (`tanh = ±1`, or beyond) gives exactly the bound. -/
theorem unscale_saturates (lo hi s : α) (h : lo ≤ hi) :
    (1 ≤ s → unscale lo hi s = hi) ∧ (s ≤ -1 → unscale lo hi s = lo) :=
  ⟨Lemmas.Predict.unscale_saturate_high lo hi s h, Lemmas.Predict.unscale_saturate_low lo hi s h⟩

/-- `unscale_action` inverts `scale_action` on the action space, and `scale_action` maps into `[-1, 1]`. -/
theorem unscale_scale_inverse (lo hi a : α) (h : lo < hi) (h1 : lo ≤ a) (h2 : a ≤ hi) :
    unscale lo hi (scale lo hi a) = a ∧ -1 ≤ scale lo hi a ∧ scale lo hi a ≤ 1 :=
  ⟨Lemmas.Predict.unscale_scale lo hi a h h1 h2, Lemmas.Predict.scale_mem lo hi a h h1 h2⟩

end ExactArithmetic

/-! ## Encodings: discrete observations by value, images scaled alike in either layout -/

section OneHot
variable {α : Type} [Zero α] [One α]

/-- the one-hot vector of value `k` has a `1` at position `k` and `0` elsewhere, and `n` entries -/
theorem onehot_index (n k i : Nat) (h : i < n) :
    (oneHot n k : List α)[i]? = some (if i = k then 1 else 0) ∧ (oneHot n k : List α).length = n :=
  ⟨Lemmas.Predict.oneHot_getElem? n k i h, Lemmas.Predict.oneHot_length n k⟩

/-- different values get different encodings -/
theorem onehot_injective (h01 : (0 : α) ≠ 1) (n k k' : Nat) (hk : k < n)
    (h : (oneHot n k : List α) = oneHot n k') : k = k' :=
  Lemmas.Predict.oneHot_injective h01 n k k' hk h

end OneHot

section OneHotDecode
variable {α : Type} [Field α] [LinearOrder α] [IsStrictOrderedRing α]

/-- **MultiDiscrete observations are encoded block by block, by value**: the encoding has `Σ nvec` entries
and cutting it at the class counts and taking the position of the `1` in each block gives back the
observation. -/
theorem multidiscrete_onehot_blocks (nvec ks : List Nat) (h : allLt nvec ks = true) (hl : ks.length = nvec.length) :
    (multiOneHot nvec ks : List α).length = nvec.sum ∧ mdMode nvec (multiOneHot nvec ks : List α) = ks :=
  ⟨Lemmas.Predict.multiOneHot_length nvec ks hl, Lemmas.Predict.mdMode_multiOneHot nvec ks h⟩

theorem multidiscrete_onehot_injective (nvec ks ks' : List Nat) (h : allLt nvec ks = true)
    (h' : allLt nvec ks' = true) (heq : (multiOneHot nvec ks : List α) = multiOneHot nvec ks') : ks = ks' :=
  Lemmas.Predict.multiOneHot_injective nvec ks ks' h h' heq

end OneHotDecode

section Image
variable {β γ : Type} [Inhabited β] [Inhabited γ]

/-- `np.transpose(img, (2, 0, 1))` on C-order data: `out[c, h, w] = in[h, w, c]`. -/
theorem transpose_hwc_chw_index (H W C : Nat) (flat : List β) (c h w : Nat) (hc : c < C) (hh : h < H) (hw : w < W) :
    (transposeHWC H W C flat)[c * (H * W) + h * W + w]? = some (flat.getD (h * (W * C) + w * C + c) default) :=
  Lemmas.Predict.transposeHWC_index H W C flat c h w hc hh hw

/-- The re-ordering is a bijection of the pixels: `(1, 2, 0)` undoes it. -/
theorem transpose_roundtrip (H W C : Nat) (flat : List β) (hlen : flat.length = H * W * C) :
    transposeCHW H W C (transposeHWC H W C flat) = flat :=
  Lemmas.Predict.transposeCHW_transposeHWC H W C flat hlen

/-- **Scaling commutes with the layout change**: any pointwise map (`x ↦ x / 255`) applied after the axis
permutation equals the permutation applied after the map. -/
theorem scale_commutes_with_transpose (H W C : Nat) (f : β → γ) (flat : List β) (hlen : flat.length = H * W * C) :
    (transposeHWC H W C flat).map f = transposeHWC H W C (flat.map f) :=
  Lemmas.Predict.transposeHWC_map H W C f flat hlen

end Image

/-- **Images are encoded identically whichever layout they arrive in**: the features for an `(h, w, c)` image
handed to a `(c, h, w)` policy are the features of the same image arranged `(c, h, w)`. -/
theorem image_layout_irrelevant {α : Type} [Zero α] [One α] [Div α] [NatCast α] (c h w : Nat) (normalize : Bool)
    (px : List Nat) :
    encodeRow (α := α) (.box [c, h, w] true) true normalize (.nat px) =
      if px.length = c * h * w then
        encodeRow (α := α) (.box [c, h, w] true) false normalize (.nat (transposeHWC h w c px))
      else .error .data := by
  by_cases hl : px.length = c * h * w
  · simp [encodeRow, hl, Lemmas.Predict.transposeHWC_length]
  · simp [encodeRow, hl]

/-! ## Non-vacuity: the hypotheses above are met by concrete non-trivial data -/

/-- a Dict space with an image, a Discrete and a MultiDiscrete entry is valid and flattenable -/
example : (ObsSpace.dict [("img", .box [3, 36, 36] true), ("d", .discrete 5), ("md", .multiDiscrete [2, 3])]).valid = true ∧
    (ObsSpace.dict [("img", .box [3, 36, 36] true), ("d", .discrete 5), ("md", .multiDiscrete [2, 3])]).flattenable = true := by
  decide

example : (ActSpace.box [2, 3]).valid = true ∧ (ActSpace.multiDiscrete [3, 2]).valid = true := by decide

example : predict (.dict [("img", .box [3, 36, 36] true), ("d", .discrete 5)]) (.box [2, 3])
    (.dict [("d", [4]), ("img", [4, 36, 36, 3])]) = .ok [4, 2, 3] := by decide

example : predict (.leaf (.multiBinary [2, 3])) (.discrete 4) (.arr [2, 3]) = .ok [] := by decide

example : ([36, 36, 3] : Shape) ≠ [3, 36, 36] := by decide

/-- a well-formed asymmetric box and an output far outside it -/
example : Lemmas.Predict.ActSpaceV.wf (ActSpaceV.box [(-3 : Int), 0] [(-1 : Int), 8]) := by
  simp only [Lemmas.Predict.ActSpaceV.wf]
  exact .cons (by decide) (.cons (by decide) .nil)

example : modeAction (ActSpaceV.box [(-3 : Int), 0] [(-1 : Int), 8]) true [50, -50] = .real [-1, 0] := by
  decide

example : modeAction (ActSpaceV.multiDiscrete [2, 3] : ActSpaceV Rat) false [1, 5, 0, 7, 7] = .int [1, 1] := by decide

example : allLt [2, 3] [1, 2] = true ∧ ([1, 2] : List Nat).length = ([2, 3] : List Nat).length := by decide

example : (multiOneHot [2, 3] [1, 2] : List Rat) = [0, 1, 0, 0, 1] := by decide

example : transposeHWC 2 2 2 [0, 1, 2, 3, 4, 5, 6, 7] = [0, 2, 4, 6, 1, 3, 5, 7] := by decide

end SB3Verif.C11
