/-
Helper lemmas for C05 (model: `SB3Verif/Model/Rollout.lean`).
-/
import SB3Verif.Model.Rollout
import Mathlib.Tactic.Ring
import Mathlib.Tactic.Linarith
import Mathlib.Algebra.BigOperators.Group.Finset.Basic
import Mathlib.Algebra.BigOperators.Ring.Finset

namespace SB3Verif.Lemmas

open SB3Verif.Rollout

variable {α : Type} [CommRing α]

theorem gaeCol_length (γ lam lastV lastNnt : α) (ss : List (Step α)) :
    (gaeCol γ lam lastV lastNnt ss).length = ss.length := by
  induction ss with
  | nil => simp [gaeCol]
  | cons s rest ih => simp [gaeCol, ih]

theorem gaeCol_cons (γ lam lastV lastNnt : α) (s : Step α) (rest : List (Step α)) :
    gaeCol γ lam lastV lastNnt (s :: rest) =
      (delta γ s (nextOf lastV lastNnt rest).1 (nextOf lastV lastNnt rest).2 +
        γ * lam * (nextOf lastV lastNnt rest).2 * (gaeCol γ lam lastV lastNnt rest).headD 0) ::
        gaeCol γ lam lastV lastNnt rest := by
  simp [gaeCol]

theorem gaeCol_drop (γ lam lastV lastNnt : α) (ss : List (Step α)) (t : ℕ) :
    (gaeCol γ lam lastV lastNnt ss).drop t = gaeCol γ lam lastV lastNnt (ss.drop t) := by
  induction ss generalizing t with
  | nil => simp [gaeCol]
  | cons s rest ih =>
    cases t with
    | zero => simp
    | succ t => rw [gaeCol_cons]; simpa using ih t

theorem nntAt_cons_succ (lastV lastNnt : α) (s : Step α) (rest : List (Step α)) (j : ℕ) :
    nntAt lastV lastNnt (s :: rest) (j + 1) = nntAt lastV lastNnt rest j := by
  simp [nntAt]

theorem nvAt_cons_succ (lastV lastNnt : α) (s : Step α) (rest : List (Step α)) (j : ℕ) :
    nvAt lastV lastNnt (s :: rest) (j + 1) = nvAt lastV lastNnt rest j := by
  simp [nvAt]

theorem deltaAt_cons_succ (γ lastV lastNnt : α) (s : Step α) (rest : List (Step α)) (j : ℕ) :
    deltaAt γ lastV lastNnt (s :: rest) (j + 1) = deltaAt γ lastV lastNnt rest j := by
  simp [deltaAt, nntAt_cons_succ, nvAt_cons_succ]

theorem deltaAt_cons_zero (γ lastV lastNnt : α) (s : Step α) (rest : List (Step α)) :
    deltaAt γ lastV lastNnt (s :: rest) 0 =
      delta γ s (nextOf lastV lastNnt rest).1 (nextOf lastV lastNnt rest).2 := by
  simp [deltaAt, nntAt, nvAt]

theorem nntAt_cons_zero (lastV lastNnt : α) (s : Step α) (rest : List (Step α)) :
    nntAt lastV lastNnt (s :: rest) 0 = (nextOf lastV lastNnt rest).2 := by
  simp [nntAt]

/-- closed form for the head (`t = 0`) -/
theorem gaeCol_head_closed (γ lam lastV lastNnt : α) (ss : List (Step α)) :
    (gaeCol γ lam lastV lastNnt ss).headD 0 =
      ∑ l ∈ Finset.range ss.length,
        (γ * lam) ^ l * (∏ j ∈ Finset.range l, nntAt lastV lastNnt ss j) * deltaAt γ lastV lastNnt ss l := by
  induction ss with
  | nil => simp [gaeCol]
  | cons s rest ih =>
    rw [gaeCol_cons, List.headD_cons, ih, List.length_cons, Finset.sum_range_succ']
    simp only [Finset.prod_range_succ', nntAt_cons_succ, deltaAt_cons_succ, deltaAt_cons_zero,
      nntAt_cons_zero, Finset.range_zero, Finset.prod_empty, pow_zero]
    rw [Finset.mul_sum]
    have : ∀ l, γ * lam * (nextOf lastV lastNnt rest).2 *
        ((γ * lam) ^ l * (∏ j ∈ Finset.range l, nntAt lastV lastNnt rest j) * deltaAt γ lastV lastNnt rest l) =
        (γ * lam) ^ (l + 1) * ((∏ j ∈ Finset.range l, nntAt lastV lastNnt rest j) * (nextOf lastV lastNnt rest).2) *
          deltaAt γ lastV lastNnt rest l := by
      intro l; ring
    simp only [this]
    ring

theorem nntAt_drop (lastV lastNnt : α) (ss : List (Step α)) (t j : ℕ) :
    nntAt lastV lastNnt (ss.drop t) j = nntAt lastV lastNnt ss (t + j) := by
  simp [nntAt, List.drop_drop, Nat.add_assoc]

theorem nvAt_drop (lastV lastNnt : α) (ss : List (Step α)) (t j : ℕ) :
    nvAt lastV lastNnt (ss.drop t) j = nvAt lastV lastNnt ss (t + j) := by
  simp [nvAt, List.drop_drop, Nat.add_assoc]

theorem deltaAt_drop (γ lastV lastNnt : α) (ss : List (Step α)) (t j : ℕ) :
    deltaAt γ lastV lastNnt (ss.drop t) j = deltaAt γ lastV lastNnt ss (t + j) := by
  simp [deltaAt, nntAt_drop, nvAt_drop, List.getElem?_drop]

theorem gaeCol_getD_closed (γ lam lastV lastNnt : α) (ss : List (Step α)) (t : ℕ) :
    (gaeCol γ lam lastV lastNnt ss).getD t 0 =
      ∑ l ∈ Finset.range (ss.length - t),
        (γ * lam) ^ l * (∏ j ∈ Finset.range l, nntAt lastV lastNnt ss (t + j)) *
          deltaAt γ lastV lastNnt ss (t + l) := by
  have h : (gaeCol γ lam lastV lastNnt ss).getD t 0 = ((gaeCol γ lam lastV lastNnt ss).drop t).headD 0 := by
    simp [List.getD_eq_getElem?_getD, List.headD_eq_head?_getD, List.head?_drop]
  rw [h, gaeCol_drop, gaeCol_head_closed]
  simp [nntAt_drop, deltaAt_drop]

theorem deltaAt_last (γ lastV lastNnt : α) (ss : List (Step α)) (s : Step α) :
    deltaAt γ lastV lastNnt (ss ++ [s]) ss.length = s.r + γ * lastV * lastNnt - s.v := by
  simp [deltaAt, nntAt, nvAt, delta, nextOf]

theorem deltaAt_interior (γ lastV lastNnt : α) (ss : List (Step α)) (s s' : Step α) (rest : List (Step α)) :
    deltaAt γ lastV lastNnt (ss ++ s :: s' :: rest) ss.length = s.r + γ * s'.v * (1 - s'.start) - s.v := by
  simp [deltaAt, nntAt, nvAt, delta, nextOf]


/-! ### flattening -/

theorem column_length {β : Type} [Inhabited β] (rows : List (List β)) (e : ℕ) :
    (column rows e).length = rows.length := by simp [column]

theorem flatten_const_getD {β : Type} [Inhabited β] (T : ℕ) (cols : List (List β))
    (h : ∀ c ∈ cols, c.length = T) (e t : ℕ) (he : e < cols.length) (ht : t < T) :
    cols.flatten.getD (e * T + t) default = (cols.getD e default).getD t default := by
  induction cols generalizing e with
  | nil => simp at he
  | cons c cs ih =>
    have hc : c.length = T := h c (by simp)
    cases e with
    | zero =>
      simp only [List.flatten_cons, Nat.zero_mul, Nat.zero_add]
      simp [List.getD_eq_getElem?_getD, List.getElem?_append_left (show t < c.length by omega)]
    | succ e =>
      simp only [List.flatten_cons]
      have hge : c.length ≤ (e + 1) * T + t := by rw [hc]; nlinarith
      have hsub : (e + 1) * T + t - c.length = e * T + t := by rw [hc, Nat.succ_mul]; omega
      have := ih (fun c' hc' => h c' (by simp [hc'])) e (by simpa using he)
      simp only [List.getD_eq_getElem?_getD] at this ⊢
      rw [List.getElem?_append_right hge, hsub, this]
      simp

theorem swapFlatten_getD {β : Type} [Inhabited β] (n : ℕ) (rows : List (List β))
    (_hrect : ∀ row ∈ rows, row.length = n) (t e : ℕ) (ht : t < rows.length) (he : e < n) :
    (swapFlatten n rows).getD (e * rows.length + t) default = (rows.getD t default).getD e default := by
  unfold swapFlatten transposeN
  rw [flatten_const_getD rows.length _ (by intro c hc; simp at hc; obtain ⟨a, _, rfl⟩ := hc; simp [column]) e t
    (by simpa using he) ht]
  simp [List.getD_eq_getElem?_getD, he, ht, column]

theorem unflat_flat (T t e : ℕ) (ht : t < T) : unflat T (e * T + t) = (t, e) := by
  unfold unflat
  have hT : 0 < T := by omega
  apply Prod.ext
  · simp [Nat.add_comm (e * T) t, Nat.add_mul_mod_self_right, Nat.mod_eq_of_lt ht]
  · simp [Nat.add_comm (e * T) t, Nat.add_mul_div_right _ _ hT, Nat.div_eq_of_lt ht]

theorem flat_unflat (T n i : ℕ) (hi : i < T * n) :
    (unflat T i).2 * T + (unflat T i).1 = i ∧ (unflat T i).1 < T ∧ (unflat T i).2 < n := by
  unfold unflat
  have hT : 0 < T := by
    rcases Nat.eq_zero_or_pos T with h | h
    · simp [h] at hi
    · exact h
  refine ⟨?_, Nat.mod_lt _ hT, ?_⟩
  · simp only; rw [Nat.mul_comm]; exact Nat.div_add_mod i T
  · simp only; exact Nat.div_lt_of_lt_mul hi

/-! ### chunks -/

theorem chunksAux_flatten {β : Type} (b : ℕ) (hb : 0 < b) (fuel : ℕ) (l : List β) (h : l.length ≤ fuel) :
    (chunksAux b fuel l).flatten = l := by
  induction fuel generalizing l with
  | zero =>
    have : l = [] := List.length_eq_zero_iff.mp (by omega)
    simp [chunksAux, this]
  | succ fuel ih =>
    unfold chunksAux
    by_cases hl : l.isEmpty
    · simp [hl]; exact (List.isEmpty_iff.mp hl)
    · simp only [hl, Bool.false_eq_true, if_false, List.flatten_cons]
      have hlen : 0 < l.length := by
        rcases l with _ | ⟨x, xs⟩
        · simp at hl
        · simp
      rw [ih (l.drop b) (by simp; omega), List.take_append_drop]

theorem chunks_flatten {β : Type} (b : ℕ) (hb : 0 < b) (l : List β) : (chunks b l).flatten = l :=
  chunksAux_flatten b hb l.length l (Nat.le_refl _)

theorem chunksAux_sizes {β : Type} (b : ℕ) (hb : 0 < b) (fuel : ℕ) (l : List β) :
    ∀ c ∈ chunksAux b fuel l, 0 < c.length ∧ c.length ≤ b := by
  induction fuel generalizing l with
  | zero => simp [chunksAux]
  | succ fuel ih =>
    unfold chunksAux
    by_cases hl : l.isEmpty
    · simp [hl]
    · simp only [hl, Bool.false_eq_true, if_false, List.mem_cons]
      have hlen : 0 < l.length := by
        rcases l with _ | ⟨x, xs⟩
        · simp at hl
        · simp
      rintro c (rfl | hc)
      · simp; omega
      · exact ih _ c hc

theorem chunks_sizes {β : Type} (b : ℕ) (hb : 0 < b) (l : List β) :
    ∀ c ∈ chunks b l, 0 < c.length ∧ c.length ≤ b :=
  chunksAux_sizes b hb l.length l

theorem range_map_unflat_perm (T n : ℕ) :
    ((List.range (T * n)).map (unflat T)).Perm
      ((List.range n).flatMap fun e => (List.range T).map fun t => (t, e)) := by
  rcases Nat.eq_zero_or_pos T with hT | hT
  · subst hT; simp
  · apply List.Perm.of_eq
    induction n with
    | zero => simp
    | succ n ih =>
      rw [Nat.mul_succ, List.range_add, List.map_append, ih, List.range_succ, List.flatMap_append]
      congr 1
      simp only [List.flatMap_cons, List.flatMap_nil, List.append_nil, List.map_map]
      apply List.map_congr_left
      intro t ht
      have ht' : t < T := List.mem_range.mp ht
      simp only [Function.comp]
      rw [Nat.mul_comm T n]
      exact unflat_flat T t n ht'

theorem getBatches_perm (T n : ℕ) (perm : List ℕ) (batch : Option ℕ)
    (hperm : perm.Perm (List.range (T * n))) (hb : ∀ b, batch = some b → 0 < b) (hTn : 0 < T * n) :
    ((getBatches T n perm batch).flatten).Perm
      ((List.range n).flatMap fun e => (List.range T).map fun t => (t, e)) := by
  unfold getBatches
  have hb' : 0 < batch.getD (T * n) := by
    cases batch with
    | none => simpa using hTn
    | some b => simpa using hb b rfl
  have : ((chunks (batch.getD (T * n)) perm).map (fun c => c.map (unflat T))).flatten =
      perm.map (unflat T) := by
    rw [← List.map_flatten, chunks_flatten _ hb']
  rw [this]
  exact (hperm.map _).trans (range_map_unflat_perm T n)

end SB3Verif.Lemmas
