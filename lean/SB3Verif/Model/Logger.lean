/-
Model of `Logger` and of the text output formats of stable_baselines3/common/logger.py.

* pending state `name_to_value / name_to_count / name_to_excluded` as ONE insertion-ordered association list
  (`record` and `record_mean` insert a key into all three dicts at the same moment, so they share one order);
  `record`, `record_mean` (`old*count/(count+1) + value/(count+1)`, `defaultdict(float)` start), `dump`.
* `filter_excluded_keys` (`visible`), the human-format exclusion rule (`"stdout" in excluded or "log" in excluded`).
* `JSONOutputFormat.write`   — one `json.dumps` line per dump (`jsonLine`), and a reader for such lines.
* `HumanOutputFormat.write`  — sorted keys, tag grouping, truncation to `max_length`, duplicate detection,
  column widths, the ASCII table.
* `CSVOutputFormat.write`    — `SB3Verif.Csv.File.write` fed with the rendered cells.

Generic over the number type `α` (the theorems use an arbitrary field, the driver `Rat` or opaque tokens);
how a number is printed (`str(x)`, `f"{x:<8.3g}"`, `json.dumps(float(x))`) is the parameter `Render α`.
Import-free apart from the CSV model.
-/
import SB3Verif.Model.Csv

namespace SB3Verif.Logger

open SB3Verif.Csv (Str Cell)

/-- A recorded value: Python `int`, a float-like number, or a `str`. -/
inductive Val (α : Type) where
  | int (i : Int)
  | flt (x : α)
  | str (s : Str)
  deriving DecidableEq, Repr

/-- One key of the pending dictionaries. -/
structure Entry (α : Type) where
  key : Str
  /-- `name_to_value[key]` -/
  val : Val α
  /-- `name_to_count[key]` (0 when absent) -/
  count : Nat
  /-- `name_to_excluded[key]` (`to_tuple(exclude)`) -/
  excl : List Str
  deriving DecidableEq, Repr

abbrev Pending (α : Type) := List (Entry α)

def find? {α} (k : Str) : Pending α → Option (Entry α)
  | [] => none
  | e :: es => if e.key = k then some e else find? k es

/-- dict assignment: an existing key keeps its position, a new key goes last -/
def upsert {α} (e : Entry α) : Pending α → Pending α
  | [] => [e]
  | e' :: es => if e'.key = e.key then e :: es else e' :: upsert e es

/-- `Logger.record(key, value, exclude)`; `name_to_count` is not touched. -/
def record {α} (k : Str) (v : Val α) (ex : List Str) (p : Pending α) : Pending α :=
  upsert { key := k, val := v, count := ((find? k p).map (·.count)).getD 0, excl := ex } p

section arith
variable {α : Type} [Add α] [Mul α] [Div α] [NatCast α] [IntCast α]

/-- `old_val * count / (count + 1) + value / (count + 1)` -/
def meanStep (old : α) (c : Nat) (x : α) : α :=
  old * (c : α) / ((c + 1 : Nat) : α) + x / ((c + 1 : Nat) : α)

/-- the pending value as a number (`None`: a `str`, on which the arithmetic raises `TypeError`) -/
def Val.toNum? : Val α → Option α
  | .int i => some (i : α)
  | .flt x => some x
  | .str _ => none

/-- `Logger.record_mean(key, value, exclude)` with `value is not None`. -/
def recordMean (k : Str) (x : α) (ex : List Str) (p : Pending α) : Option (Pending α) :=
  match find? k p with
  | none => some (upsert { key := k, val := .flt (meanStep ((0 : Nat) : α) 0 x), count := 1, excl := ex } p)
  | some e =>
    match e.val.toNum? with
    | none => none
    | some old => some (upsert { key := k, val := .flt (meanStep old e.count x), count := e.count + 1, excl := ex } p)

end arith

/-! ### Exclusion -/

/-- `filter_excluded_keys(key_values, key_excluded, fmt)` -/
def visible {α} (fmt : Str) (p : Pending α) : List (Str × Val α) :=
  (p.filter (fun e => !e.excl.contains fmt)).map (fun e => (e.key, e.val))

def STDOUT : Str := "stdout".toList
def LOG : Str := "log".toList
def CSV : Str := "csv".toList
def JSON : Str := "json".toList

/-- what `HumanOutputFormat.write` keeps (the same test for the `stdout` and the `log` output) -/
def humanVisible {α} (p : Pending α) : Pending α :=
  p.filter (fun e => !(e.excl.contains STDOUT || e.excl.contains LOG))

/-! ### Printing numbers -/

def digitChars : List Char := ['0', '1', '2', '3', '4', '5', '6', '7', '8', '9']

def digit (d : Nat) : Char := digitChars.getD (d % 10) '0'

def natDigitsAux : Nat → Nat → Str → Str
  | 0, _, acc => acc
  | f + 1, n, acc => if n < 10 then digit n :: acc else natDigitsAux f (n / 10) (digit n :: acc)

/-- decimal digits of a natural number -/
def natDigits (n : Nat) : Str := natDigitsAux (n + 1) n []

/-- `str(i)` for a Python int -/
def intRepr (i : Int) : Str :=
  if i < 0 then '-' :: natDigits i.natAbs else natDigits i.natAbs

/-- How a float-like number is printed by the three formats. -/
structure Render (α : Type) where
  /-- `str(value)` (CSV) -/
  csv : α → Str
  /-- `f"{value:<8.3g}"` for a `float`, `str(value)` otherwise (human format) -/
  human : α → Str
  /-- `json.dumps` of the value after `cast_to_json_serializable` -/
  json : α → Str

/-- the CSV cell of a value -/
def Val.cell {α} (R : Render α) : Val α → Cell
  | .int i => .num (intRepr i)
  | .flt x => .num (R.csv x)
  | .str s => .str s

/-! ### JSON lines -/

/-- `json.dumps(s)` for the characters the harness uses (printable ASCII, `\n`, `\r`, `\t`) -/
def jsonEscape : Str → Str
  | [] => []
  | c :: s =>
    if c = '"' then '\\' :: '"' :: jsonEscape s
    else if c = '\\' then '\\' :: '\\' :: jsonEscape s
    else if c = '\n' then '\\' :: 'n' :: jsonEscape s
    else if c = '\r' then '\\' :: 'r' :: jsonEscape s
    else if c = '\t' then '\\' :: 't' :: jsonEscape s
    else c :: jsonEscape s

def jsonStr (s : Str) : Str := '"' :: (jsonEscape s ++ ['"'])

/-- a value as it stands in a JSON line: a number token or a string -/
inductive JVal where
  | num (tok : Str)
  | str (s : Str)
  deriving DecidableEq, Repr

def Val.jval {α} (R : Render α) : Val α → JVal
  | .int i => .num (intRepr i)
  | .flt x => .num (R.json x)
  | .str s => .str s

def JVal.bytes : JVal → Str
  | .num t => t
  | .str s => jsonStr s

def jsonItems : List (Str × JVal) → Str
  | [] => []
  | [(k, v)] => jsonStr k ++ ':' :: ' ' :: v.bytes
  | (k, v) :: b :: r => jsonStr k ++ ':' :: ' ' :: v.bytes ++ ',' :: ' ' :: jsonItems (b :: r)

/-- `json.dumps(key_values) + "\n"` -/
def jsonLine (kvs : List (Str × JVal)) : Str := '{' :: (jsonItems kvs ++ ['}', '\n'])

/-- the row the JSON format writes for a pending set -/
def jsonRow {α} (R : Render α) (p : Pending α) : List (Str × JVal) :=
  (visible JSON p).map (fun kv => (kv.1, kv.2.jval R))

/-! Reader for such lines (`json.loads` restricted to flat objects of strings and number tokens). -/

/-- reads the inside of a string up to the closing quote (`esc`: the previous character was a backslash);
returns the decoded text and the rest of the input -/
def readJStr : Bool → Str → Str → Option (Str × Str)
  | _, _, [] => none
  | true, acc, d :: s =>
    if d = '"' then readJStr false (acc ++ ['"']) s
    else if d = '\\' then readJStr false (acc ++ ['\\']) s
    else if d = 'n' then readJStr false (acc ++ ['\n']) s
    else if d = 'r' then readJStr false (acc ++ ['\r']) s
    else if d = 't' then readJStr false (acc ++ ['\t']) s
    else none
  | false, acc, c :: s =>
    if c = '"' then some (acc, s)
    else if c = '\\' then readJStr true acc s
    else readJStr false (acc ++ [c]) s

/-- characters that end a number token -/
def jsonDelim (c : Char) : Bool := c = ',' || c = '}' || c = ' ' || c = '"' || c = ':' || c = '\n' || c = '{'

def readJTok : Str → Str → Str × Str
  | acc, [] => (acc, [])
  | acc, c :: s => if jsonDelim c then (acc, c :: s) else readJTok (acc ++ [c]) s

def readJVal : Str → Option (JVal × Str)
  | [] => none
  | c :: s =>
    if c = '"' then (readJStr false [] s).map (fun r => (.str r.1, r.2))
    else
      let r := readJTok [] (c :: s)
      if r.1.isEmpty then none else some (.num r.1, r.2)

/-- `s` with the prefix `pre` removed -/
def stripPrefix (pre s : Str) : Option Str :=
  if pre.isPrefixOf s then some (s.drop pre.length) else none

/-- items of an object after the opening brace; `fuel` bounds the number of items -/
def readJItems : Nat → List (Str × JVal) → Str → Option (List (Str × JVal))
  | 0, _, _ => none
  | fuel + 1, acc, s =>
    (stripPrefix ['"'] s).bind fun s1 =>
    (readJStr false [] s1).bind fun ks =>
    (stripPrefix [':', ' '] ks.2).bind fun s3 =>
    (readJVal s3).bind fun vs =>
    if vs.2 = ['}', '\n'] then some (acc ++ [(ks.1, vs.1)])
    else (stripPrefix [',', ' '] vs.2).bind fun s5 => readJItems fuel (acc ++ [(ks.1, vs.1)]) s5

/-- `json.loads(line)` for one line of `progress.json` -/
def parseJsonLine (s : Str) : Option (List (Str × JVal)) :=
  (stripPrefix ['{'] s).bind fun r =>
    if r = ['}', '\n'] then some [] else readJItems (r.length + 1) [] r

/-- the lines of `progress.json` (each ends with `"\n"`; line breaks inside strings are escaped) -/
def splitNlAux : Str → Str → List Str
  | cur, [] => if cur.isEmpty then [] else [cur]
  | cur, c :: s => if c = '\n' then (cur ++ [c]) :: splitNlAux [] s else splitNlAux (cur ++ [c]) s

/-- `read_json`: `json.loads` of every line -/
def readJson (s : Str) : Option (List (List (Str × JVal))) := (splitNlAux [] s).mapM parseJsonLine

/-! ### Human-readable table -/

/-- `HumanOutputFormat._truncate` (`max_length ≥ 3`) -/
def truncate (maxLen : Nat) (s : Str) : Str :=
  if s.length > maxLen then s.take (maxLen - 3) ++ ['.', '.', '.'] else s

/-- `sorted(...)` by key (code-point order), as a stable insertion sort -/
def insertByKey {α} (e : Entry α) : Pending α → Pending α
  | [] => [e]
  | e' :: es => if e.key ≤ e'.key then e :: e' :: es else e' :: insertByKey e es

def sortByKey {α} : Pending α → Pending α
  | [] => []
  | e :: es => insertByKey e (sortByKey es)

/-- `key.find("/")` -/
def findSlash : Str → Option Nat
  | [] => none
  | c :: s => if c = '/' then some 0 else (findSlash s).map (· + 1)

/-- the printed form of a value before truncation -/
def Val.humanStr {α} (R : Render α) : Val α → Str
  | .int i => intRepr i
  | .flt x => R.human x
  | .str s => s

/-- `key2str`: insertion-ordered dict from `(tag, truncated key)` to the value text -/
abbrev K2S := List ((Str × Str) × Str)

def k2sSet (k : Str × Str) (v : Str) : K2S → K2S
  | [] => [(k, v)]
  | (k', v') :: r => if k' = k then (k', v) :: r else (k', v') :: k2sSet k v r

def k2sHas (k : Str × Str) (m : K2S) : Bool := m.any (fun kv => kv.1 == k)

/-- the body of the loop of `HumanOutputFormat.write` for one (not excluded) key;
`none` = the `ValueError` for a key that is truncated to an existing one -/
def humanKey (maxLen : Nat) (tag : Str) (m : K2S) (key valueStr : Str) : Option (Str × K2S) :=
  let (tag, m) :=
    match findSlash key with
    | some (p + 1) =>
      let t := key.take (p + 2)
      (t, k2sSet (t, truncate maxLen t) [] m)
    | _ => (tag, m)
  let key' := if !tag.isEmpty && decide (tag <:+: key) then [' ', ' ', ' '] ++ key.drop tag.length else key
  let tk := truncate maxLen key'
  if k2sHas (tag, tk) m then none
  else some (tag, m ++ [((tag, tk), truncate maxLen valueStr)])

def humanLoop {α} (R : Render α) (maxLen : Nat) : Str → K2S → Pending α → Option K2S
  | _, m, [] => some m
  | tag, m, e :: es =>
    match humanKey maxLen tag m e.key (e.val.humanStr R) with
    | none => none
    | some (tag', m') => humanLoop R maxLen tag' m' es

def maxLen' (l : List Str) : Nat := l.foldl (fun a s => max a s.length) 0

def humanLines (kw vw : Nat) : K2S → Str
  | [] => []
  | ((_, k), v) :: r =>
    ['|', ' '] ++ k ++ List.replicate (kw - k.length) ' ' ++ [' ', '|', ' '] ++ v ++ List.replicate (vw - v.length) ' '
      ++ [' ', '|', '\n'] ++ humanLines kw vw r

/-- the text of the table for `key2str` (nothing, with a warning, when it is empty) -/
def humanTable (m : K2S) : Str :=
  if m.isEmpty then []
  else
    let kw := maxLen' (m.map (fun kv => kv.1.2))
    let vw := maxLen' (m.map (fun kv => kv.2))
    let dashes := List.replicate (kw + vw + 7) '-' ++ ['\n']
    dashes ++ humanLines kw vw m ++ dashes

/-- `HumanOutputFormat.write`: the text appended to the output, or `none` for the duplicate-key `ValueError` -/
def humanWrite {α} (R : Render α) (maxLen : Nat) (p : Pending α) : Option Str :=
  (humanLoop R maxLen [] [] (humanVisible (sortByKey p))).map humanTable

/-! ### The logger with its outputs -/

structure Config where
  csv : Bool
  json : Bool
  human : Bool
  maxLen : Nat
  deriving Repr

structure Sys (α : Type) where
  pending : Pending α
  /-- `progress.csv` -/
  csv : Csv.File
  /-- `progress.json` -/
  json : Str
  /-- `log.txt` (and the `stdout` stream, which receives the same text) -/
  human : Str

def Sys.init {α} : Sys α := ⟨[], Csv.File.empty, [], []⟩

inductive Op (α : Type) where
  | record (k : Str) (v : Val α) (ex : List Str)
  /-- `x = none`: `record_mean(key, None)` does nothing -/
  | recordMean (k : Str) (x : Option α) (ex : List Str)
  /-- `order`: iteration order of the set of new CSV keys -/
  | dump (order : List Str)

/-- the cells handed to the CSV writer -/
def csvRow {α} (R : Render α) (p : Pending α) : List (Str × Cell) :=
  (visible CSV p).map (fun kv => (kv.1, kv.2.cell R))

inductive Err where
  /-- `record_mean` on a key holding a `str` -/
  | typeError
  /-- human format: a key is truncated to an existing one -/
  | valueError
  /-- the supplied set-iteration order is not a permutation of the new keys (protocol misuse) -/
  | badOrder
  deriving DecidableEq, Repr

/-- `Logger.dump()`: every configured format writes, then the three dictionaries are cleared.
An exception of a format (the human format's duplicate `ValueError`) aborts the dump; the model reports it
whatever the position of that format in `output_formats`, and a history ends there. -/
def Sys.dump {α : Type} (R : Render α) (cfg : Config) (order : List Str) (s : Sys α) : Except Err (Sys α) :=
  match (if cfg.human then (humanWrite R cfg.maxLen s.pending).map (s.human ++ ·) else some s.human) with
  | none => .error .valueError
  | some human =>
    match (if cfg.csv then s.csv.write (csvRow R s.pending) order else some s.csv) with
    | none => .error .badOrder
    | some csv =>
      .ok { pending := []
            csv := csv
            json := if cfg.json then s.json ++ jsonLine (jsonRow R s.pending) else s.json
            human := human }

section step
variable {α : Type} [Add α] [Mul α] [Div α] [NatCast α] [IntCast α]

def Sys.step (R : Render α) (cfg : Config) (s : Sys α) : Op α → Except Err (Sys α)
  | .record k v ex => .ok { s with pending := record k v ex s.pending }
  | .recordMean _ none _ => .ok s
  | .recordMean k (some x) ex =>
    match recordMean k x ex s.pending with
    | none => .error .typeError
    | some p => .ok { s with pending := p }
  | .dump order => s.dump R cfg order

def Sys.run (R : Render α) (cfg : Config) : Sys α → List (Op α) → Except Err (Sys α)
  | s, [] => .ok s
  | s, op :: ops =>
    match s.step R cfg op with
    | .error e => .error e
    | .ok s' => Sys.run R cfg s' ops

end step

/-! ### Vocabulary for the theorems -/

def Op.isDump {α} : Op α → Bool
  | .dump _ => true
  | _ => false

/-- `record(k, …)` -/
def Op.isRecordOf {α} (k : Str) : Op α → Bool
  | .record k' _ _ => k' = k
  | _ => false

/-- the operation changes the pending entry of `k` -/
def Op.touches {α} (k : Str) : Op α → Bool
  | .record k' _ _ => k' = k
  | .recordMean k' (some _) _ => k' = k
  | _ => false

/-- the value given by a `record_mean(k, x)` with `x is not None` -/
def Op.meanVal {α} (k : Str) : Op α → Option α
  | .recordMean k' (some x) _ => if k' = k then some x else none
  | _ => none

/-- the key an operation names -/
def Op.key? {α} : Op α → Option Str
  | .record k _ _ => some k
  | .recordMean k _ _ => some k
  | .dump _ => none

/-- the values given to `record_mean(k, ·)` in a history, in order -/
def meanVals {α} (k : Str) (ops : List (Op α)) : List α := ops.filterMap (Op.meanVal k)

section snapshots
variable {α : Type} [Add α] [Mul α] [Div α] [NatCast α] [IntCast α]

/-- the pending set at every `dump` of a history (with the set-iteration order given to that dump), and the
pending set left at the end; `none` when a `record_mean` hits a string -/
def snapshots : Pending α → List (Op α) → Option (List (Pending α × List Str) × Pending α)
  | p, [] => some ([], p)
  | p, .record k v ex :: ops => snapshots (record k v ex p) ops
  | p, .recordMean _ none _ :: ops => snapshots p ops
  | p, .recordMean k (some x) ex :: ops =>
    match recordMean k x ex p with
    | none => none
    | some p' => snapshots p' ops
  | p, .dump order :: ops =>
    match snapshots [] ops with
    | none => none
    | some (l, q) => some ((p, order) :: l, q)

end snapshots

/-- what the CSV reader should return for column `k` of a dump with pending set `p` -/
def csvCellOf {α} (R : Render α) (p : Pending α) (k : Str) : Cell :=
  match find? k p with
  | some e => if e.excl.contains CSV then .missing else e.val.cell R
  | none => .missing

end SB3Verif.Logger
