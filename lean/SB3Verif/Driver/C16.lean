/-
Driver for C16: runs the executable model `SB3Verif.Her` on the operations the harness
(`/verif/harness/c16.py`) performed on the real `HerReplayBuffer`.

ops
  {"op":"new","buffer_size":B,"n_envs":n,"htt":bool}          → state dump (fresh buffer)
  {"op":"add","row":[[obs,ach,dg,act,nobs,nach,ndg,rew,done,timeout,info] × n]} → state dump
  {"op":"truncate"}                                            → state dump
  {"op":"sample","strategy":"future|final|episode","n_goal":k,"batch":B,"draws":[flat],"goals":[idx],"M":M}
       → {"valid":[flat],"nv":k,"ranges":[[lo,hi]],"batch":[[obs,ach,dg,act,nobs,nach,ndg,rew,done]],"vinfo":[tag]}
         | {"error": …}     (compute_reward is the injective code `nach * M + goal`)
state dump = {"cap":c,"pos":p,"full":b,"cur":[n],"ep_start":[[n] × cap],"ep_len":[[n] × cap]}
-/
import SB3Verif.Driver.Proto
import SB3Verif.Model.Her

open Lean SB3Verif.Proto SB3Verif.Her

def dumpC16 (h : Her) : Json :=
  let c0 := h.cols.getD 0 default
  let tbl (f : Col → List Nat) : Json :=
    listJ (fun s => listJ (fun (c : Col) => natJ ((f c).getD s 0)) h.cols) (List.range h.cap)
  objJ [("cap", natJ h.cap), ("pos", natJ c0.pos), ("full", boolJ c0.full),
        ("cur", listJ (fun (c : Col) => natJ c.cur) h.cols),
        ("ep_start", tbl (·.epStart)), ("ep_len", tbl (·.epLen)),
        ("pos_all", listJ (fun (c : Col) => natJ c.pos) h.cols)]

def asTrans (j : Json) : Except String Trans := do
  let l ← asList j
  match l with
  | [a, b, c, d, e, f, g, r, dn, to, inf] =>
    return { obs := ← asNat a, ach := ← asNat b, dg := ← asNat c, act := ← asNat d, nobs := ← asNat e,
             nach := ← asNat f, ndg := ← asNat g, rew := ← asInt r, done := ← asBool dn, timeout := ← asBool to,
             info := ← asNat inf }
  | _ => throw "bad transition"

def sampleJ (s : Sample) : Json :=
  Json.arr #[natJ s.obs, natJ s.ach, natJ s.dg, natJ s.act, natJ s.nobs, natJ s.nach, natJ s.ndg, intJ s.rew,
    boolJ s.done]

def stepC16 (st : Option Her) (j : Json) : Except String (Option Her × Json) := do
  let op ← getStr j "op"
  match op with
  | "new" =>
    let b ← getNat j "buffer_size"
    let n ← getNat j "n_envs"
    let htt ← getBool j "htt"
    if n = 0 then throw "n_envs = 0"
    let h := Her.init (ringSize b n) n htt
    return (some h, dumpC16 h)
  | "add" =>
    let some h := st | throw "no buffer"
    let row ← getList asTrans j "row"
    if row.length ≠ h.nEnvs then throw "row length ≠ n_envs"
    let h' := h.step (.add row)
    return (some h', dumpC16 h')
  | "truncate" =>
    let some h := st | throw "no buffer"
    let h' := h.step .truncate
    return (some h', dumpC16 h')
  | "sample" =>
    let some h := st | throw "no buffer"
    let strat ← match (← getStr j "strategy") with
      | "future" => pure Strategy.future
      | "final" => pure Strategy.final
      | "episode" => pure Strategy.episode
      | s => throw s!"bad strategy {s}"
    let nGoal ← getNat j "n_goal"
    let batch ← getNat j "batch"
    let draws ← getList asNat j "draws"
    let goals ← getList asNat j "goals"
    let m ← getNat j "M"
    let valid := h.validFlat
    if valid.isEmpty then throw "no-valid-transition"
    if !h.sampleOk strat nGoal batch draws goals then throw "draws-not-possible"
    let cr : Nat → Nat → Int := fun a g => (a * m + g : Nat)
    let out := h.sampleOut cr strat nGoal batch draws goals
    let nv := nbVirtual nGoal batch
    let vd := draws.take nv
    let ranges := vd.map fun i =>
      let (s, e) := h.unravel i
      (h.cols.getD e default).goalRange strat s
    let vinfo := vd.map fun i =>
      let (s, e) := h.unravel i
      ((h.cols.getD e default).slots.getD s default).info
    return (st, objJ [("valid", listJ natJ valid), ("nv", natJ nv),
      ("ranges", listJ (fun (p : Nat × Nat) => Json.arr #[natJ p.1, natJ p.2]) ranges),
      ("batch", listJ sampleJ out), ("vinfo", listJ natJ vinfo)])
  | _ => throw s!"bad-op {op}"

def main : IO Unit := SB3Verif.Proto.run stepC16 none
