/-
Model of `stable_baselines3/common/distributions.py` (property C14).

One source text, several instances.  Every formula below is written once against the core arithmetic
classes (`Add Sub Mul Div Neg`) plus the small operation class `TScalar` (literals, `π`, `exp`, `log`,
`tanh`, `sqrt`, a Boolean `≤`).  The class is instantiated

* here at core `Float` (IEEE double) and core `Float32` — these are what `Driver/C14.lean` executes, and
* in `Lemmas/Dist.lean` at `ℝ` (`Real.exp`, `Real.log`, `Real.tanh`, `Real.sqrt`, noncomputable) — this is
  what the theorems of `Props/C14.lean` are about.

So the theorems and the executed code cannot drift apart: they are the same definitions.

What is modelled (per batch row unless said otherwise; the batch loop is `List.map`):

* `sumIndependentDims`                      `sum_independent_dims` (rank ≥ 2: sum over dim 1; rank 1: total)
* `normalLogProb`, `normalEntropy`          `torch.distributions.Normal.log_prob / entropy` (formula as in torch)
* `gauss*`                                  `DiagGaussianDistribution` (`std = ones_like(mean) * exp(log_std)`,
                                            `rsample = loc + eps * scale`, `mode = mean`)
* `log1p`, `atanh`, `clamp`, `tanhInverse`  `TanhBijector.atanh / inverse` (clamp to `±(1 - eps)` first)
* `squashed*`                               `SquashedDiagGaussianDistribution` (`log_prob` with and without the
                                            cached pre-squash sample, correction `log(1 - a² + ε)`)
* `logSumExp`, `cat*`                       `CategoricalDistribution` (normalised logits, entropy `-Σ p log p`,
                                            mode = first arg-max of the probabilities)
* `splitBy`, `multi*`                       `MultiCategoricalDistribution` (`th.split` by `action_dims`)
* `logSigmoid`, `sigmoid`, `bern*`          `BernoulliDistribution` (`-BCEWithLogits`, `round(probs)`)
* `gsde*`                                   `StateDependentNoiseDistribution` (`get_std` with the masked `expln`
                                            arithmetic, `variance = latent² @ std²`, `Normal(mean, sqrt(variance+ε))`,
                                            `noise = latent @ W`, optional tanh bijector and its correction)

External inputs are parameters: the standard-normal draw of `rsample` (`z`), the exploration matrix `W`,
`th.finfo(dtype).eps` (`eps`) and the constructors' `epsilon` (`ε`).  Import-free (core only).
-/

namespace SB3Verif.Dist

/-- The operations the formulas need beyond `+ - * / neg`. -/
class TScalar (α : Type) where
  ofNat : Nat → α
  pi : α
  exp : α → α
  log : α → α
  tanh : α → α
  sqrt : α → α
  /-- Boolean `a ≤ b` (`decide` at ℝ, IEEE comparison at `Float`) -/
  le : α → α → Bool

open TScalar

section generic
variable {α : Type} [Add α] [Sub α] [Mul α] [Div α] [Neg α] [TScalar α]

/-! ### small helpers -/

/-- `1/2` -/
def half : α := ofNat 1 / ofNat 2

/-- sum of a list (`tensor.sum()` over one axis) -/
def sum (l : List α) : α := l.foldr (· + ·) (ofNat 0)

def max' (a b : α) : α := if le a b then b else a
def min' (a b : α) : α := if le a b then a else b
def abs' (x : α) : α := if le (ofNat 0) x then x else -x

/-- `1.0` / `0.0` of a Boolean mask (`tensor * (cond)`) -/
def ind (b : Bool) : α := if b then ofNat 1 else ofNat 0

def zipWith3 {β γ δ ε : Type} (f : β → γ → δ → ε) : List β → List γ → List δ → List ε
  | b :: bs, c :: cs, d :: ds => f b c d :: zipWith3 f bs cs ds
  | _, _, _ => []

/-- A tensor of rank 0, 1 or 2 (all that `sum_independent_dims` is applied to). -/
inductive Tensor (α : Type) where
  | scalar (x : α)
  | vec (l : List α)
  | mat (rows : List (List α))

/-- `sum_independent_dims`: `len(shape) > 1` → `sum(dim=1)`, else `sum()`. -/
def sumIndependentDims : Tensor α → Tensor α
  | .mat rows => .vec (rows.map sum)
  | .vec l => .scalar (sum l)
  | .scalar x => .scalar x

/-! ### `torch.distributions.Normal` -/

/-- `-((value - loc) ** 2) / (2 * scale**2) - scale.log() - math.log(math.sqrt(2 * math.pi))` -/
def normalLogProb (μ σ a : α) : α :=
  -((a - μ) * (a - μ)) / (ofNat 2 * (σ * σ)) - log σ - log (sqrt (ofNat 2 * pi))

/-- `0.5 + 0.5 * math.log(2 * math.pi) + torch.log(scale)` -/
def normalEntropy (σ : α) : α := half + half * log (ofNat 2 * pi) + log σ

/-! ### DiagGaussianDistribution -/

/-- `action_std = th.ones_like(mean_actions) * log_std.exp()` -/
def diagStd (logσ : α) : α := ofNat 1 * exp logσ

/-- element-wise `Normal(mean, std).log_prob(actions)` of one row -/
def gaussLogProbTerms (μ logσ a : List α) : List α :=
  zipWith3 (fun m s x => normalLogProb m (diagStd s) x) μ logσ a

/-- `DiagGaussianDistribution.log_prob` of one row -/
def gaussLogProb (μ logσ a : List α) : α := sum (gaussLogProbTerms μ logσ a)

def gaussEntropyTerms (logσ : List α) : List α := logσ.map fun s => normalEntropy (diagStd s)

/-- `DiagGaussianDistribution.entropy` of one row -/
def gaussEntropy (logσ : List α) : α := sum (gaussEntropyTerms logσ)

/-- `mode = distribution.mean` -/
def gaussMode (μ : List α) : List α := μ

/-- `rsample = loc + eps * scale` for the standard-normal draw `z` -/
def gaussSample (μ logσ z : List α) : List α :=
  zipWith3 (fun m s e => m + e * diagStd s) μ logσ z

/-- batched `log_prob`: `sum_independent_dims` of the `(batch, dims)` tensor of terms -/
def gaussLogProbBatch (μ logσ a : List (List α)) : Tensor α :=
  sumIndependentDims (.mat (zipWith3 gaussLogProbTerms μ logσ a))

/-- un-batched (rank-1 parameters) `log_prob`: the `else` branch of `sum_independent_dims` -/
def gaussLogProbVec (μ logσ a : List α) : Tensor α :=
  sumIndependentDims (.vec (gaussLogProbTerms μ logσ a))

def gaussEntropyBatch (logσ : List (List α)) : Tensor α :=
  sumIndependentDims (.mat (logσ.map gaussEntropyTerms))

def gaussEntropyVec (logσ : List α) : Tensor α :=
  sumIndependentDims (.vec (gaussEntropyTerms logσ))

/-! ### TanhBijector -/

/-- `x.log1p()`: `log(1 + x)` evaluated without cancellation for small `x`
(`u = 1 + x; x if u == 1 else log(u) * x / (u - 1)`); equal to `log (1 + x)` over ℝ. -/
def log1p (x : α) : α :=
  let u := ofNat 1 + x
  if le u (ofNat 1) && le (ofNat 1) u then x else log u * x / (u - ofNat 1)

/-- `TanhBijector.atanh`: `0.5 * (x.log1p() - (-x).log1p())` -/
def atanh (x : α) : α := half * (log1p x - log1p (-x))

/-- `y.clamp(min=lo, max=hi)` = `min(max(y, lo), hi)` -/
def clamp (lo hi y : α) : α := min' (max' y lo) hi

/-- `TanhBijector.inverse`: `atanh(y.clamp(min=-1.0 + eps, max=1.0 - eps))`, `eps = finfo(dtype).eps` -/
def tanhInverse (eps y : α) : α := atanh (clamp (-(ofNat 1) + eps) (ofNat 1 - eps) y)

/-! ### SquashedDiagGaussianDistribution -/

/-- one term of the squash correction: `log(1 - a**2 + ε)` -/
def squashCorrection (ε a : α) : α := log (ofNat 1 - a * a + ε)

/-- `log_prob(actions, gaussian_actions)` of one row with the pre-squash sample given -/
def squashedLogProbG (ε : α) (μ logσ a g : List α) : α :=
  gaussLogProb μ logσ g - sum (a.map (squashCorrection ε))

/-- `log_prob(actions)` of one row: the pre-squash value is recovered with `TanhBijector.inverse` -/
def squashedLogProb (ε eps : α) (μ logσ a : List α) : α :=
  squashedLogProbG ε μ logσ a (a.map (tanhInverse eps))

def squashedMode (μ : List α) : List α := (gaussMode μ).map tanh

/-- the cached `gaussian_actions` of `sample()` and the returned action -/
def squashedSample (μ logσ z : List α) : List α × List α :=
  let g := gaussSample μ logσ z
  (g, g.map tanh)

/-- `log_prob_from_params`: sample, then `log_prob(action, self.gaussian_actions)` -/
def squashedLogProbFromParams (ε : α) (μ logσ z : List α) : List α × α :=
  let (g, a) := squashedSample μ logσ z
  (a, squashedLogProbG ε μ logσ a g)

/-! ### CategoricalDistribution -/

def maxList : List α → α
  | [] => ofNat 0
  | [x] => x
  | x :: xs => max' x (maxList xs)

/-- `logits.logsumexp(dim=-1)` (max-shifted) -/
def logSumExp (l : List α) : α :=
  let m := maxList l
  m + log (sum (l.map fun x => exp (x - m)))

/-- `Categorical(logits=…).logits`: `logits - logits.logsumexp(-1, keepdim=True)` -/
def catLogits (l : List α) : List α :=
  let z := logSumExp l
  l.map fun x => x - z

/-- `probs` of the normalised logits -/
def catProbs (l : List α) : List α := (catLogits l).map exp

/-- `log_prob(a)`: gather the normalised logit (`none`: index outside the support) -/
def catLogProb (l : List α) (a : Nat) : Option α := (catLogits l)[a]?

/-- `entropy`: `-(logits * probs).sum(-1)` -/
def catEntropy (l : List α) : α := -(sum ((catLogits l).map fun lp => lp * exp lp))

/-- `(index, value)` of the first maximum (`th.argmax` returns the first maximal index) -/
def argmaxAux : List α → Nat × α
  | [] => (0, ofNat 0)
  | [x] => (0, x)
  | x :: xs =>
    let r := argmaxAux xs
    if le r.2 x then (0, x) else (r.1 + 1, r.2)

def argmax (l : List α) : Nat := (argmaxAux l).1

/-- `mode = th.argmax(probs, dim=1)` -/
def catMode (l : List α) : Nat := argmax (catProbs l)

/-! ### MultiCategoricalDistribution -/

/-- `th.split(action_logits, action_dims, dim=1)` of one row -/
def splitBy : List Nat → List α → List (List α)
  | [], _ => []
  | n :: ns, l => l.take n :: splitBy ns (l.drop n)

/-- `Σ_k dist_k.log_prob(action_k)`; `none` when an index is outside its block's support
or the number of action components differs from the number of blocks -/
def multiLogProbAux : List (List α) → List Nat → Option (List α)
  | [], [] => some []
  | b :: bs, a :: as =>
    match catLogProb b a, multiLogProbAux bs as with
    | some x, some r => some (x :: r)
    | _, _ => none
  | _, _ => none

def multiLogProb (nvec : List Nat) (logits : List α) (a : List Nat) : Option α :=
  (multiLogProbAux (splitBy nvec logits) a).map sum

def multiEntropy (nvec : List Nat) (logits : List α) : α :=
  sum ((splitBy nvec logits).map catEntropy)

def multiMode (nvec : List Nat) (logits : List α) : List Nat :=
  (splitBy nvec logits).map catMode

/-! ### BernoulliDistribution -/

/-- `F.logsigmoid(x) = min(x, 0) - log1p(exp(-|x|))` -/
def logSigmoid (x : α) : α := min' x (ofNat 0) - log1p (exp (-(abs' x)))

/-- `probs = sigmoid(logits)` -/
def sigmoid (x : α) : α := ofNat 1 / (ofNat 1 + exp (-x))

/-- `-binary_cross_entropy_with_logits(l, a) = -((1 - a) * l - logsigmoid(l))` -/
def bernLogProb1 (l a : α) : α := -((ofNat 1 - a) * l - logSigmoid l)

/-- `BernoulliDistribution.log_prob` of one row (`.sum(dim=1)`) -/
def bernLogProb (ls as : List α) : α := sum (List.zipWith bernLogProb1 ls as)

/-- `binary_cross_entropy_with_logits(logits, probs)` -/
def bernEntropy1 (l : α) : α := (ofNat 1 - sigmoid l) * l - logSigmoid l

def bernEntropy (ls : List α) : α := sum (ls.map bernEntropy1)

/-- `th.round(probs)` (round-half-to-even: `0.5 ↦ 0`) as a Boolean -/
def bernModeB (l : α) : Bool := !(le (sigmoid l) half)

def bernMode (ls : List α) : List α := ls.map fun l => ind (bernModeB l)

/-! ### StateDependentNoiseDistribution -/

/-- `get_std` on one entry, with the masked arithmetic of the `use_expln` branch:
`exp(x) * (x <= 0) + (log1p(x * (x > 0) + ε) + 1.0) * (x > 0)` -/
def gsdeStd1 (useExpln : Bool) (ε x : α) : α :=
  if useExpln then
    let pos : Bool := !(le x (ofNat 0))
    let below := exp x * ind (le x (ofNat 0))
    let safe := x * ind pos + ε
    let above := (log1p safe + ofNat 1) * ind pos
    below + above
  else exp x

/-- `get_std` on the whole parameter: `(latent, action_dim)` when `full_std`, otherwise the
`(latent, 1)` column broadcast by `th.ones(latent, action_dim) * std` -/
def gsdeStd (fullStd useExpln : Bool) (ε : α) (actionDim : Nat) (logStd : List (List α)) : List (List α) :=
  let s := logStd.map fun row => row.map (gsdeStd1 useExpln ε)
  if fullStd then s
  else s.map fun row => (List.replicate actionDim (ofNat 1 : α)).map fun o => o * (row.headD (ofNat 0))

/-- row vector times matrix (`th.mm` of one row): `(v @ M)_j = Σ_i v_i * M_ij`, `n` columns -/
def vecMat (v : List α) (M : List (List α)) (n : Nat) : List α :=
  (List.range n).map fun j => sum (List.zipWith (fun x row => x * row.getD j (ofNat 0)) v M)

/-- `variance = th.mm(latent**2, std**2)` of one row -/
def gsdeVariance (latent : List α) (std : List (List α)) (n : Nat) : List α :=
  vecMat (latent.map fun x => x * x) (std.map fun row => row.map fun s => s * s) n

/-- scale of `Normal(mean_actions, th.sqrt(variance + ε))` -/
def gsdeScale (ε : α) (latent : List α) (std : List (List α)) (n : Nat) : List α :=
  (gsdeVariance latent std n).map fun v => sqrt (v + ε)

/-- `TanhBijector.log_prob_correction`: `log(1.0 - tanh(x)**2 + ε)` -/
def bijectorCorrection (ε x : α) : α := log (ofNat 1 - tanh x * tanh x + ε)

/-- `StateDependentNoiseDistribution.log_prob` of one row (`scale` from `gsdeScale`) -/
def gsdeLogProb (squash : Bool) (ε eps : α) (μ scale a : List α) : α :=
  let g := if squash then a.map (tanhInverse eps) else a
  let lp := sum (zipWith3 normalLogProb μ scale g)
  if squash then lp - sum (g.map (bijectorCorrection ε)) else lp

/-- `entropy`: `none` with a bijector -/
def gsdeEntropy (squash : Bool) (scale : List α) : Option α :=
  if squash then none else some (sum (scale.map normalEntropy))

def gsdeMode (squash : Bool) (μ : List α) : List α := if squash then μ.map tanh else μ

/-- `get_noise` of one row with the exploration matrix `W` that applies to it -/
def gsdeNoise (latent : List α) (W : List (List α)) (n : Nat) : List α := vecMat latent W n

/-- `sample`: `mean + noise`, squashed when a bijector is present -/
def gsdeSample (squash : Bool) (μ latent : List α) (W : List (List α)) (n : Nat) : List α :=
  let a := List.zipWith (· + ·) μ (gsdeNoise latent W n)
  if squash then a.map tanh else a

end generic

/-! ### executable instances -/

instance : TScalar Float where
  ofNat := Float.ofNat
  pi := 3.141592653589793
  exp := Float.exp
  log := Float.log
  tanh := Float.tanh
  sqrt := Float.sqrt
  le a b := a ≤ b

instance : TScalar Float32 where
  ofNat := Float32.ofNat
  pi := (3.141592653589793 : Float).toFloat32
  exp := Float32.exp
  log := Float32.log
  tanh := Float32.tanh
  sqrt := Float32.sqrt
  le a b := a ≤ b

end SB3Verif.Dist
