/-
Helper lemmas for C06 (on-policy collection). The property theorems are in `Props/C06.lean`.
-/
import SB3Verif.Model.OnPolicy
import SB3Verif.Lemmas.Rollout
import Mathlib.Algebra.Order.Field.Basic
import Mathlib.Tactic.Ring
import Mathlib.Tactic.Linarith

namespace SB3Verif.OnPolicy.Lemmas

open SB3Verif.OnPolicy

section loop
variable {O A α : Type} [Add α] [Mul α]

/-- The state seen by step `t` of a rollout: element `t` of `c :: xs.map carryOf`. -/
theorem collectLoop_rows (γ : α) (V : O → α) (f : A → A) (c : Carry O) (xs : List (StepIn O A α)) :
    (collectLoop γ V f c xs).1 = List.zipWith (slotOf γ V) (c :: xs.map carryOf) xs := by
  induction xs generalizing c with
  | nil => simp [collectLoop]
  | cons x xs ih => simp [collectLoop, ih]

theorem collectLoop_acts (γ : α) (V : O → α) (f : A → A) (c : Carry O) (xs : List (StepIn O A α)) :
    (collectLoop γ V f c xs).2.1 = xs.map (fun x e => f (x.sample e).action) := by
  induction xs generalizing c with
  | nil => simp [collectLoop]
  | cons x xs ih => simp [collectLoop, ih]

theorem collectLoop_carry (γ : α) (V : O → α) (f : A → A) (c : Carry O) (xs : List (StepIn O A α)) :
    (collectLoop γ V f c xs).2.2 = (xs.getLast?.map carryOf).getD c := by
  induction xs generalizing c with
  | nil => simp [collectLoop]
  | cons x xs ih =>
    simp only [collectLoop, ih]
    cases xs with
    | nil => simp
    | cons y ys =>
      rw [List.getLast?_cons_cons, List.getLast?_eq_some_getLast (List.cons_ne_nil y ys)]
      simp

theorem collectLoop_rows_length (γ : α) (V : O → α) (f : A → A) (c : Carry O) (xs : List (StepIn O A α)) :
    (collectLoop γ V f c xs).1.length = xs.length := by
  simp [collectLoop_rows]

theorem rowCarry_slotOf (γ : α) (V : O → α) (p : Carry O) (x : StepIn O A α) :
    rowCarry (slotOf γ V p x) = p := rfl

theorem rows_rowCarry (γ : α) (V : O → α) (f : A → A) (c : Carry O) (xs : List (StepIn O A α)) :
    ((collectLoop γ V f c xs).1).map rowCarry = (c :: xs.map carryOf).take xs.length := by
  induction xs generalizing c with
  | nil => simp [collectLoop]
  | cons x xs ih =>
    simp only [collectLoop, List.map_cons, ih, List.length_cons, List.take_succ_cons]
    rfl

/-- Cutting a list of successive states after a prefix. -/
theorem take_append_carry {β : Type} (c : β) (l m : List β) :
    (c :: (l ++ m)).take (l.length + m.length) =
      (c :: l).take l.length ++ ((l.getLast?.getD c) :: m).take m.length := by
  induction l generalizing c with
  | nil => simp
  | cons a l ih =>
    have h : (a :: l).length + m.length = (l.length + m.length) + 1 := by simp; omega
    rw [h, List.cons_append, List.take_succ_cons, ih a]
    simp only [List.length_cons, List.take_succ_cons, List.cons_append]
    congr 3
    cases l with
    | nil => simp
    | cons b l' =>
      rw [List.getLast?_cons_cons, List.getLast?_eq_some_getLast (List.cons_ne_nil b l')]
      simp

end loop

section gae
open SB3Verif.Rollout
variable {α : Type} [CommRing α]

theorem gaeCol_ne_nil (γ lam lv ln : α) (ss : List (Step α)) (h : ss ≠ []) : gaeCol γ lam lv ln ss ≠ [] := by
  cases ss with
  | nil => exact absurd rfl h
  | cons a rest => simp [gaeCol]

/-- The advantage of the last stored step is its TD residual against the supplied last value. -/
theorem gaeCol_snoc_getLast (γ lam lv ln : α) (ss : List (Step α)) (s : Step α) :
    (gaeCol γ lam lv ln (ss ++ [s])).getLast? = some (s.r + γ * lv * ln - s.v) := by
  induction ss with
  | nil => simp [gaeCol, nextOf, delta]
  | cons a rest ih =>
    have hne : gaeCol γ lam lv ln (rest ++ [s]) ≠ [] := gaeCol_ne_nil _ _ _ _ _ (by simp)
    simp only [List.cons_append, gaeCol]
    rw [List.getLast?_cons_of_ne_nil hne]
    exact ih

end gae

/-! ### The collected buffer as input of the C05 closed form -/

section compose
open SB3Verif.Rollout
variable {O A α : Type} [CommRing α]

/-- Step `k` of column `e` as GAE reads it, written on the externals. -/
def mkStep (γ : α) (V : O → α) (e : ℕ) (p : Carry O) (x : StepIn O A α) : Step α :=
  { r := rewardOf γ V (x.out e), v := V (p.lastObs e), start := boolS (p.lastStarts e) }

theorem gaeSteps_rows (γ : α) (V : O → α) (f : A → A) (c : Carry O) (xs : List (StepIn O A α)) (e : ℕ) :
    gaeSteps (collectRollout γ V f c xs).rows e = List.zipWith (mkStep γ V e) (c :: xs.map carryOf) xs := by
  simp only [collectRollout, collectLoop_rows, gaeSteps, List.map_zipWith]
  rfl

theorem steps_length (γ : α) (V : O → α) (f : A → A) (c : Carry O) (xs : List (StepIn O A α)) (e : ℕ) :
    (gaeSteps (collectRollout γ V f c xs).rows e).length = xs.length := by
  simp [gaeSteps, collectRollout, collectLoop_rows_length]

theorem nextOf_drop (lv ln : α) (ss : List (Step α)) (k : ℕ) :
    nextOf lv ln (ss.drop k) = match ss[k]? with
      | some s' => (s'.v, 1 - s'.start)
      | none => (lv, ln) := by
  cases h : ss[k]? with
  | none =>
    have : ss.drop k = [] := by
      rw [List.drop_eq_nil_iff]; exact List.getElem?_eq_none_iff.mp h
    simp [this, nextOf]
  | some s' =>
    obtain ⟨hk, rfl⟩ := List.getElem?_eq_some_iff.mp h
    rw [List.drop_eq_getElem_cons hk]
    simp [nextOf]

theorem getLast_of_last_index {β : Type} (l : List β) (k : ℕ) (x : β) (h₀ : l[k]? = some x)
    (h₁ : l[k + 1]? = none) : l.getLast? = some x := by
  have hk : k < l.length := (List.getElem?_eq_some_iff.mp h₀).1
  have hk1 : l.length ≤ k + 1 := List.getElem?_eq_none_iff.mp h₁
  have : l.length - 1 = k := by omega
  rw [List.getLast?_eq_getElem?, this, h₀]

/-- `next_values` / `next_non_terminal` seen by step `k`: value of the observation that step returned and
`1 - done` of that step — from the next row inside the rollout, from `last_values` / `dones` at its end. -/
theorem next_collected (γ : α) (V : O → α) (f : A → A) (c : Carry O) (xs : List (StepIn O A α)) (e k : ℕ)
    (x : StepIn O A α) (hx : xs[k]? = some x) :
    nextOf ((collectRollout γ V f c xs).lastValues e) (1 - boolS ((collectRollout γ V f c xs).lastDones e))
        ((gaeSteps (collectRollout γ V f c xs).rows e).drop (k + 1)) =
      (V ((x.out e).obs), 1 - boolS (x.out e).done) := by
  rw [nextOf_drop, gaeSteps_rows, List.getElem?_zipWith]
  cases h1 : xs[k + 1]? with
  | none =>
    have hl := getLast_of_last_index xs k x hx h1
    simp [collectRollout, hl, carryOf, hx]
  | some x1 =>
    simp [hx, mkStep, carryOf]

theorem nntAt_collected (γ : α) (V : O → α) (f : A → A) (c : Carry O) (xs : List (StepIn O A α)) (e k : ℕ)
    (hk : k < xs.length) :
    nntAt ((collectRollout γ V f c xs).lastValues e) (1 - boolS ((collectRollout γ V f c xs).lastDones e))
        (gaeSteps (collectRollout γ V f c xs).rows e) k = 1 - boolS (doneAt xs e k) := by
  have hx : xs[k]? = some xs[k] := List.getElem?_eq_getElem hk
  simp [nntAt, next_collected γ V f c xs e k _ hx, doneAt, hx]

theorem deltaAt_collected (γ : α) (V : O → α) (f : A → A) (c : Carry O) (xs : List (StepIn O A α)) (e k : ℕ)
    (hk : k < xs.length) :
    deltaAt γ ((collectRollout γ V f c xs).lastValues e) (1 - boolS ((collectRollout γ V f c xs).lastDones e))
        (gaeSteps (collectRollout γ V f c xs).rows e) k = tdAt γ V c xs e k := by
  have hx : xs[k]? = some xs[k] := List.getElem?_eq_getElem hk
  have hp : ∃ p, (c :: xs.map carryOf)[k]? = some p := by
    have : k < (c :: xs.map carryOf).length := by simp; omega
    exact ⟨_, List.getElem?_eq_getElem this⟩
  obtain ⟨p, hp⟩ := hp
  have hs : (gaeSteps (collectRollout γ V f c xs).rows e)[k]? = some (mkStep γ V e p xs[k]) := by
    rw [gaeSteps_rows, List.getElem?_zipWith, hp, hx]
  simp only [deltaAt, hs, nvAt, nntAt, next_collected γ V f c xs e k _ hx, tdAt, hp, hx, delta, mkStep]

theorem adv_closed (γ lam : α) (V : O → α) (f : A → A) (c : Carry O) (xs : List (StepIn O A α)) (e t : ℕ) :
    (advantagesOf γ lam (collectRollout γ V f c xs) e).getD t 0 =
      ∑ l ∈ Finset.range (xs.length - t),
        (γ * lam) ^ l * (∏ j ∈ Finset.range l, (1 - boolS (doneAt xs e (t + j)))) * tdAt γ V c xs e (t + l) := by
  unfold advantagesOf
  rw [SB3Verif.Lemmas.gaeCol_getD_closed, steps_length]
  apply Finset.sum_congr rfl
  intro l hl
  have hl' : t + l < xs.length := by have := Finset.mem_range.mp hl; omega
  rw [deltaAt_collected γ V f c xs e (t + l) hl']
  congr 2
  apply Finset.prod_congr rfl
  intro j hj
  have : t + j < xs.length := by have := Finset.mem_range.mp hj; omega
  exact nntAt_collected γ V f c xs e (t + j) this

theorem adv_segment (γ lam : α) (V : O → α) (f : A → A) (c : Carry O) (xs : List (StepIn O A α)) (e s t : ℕ)
    (hst : s ≤ t) (ht : t < xs.length) (hrun : ∀ j, s ≤ j → j < t → doneAt xs e j = false)
    (hend : doneAt xs e t = true) :
    (advantagesOf γ lam (collectRollout γ V f c xs) e).getD s 0 =
      ∑ l ∈ Finset.range (t - s + 1), (γ * lam) ^ l * tdAt γ V c xs e (s + l) := by
  rw [adv_closed]
  have hsub : Finset.range (t - s + 1) ⊆ Finset.range (xs.length - s) := by
    intro l hl; have := Finset.mem_range.mp hl; exact Finset.mem_range.mpr (by omega)
  rw [← Finset.sum_subset hsub]
  · apply Finset.sum_congr rfl
    intro l hl
    have hl' := Finset.mem_range.mp hl
    have : (∏ j ∈ Finset.range l, (1 - boolS (doneAt xs e (s + j)) : α)) = 1 := by
      apply Finset.prod_eq_one
      intro j hj
      have := Finset.mem_range.mp hj
      rw [hrun (s + j) (by omega) (by omega)]
      simp [boolS]
    rw [this, mul_one]
  · intro l _ hnot
    have hl : t - s < l := by
      by_contra h; exact hnot (Finset.mem_range.mpr (by omega))
    have : (∏ j ∈ Finset.range l, (1 - boolS (doneAt xs e (s + j)) : α)) = 0 := by
      apply Finset.prod_eq_zero (Finset.mem_range.mpr hl)
      have : s + (t - s) = t := by omega
      rw [this, hend]
      simp [boolS]
    rw [this]; ring

end compose

section clip
variable {α : Type} [LinearOrder α]

theorem clip_mem (a lo hi : α) (h : lo ≤ hi) : lo ≤ clip a lo hi ∧ clip a lo hi ≤ hi := by
  unfold clip
  exact ⟨le_min (le_max_right _ _) h, min_le_right _ _⟩

theorem clip_inside (a lo hi : α) (h1 : lo ≤ a) (h2 : a ≤ hi) : clip a lo hi = a := by
  unfold clip
  rw [max_eq_left h1, min_eq_left h2]

theorem clip_below (a lo hi : α) (h : lo ≤ hi) (h1 : a ≤ lo) : clip a lo hi = lo := by
  unfold clip
  rw [max_eq_right h1, min_eq_left h]

theorem clip_above (a lo hi : α) (h : lo ≤ hi) (h1 : hi ≤ a) : clip a lo hi = hi := by
  unfold clip
  rw [max_eq_left (le_trans h h1), min_eq_right h1]

end clip

section unscale
variable {α : Type} [Field α] [LinearOrder α] [IsStrictOrderedRing α]

/-- For a squashed action `a ∈ [-1, 1]` the affine map lands inside `[lo, hi]`, so the clip added by the
rounding fix changes nothing in exact arithmetic. -/
theorem unscale_affine (a lo hi : α) (h : lo ≤ hi) (h1 : -1 ≤ a) (h2 : a ≤ 1) :
    unscale (2⁻¹ : α) a lo hi = lo + (a + 1) / 2 * (hi - lo) := by
  unfold unscale
  have e : lo + (2⁻¹ * (a + 1) * (hi - lo)) = lo + (a + 1) / 2 * (hi - lo) := by ring
  rw [e]
  apply clip_inside
  · have : 0 ≤ (a + 1) / 2 * (hi - lo) :=
      mul_nonneg (div_nonneg (by linarith) (by norm_num)) (by linarith)
    linarith
  · have h3 : (a + 1) / 2 ≤ 1 := by linarith
    have h4 : 0 ≤ hi - lo := by linarith
    have : (a + 1) / 2 * (hi - lo) ≤ 1 * (hi - lo) := mul_le_mul_of_nonneg_right h3 h4
    linarith

end unscale

end SB3Verif.OnPolicy.Lemmas
