"""
C17 — VecEnv wrappers keep the contract and transform terminal observations alike.

Implementation under test: VecFrameStack/StackedObservations, VecTransposeImage, VecExtractDictObs, VecMonitor,
VecCheckNan (stable_baselines3/common/vec_env/), stacked in any type-correct order over a DummyVecEnv
(also: a float64-reward DummyVecEnv variant and SubprocVecEnv, whose rewards are not float32) of scripted environments.
Model: lean/SB3Verif/Model/Wrappers.lean (driver lean/SB3Verif/Driver/C17.lean)

Three parties see every case:
  * the real wrapper stack (its inputs — the raw outputs of the base VecEnv — are recorded by a spy on the base);
  * the Lean model, fed with exactly those recorded inputs                      -> correspondence streams;
  * a reference written at *specification* level in this file (`Ref*` classes: "the stack is the last n frames of
    the current episode, zero padded", "the terminal stack is the last n frames of the episode that just ended",
    transposition/projection of values, pass-through of everything else)       -> the property oracle.
"""
from __future__ import annotations

import copy
import warnings

import numpy as np
from gymnasium import spaces

from harness.common import InfraError, guarded
from harness.envs import ScriptedEnv, gen_script

RULE = (
    "cases from one SplitMix64 stream: base observation kind (Box rank 1-4 float/int, uint8 images HWC/CHW/ambiguous/"
    "grayscale, uint8 non-image, Dict of them, Box with bounds that differ along the stacking axis, Box whose bounds "
    "exclude 0), n_envs 1-3, a type-correct stack of 0-4 wrappers from {VecFrameStack(n_stack 1-5, channels_order "
    "None/first/last/per-key dict), VecTransposeImage(skip or not), VecExtractDictObs, VecMonitor, VecCheckNan}, "
    "base VecEnv DummyVecEnv (float32 rewards) / a float64-reward DummyVecEnv variant and SubprocVecEnv (rewards not "
    "representable in float32), optionally a base that auto-resets WITHOUT reporting terminal_observation and/or "
    "sub-environments that reuse one info dict object, per-env episode scripts (length-1 episodes, terminated and/or truncated, never ending, "
    "...), a history of "
    "reset()/step() calls incl. resets in mid-episode; every returned observation, reward, done, info entry and the "
    "declared observation space are compared with the Lean model (exactly) and with the specification-level reference. "
    "non-trivial = a VecFrameStack with n_stack >= 2 inside a stack of >= 2 wrappers sees an episode end whose whole "
    "episode fits in the stack (episode shorter than the stack depth); distinct = distinct canonical case"
)
STREAMS = {
    "space": "declared observation space of the wrapper stack (dict?, keys, shapes, low, high, dtype) == model's",
    "reset": "observations returned by reset() == model's, element for element",
    "step": "obs / reward / done / terminal_observation / TimeLimit.truncated / episode (r, l) / info payload of "
            "every step == model's",
    "spec_stackOf": "the model's specification function stackOf == np.concatenate of the zero-padded last n frames",
    "contains": "model's Space.contains == gymnasium's observation_space.contains on returned observations",
}

BIG = 1 << 20

# kind -> (shape, dtype, low, high)   low/high scalars or per-element lists (C order)
KINDS = {
    "vec": ((3,), "float32", -1, BIG),
    "mat": ((2, 3), "float32", -BIG, BIG),
    "cube": ((2, 3, 2), "float32", -1, BIG),
    "ivec": ((4,), "int32", 0, BIG),
    "hyper": ((2, 1, 2, 2), "float32", -BIG, BIG),
    "img_hwc": ((4, 3, 2), "uint8", 0, 255),
    "img_chw": ((2, 4, 3), "uint8", 0, 255),
    "img_mid": ((4, 2, 3), "uint8", 0, 255),
    "gray": ((3, 3, 1), "uint8", 0, 255),
    "u8box": ((3, 2, 2), "uint8", 0, 200),
    # bounds differ along the last axis (the default stacking axis)
    "vec_nu": ((3,), "float32", [0, -64, -BIG], [BIG, 64, 0]),
    # bounds differ along the first axis only (uniform along the default stacking axis)
    "mat_nu0": ((2, 2), "float32", [0, 0, -BIG, -BIG], [BIG, BIG, 0, 0]),
    # 0 is not inside the bounds
    "pos": ((3,), "float32", 1, BIG),
}
DICTS = {
    "dict_a": {"img": "img_hwc", "mat": "mat", "vec": "vec"},
    "dict_b": {"chw": "img_chw", "ivec": "ivec"},
    "dict_c": {"gray": "gray", "img": "img_hwc"},
}
BASE_KINDS = [("vec", 3), ("mat", 3), ("cube", 2), ("ivec", 1), ("hyper", 1), ("img_hwc", 4), ("img_chw", 3), ("img_mid", 1),
              ("gray", 1), ("u8box", 1), ("vec_nu", 2), ("mat_nu0", 2), ("pos", 1), ("dict_a", 5), ("dict_b", 2),
              ("dict_c", 2)]


def box_of(kind):
    shape, dtype, low, high = KINDS[kind]
    dt = np.dtype(dtype)
    lo = np.array(low, dtype=dt).reshape(shape) if isinstance(low, list) else np.full(shape, low, dtype=dt)
    hi = np.array(high, dtype=dt).reshape(shape) if isinstance(high, list) else np.full(shape, high, dtype=dt)
    return spaces.Box(low=lo, high=hi, dtype=dt.type)


def space_of(kind):
    if kind in DICTS:
        return spaces.Dict({k: box_of(v) for k, v in DICTS[kind].items()})
    return box_of(kind)


def enc(kind, env_id, episode, step):
    """the observation the scripted environment shows at (env, episode, step): unique, never all zero, in bounds"""
    if kind in DICTS:
        return {k: enc(v, env_id, episode, step) for k, v in DICTS[kind].items()}
    shape, dtype, _, _ = KINDS[kind]
    t = env_id * 4096 + (episode % 64) * 64 + (step % 64) + 1
    size = int(np.prod(shape))
    p = np.arange(size)
    if dtype == "uint8":
        flat = ((p * 7 + t * 13) % 199 + 1)
        flat[0] = t % 200
        if size > 1:
            flat[1] = (t // 200) % 200
    elif kind == "vec_nu":
        flat = np.array([t * 32, (t * 5) % 64 - 40, -(t * 32 + 2)])
    elif kind == "mat_nu0":
        flat = np.array([t * 32, t * 32 + 1, -(t * 32 + 2), -(t * 32 + 3)])
    else:
        flat = t * 32 + p
    return flat.astype(dtype).reshape(shape)


class WEnv(ScriptedEnv):
    """ScriptedEnv (script-driven rewards/terminations, call log) with the observation kinds of this property"""

    def __init__(self, env_id=0, kind="vec", script=None, info_mode="fresh"):
        super().__init__(env_id=env_id, obs_kind="box1", act_kind="discrete", script=script, info_mode=info_mode)
        self.kind = kind
        self.observation_space = space_of(kind)

    def reset(self, *, seed=None, options=None):
        _, info = super().reset(seed=seed, options=options)
        return enc(self.kind, self.env_id, self.episode, self.step_in_ep), info

    def step(self, action):
        _, r, te, tr, info = super().step(action)
        return enc(self.kind, self.env_id, self.episode, self.step_in_ep), r, te, tr, info


# rewards emitted by the float64 base VecEnvs: several are not representable in float32
F64_REWARDS = [0.1, 0.4333333333333333, -0.7, 1.1, 0.0, 2.0, 1e-9, 123456.789]


def make_f64_vecenv(fns):
    """a DummyVecEnv-like base whose step_wait returns the sub-environments' rewards as float64, exactly as emitted
    (like SubprocVecEnv / gym3-style vectorised environments); auto-reset + terminal_observation as in DummyVecEnv"""
    from copy import deepcopy

    from stable_baselines3.common.vec_env import DummyVecEnv

    class F64DummyVecEnv(DummyVecEnv):
        def step_wait(self):
            rews = np.zeros((self.num_envs,), dtype=np.float64)
            for env_idx in range(self.num_envs):
                obs, rews[env_idx], terminated, truncated, self.buf_infos[env_idx] = self.envs[env_idx].step(
                    self.actions[env_idx])
                self.buf_dones[env_idx] = terminated or truncated
                self.buf_infos[env_idx]["TimeLimit.truncated"] = truncated and not terminated
                if self.buf_dones[env_idx]:
                    self.buf_infos[env_idx]["terminal_observation"] = obs
                    obs, self.reset_infos[env_idx] = self.envs[env_idx].reset()
                self._save_obs(env_idx, obs)
            return (self._obs_from_buf(), rews, np.copy(self.buf_dones), deepcopy(self.buf_infos))

    return F64DummyVecEnv(fns)


def make_no_terminal(venv):
    """a vectorised environment that auto-resets but does NOT report `terminal_observation` (gym3 / procgen style):
    a pass-through layer right above the base VecEnv that removes the key from every info dictionary"""
    from stable_baselines3.common.vec_env.base_vec_env import VecEnvWrapper

    class NoTerminalVecEnv(VecEnvWrapper):
        def reset(self):
            return self.venv.reset()

        def step_wait(self):
            obs, rews, dones, infos = self.venv.step_wait()
            infos = [{k: v for k, v in info.items() if k != "terminal_observation"} for info in infos]
            return obs, rews, dones, infos

    return NoTerminalVecEnv(venv)


def base_of(case):
    return case.get("base") or ("subproc" if case.get("subproc") else "dummy")


def rew_code(case, r):
    """rewards cross to the model as opaque integers (the model only passes them through / adds them up)"""
    if base_of(case) == "dummy":
        return int(round(r * 4))
    return F64_REWARDS.index(r) if r in F64_REWARDS else -1


class WEnvFn:
    def __init__(self, **kw):
        self.kw = kw

    def __call__(self):
        return WEnv(**self.kw)


# ------------------------------------------------------------------------------------------------
# space descriptors used by the generator and by the reference: {"dict": bool, "subs": {key: (shape, dtype, lo, hi)}}
def desc_of_space(sp):
    if isinstance(sp, spaces.Dict):
        return {"dict": True, "subs": {k: (tuple(b.shape), str(b.dtype), b.low.copy(), b.high.copy())
                                       for k, b in sp.spaces.items()}}
    return {"dict": False, "subs": {"": (tuple(sp.shape), str(sp.dtype), sp.low.copy(), sp.high.copy())}}


def is_image(sub):
    shape, dtype, lo, hi = sub
    return len(shape) == 3 and dtype == "uint8" and bool(np.all(lo == 0)) and bool(np.all(hi == 255))


def chan_first_heuristic(shape):
    return int(np.argmin(shape)) == 0


def stack_first(sub, order):
    if order in (None, "auto"):
        return is_image(sub) and chan_first_heuristic(sub[0])
    return order == "first"


def order_for(w, key):
    o = w["order"]
    if isinstance(o, list):
        return dict((k, v) for k, v in o)[key]
    return o


def ref_space(desc, w):
    """declared space after wrapper w according to the specification (bounds of a stack: the frames' bounds tiled)"""
    kind = w["w"]
    if kind == "frameStack":
        subs = {}
        for k, sub in desc["subs"].items():
            shape, dtype, lo, hi = sub
            ax = 0 if stack_first(sub, order_for(w, k)) else -1
            subs[k] = (np.concatenate([lo] * w["n"], axis=ax).shape, dtype, np.concatenate([lo] * w["n"], axis=ax),
                       np.concatenate([hi] * w["n"], axis=ax))
        return {"dict": desc["dict"], "subs": subs}
    if kind == "transpose":
        if w["skip"]:
            return desc
        subs = {}
        for k, sub in desc["subs"].items():
            if is_image(sub):
                shape, dtype, lo, hi = sub
                subs[k] = ((shape[2], shape[0], shape[1]), dtype, np.transpose(lo, (2, 0, 1)), np.transpose(hi, (2, 0, 1)))
            else:
                subs[k] = sub
        return {"dict": desc["dict"], "subs": subs}
    if kind == "extract":
        return {"dict": False, "subs": {"": desc["subs"][w["key"]]}}
    return desc


def allowed_wrappers(desc):
    out = [("frameStack", 5), ("monitor", 2), ("checkNan", 2)]
    imgs = [sub for sub in desc["subs"].values() if is_image(sub)]
    if desc["dict"] or (imgs and len(imgs) == len(desc["subs"])):
        out.append(("transpose_skip", 1))
        if not any(chan_first_heuristic(s[0]) for s in imgs):
            out.append(("transpose", 4))
    if desc["dict"]:
        out.append(("extract", 3))
    return out


def gen_wrapper(rng, desc, widen):
    kind = rng.weighted(allowed_wrappers(desc))
    if kind == "frameStack":
        n = rng.weighted([(1, 1), (2, 3), (3, 3), (4, 2), (5, 1)] + ([(7, 2)] if widen else []))
        if desc["dict"] and rng.chance(0.5):
            order = [[k, rng.choice(["auto", "first", "last"])] for k in desc["subs"]]
            # the mapping is handed over in an arbitrary insertion order (gymnasium's Dict space sorts its keys; a user's
            # mapping need not be written in that order) — seeded change C17-g
            rng.shuffle(order)
        else:
            order = rng.weighted([("auto", 3), ("first", 1), ("last", 1)])
        return {"w": "frameStack", "n": n, "order": order}
    if kind == "transpose":
        return {"w": "transpose", "skip": False}
    if kind == "transpose_skip":
        return {"w": "transpose", "skip": True}
    if kind == "extract":
        return {"w": "extract", "key": rng.choice(sorted(desc["subs"].keys()))}
    return {"w": kind}


# base kinds on which the implementation is known to leave its declared space (K-C17-b: zero padding outside bounds that
# exclude 0); their number per chunk is capped so that the report's bounded violation list can never be filled up by
# known findings alone. (K-C17-a — bounds built with np.repeat — was fixed by e25cae6: "vec_nu"/"mat_nu0" are ordinary
# kinds now, and a reappearance is diagnosed as cause=bounds_repeat_vs_tile, which no known finding matches.)
FINDING_KINDS = ("pos",)
MAX_FINDING_CASES = 12


def gen_case(rng, widen=False, thorough=False, no_finding_kinds=False):
    kind = rng.weighted([kw for kw in BASE_KINDS if not (no_finding_kinds and kw[0] in FINDING_KINDS)])
    n_envs = rng.weighted([(1, 3), (2, 3), (3, 2)] + ([(4, 1)] if widen else []))
    desc = desc_of_space(space_of(kind))
    ws = []
    for _ in range(rng.weighted([(0, 1), (1, 5), (2, 7), (3, 5), (4, 3)])):
        w = gen_wrapper(rng, desc, widen)
        ws.append(w)
        desc = ref_space(desc, w)
    n_steps = rng.randint(3, 22 if widen else 12)
    scripts = [gen_script(rng, length=n_steps) for _ in range(n_envs)]
    ops = ["reset"]
    for _ in range(n_steps):
        if rng.chance(0.06):
            ops.append("reset")
        ops.append("step")
    case = {"kind": kind, "n_envs": n_envs, "wrappers": ws, "scripts": scripts, "ops": ops}
    # a base VecEnv that auto-resets without reporting terminal_observation (the wrappers must still start the next
    # episode from an empty window and must not invent the key), and sub-environments that reuse ONE info dict object
    # (keys written by the library — terminal_observation, TimeLimit.truncated — then survive into later steps)
    if rng.chance(0.2):
        case["no_terminal"] = True
    if rng.chance(0.12):
        case["info_reuse"] = True
    base = rng.weighted([("dummy", 80), ("f64", 19), ("subproc", 4 if thorough else 1)])
    if base != "dummy":
        case["base"] = base
        for sc in scripts:
            for st in sc:
                st[0] = rng.choice(F64_REWARDS)
    return case


def gen_cases(ctx):
    rng = ctx.rng
    cases = []
    n_finding = 0
    for _ in range(ctx.budget(1000, 24000)):
        c = gen_case(rng, ctx.widen, ctx.thorough, no_finding_kinds=n_finding >= MAX_FINDING_CASES)
        n_finding += c["kind"] in FINDING_KINDS
        cases.append(c)
    for _ in range(ctx.budget(40, 600)):
        kind = rng.choice([k for k in KINDS])
        n = rng.randint(1, 5)
        cases.append({"spec": True, "kind": kind, "first": rng.chance(0.5), "n": n,
                      "frames": [[rng.randint(0, 3), rng.randint(0, 40), rng.randint(0, 40)]
                                 for _ in range(rng.randint(0, 2 * n + 1))]})
    return cases


def shrink_candidates(case):
    if case.get("spec"):
        if case["frames"]:
            c = dict(case)
            c["frames"] = case["frames"][:-1]
            yield c
        return
    ops = case["ops"]
    if len(ops) > 2:
        c = dict(case)
        c["ops"] = ops[:-1]
        yield c
    for flag in ("info_reuse", "no_terminal"):
        if case.get(flag):
            c = dict(case)
            c.pop(flag)
            yield c
    if base_of(case) == "subproc":
        c = dict(case)
        c.pop("subproc", None)
        c["base"] = "f64"
        yield c
    if case["n_envs"] > 1:
        c = dict(case)
        c["n_envs"] = case["n_envs"] - 1
        c["scripts"] = case["scripts"][:-1]
        yield c
        c = dict(case)
        c["n_envs"] = case["n_envs"] - 1
        c["scripts"] = case["scripts"][1:]
        yield c
    ws = case["wrappers"]
    # drop a wrapper if the rest is still type-correct
    for i in range(len(ws)):
        rest = ws[:i] + ws[i + 1:]
        if stack_ok(case["kind"], rest):
            c = dict(case)
            c["wrappers"] = rest
            yield c
    for i, w in enumerate(ws):
        if w["w"] == "frameStack" and w["n"] > 2:
            c = dict(case)
            c["wrappers"] = ws[:i] + [dict(w, n=w["n"] - 1)] + ws[i + 1:]
            yield c
        if w["w"] == "frameStack" and isinstance(w["order"], list):
            c = dict(case)
            c["wrappers"] = ws[:i] + [dict(w, order="auto")] + ws[i + 1:]
            if stack_ok(case["kind"], c["wrappers"]):
                yield c
    # a resets in the middle are rarely needed
    for i in range(1, len(ops)):
        if ops[i] == "reset":
            c = dict(case)
            c["ops"] = ops[:i] + ops[i + 1:]
            yield c
            break


def stack_ok(kind, ws):
    desc = desc_of_space(space_of(kind))
    for w in ws:
        names = [a for a, _ in allowed_wrappers(desc)]
        need = {"transpose": "transpose_skip" if w.get("skip") else "transpose"}.get(w["w"], w["w"])
        if need not in names:
            return False
        if w["w"] == "extract" and w["key"] not in desc["subs"]:
            return False
        if w["w"] == "frameStack" and isinstance(w["order"], list) and (
                not desc["dict"] or sorted(k for k, _ in w["order"]) != sorted(desc["subs"])):
            return False
        desc = ref_space(desc, w)
    return True


# ------------------------------------------------------------------------------------------------
# specification-level reference (per wrapper; per environment; observations are {key: ndarray}, Box = key "")
class RefFrameStack:
    def __init__(self, desc, w, n_envs):
        self.n = w["n"]
        self.axis = {k: (0 if stack_first(sub, order_for(w, k)) else -1) for k, sub in desc["subs"].items()}
        self.zero = {k: np.zeros(sub[0], dtype=sub[1]) for k, sub in desc["subs"].items()}
        self.ep = [[] for _ in range(n_envs)]  # frames of the current episode, oldest first

    def stack(self, frames):
        out = {}
        for k in self.zero:
            last = [f[k] for f in frames[-self.n:]]
            pad = [self.zero[k]] * (self.n - len(last))
            out[k] = np.concatenate(pad + last, axis=self.axis[k])
        return out

    def reset(self, i, obs):
        self.ep[i] = [obs]
        return self.stack(self.ep[i])

    def step(self, i, r):
        r = dict(r)
        if r["done"]:
            if r["term"] is not None:
                r["term"] = self.stack(self.ep[i] + [r["term"]])
            self.ep[i] = [r["obs"]]
        else:
            self.ep[i] = self.ep[i] + [r["obs"]]
        r["obs"] = self.stack(self.ep[i])
        return r


class RefMap:
    """wrappers that apply one function to observations and to terminal observations"""

    def __init__(self, fn):
        self.fn = fn

    def reset(self, i, obs):
        return self.fn(obs)

    def step(self, i, r):
        r = dict(r)
        r["obs"] = self.fn(r["obs"])
        if r["term"] is not None:
            r["term"] = self.fn(r["term"])
        return r


class RefMonitor:
    def __init__(self, n_envs):
        self.ret = [0.0] * n_envs
        self.len = [0] * n_envs

    def reset(self, i, obs):
        self.ret[i], self.len[i] = 0.0, 0
        return obs

    def step(self, i, r):
        r = dict(r)
        # `self.episode_returns += rewards` on a float32 array: the sum is rounded to float32 at every step
        self.ret[i] = float(np.float32(self.ret[i] + r["rew"]))
        self.len[i] += 1
        if r["done"]:
            r["episode"] = (self.ret[i], self.len[i])
            self.ret[i], self.len[i] = 0.0, 0
        return r


def make_ref(desc, w, n_envs):
    kind = w["w"]
    if kind == "frameStack":
        return RefFrameStack(desc, w, n_envs)
    if kind == "transpose":
        keys = [] if w["skip"] else [k for k, sub in desc["subs"].items() if is_image(sub)]
        return RefMap(lambda o, keys=keys: {k: (np.transpose(v, (2, 0, 1)) if k in keys else v) for k, v in o.items()})
    if kind == "extract":
        return RefMap(lambda o, key=w["key"]: {"": o[key]})
    if kind == "monitor":
        return RefMonitor(n_envs)
    return RefMap(lambda o: o)


# ------------------------------------------------------------------------------------------------
def split_obs(obs, n_envs):
    """batched VecEnv observation -> per environment {key: ndarray} (copies)"""
    if isinstance(obs, dict):
        return [{k: np.array(v[i]) for k, v in obs.items()} for i in range(n_envs)]
    return [{"": np.array(obs[i])} for i in range(n_envs)]


def one_obs(o):
    if isinstance(o, dict):
        return {k: np.array(v) for k, v in o.items()}
    return {"": np.array(o)}


def ints(a):
    flat = np.asarray(a).reshape(-1)
    out = [int(x) for x in flat.tolist()]
    if not all(float(x) == float(y) for x, y in zip(flat.tolist(), out)):
        raise ValueError("non-integer value in an exact stream")
    return out


def obs_j(o):
    return [[k, list(o[k].shape), ints(o[k])] for k in sorted(o)]


def space_j(sp):
    d = desc_of_space(sp)
    return {"dict": d["dict"],
            "subs": [[k, list(s[0]), ints(s[2]), ints(s[3]), s[1]] for k, s in sorted(d["subs"].items())]}


def same_obs(a, b):
    """exact equality of {key: ndarray}: keys, shapes, dtypes, values"""
    if sorted(a) != sorted(b):
        return False
    return all(a[k].shape == b[k].shape and a[k].dtype == b[k].dtype and np.array_equal(a[k], b[k]) for k in a)


def space_contains(space, o):
    """observation_space.contains on a per-environment {key: ndarray}; a structure mismatch is 'not contained'"""
    try:
        if isinstance(space, spaces.Dict):
            return bool(space.contains(o))
        if list(o.keys()) != [""]:
            return False
        return bool(space.contains(o[""]))
    except Exception:
        return False


def install_spy(base, n_envs):
    """record (copies of) what the base VecEnv hands to the first wrapper"""
    rec = {"reset": [], "step": []}
    orig_reset, orig_step_wait = base.reset, base.step_wait

    def reset():
        obs = orig_reset()
        rec["reset"].append(split_obs(copy.deepcopy(obs), n_envs))
        return obs

    def step_wait():
        obs, rews, dones, infos = orig_step_wait()
        rs = []
        so = split_obs(copy.deepcopy(obs), n_envs)
        for i in range(n_envs):
            info = infos[i]
            rs.append({
                "obs": so[i], "rew": float(rews[i]), "done": bool(dones[i]),
                "term": one_obs(copy.deepcopy(info["terminal_observation"])) if "terminal_observation" in info else None,
                "trunc": bool(info.get("TimeLimit.truncated", False)), "payload": int(info.get("tag", -1)),
                "episode": None, "rew_dtype": str(rews.dtype), "done_dtype": str(dones.dtype),
                "rest": {k: copy.deepcopy(v) for k, v in info.items() if k != "terminal_observation"},
            })
        rec["step"].append(rs)
        return obs, rews, dones, infos

    base.reset = reset
    base.step_wait = step_wait
    return rec


def make_wrapper(w, venv):
    from stable_baselines3.common.vec_env import (VecCheckNan, VecExtractDictObs, VecFrameStack, VecMonitor,
                                                  VecTransposeImage)

    kind = w["w"]
    if kind == "frameStack":
        o = w["order"]
        if isinstance(o, list):
            order = {k: (None if v == "auto" else v) for k, v in o}
        else:
            order = None if o == "auto" else o
        return VecFrameStack(venv, w["n"], channels_order=order)
    if kind == "transpose":
        return VecTransposeImage(venv, skip=w["skip"])
    if kind == "extract":
        return VecExtractDictObs(venv, w["key"])
    if kind == "monitor":
        return VecMonitor(venv)
    if kind == "checkNan":
        return VecCheckNan(venv, raise_exception=True)
    raise ValueError(kind)


def run_impl(case):
    """runs the real wrapper stack; returns the spy record, the declared space and every output (canonical copies)"""
    from stable_baselines3.common.vec_env import DummyVecEnv, SubprocVecEnv

    n = case["n_envs"]
    fns = [WEnvFn(env_id=i, kind=case["kind"], script=case["scripts"][i],
                  info_mode="reuse" if case.get("info_reuse") else "fresh") for i in range(n)]
    with warnings.catch_warnings():
        warnings.simplefilter("ignore")
        kind_of_base = base_of(case)
        base = (SubprocVecEnv(fns, start_method="fork") if kind_of_base == "subproc"
                else make_f64_vecenv(fns) if kind_of_base == "f64" else DummyVecEnv(fns))
        if case.get("no_terminal"):
            base = make_no_terminal(base)
        try:
            spy = install_spy(base, n)
            base_space = base.observation_space
            venv = base
            for w in case["wrappers"]:
                venv = make_wrapper(w, venv)
            outs = []
            for op in case["ops"]:
                if op == "reset":
                    obs = venv.reset()
                    outs.append({"op": "reset", "obs": split_obs(obs, n), "space_in": [
                        space_contains(venv.observation_space, o) for o in split_obs(obs, n)]})
                else:
                    obs, rews, dones, infos = venv.step(np.zeros(n, dtype=np.int64))
                    so = split_obs(obs, n)
                    rs = []
                    for i in range(n):
                        info = infos[i]
                        ep = info.get("episode")
                        term = one_obs(info["terminal_observation"]) if "terminal_observation" in info else None
                        rs.append({
                            "obs": so[i], "rew": float(rews[i]), "done": bool(dones[i]), "term": term,
                            "trunc": info.get("TimeLimit.truncated", None), "payload": int(info.get("tag", -1)),
                            "episode": None if ep is None else (float(ep["r"]), int(ep["l"])),
                            "obs_in": space_contains(venv.observation_space, so[i]),
                            "term_in": None if term is None else space_contains(venv.observation_space, term),
                            "rew_dtype": str(rews.dtype), "done_dtype": str(dones.dtype),
                            "rest": {k: v for k, v in info.items() if k not in ("terminal_observation", "episode")},
                        })
                    outs.append({"op": "step", "recs": rs})
            for o in [o for os_ in spy["reset"] for o in os_] + [x for rs in spy["step"] for r in rs
                                                                 for x in (r["obs"], r["term"]) if x is not None]:
                if not space_contains(base_space, o):
                    raise InfraError(f"harness bug: scripted observation outside the base space ({case['kind']})")
            return {"spy": spy, "space": venv.observation_space, "outs": outs}
        finally:
            base.close()


def model_ops(case, impl):
    """the operations the Lean model runs: the same constructor arguments and the recorded base outputs"""
    ops = [{"op": "new", "n_envs": case["n_envs"], "space": space_j(space_of(case["kind"])),
            "wrappers": case["wrappers"]}]
    ri = si = 0
    for op in case["ops"]:
        if op == "reset":
            ops.append({"op": "reset", "obs": [obs_j(o) for o in impl["spy"]["reset"][ri]]})
            ri += 1
        else:
            ops.append({"op": "step", "recs": [
                {"obs": obs_j(r["obs"]), "rew": rew_code(case, r["rew"]), "done": r["done"],
                 "term": None if r["term"] is None else obs_j(r["term"]), "trunc": r["trunc"], "payload": r["payload"]}
                for r in impl["spy"]["step"][si]]})
            si += 1
    return ops


def diagnose_not_in_space(case, declared, ref_desc, o):
    """why is a returned observation outside the declared space? (makes the violation signature specific)"""
    kind = case["kind"]
    isd = isinstance(declared, spaces.Dict)
    for k in sorted(o):
        box = declared.spaces[k] if isd else declared
        a = o[k]
        if a.shape != box.shape:
            return "shape"
        if not np.can_cast(a.dtype, box.dtype):
            return "dtype"
        bad = (a < box.low) | (a > box.high)
        if not bad.any():
            continue
        shape, dtype, lo, hi = ref_desc["subs"][k]
        in_tiled = a.shape == tuple(shape) and bool(np.all((a >= lo) & (a <= hi)))
        if kind in ("vec_nu", "mat_nu0") and in_tiled:
            return "bounds_repeat_vs_tile"
        if kind == "pos" and bool(np.all(a[bad] == 0)):
            return "zero_padding_outside_bounds"
        if kind in ("vec_nu", "mat_nu0") and bool(np.all(a[bad & ~((a >= lo) & (a <= hi))] == 0)):
            # the only entries outside the (tiled) frame bounds are padding zeros of a space that excludes 0 there
            return "bounds_repeat_vs_tile+zero_padding"
        return "bounds"
    return "unknown"


def oracle(ctx, case, impl):
    """the property, evaluated on the implementation's outputs against the specification-level reference"""
    rep = ctx.report
    n = case["n_envs"]
    ws = case["wrappers"]
    sig0 = {"wrappers": [w["w"] for w in ws]}
    desc = desc_of_space(space_of(case["kind"]))
    refs = []
    for w in ws:
        refs.append(make_ref(desc, w, n))
        desc = ref_space(desc, w)
    declared = impl["space"]
    dd = desc_of_space(declared)
    # declared space: same structure / shapes / dtypes as the specification says
    if dd["dict"] != desc["dict"] or sorted(dd["subs"]) != sorted(desc["subs"]) or any(
            tuple(dd["subs"][k][0]) != tuple(desc["subs"][k][0]) or dd["subs"][k][1] != desc["subs"][k][1]
            for k in desc["subs"]):
        rep.violation("declared observation space has the wrong structure, shape or dtype", case,
                      dict(sig0, kind="space_shape"),
                      {"declared": str(declared), "expected": {k: (v[0], v[1]) for k, v in desc["subs"].items()}})
        return
    ri = si = 0
    has_monitor = any(w["w"] == "monitor" for w in ws)
    fs_depths = [w["n"] for w in ws if w["w"] == "frameStack"]
    ep_len = [0] * n
    short = False
    space_reported = False
    for t, (op, out) in enumerate(zip(case["ops"], impl["outs"])):
        if op == "reset":
            base = impl["spy"]["reset"][ri]
            ri += 1
            ep_len = [0] * n
            for i in range(n):
                exp = base[i]
                for ref in refs:
                    exp = ref.reset(i, exp)
                if not same_obs(out["obs"][i], exp):
                    rep.violation("reset() observation differs from the specification", case,
                                  dict(sig0, kind="reset_obs"), {"op": t, "env": i, "impl": obs_j_safe(out["obs"][i]),
                                                                 "expected": obs_j_safe(exp)})
                    return
                if not out["space_in"][i] and not space_reported:
                    # reported once per case; the remaining checks of the case still run
                    space_reported = True
                    rep.violation("reset() observation is not in the declared observation space", case,
                                  dict(sig0, kind="not_in_space",
                                       cause=diagnose_not_in_space(case, declared, desc, out["obs"][i]), base=case["kind"]),
                                  {"op": t, "env": i, "obs": obs_j_safe(out["obs"][i]), "space": str(declared)})
            continue
        base = impl["spy"]["step"][si]
        si += 1
        for i in range(n):
            b = base[i]
            exp = dict(b)
            for ref in refs:
                exp = ref.step(i, exp)
            got = out["recs"][i]
            where = {"op": t, "env": i}
            ep_len[i] += 1
            if b["done"]:
                if len(ws) >= 2 and any(d >= 2 and ep_len[i] + 1 <= d for d in fs_depths):
                    short = True
                ep_len[i] = 0
            if got["rew"] != b["rew"] or got["rew_dtype"] != b["rew_dtype"]:
                rep.violation("reward changed by the wrapper stack (value or dtype)", case, dict(sig0, kind="reward"),
                              dict(where, impl=got["rew"], base=b["rew"], impl_dtype=got["rew_dtype"],
                                   base_dtype=b["rew_dtype"], vecenv=base_of(case)))
                return
            if got["done"] != b["done"] or got["done_dtype"] != b["done_dtype"]:
                rep.violation("done flag changed by the wrapper stack", case, dict(sig0, kind="done"), where)
                return
            if got["trunc"] is None or bool(got["trunc"]) != b["trunc"]:
                rep.violation("TimeLimit.truncated changed by the wrapper stack", case, dict(sig0, kind="truncated"),
                              dict(where, impl=got["trunc"], base=b["trunc"]))
                return
            if got["payload"] != b["payload"] or got["rest"] != b["rest"]:
                rep.violation("other info entries changed by the wrapper stack", case, dict(sig0, kind="info"),
                              dict(where, impl=str(got["rest"]), base=str(b["rest"])))
                return
            if not same_obs(got["obs"], exp["obs"]):
                rep.violation("step() observation differs from the specification (latest frames of the current episode, "
                              "zero padded / transposed / projected)", case, dict(sig0, kind="obs"),
                              dict(where, impl=obs_j_safe(got["obs"]), expected=obs_j_safe(exp["obs"])))
                return
            if (got["term"] is None) != (exp["term"] is None):
                rep.violation("terminal_observation present/absent differs from the base VecEnv", case,
                              dict(sig0, kind="terminal_presence"), where)
                return
            # a terminal_observation on a step that does not end the episode can only be a stale entry of a reused
            # info dict: it is passed along (presence checked above, exact values by the model correspondence)
            if b["done"] and got["term"] is not None and not same_obs(got["term"], exp["term"]):
                rep.violation("terminal_observation did not get the transformation given to ordinary observations", case,
                              dict(sig0, kind="terminal"),
                              dict(where, impl=obs_j_safe(got["term"]), expected=obs_j_safe(exp["term"])))
                return
            if not got["obs_in"] and not space_reported:
                space_reported = True
                rep.violation("step() observation is not in the declared observation space", case,
                              dict(sig0, kind="not_in_space", cause=diagnose_not_in_space(case, declared, desc, got["obs"]),
                                   base=case["kind"]),
                              dict(where, obs=obs_j_safe(got["obs"]), space=str(declared)))
            if b["done"] and got["term"] is not None and not got["term_in"] and not space_reported:
                space_reported = True
                rep.violation("terminal_observation is not in the declared observation space", case,
                              dict(sig0, kind="not_in_space", cause=diagnose_not_in_space(case, declared, desc, got["term"]),
                                   base=case["kind"]),
                              dict(where, obs=obs_j_safe(got["term"]), space=str(declared)))
            if has_monitor:
                e_exp = exp.get("episode")
                if (got["episode"] is None) != (e_exp is None) or (
                        e_exp is not None and (got["episode"][0] != e_exp[0] or got["episode"][1] != e_exp[1])):
                    rep.violation("VecMonitor episode entry differs from the episode's return/length", case,
                                  dict(sig0, kind="episode"), dict(where, impl=got["episode"], expected=e_exp))
                    return
            elif got["episode"] is not None:
                rep.violation("episode entry without a monitor", case, dict(sig0, kind="episode"), where)
                return
    return short


def obs_j_safe(o):
    try:
        return obs_j(o)
    except Exception:
        return {k: np.asarray(v).tolist() for k, v in o.items()}


def compare_model(ctx, case, impl, mouts):
    rep = ctx.report
    m0 = mouts[0]
    if "error" in m0:
        rep.disagree("space", case, space_j(impl["space"]), m0)
        return
    if m0["space"] != space_j(impl["space"]):
        rep.disagree("space", case, space_j(impl["space"]), m0["space"])
        return
    rep.agree()
    for t, (op, out, mo) in enumerate(zip(case["ops"], impl["outs"], mouts[1:])):
        if "error" in mo:
            rep.disagree(op, case, "ok", mo, note=f"op {t}")
            return
        if op == "reset":
            got = [obs_j(o) for o in out["obs"]]
            if got != mo["obs"]:
                rep.disagree("reset", case, got, mo["obs"], note=f"op {t}")
                return
        else:
            got = []
            exact_sum = base_of(case) == "dummy"   # float64 bases: the model's integer reward codes are opaque,
            for r in out["recs"]:                  # VecMonitor's float32 sum is checked by the oracle's reference
                got.append({"obs": obs_j(r["obs"]), "rew": rew_code(case, r["rew"]), "done": r["done"],
                            "term": None if r["term"] is None else obs_j(r["term"]), "trunc": bool(r["trunc"]),
                            "episode": None if r["episode"] is None else [
                                int(round(r["episode"][0] * 4)) if exact_sum else None, r["episode"][1]],
                            "payload": r["payload"]})
            if not exact_sum:
                for m in mo["recs"]:
                    if m.get("episode") is not None:
                        m["episode"] = [None, m["episode"][1]]
            if got != mo["recs"]:
                bad = next(i for i in range(len(got)) if got[i] != mo["recs"][i])
                rep.disagree("step", case, got[bad], mo["recs"][bad], note=f"op {t} env {bad}")
                return
        rep.agree()


def run_spec(case):
    shape, dtype, _, _ = KINDS[case["kind"]]
    frames = [enc(case["kind"], e, ep, st) for e, ep, st in case["frames"]]
    n = case["n"]
    last = frames[-n:]
    pad = [np.zeros(shape, dtype=dtype)] * (n - len(last))
    exp = np.concatenate(pad + last, axis=0 if case["first"] else -1)
    op = {"op": "stackOf", "first": case["first"], "n": n, "shape": list(shape),
          "ep": [[list(f.shape), ints(f)] for f in frames]}
    return exp, op


def check_cases(ctx, cases):
    rep = ctx.report
    ops, plan = [], []
    for case in cases:
        if case.get("spec"):
            rep.count("kind:spec_stackOf")
            rep.case(case, None)
            exp, op = run_spec(case)
            plan.append(("spec", case, exp, len(ops), 1))
            ops.append(op)
            continue
        ws = case["wrappers"]
        rep.count(f"base:{case['kind']}")
        rep.count(f"n_envs={case['n_envs']}")
        rep.count(f"stack_len={len(ws)}")
        rep.count("vecenv:" + base_of(case))
        if case.get("no_terminal"):
            rep.count("base_without_terminal_observation")
        if case.get("info_reuse"):
            rep.count("sub_envs_reuse_info_dict")
        for w in ws:
            rep.count("w:" + w["w"] + ("(skip)" if w.get("skip") else ""))
            if w["w"] == "frameStack":
                rep.count(f"n_stack={w['n']}")
                rep.count("order:" + ("per-key" if isinstance(w["order"], list) else w["order"]))
        impl = guarded(ctx, case, lambda: run_impl(case))
        if impl is None:
            rep.case(case, None)
            continue
        short = oracle(ctx, case, impl)
        n_done = sum(1 for o in impl["spy"]["step"] for r in o if r["done"])
        rep.count("episode_ends", n_done)
        rep.count("mid_episode_resets", sum(1 for o in case["ops"][1:] if o == "reset"))
        if short:
            rep.count("short_episode_under_2+_wrappers")
        rep.case(case, case if short else None,
                 sample={"kind": case["kind"], "n_envs": case["n_envs"], "wrappers": ws, "ops": case["ops"]})
        try:
            o = model_ops(case, impl)
        except ValueError as e:
            rep.note(f"case not sent to the model: {e}")
            continue
        # model's Space.contains on the last returned observation of env 0 vs gymnasium's
        last = impl["outs"][-1]
        lo = last["obs"][0] if last["op"] == "reset" else last["recs"][0]["obs"]
        lin = last["space_in"][0] if last["op"] == "reset" else last["recs"][0]["obs_in"]
        o.append({"op": "contains", "space": space_j(impl["space"]), "obs": obs_j(lo)})
        plan.append(("case", case, (impl, lin), len(ops), len(o)))
        ops.extend(o)
    outs = ctx.lean.run(ops)
    for kind, case, x, i, k in plan:
        mo = outs[i:i + k]
        if mo[0] is None:
            continue
        if kind == "spec":
            got = [list(x.shape), ints(x)]
            if "error" in mo[0] or mo[0]["arr"] != got:
                rep.disagree("spec_stackOf", case, got, mo[0])
            else:
                rep.agree()
        else:
            impl, lin = x
            compare_model(ctx, case, impl, mo[:-1])
            if "error" in mo[-1] or mo[-1]["in"] != lin:
                rep.disagree("contains", case, lin, mo[-1])
            else:
                rep.agree()
